/* drv_c20 - C20: concurrent sessions sharing keys and caches are race-free and serializable.
 *
 * Real pthreads run under a cooperative scheduler (lib_raw_sched.c): one thread at a time,
 * scheduling points before every psLockMutex, at thread start and end.  The explorer
 * enumerates EVERY schedule with at most k preemptions (iterative context bounding), each
 * in a fresh forked process.  Oracle: no deadlock, no crash, and the per-thread outcomes of
 * every schedule equal the outcomes of some execution without preemptions (the sequential
 * orders, which are explored first).  Built a second time with ThreadSanitizer (scheduler
 * TU uninstrumented), the same exploration also race-checks every explored schedule. */
#include "mxv.h"
#include "wire.h"
#include "sched.h"
#include "c09_seeds.h"
#include "testkeys/RSA/2048_RSA_CA.h"
#include <pthread.h>
#include <unistd.h>
#include <errno.h>
#include <signal.h>
#include <fcntl.h>
#include <sys/mman.h>
#include <sys/wait.h>

static int thorough;
static int is_tsan;

enum { B_FULL = 0, B_RESUME_A, B_RESUME_B, B_RESUME_A2, B_ROTATE, B_RESUME_A_NOEMS, B_RESUME_UNKNOWN, B_FULL_P384, B_DELKEY, B_CRL_FLUSH, B_OCSP_RELOAD, B_CRL_AUTH, B_NBODY };
static const char *bname[] = { "full", "resume(A)", "resume(B)", "resume(A,2nd client)", "rotate-ticket-keys", "resume(A, extended master secret off)", "resume(unknown id)", "full(client enables only secp384r1)", "delete-the-only-ticket-key", "insert-a-crl-then-remove-all", "load-a-new-OCSP-response", "authenticate-the-cached-CRL" };

typedef struct { const char *name; int ver, kx; uint16_t suite; int tickets; int prefill; int nthreads; int body[SR_MAXT]; int maxbound_tsan, maxbound; int cb; } scen_t;
static const scen_t scens[] = {
    { "id-resume-x2-same-session", V_TLS12, KX_PSK, 0, 0, 0, 2, { B_RESUME_A, B_RESUME_A2 }, 2, 3 },
    { "id-resume-vs-full-vs-resume", V_TLS12, KX_PSK, 0, 0, 0, 3, { B_RESUME_A, B_FULL, B_RESUME_B }, 1, 2 },
    { "eviction-full-full-resume", V_TLS12, KX_PSK, 0, 0, 29, 3, { B_FULL, B_FULL, B_RESUME_A }, 1, 2 },
    { "ticket-resume-vs-rotate-vs-full", V_TLS12, KX_RSA, 0, 1, 0, 3, { B_RESUME_A, B_ROTATE, B_FULL }, 1, 2 },
    { "tls13-psk-resume-vs-rotate", V_TLS13, KX_13_RSA, 0, 1, 0, 2, { B_RESUME_A, B_ROTATE }, 1, 2 },
    { "ecdhe-ephemeral-cache-x2", V_TLS12, KX_ECDHE_RSA, TLS_ECDHE_RSA_WITH_AES_128_GCM_SHA256, 0, 0, 2, { B_FULL, B_FULL }, 1, 2 },
    /* the refusal paths of the cache lookup (every early return of the lookup holds / must release the table lock) */
    /* the ephemeral ECDHE key cache is filled (secp256r1) by the prelude: one thread hits it while another, whose client
       only enables secp384r1, forces its regeneration */
    { "ecdhe-cache-hit-vs-regeneration-for-another-curve", V_TLS12, KX_ECDHE_RSA, TLS_ECDHE_RSA_WITH_AES_128_GCM_SHA256, 0, 0, 2, { B_FULL, B_FULL_P384 }, 1, 2 },
    { "id-resume-refused-ems-mismatch-vs-full", V_TLS12, KX_PSK, 0, 0, 0, 2, { B_RESUME_A_NOEMS, B_FULL }, 1, 2 },
    { "id-resume-refused-unknown-id-vs-resume", V_TLS12, KX_PSK, 0, 0, 0, 2, { B_RESUME_UNKNOWN, B_RESUME_A }, 1, 2 },
    /* a session-ticket callback is registered: the key lookup drops g_sessTicketLock around the user callback, so a
       rotation can run between "key found" and "key used" (cb 1: the callback accepts a key the library has cached) */
    { "ticket-callback-resume-vs-rotate", V_TLS12, KX_RSA, 0, 1, 0, 2, { B_RESUME_A, B_ROTATE }, 1, 2, 1 },
    /* two sessions hold the same key in their callback windows while it is retired */
    { "ticket-callback-resume-x2-vs-rotate", V_TLS12, KX_RSA, 0, 1, 0, 3, { B_RESUME_A, B_RESUME_B, B_ROTATE }, 1, 2, 1 },
    /* the only ticket key is deleted while a full handshake that announced a NewSessionTicket is under way */
    { "ticket-full-handshake-vs-delete-the-only-key", V_TLS12, KX_RSA, 0, 1, 0, 2, { B_FULL, B_DELKEY }, 1, 2 },
    /* two threads flush the global CRL cache (the second finds it empty) */
    { "crl-cache-insert-and-remove-all-x2", V_TLS12, KX_PSK, 0, 0, 0, 2, { B_CRL_FLUSH, B_CRL_FLUSH }, 1, 2 },
    /* cb 3: the server staples an OCSP response (the client asks for it) while the application refreshes that response,
       "whenever the server application gets a new OCSP response" as the API documents */
    { "ocsp-stapling-handshake-vs-response-refresh", V_TLS12, KX_RSA, 0, 0, 0, 2, { B_FULL, B_OCSP_RELOAD }, 1, 2, 3 },
    { "ocsp-stapling-handshake-x2-vs-response-refresh", V_TLS12, KX_RSA, 0, 0, 0, 3, { B_FULL, B_FULL, B_OCSP_RELOAD }, 1, 1, 3 },
    /* cb 4: a CRL of the RSA-2048 test CA is in the global cache; two threads run the refresh step psX509AuthenticateCRL on it */
    { "crl-authenticate-cached-crl-x2", V_TLS12, KX_PSK, 0, 0, 0, 2, { B_CRL_AUTH, B_CRL_AUTH }, 1, 2, 4 },
    /* cb 2: the tickets' key has been rotated out before the threads start; the callback of each resuming session loads
       it again (what the API documents the callback for) */
    { "ticket-callback-loads-missing-key-x2", V_TLS12, KX_RSA, 0, 1, 0, 2, { B_RESUME_A, B_RESUME_B }, 1, 2, 2 },
    { "ticket-callback-loads-missing-key-vs-rotate", V_TLS12, KX_RSA, 0, 1, 0, 2, { B_RESUME_A, B_ROTATE }, 1, 2, 2 },
};
#define NSCEN ((int) (sizeof(scens) / sizeof(scens[0])))

/* ------------------------------------------------ one execution (in a child) */
static world_t base;
static sslSessionId_t *sidA, *sidA2, *sidB, *sidUnknown;
static sr_trace_t *TR;
static char thr_out[SR_MAXT][48];
static const scen_t *CUR;

static void hook_lock(void *m) { sr_before_lock(m); }
static void hook_unlock(void *m) { sr_after_unlock(m); }

static unsigned char ocsp_resp[600];
static psX509Cert_t *crl_ca;
static psX509Crl_t *crl_cached;
static void body_connect(int id, sslSessionId_t *sid)
{
    world_t w;
    int complete, resumed;
    memset(&w, 0, sizeof(w));
    w.cfg = base.cfg;
    if (CUR->body[id] == B_RESUME_A_NOEMS)
    {
        w.cfg.ems_off = 1;
    }
    if (CUR->body[id] == B_FULL_P384)
    {
        w.cfg.ec384 = 1;
    }
    if (CUR->cb == 3)
    {
        w.cfg.ocsp = 1;
    }
    w.s[1].is_server = 1;
    w.s[0].keys = base.s[0].keys;
    w.s[1].keys = base.s[1].keys;
    w.sid = sid;
    buf_init(&w.trace);
    buf_init(&w.s[0].delivered); buf_init(&w.s[1].delivered);
    buf_init(&w.s[0].submitted); buf_init(&w.s[1].submitted);
    if (world_new_sessions(&w) < 0)
    {
        snprintf(thr_out[id], sizeof(thr_out[id]), "new-session-failed");
        return;
    }
    world_pump(&w, 200);
    complete = world_is_complete(&w, 0) && world_is_complete(&w, 1);
    resumed = w.s[1].ssl && ((w.s[1].ssl->flags & SSL_FLAGS_RESUMED) || (CUR->ver == V_TLS13 && w.s[1].ssl->sec.tls13UsingPsk));
    if (complete)
    {
        world_app_send(&w, 0, (const unsigned char *) "thread-data", 11);
        world_pump(&w, 50);
    }
    snprintf(thr_out[id], sizeof(thr_out[id]), "c%dr%dd%zu", complete, resumed, w.s[1].delivered.len);
    world_close(&w, 0);
    world_pump(&w, 20);
    world_free_sessions(&w);
    buf_free(&w.trace);
    buf_free(&w.s[0].delivered); buf_free(&w.s[1].delivered);
    buf_free(&w.s[0].submitted); buf_free(&w.s[1].submitted);
}

static const unsigned char tk_name1[16] = "mxv-ticket-key-1";
static const unsigned char tk_name2[16] = "mxv-ticket-key-2";
static const unsigned char tk_name3[16] = "mxv-ticket-key-3";
static const unsigned char tk_sk1[32] = { 1, 2, 3, 4, 5, 6, 7, 8, 9, 10, 11, 12, 13, 14, 15, 16, 17, 18, 19, 20, 21, 22, 23, 24, 25, 26, 27, 28, 29, 30, 31, 32 };
static const unsigned char tk_hk1[32] = { 32, 31, 30, 29, 28, 27, 26, 25, 24, 23, 22, 21, 20, 19, 18, 17, 16, 15, 14, 13, 12, 11, 10, 9, 8, 7, 6, 5, 4, 3, 2, 1 };
static const unsigned char tk_k2[32] = { 5, 5, 5, 5, 6, 6, 6, 6, 7, 7, 7, 7, 8, 8, 8, 8, 9, 9, 9, 9, 1, 1, 1, 1, 2, 2, 2, 2, 3, 3, 3, 3 };

/* the application's ticket callback (runs with g_sessTicketLock released) */
static int32 ticket_cb_accept_cached(void *keys, unsigned char name[16], short cached)
{
    (void) keys; (void) name;
    return cached ? 0 : -1;
}
static int32 ticket_cb_load_missing(void *keys, unsigned char name[16], short cached)
{
    if (cached)
    {
        return 0;
    }
    if (memcmp(name, tk_name1, 16) == 0)
    {
        return matrixSslLoadSessionTicketKeys((sslKeys_t *) keys, tk_name1, tk_sk1, 32, tk_hk1, 32) < 0 ? -1 : 0;
    }
    return -1;
}

static void body_rotate(int id)
{
    if (CUR->cb == 2)
    {
        /* key 1 is already out (prelude): the rotation adds key 3 and retires key 2 */
        int a = matrixSslLoadSessionTicketKeys(base.s[1].keys, tk_name3, tk_k2, 32, tk_k2, 32);
        int b = matrixSslDeleteSessionTicketKey(base.s[1].keys, (unsigned char *) tk_name2);
        snprintf(thr_out[id], sizeof(thr_out[id]), "add%ddel%d", a, b);
        return;
    }
    {
    static const unsigned char name2[16] = "mxv-ticket-key-2";
    static const unsigned char name1[16] = "mxv-ticket-key-1";
    static const unsigned char k[32] = { 5, 5, 5, 5, 6, 6, 6, 6, 7, 7, 7, 7, 8, 8, 8, 8, 9, 9, 9, 9, 1, 1, 1, 1, 2, 2, 2, 2, 3, 3, 3, 3 };
    int a = matrixSslLoadSessionTicketKeys(base.s[1].keys, name2, k, 32, k, 32);
    int b = matrixSslDeleteSessionTicketKey(base.s[1].keys, (unsigned char *) name1);
    snprintf(thr_out[id], sizeof(thr_out[id]), "add%ddel%d", a, b);
    }
}

typedef struct { int id; } targ_t;
static void *thread_main(void *arg)
{
    int id = ((targ_t *) arg)->id;
    sslSessionId_t *own = NULL;
    sr_thread_begin(id);
    switch (CUR->body[id])
    {
    case B_FULL:
    case B_FULL_P384:
        matrixSslNewSessionId(&own, NULL);
        body_connect(id, own);
        matrixSslDeleteSessionId(own);
        break;
    case B_RESUME_A: body_connect(id, sidA); break;
    case B_RESUME_A2: body_connect(id, sidA2); break;
    case B_RESUME_B: body_connect(id, sidB); break;
    case B_RESUME_A_NOEMS: body_connect(id, sidA2); break;
    case B_RESUME_UNKNOWN: body_connect(id, sidUnknown); break;
    case B_ROTATE: body_rotate(id); break;
    case B_DELKEY:
    {
        int b = matrixSslDeleteSessionTicketKey(base.s[1].keys, (unsigned char *) tk_name1);
        snprintf(thr_out[id], sizeof(thr_out[id]), "del%d", b);
        break;
    }
    case B_OCSP_RELOAD:
    {
        int a;
        memset(ocsp_resp, 0x30, sizeof(ocsp_resp));
        ocsp_resp[1] = 0x82; ocsp_resp[2] = 0x02; ocsp_resp[3] = 0x54;   /* 600 bytes shaped like a SEQUENCE: another size than the first */
        a = matrixSslLoadOCSPResponse(base.s[1].keys, ocsp_resp, 600);
        snprintf(thr_out[id], sizeof(thr_out[id]), "ocsp%d", a);
        break;
    }
    case B_CRL_AUTH:
    {
        int a = psX509AuthenticateCRL(crl_ca, crl_cached, NULL);
        snprintf(thr_out[id], sizeof(thr_out[id]), "auth%d", a);   /* (the mark itself is read by the main thread after the joins) */
        break;
    }
    case B_CRL_FLUSH:
    {
        /* an (empty, unauthenticated) CRL object goes into the cache and the cache is flushed */
        psX509Crl_t *crl = psCalloc(NULL, 1, sizeof(psX509Crl_t));
        int a = crl ? psCRL_Insert(crl) : -1;
        psCRL_RemoveAll();
        if (crl)
        {
            psX509FreeCRL(crl);
        }
        snprintf(thr_out[id], sizeof(thr_out[id]), "ins%d", a < 0 ? -1 : 1);
        break;
    }
    }
    sr_thread_end();
    return NULL;
}

/* copy a session id object (the second client presenting the same session) */
static sslSessionId_t *sid_clone(sslSessionId_t *a)
{
    sslSessionId_t *b = NULL;
    matrixSslNewSessionId(&b, NULL);
    memcpy(b->id, a->id, sizeof(a->id));
    b->idLen = a->idLen;
    b->cipherId = a->cipherId;
    memcpy(b->masterSecret, a->masterSecret, sizeof(a->masterSecret));
    if (a->sessionTicket && a->sessionTicketLen)
    {
        b->sessionTicket = psMalloc(b->pool, a->sessionTicketLen);
        memcpy(b->sessionTicket, a->sessionTicket, a->sessionTicketLen);
        b->sessionTicketLen = a->sessionTicketLen;
        b->sessionTicketState = a->sessionTicketState;
        b->sessionTicketLifetimeHint = a->sessionTicketLifetimeHint;
    }
    return b;
}

static int prelude_connect(sslSessionId_t *sid)
{
    base.sid = sid;
    if (world_new_sessions(&base) < 0)
    {
        return -1;
    }
    world_pump(&base, 200);
    if (!(world_is_complete(&base, 0) && world_is_complete(&base, 1)))
    {
        return -1;
    }
    world_app_send(&base, 0, (const unsigned char *) "x", 1);
    world_pump(&base, 50);
    world_close(&base, 0);
    world_pump(&base, 20);
    world_free_sessions(&base);
    return 0;
}

static void run_execution(int si, const unsigned char *prefix, int nprefix)
{
    const scen_t *S = &scens[si];
    wcfg_t c;
    pthread_t th[SR_MAXT];
    targ_t args[SR_MAXT];
    int i;
    CUR = S;
    memset(&c, 0, sizeof(c));
    c.ver = S->ver; c.kx = S->kx; c.suite = S->suite; c.tickets = S->tickets;
    if (world_init(&base, &c) < 0)
    {
        _exit(40);
    }
    world_free_sessions(&base);
    sidA = base.sid;
    matrixSslNewSessionId(&sidB, NULL);
    /* prelude (single-threaded, unscheduled): sessions A and B exist in the cache / as tickets */
    if (prelude_connect(sidA) < 0 || prelude_connect(sidB) < 0)
    {
        _exit(41);
    }
    for (i = 0; i < S->prefill; i++)
    {
        sslSessionId_t *f = NULL;
        matrixSslNewSessionId(&f, NULL);
        if (prelude_connect(f) < 0)
        {
            _exit(42);
        }
        matrixSslDeleteSessionId(f);
    }
    if (S->cb == 1)
    {
        matrixSslSetSessionTicketCallback(base.s[1].keys, ticket_cb_accept_cached);
    }
    else if (S->cb == 4)
    {
        if (psX509ParseCert(NULL, RSA2048CA, sizeof(RSA2048CA), &crl_ca, 0) < 0
            || psX509ParseCRL(NULL, &crl_cached, (unsigned char *) c09s_crl_rsa2048_der, sizeof(c09s_crl_rsa2048_der)) < 0
            || psCRL_Insert(crl_cached) < 0)
        {
            _exit(46);
        }
    }
    else if (S->cb == 3)
    {
        static unsigned char first[300];
        memset(first, 0x30, sizeof(first));
        first[1] = 0x82; first[2] = 0x01; first[3] = 0x28;
        if (matrixSslLoadOCSPResponse(base.s[1].keys, first, sizeof(first)) < 0)
        {
            _exit(45);
        }
    }
    else if (S->cb == 2)
    {
        if (matrixSslLoadSessionTicketKeys(base.s[1].keys, tk_name2, tk_k2, 32, tk_k2, 32) < 0
            || matrixSslDeleteSessionTicketKey(base.s[1].keys, (unsigned char *) tk_name1) < 0)
        {
            _exit(44);
        }
        matrixSslSetSessionTicketCallback(base.s[1].keys, ticket_cb_load_missing);
    }
    sidA2 = sid_clone(sidA);
    sidUnknown = sid_clone(sidA);
    sidUnknown->id[5] ^= 0x5a;   /* same shape, not in the cache */
    sr_init(TR, S->nthreads, prefix, nprefix);
    env_lock_hook = hook_lock;
    env_unlock_hook = hook_unlock;
    for (i = 0; i < S->nthreads; i++)
    {
        args[i].id = i;
        if (pthread_create(&th[i], NULL, thread_main, &args[i]) != 0)
        {
            _exit(43);
        }
    }
    sr_main_start();
    sr_main_wait();
    if (TR->deadlock)
    {
        snprintf(TR->outcome, sizeof(TR->outcome), "DEADLOCK");
        TR->done = 1;
        _exit(0);
    }
    for (i = 0; i < S->nthreads; i++)
    {
        pthread_join(th[i], NULL);
    }
    env_lock_hook = NULL;
    env_unlock_hook = NULL;
    TR->outcome[0] = 0;
    if (S->cb == 4)
    {
        snprintf(TR->outcome, sizeof(TR->outcome), "mark%d ", crl_cached ? (int) crl_cached->authenticated : -1);
    }
    for (i = 0; i < S->nthreads; i++)
    {
        size_t l = strlen(TR->outcome);
        snprintf(TR->outcome + l, sizeof(TR->outcome) - l, "%sT%d:%s", (i && TR->outcome[l ? l - 1 : 0] != ' ') ? " " : "", i, thr_out[i]);
    }
    TR->done = 1;
}

/* ------------------------------------------------------------- explorer */
#define MAXPFX 96
typedef struct { unsigned char c[MAXPFX]; int n; } pfx_t;
static pfx_t *stack;
static long nstack, capstack;
static void push(const pfx_t *p)
{
    if (nstack >= capstack)
    {
        capstack = capstack ? capstack * 2 : 4096;
        stack = realloc(stack, (size_t) capstack * sizeof(pfx_t));
    }
    stack[nstack++] = *p;
}

#define MAXPAR 16
typedef struct { pid_t pid; pfx_t p; sr_trace_t *tr; char log[128]; } slot_t;
static slot_t slots[MAXPAR];
static char seq_outcomes[64][256];
static int nseq;

static int in_seq_exact(const char *o)
{
    int i;
    for (i = 0; i < nseq; i++)
    {
        if (!strcmp(seq_outcomes[i], o))
        {
            return 1;
        }
    }
    return 0;
}
/* The property quantifies over the SESSIONS' outcomes.  The rotation thread's own return codes are compared too, with
 * one documented exception: matrixSslDeleteSessionTicketKey refuses (del-1) to free a key a session is using at that
 * moment - an answer no sequential order can produce and the reason the in-use mark exists.  Such an outcome is admissible
 * iff it is a sequential outcome once the refusal is read as "deleted after the session was done with the key". */
static int in_seq(const char *o)
{
    char alt[256];
    const char *q;
    if (in_seq_exact(o))
    {
        return 1;
    }
    q = strstr(o, "del-1");
    if (q && strlen(o) < sizeof(alt) - 1)
    {
        size_t pre = (size_t) (q - o);
        memcpy(alt, o, pre);
        memcpy(alt + pre, "del0", 4);
        strcpy(alt + pre + 4, q + 5);
        return in_seq_exact(alt);
    }
    return 0;
}

static void pfx_str(const pfx_t *p, char *out, size_t n)
{
    int i;
    size_t l = 0;
    out[0] = 0;
    for (i = 0; i < p->n && l + 4 < n; i++)
    {
        l += (size_t) snprintf(out + l, n - l, "%d", p->c[i]);
    }
}

/* TSan log -> stable keys: for every data-race report the two top library frames (allocator frames skipped) */
static int tsan_keys(const char *logprefix, pid_t pid, char keys[8][200])
{
    char path[200], line[512], f1[80] = "", f2[80] = "";
    FILE *f;
    int stacks = 0, in_report = 0, nk = 0, i;
    snprintf(path, sizeof(path), "%s.%d", logprefix, (int) pid);
    f = fopen(path, "r");
    if (!f)
    {
        return 0;
    }
    while (fgets(line, sizeof(line), f))
    {
        if (strstr(line, "WARNING: ThreadSanitizer"))
        {
            in_report = strstr(line, "data race") != NULL ? 1 : 2;
            stacks = 0;
            f1[0] = f2[0] = 0;
            if (in_report == 2 && nk < 8)
            {
                snprintf(keys[nk++], 200, "tsan-other|%.60s", strstr(line, "ThreadSanitizer: ") + 17);
                keys[nk - 1][strcspn(keys[nk - 1], "(\n")] = 0;
            }
            continue;
        }
        if (in_report == 1 && strstr(line, "    #0 ") && stacks < 2)
        {
            char fn[80] = "";
            if (sscanf(strstr(line, "#0 ") + 3, "%79s", fn) == 1)
            {
                if (!strcmp(fn, "malloc") || !strcmp(fn, "free") || !strcmp(fn, "calloc") || !strcmp(fn, "realloc") || !strcmp(fn, "memcpy") || !strcmp(fn, "memset"))
                {
                    /* take the next frame instead */
                    if (fgets(line, sizeof(line), f) && strstr(line, "#1 "))
                    {
                        sscanf(strstr(line, "#1 ") + 3, "%79s", fn);
                        if (!strncmp(fn, "__wrap_", 7) && fgets(line, sizeof(line), f) && strstr(line, "#2 "))
                        {
                            sscanf(strstr(line, "#2 ") + 3, "%79s", fn);
                        }
                    }
                }
                snprintf(stacks == 0 ? f1 : f2, 80, "%s", fn);
                stacks++;
                if (stacks == 2)
                {
                    char k[200];
                    if (strcmp(f1, f2) > 0)
                    {
                        char t[80];
                        memcpy(t, f1, 80); memcpy(f1, f2, 80); memcpy(f2, t, 80);
                    }
                    snprintf(k, sizeof(k), "tsan-race|%s|%s", f1, f2);
                    for (i = 0; i < nk; i++)
                    {
                        if (!strcmp(keys[i], k)) break;
                    }
                    if (i == nk && nk < 8)
                    {
                        snprintf(keys[nk++], 200, "%s", k);
                    }
                    in_report = 0;
                }
            }
        }
    }
    fclose(f);
    unlink(path);
    return nk;
}

static void explore(int si, int bound, int pass_seq_only)
{
    const scen_t *S = &scens[si];
    int active = 0, i;
    pfx_t root;
    char logprefix[128];
    root.n = 0;
    nstack = 0;
    push(&root);
    snprintf(logprefix, sizeof(logprefix), "%s", getenv("MXV_TSAN_LOG") ? getenv("MXV_TSAN_LOG") : "build/tsan-c20");
    while (nstack > 0 || active > 0)
    {
        /* launch */
        while (nstack > 0 && active < MAXPAR && !mx_deadline_hit())
        {
            int s;
            for (s = 0; s < MAXPAR; s++)
            {
                if (slots[s].pid == 0) break;
            }
            slots[s].p = stack[--nstack];
            if (!slots[s].tr)
            {
                slots[s].tr = mmap(NULL, sizeof(sr_trace_t), PROT_READ | PROT_WRITE, MAP_SHARED | MAP_ANONYMOUS, -1, 0);
            }
            memset(slots[s].tr, 0, sizeof(sr_trace_t));
            fflush(NULL);
            slots[s].pid = fork();
            if (slots[s].pid == 0)
            {
                TR = slots[s].tr;
                alarm(60);
                run_execution(si, slots[s].p.c, slots[s].p.n);
                _exit(0);
            }
            active++;
        }
        if (active == 0)
        {
            break; /* deadline */
        }
        /* reap one */
        {
            int status = 0, s;
            pid_t pid = waitpid(-1, &status, 0);
            mx_result_t r;
            sr_trace_t *tr;
            const char *sym = NULL;
            char ps[200];
            char tkeys[8][200];
            int npre = 0, ntk = 0;
            if (pid < 0)
            {
                if (errno == EINTR) continue;
                break;
            }
            for (s = 0; s < MAXPAR; s++)
            {
                if (slots[s].pid == pid) break;
            }
            if (s == MAXPAR)
            {
                continue;
            }
            tr = slots[s].tr;
            slots[s].pid = 0;
            active--;
            memset(&r, 0, sizeof(r));
            pfx_str(&slots[s].p, ps, sizeof(ps));
            snprintf(r.desc, sizeof(r.desc), "s=%d;pfx=%s (%s, %d threads, schedule prefix %s)", si, ps[0] ? ps : "-", S->name, S->nthreads, ps[0] ? ps : "-");
            r.nontrivial = 1;
            r.transitions = (uint32_t) tr->npoints;
            r.trace_hash = fnv1a(tr->pt, sizeof(sr_point_t) * (size_t) tr->npoints, FNV0);
            r.state_hash = r.trace_hash;
            /* count preemptions of the executed schedule */
            for (i = 0; i < tr->npoints; i++)
            {
                if (tr->pt[i].running_enabled && tr->pt[i].chosen != 0) npre++;
            }
            if (is_tsan)
            {
                ntk = tsan_keys(logprefix, pid, tkeys);
            }
            if (WIFSIGNALED(status))
            {
                sym = WTERMSIG(status) == SIGALRM ? "hang" : "crash";
            }
            else if (WIFEXITED(status) && WEXITSTATUS(status) == 1)
            {
                sym = "crash";   /* exit code 1 is the sanitizer's (a fault it caught and reported); the harness's own are 40.. */
            }
            else if (WIFEXITED(status) && WEXITSTATUS(status) != 0 && WEXITSTATUS(status) != 66)
            {
                r.violation = 2;
                snprintf(r.key, sizeof(r.key), "harness-exit-%d|%s", WEXITSTATUS(status), S->name);
                snprintf(r.what, sizeof(r.what), "execution of %s ended with exit code %d", S->name, WEXITSTATUS(status));
            }
            else if (tr->replay_divergence)
            {
                r.violation = 2;
                snprintf(r.key, sizeof(r.key), "replay-divergence|%s", S->name);
                snprintf(r.what, sizeof(r.what), "prefix %s did not replay deterministically in %s", ps, S->name);
            }
            else if (tr->deadlock)
            {
                sym = "deadlock";
            }
            else if (!tr->done)
            {
                /* exit code 66 with an unfinished execution: ThreadSanitizer's exit after a fault it reported (SEGV) */
                sym = (WIFEXITED(status) && WEXITSTATUS(status) == 66) ? "crash" : "execution-did-not-finish";
            }
            else if (npre == 0)
            {
                if (!in_seq_exact(tr->outcome) && nseq < 64)
                {
                    snprintf(seq_outcomes[nseq++], 256, "%s", tr->outcome);
                }
            }
            else if (!pass_seq_only && !in_seq(tr->outcome))
            {
                sym = "outcome-not-serializable";
            }
            snprintf(r.outcome, sizeof(r.outcome), "%s:p%d:%.30s", S->name, npre, sym ? sym : tr->done ? "ok" : "?");
            if (sym)
            {
                r.violation = 1;
                snprintf(r.key, sizeof(r.key), "%s|%s", S->name, sym);
                snprintf(r.what, sizeof(r.what), "%s: schedule %s (%d preemptions, %d scheduling points) => %s; outcome [%s]", S->name, ps[0] ? ps : "-", npre,
                    tr->npoints, sym, tr->outcome);
            }
            mx_record(&r);
            {
                int q;
                for (q = 0; q < ntk; q++)
                {
                    mx_result_t rr = r;
                    rr.violation = 1;
                    snprintf(rr.key, sizeof(rr.key), "%s", tkeys[q]);
                    snprintf(rr.outcome, sizeof(rr.outcome), "%s:p%d:tsan-report", S->name, npre);
                    snprintf(rr.what, sizeof(rr.what), "ThreadSanitizer data race between %s (first seen in %s, schedule %s, %d preemptions)", tkeys[q] + 10, S->name, ps[0] ? ps : "-", npre);
                    mx_record(&rr);
                }
            }
            /* expand alternatives (iterative context bounding) */
            if (!tr->overflow && !tr->replay_divergence && r.violation == 0)
            {
                int pre = 0;
                for (i = 0; i < tr->npoints && i < MAXPFX; i++)
                {
                    int cost, alt;
                    if (i >= slots[s].p.n)
                    {
                        cost = pre + (tr->pt[i].running_enabled ? 1 : 0);
                        if (cost <= bound)
                        {
                            for (alt = 1; alt < tr->pt[i].n; alt++)
                            {
                                pfx_t np;
                                int j;
                                np.n = i + 1;
                                for (j = 0; j < i; j++)
                                {
                                    np.c[j] = tr->pt[j].chosen;
                                }
                                np.c[i] = (unsigned char) alt;
                                push(&np);
                            }
                        }
                    }
                    if (tr->pt[i].running_enabled && tr->pt[i].chosen != 0)
                    {
                        pre++;
                    }
                }
            }
        }
    }
}

int main(int argc, char **argv)
{
    mx_cfg_t cfg;
    const char *replay;
    int si;

#if defined(__SANITIZE_THREAD__)
    is_tsan = 1;
#endif
    memset(&cfg, 0, sizeof(cfg));
    cfg.property = "C20";
    cfg.level = "model_checking";
    cfg.engine = is_tsan ? "preemption-bounded DFS under a cooperative futex scheduler, ThreadSanitizer build (race detection on every explored schedule)"
                         : "preemption-bounded DFS under a cooperative futex scheduler (iterative context bounding), one forked process per schedule";
    cfg.rule = "state = scheduling point (before each psLockMutex, right after each psUnlockMutex, thread start, thread end) of a 2-3 thread harness whose bodies collide on the session table, ticket key list, PRNG and ephemeral-key cache; "
               "every schedule with at most k preemptions is executed; all are distinct choice sequences; non-trivial = all";
    cfg.assumptions[0] = "threads interact only through the library's mutex-protected shared state: scheduling points at lock acquisitions are sufficient provided unsynchronised accesses are caught by the ThreadSanitizer pass over the same schedules";
    cfg.assumptions[1] = "sequential consistency; the scheduler TU is uninstrumented and hands over by raw futex, so ThreadSanitizer only sees the library's own happens-before edges";
    cfg.assumptions[2] = "serializability oracle: per-thread outcome vector (complete, resumed, delivered bytes / key rotation results) must equal that of some preemption-free execution";
    replay = mx_parse_args(argc, argv, &cfg);
    thorough = !strcmp(cfg.tier, "thorough");
    sr_unlock_points = getenv("MXV_NO_UNLOCK_POINTS") ? 0 : 1;
    cfg.bound = is_tsan ? (thorough ? "preemption bound 2 (2-thread) / 1 (3-thread), TSan" : "preemption bound 1, TSan")
                        : (thorough ? "preemption bound 3 (2-thread scenarios) / 2 (3-thread scenarios)" : "preemption bound 2 (2-thread) / 1-2 (3-thread)");

    if (replay)
    {
        pfx_t p;
        const char *q;
        sr_trace_t *tr = mmap(NULL, sizeof(sr_trace_t), PROT_READ | PROT_WRITE, MAP_SHARED | MAP_ANONYMOUS, -1, 0);
        pid_t pid;
        int status = 0, i, npre = 0;
        mx_result_t r;
        if (sscanf(replay, "s=%d;pfx=", &si) != 1 || si >= NSCEN)
        {
            fprintf(stderr, "bad descriptor\n");
            return 2;
        }
        p.n = 0;
        q = strstr(replay, "pfx=") + 4;
        while (*q >= '0' && *q <= '9' && p.n < MAXPFX)
        {
            p.c[p.n++] = (unsigned char) (*q++ - '0');
        }
        /* the admissible outcome vectors (all executions without preemption) are recomputed for the replay */
        mx_init(&cfg);
        signal(SIGPIPE, SIG_IGN);
        nseq = 0;
        explore(si, 0, 1);
        fflush(NULL);
        pid = fork();
        if (pid == 0)
        {
            TR = tr;
            alarm(60);
            run_execution(si, p.c, p.n);
            _exit(0);
        }
        waitpid(pid, &status, 0);
        memset(&r, 0, sizeof(r));
        for (i = 0; i < tr->npoints; i++)
        {
            if (tr->pt[i].running_enabled && tr->pt[i].chosen != 0) npre++;
        }
        snprintf(r.outcome, sizeof(r.outcome), "p%d", npre);
        snprintf(r.what, sizeof(r.what), "status %x deadlock %d done %d outcome [%s] points %d", status, tr->deadlock, tr->done, tr->outcome, tr->npoints);
        if (WIFSIGNALED(status) || (WIFEXITED(status) && WEXITSTATUS(status) == 1))
        {
            r.violation = 1;
            snprintf(r.key, sizeof(r.key), "%s|%s", scens[si].name, WIFSIGNALED(status) && WTERMSIG(status) == SIGALRM ? "hang" : "crash");
        }
        else if (tr->deadlock)
        {
            r.violation = 1;
            snprintf(r.key, sizeof(r.key), "%s|deadlock", scens[si].name);
        }
        else if (tr->done && npre > 0 && !in_seq(tr->outcome))
        {
            r.violation = 1;
            snprintf(r.key, sizeof(r.key), "%s|outcome-not-serializable", scens[si].name);
        }
        r.trace_hash = fnv1a(tr->pt, sizeof(sr_point_t) * (size_t) tr->npoints, FNV0);
        if (is_tsan && !r.violation)
        {
            char tkeys[8][200];
            int ntk = tsan_keys(getenv("MXV_TSAN_LOG") ? getenv("MXV_TSAN_LOG") : "build/tsan-c20", pid, tkeys), q, pick = 0;
            const char *want = getenv("MXV_EXPECT_KEY");
            for (q = 0; q < ntk; q++)
            {
                if (want && !strcmp(want, tkeys[q])) pick = q;
            }
            if (ntk > 0)
            {
                r.violation = 1;
                snprintf(r.key, sizeof(r.key), "%s", tkeys[pick]);
            }
        }
        mx_replay_print(&r);
        return 0;
    }

    mx_init(&cfg);
    signal(SIGPIPE, SIG_IGN);
    for (si = 0; si < NSCEN; si++)
    {
        const scen_t *S = &scens[si];
        int bound = is_tsan ? S->maxbound_tsan : S->maxbound;
        if (!thorough)
        {
            bound = is_tsan ? 1 : (S->nthreads == 2 ? 2 : (S->kx == KX_PSK ? 2 : 1));
            if (is_tsan && S->kx == KX_ECDHE_RSA)
            {
                bound = 0;
            }
        }
        nseq = 0;
        /* pass 1: all executions without preemption = the sequential orders */
        explore(si, 0, 1);
        fprintf(stderr, "%s: %d distinct sequential outcome vectors%s%s\n", S->name, nseq, nseq ? ", e.g. " : "", nseq ? seq_outcomes[0] : "");
        /* pass 2: up to 'bound' preemptions */
        if (bound > 0)
        {
            explore(si, bound, 0);
        }
        if (mx_deadline_hit())
        {
            break;
        }
    }
    return mx_finish(NULL);
}
