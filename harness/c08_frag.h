/* c08_frag.h - C08 part F: DTLS handshake FRAGMENT scripts towards a fresh, unauthenticated session.
 * The victim (server: the message is the client's ClientHello; client: the server's first handshake message after its own
 * ClientHello / cookie exchange) receives a sequence of up to 4 datagrams, each one handshake record carrying one fragment
 * descriptor from a small alphabet built around the GENUINE message M (length L, message_seq s):
 *   G1 = M[0,a)  G2 = M[a,L)                 the genuine message in two fragments (a = L/2)
 *   W  = the genuine message unfragmented
 *   S  = header (length 10, offset 0, fragment_length 10) with only 2 body bytes present  ("short unfragmented message")
 *   S1 = S with the NEXT message_seq (s + 1)
 *   B  = header (length L, offset 0, fragment_length L - 1) with L - 1 bytes
 *   Z1 = (length 100, offset 0, fragment_length 50)   Z0 = (length 100, offset 50, fragment_length 0)
 *   Z2 = (length 100, offset 1, fragment_length 50)   overlapping fragments that sum to the length
 *   H  = (length 60000, offset 0, fragment_length 50000) with 10 bytes present
 * All sequences of length 1..4 (quick: 1..3 plus the length-4 sequences that start with G1 G2) are enumerated.
 * Oracle: the C08 oracle - no sanitizer report, no crash, no hang (case timeout), teardown leaves no allocation. */
#ifndef C08_FRAG_H
#define C08_FRAG_H

enum { FD_G1 = 0, FD_G2, FD_W, FD_S, FD_B, FD_Z1, FD_Z0, FD_Z2, FD_H, FD_S1, FD_N };
static const char *fdname[] = { "G1", "G2", "W", "S", "B", "Z1", "Z0", "Z2", "H", "S1" };
typedef struct { int victim, n, d[4], dtls10; } fcase_t;

static int f_build(int fd, const unsigned char *msg, int L, int mseq, unsigned char *out, int vmin)
{
    /* msg = the genuine handshake message body (without the 12-byte header); type in msg[-12] */
    int type = msg[-12], mlen = L, off = 0, flen = L, present = L, o = 0, i;
    static unsigned char filler[200];
    const unsigned char *src = msg;
    switch (fd)
    {
    case FD_G1: flen = L / 2; present = flen; break;
    case FD_G2: off = L / 2; flen = L - L / 2; present = flen; src = msg + off; break;
    case FD_W: break;
    case FD_S: mlen = 10; flen = 10; present = 2; break;
    case FD_S1: mlen = 10; flen = 10; present = 2; mseq++; break;
    case FD_B: flen = L - 1; present = flen; break;
    case FD_Z1: mlen = 100; off = 0; flen = 50; present = 50; src = filler; break;
    case FD_Z0: mlen = 100; off = 50; flen = 0; present = 0; src = filler; break;
    case FD_Z2: mlen = 100; off = 1; flen = 50; present = 50; src = filler; break;
    case FD_H: mlen = 60000; off = 0; flen = 50000; present = 10; src = filler; break;
    }
    for (i = 0; i < (int) sizeof(filler); i++) filler[i] = (unsigned char) (0x30 + i % 40);
    out[o++] = 22; out[o++] = 0xfe; out[o++] = (unsigned char) vmin;
    out[o++] = 0; out[o++] = 0;                                   /* epoch 0 */
    out[o++] = 0; out[o++] = 0; out[o++] = 0; out[o++] = 0; out[o++] = 0; out[o++] = (unsigned char) (0x40 + fd);
    out[o++] = (unsigned char) ((12 + present) >> 8); out[o++] = (unsigned char) (12 + present);
    out[o++] = (unsigned char) type;
    out[o++] = (unsigned char) (mlen >> 16); out[o++] = (unsigned char) (mlen >> 8); out[o++] = (unsigned char) mlen;
    out[o++] = (unsigned char) (mseq >> 8); out[o++] = (unsigned char) mseq;
    out[o++] = (unsigned char) (off >> 16); out[o++] = (unsigned char) (off >> 8); out[o++] = (unsigned char) off;
    out[o++] = (unsigned char) (flen >> 16); out[o++] = (unsigned char) (flen >> 8); out[o++] = (unsigned char) flen;
    memcpy(out + o, src, (size_t) present);
    return o + present;
}

static void f_run_case(void *ctx, mx_result_t *r)
{
    fcase_t *f = ctx;
    static world_t w;
    wcfg_t c;
    static unsigned char genuine[4096], dg[4200];
    int gl = 0, i, peer = 1 - f->victim, guard = 0, L, mseq;
    wire_t *q;
    memset(&c, 0, sizeof(c));
    c.ver = f->dtls10 ? V_DTLS10 : V_DTLS12; c.kx = KX_PSK;
    r->nontrivial = 1;
    env_track(1);
    if (world_init(&w, &c) < 0)
    {
        r->violation = 2;
        snprintf(r->key, sizeof(r->key), "internal|partF|world");
        snprintf(r->what, sizeof(r->what), "world_init failed");
        return;
    }
    world_collect(&w, 0);
    if (f->victim == 0)
    {
        /* the client is the victim: let the exchange run until the server's first handshake message after the cookie
           exchange (ServerHello) is on the wire */
        while (guard++ < 8)
        {
            q = &w.wire[1];
            if (q->n > 0 && q->r[q->head].len > 25 && q->r[q->head].p[13] == 2)
            {
                break;
            }
            if (w.wire[0].n > 0) world_deliver(&w, 0);
            else if (w.wire[1].n > 0) world_deliver(&w, 1);
            else break;
        }
    }
    q = &w.wire[peer];
    if (q->n < 1 || q->r[q->head].len < 26 || q->r[q->head].len > (int) sizeof(genuine) || q->r[q->head].p[0] != 22)
    {
        r->violation = 2;
        snprintf(r->key, sizeof(r->key), "internal|partF|no-genuine-message|v=%d", f->victim);
        snprintf(r->what, sizeof(r->what), "the genuine first handshake message towards the victim was not found");
        return;
    }
    gl = q->r[q->head].len;
    memcpy(genuine, q->r[q->head].p, (size_t) gl);
    world_wire_clear(&w, peer);
    L = (genuine[14] << 16) | (genuine[15] << 8) | genuine[16];
    mseq = (genuine[17] << 8) | genuine[18];
    if (25 + L > gl)
    {
        L = gl - 25;
    }
    for (i = 0; i < f->n; i++)
    {
        int dl = f_build(f->d[i], genuine + 25, L, mseq, dg, genuine[2]);
        if (w.s[f->victim].err_rc < 0)
        {
            break;
        }
        world_feed(&w, f->victim, dg, dl);
        if (getenv("MXV_DEBUG"))
        {
            ssl_t *x = w.s[f->victim].ssl;
            fprintf(stderr, "partF: after %s (L=%d): err_rc=%d fragLenStored=%u fragTotal=%u fragMessage=%p\n", fdname[f->d[i]], L, w.s[f->victim].err_rc,
                (unsigned) x->fragLenStored, (unsigned) x->fragTotal, (void *) x->fragMessage);
        }
        r->transitions++;
    }
    world_pump(&w, 30);
    {
        int s2;
        long live;
        for (s2 = 0; s2 < 2; s2++)
        {
            ssl_t *x = w.s[s2].ssl;
            if (x && (x->insize > SSL_MAX_BUF_SIZE || x->outsize > SSL_MAX_BUF_SIZE) && !r->violation)
            {
                r->violation = 1;
                snprintf(r->key, sizeof(r->key), "buffer-exceeds-SSL_MAX_BUF_SIZE|fragment-script");
                snprintf(r->what, sizeof(r->what), "side %d buffers grew to in %d / out %d bytes", s2, x->insize, x->outsize);
            }
        }
        if (w.corrupt && !r->violation)
        {
            r->violation = 1;
            snprintf(r->key, sizeof(r->key), "readbuf-out-of-bounds|fragment-script|%s", f->victim ? "server" : "client");
            snprintf(r->what, sizeof(r->what), "after the fragment script matrixSslGetReadbuf returned a region outside the input buffer");
        }
        world_free(&w);
        env_track(0);
        live = env_live();
        if (live != 0 && !r->violation)
        {
            void *sites[2];
            char site[128] = "?";
            if (env_live_sites(sites, 2) > 0)
            {
                mx_addr_func(sites[0], site, sizeof(site));
            }
            r->violation = 1;
            snprintf(r->key, sizeof(r->key), "leak-after-delete|fragment-script|%s|alloc-in=%s", f->victim ? "server" : "client", site);
            snprintf(r->what, sizeof(r->what), "%ld tracked allocations still live after teardown, first allocated in %s (DTLS fragment script fed to the %s) [%s]", live, site, f->victim ? "server" : "client", r->desc);
        }
    }
    snprintf(r->outcome, sizeof(r->outcome), "partF:%s:n%d:%s", f->victim ? "server" : "client", f->n, r->violation ? "VIOLATION" : "ok");
    r->trace_hash = fnv1a(f->d, sizeof(int) * (size_t) f->n, FNV0);
}

static void f_fork(fcase_t *f)
{
    char desc[200], seq[40] = "";
    int i;
    for (i = 0; i < f->n; i++)
    {
        size_t l = strlen(seq);
        snprintf(seq + l, sizeof(seq) - l, "%s%s", i ? "." : "", fdname[f->d[i]]);
    }
    snprintf(desc, sizeof(desc), "F;v=%d;t=%d;n=%d;d=%d.%d.%d.%d (part F: DTLS %s, fragment script %s to the %s)", f->victim, f->dtls10, f->n, f->d[0], f->d[1], f->d[2], f->d[3],
        f->dtls10 ? "1.0" : "1.2", seq, f->victim ? "server" : "client");
    mx_fork_case(desc, f_run_case, f);
}

static void f_run_group_inner(int victim, int dtls10, int first)
{
    fcase_t f;
    int a, b, c2, d;
    memset(&f, 0, sizeof(f));
    f.victim = victim; f.dtls10 = dtls10;
    a = first;
    f.n = 1; f.d[0] = a; f_fork(&f);
    for (b = 0; b < FD_N; b++)
    {
        f.n = 2; f.d[1] = b; f_fork(&f);
        for (c2 = 0; c2 < FD_N; c2++)
        {
            if (mx_deadline_hit()) return;
            f.n = 3; f.d[2] = c2; f_fork(&f);
            if (thorough || (a == FD_G1 && b == FD_G2) || (a == FD_Z1 && b == FD_Z0) || (c2 == FD_S1 && b != FD_S1))
            {
                for (d = 0; d < FD_N; d++)
                {
                    f.n = 4; f.d[3] = d; f_fork(&f);
                }
            }
        }
    }
}
static void f_run_group(int victim, int dtls10, int first)
{
    int old = mx_case_timeout_s;
    mx_case_timeout_s = 5;   /* a fragment script is a handful of datagrams: anything that takes seconds is a hang */
    f_run_group_inner(victim, dtls10, first);
    mx_case_timeout_s = old;
}
#endif
