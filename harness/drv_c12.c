/* drv_c12 - C12: hashes, MACs, KDFs, ciphers and AEADs are exact for every length and call pattern.
 *
 * Bounded-exhaustive differential check of the MatrixSSL crypto primitives against OpenSSL 3.0 libcrypto:
 * for every algorithm the driver enumerates message lengths, every partition of the input into update calls
 * (all compositions for short inputs, all 1- and 2-cut partitions otherwise), buffer offsets 0..15 on exact-size
 * heap buffers (ASan + UBSan build), in-place operation, key sizes, AAD lengths, tag lengths, and for the AEAD
 * open functions every single-bit modification of ciphertext / tag / nonce / AAD.  Nothing is sampled.
 *
 * One "bundle" = (task, algorithm, length[, sub-parameter]) runs in a forked child (mx_fork_case) so that a
 * sanitizer abort is attributed to the bundle and to the primitive that was running; inside a bundle every
 * primitive comparison is executed in-process and mismatches are recorded one by one with a replayable descriptor.
 */
#include "c12_core.h"
#include "c12_dig.h"
#include "c12_sym.h"

static int thorough;

static int prim(const pc_t *pc, char *human, char *what)
{
    switch (pc->t)
    {
    case T_HASH: return prim_hash(pc, human, what);
    case T_HMAC: return prim_hmac(pc, human, what);
    case T_HKDF: return prim_hkdf(pc, human, what);
    case T_PBKDF2: return prim_pbkdf2(pc, human, what);
    case T_AESBLK: return prim_aesblk(pc, human, what);
    case T_CBC: return prim_cbc(pc, human, what);
    case T_GCM: return prim_gcm(pc, human, what);
    case T_GCMOPEN: return prim_gcmopen(pc, human, what);
    case T_CHACHA: return prim_chacha(pc, human, what);
    case T_CHAOPEN: return prim_chaopen(pc, human, what);
    }
    return 2;
}

static const char *alg_label(const pc_t *pc)
{
    static char l[64];
    static const char *an[] = { "aes128", "aes192", "aes256", "3des" };
    switch (pc->t)
    {
    case T_HASH: snprintf(l, sizeof(l), "%s", HAPI[pc->g].name); break;
    case T_HMAC: snprintf(l, sizeof(l), "%s/%s/key=%d", MAPI[pc->g].name, hm_api[pc->y], pc->k); break;
    case T_HKDF: snprintf(l, sizeof(l), "hkdf-%s/%s", MAPI[pc->g].name + 5, hk_op[pc->y]); break;
    case T_PBKDF2: snprintf(l, sizeof(l), "pbkdf2-sha1/pw=%d", pc->k); break;
    case T_AESBLK: snprintf(l, sizeof(l), "%s-block/%s", pc->g < 3 ? an[pc->g] : "aes-badkey", pc->y ? "dec" : "enc"); break;
    case T_CBC: snprintf(l, sizeof(l), "%s-cbc/%s%s", an[pc->g], pc->y ? "dec" : "enc", pc->o < 0 ? "/inplace" : ""); break;
    case T_GCM: snprintf(l, sizeof(l), "%s-gcm/%s%s%s", an[pc->g], pc->y ? "tagless-dec" : "enc", pc->o < 0 ? "/inplace" : "", pc->k >= 8 ? "/ctx-reuse" : ""); break;
    case T_GCMOPEN: snprintf(l, sizeof(l), "%s-gcm/open%d/aad=%d/%s", an[pc->g], pc->y, pc->x, flip_tgt[pc->a]); break;
    case T_CHACHA: snprintf(l, sizeof(l), "chacha20poly1305%s/%s%s", pc->g ? "-ref" : "", pc->y ? "enc" : "enc-detached", pc->o < 0 ? "/inplace" : ""); break;
    case T_CHAOPEN: snprintf(l, sizeof(l), "chacha20poly1305%s/open%d/aad=%d/%s", pc->g ? "-ref" : "", pc->y, pc->x, flip_tgt[pc->a]); break;
    default: snprintf(l, sizeof(l), "?");
    }
    return l;
}

/* low-cardinality label for the outcome histogram: algorithm without parameters */
static const char *short_label(const pc_t *pc)
{
    static char l[48];
    static const char *an[] = { "aes128", "aes192", "aes256", "3des" };
    switch (pc->t)
    {
    case T_HASH: snprintf(l, sizeof(l), "%s", HAPI[pc->g].name); break;
    case T_HMAC: snprintf(l, sizeof(l), "%s", MAPI[pc->g].name); break;
    case T_HKDF: snprintf(l, sizeof(l), "hkdf-%s", MAPI[pc->g].name + 5); break;
    case T_PBKDF2: snprintf(l, sizeof(l), "pbkdf2-sha1"); break;
    case T_AESBLK: snprintf(l, sizeof(l), "%s-block", pc->g < 3 ? an[pc->g] : "aes-badkey"); break;
    case T_CBC: snprintf(l, sizeof(l), "%s-cbc", an[pc->g]); break;
    case T_GCM: snprintf(l, sizeof(l), "%s-gcm", an[pc->g]); break;
    case T_GCMOPEN: snprintf(l, sizeof(l), "%s-gcm-open", an[pc->g]); break;
    case T_CHACHA: snprintf(l, sizeof(l), "chacha20poly1305%s", pc->g ? "-ref" : ""); break;
    case T_CHAOPEN: snprintf(l, sizeof(l), "chacha20poly1305%s-open", pc->g ? "-ref" : ""); break;
    default: snprintf(l, sizeof(l), "?");
    }
    return l;
}

/* ------------------------------------------------------------------ bundles */
static const int GRID[] = { 1023, 1024, 1025, 2047, 2048, 2049, 4095, 4096, 4097, 8191, 8192, 8193, 16383, 16384, 16385,
                            32767, 32768, 32769, 65535, 65536, 65537 };
#define NGRID ((int) (sizeof(GRID) / sizeof(GRID[0])))
static const int AAD_EXTRA[] = { 127, 128, 129, 255, 256, 257 };
static const int AAD_PART[] = { 0, 1, 13, 16, 17 };
static const int OPEN_PT[] = { 0, 1, 16, 17, 33 };
static const int OPEN_AAD[] = { 0, 1, 13, 16, 17, 64 };

static int hmac_klens(int blk, int *out)
{
    out[0] = 0; out[1] = 1; out[2] = blk - 1; out[3] = blk; out[4] = blk + 1; out[5] = 2 * blk + 3;
    return 6;
}

static void align_sweep(pc_t *pc, int full)
{
    int i, o;
    for (i = 0; i < 16 && !B.stop; i++)
    {
        for (o = 0; o < 16; o++)
        {
            if (!full && i != o && i != 0 && o != 0)
            {
                continue;
            }
            pc->i = i; pc->o = o;
            chk(pc, "align");
        }
    }
    pc->i = 0; pc->o = 0;
}

static void bundle_hash(const pc_t *s)
{
    const hapi_t *h = &HAPI[s->g];
    pc_t pc = *s;
    int blk = ref_hblock[h->halg];
    pc.x = 0;
    if (h->streaming)
    {
        parts(&pc, s->n, s->x, blk);
    }
    else
    {
        pc.m = 0; pc.a = pc.b = s->n;
        chk(&pc, "whole");
    }
    pc.m = 0; pc.a = pc.b = s->n;
    align_sweep(&pc, s->n <= 4 * blk + 1);
    if (h->streaming && s->n > 1)
    {
        pc.a = s->n / 2;
        align_sweep(&pc, 0);
    }
}

static void bundle_hmac(const pc_t *s)
{
    const mapi_t *h = &MAPI[s->g];
    int blk = ref_hblock[h->halg], kl[6], nk = hmac_klens(blk, kl), j, api;
    pc_t pc = *s;
    for (j = 0; j < nk && !B.stop; j++)
    {
        pc.k = kl[j];
        pc.m = 0; pc.a = pc.b = s->n; pc.i = pc.o = 0;
        for (api = 0; api <= 4; api++)
        {
            pc.y = api;
            chk(&pc, "whole");
        }
        if (s->x == 2)
        {
            pc.y = 2;
            parts(&pc, s->n, 2, blk);
            continue;
        }
        /* quick: partitions of long messages only for key lengths 0, block, 2*block+3 (direct, full-block and hashed key) */
        if (thorough || s->n <= blk + 1 || kl[j] == 0 || kl[j] == blk || kl[j] == 2 * blk + 3)
        {
            pc.y = 2;
            parts(&pc, s->n, (kl[j] == blk && s->n <= (thorough ? 2 * blk + 1 : 129)) ? 1 : 0, blk);
        }
        if (kl[j] == blk || (thorough && (kl[j] == 1 || kl[j] == 2 * blk + 3)))
        {
            pc.y = 3;
            parts(&pc, s->n, 0, blk);
        }
        if (kl[j] == blk)
        {
            for (api = 0; api <= 4; api++)
            {
                pc.y = api; pc.m = 0; pc.a = pc.b = s->n;
                align_sweep(&pc, 0);
            }
        }
    }
}

static void bundle_hkdf(const pc_t *s)
{
    const mapi_t *h = &MAPI[s->g];
    int hl = ref_hlen[h->halg], blk = ref_hblock[h->halg];
    pc_t pc = *s;
    if (s->y == 0)
    {
        int kl[6], nk = hmac_klens(blk, kl), j, n;
        for (j = 0; j < nk && !B.stop; j++)
        {
            for (n = 0; n <= 2 * blk + 1; n++)
            {
                pc.k = kl[j]; pc.n = n; pc.i = n % 16; pc.o = (n / 16) % 16;
                chk(&pc, "extract");
            }
        }
    }
    else if (s->y == 1)
    {
        int okm[10], pk[6], j, l, x;
        okm[0] = 0; okm[1] = 1; okm[2] = hl - 1; okm[3] = hl; okm[4] = hl + 1; okm[5] = 2 * hl; okm[6] = 2 * hl + 1;
        okm[7] = 255 * hl - 1; okm[8] = 255 * hl; okm[9] = 255 * hl + 1;
        pk[0] = hl - 1; pk[1] = hl; pk[2] = hl + 1; pk[3] = blk; pk[4] = blk + 1; pk[5] = 2 * blk + 3;
        for (j = 0; j < 10 && !B.stop; j++)
        {
            for (l = 0; l < 6; l++)
            {
                for (x = 0; x <= 81; x++)
                {
                    pc.n = okm[j]; pc.k = pk[l]; pc.x = x; pc.i = x % 16; pc.o = (x + l) % 16;
                    chk(&pc, j >= 7 ? "expand-255" : "expand");
                }
            }
        }
    }
    else
    {
        static const int ol[] = { 1, 12, 16, 32, 48, 64 }, cl[] = { 0, 1, 32, 48 };
        int a, b, o;
        for (a = 1; a <= 18 && !B.stop; a++)
        {
            for (b = 0; b < 4; b++)
            {
                for (o = 0; o < 6; o++)
                {
                    pc.a = a; pc.b = cl[b]; pc.n = ol[o]; pc.o = (a + o) % 16;
                    chk(&pc, "expandlabel");
                }
            }
        }
    }
}

static void bundle_pbkdf2(const pc_t *s)
{
    static const int sl[] = { 0, 1, 8, 16, 64, 65 }, rounds[] = { 1, 2, 5, 100 }, kl[] = { 1, 19, 20, 21, 40, 41, 64 };
    int a, b, c;
    pc_t pc = *s;
    for (a = 0; a < 6 && !B.stop; a++)
    {
        for (b = 0; b < 4; b++)
        {
            for (c = 0; c < 7; c++)
            {
                pc.x = sl[a]; pc.y = rounds[b]; pc.n = kl[c]; pc.o = (a + c) % 16;
                chk(&pc, "derive");
            }
        }
    }
}

static void bundle_aesblk(const pc_t *s)
{
    pc_t pc = *s;
    int a, b;
    if (s->g == 3)
    {
        for (a = 0; a <= 64 && !B.stop; a++)
        {
            if (a != 16 && a != 24 && a != 32)
            {
                pc.k = a;
                chk(&pc, "bad-keylen");
            }
        }
        return;
    }
    for (a = 0; a < 8 * aes_kl[s->g] + 10 && !B.stop; a++)
    {
        for (b = 0; b < 386; b++)
        {
            pc.a = a; pc.b = b;
            chk(&pc, "block");
        }
    }
    for (a = 0; a < 4 && !B.stop; a++)
    {
        pc.a = 8 * aes_kl[s->g] + 2 + a; pc.b = 200 + a;
        align_sweep(&pc, 1);
        for (b = 0; b < 16; b++)
        {
            pc.i = b; pc.o = -1;
            chk(&pc, "inplace");
        }
        pc.i = pc.o = 0;
    }
}

static void bundle_cbc(const pc_t *s)
{
    pc_t pc = *s;
    int y, k, o, level = s->x;
    for (y = 0; y < 2 && !B.stop; y++)
    {
        for (k = 0; k < 3; k++)
        {
            for (o = 0; o >= -1; o--)
            {
                if (level == 2 && (k != (o ? 1 : 0)))
                {
                    continue; /* long inputs: one key per direction/placement */
                }
                pc.y = y; pc.k = k; pc.o = o; pc.i = 0;
                parts(&pc, s->n, level, 4);
            }
        }
        pc.k = 0; pc.m = 0; pc.a = pc.b = s->n;
        align_sweep(&pc, level != 2);
        for (o = 0; o < 16; o++)
        {
            pc.i = o; pc.o = -1;
            chk(&pc, "align");
        }
        pc.i = pc.o = 0;
    }
}

static void bundle_gcm(const pc_t *s)
{
    pc_t pc = *s;
    int x, y, o, j, z, level = s->x, nbig = s->n > 260;
    pc.x = 0;
    for (y = 0; y < 2 && !B.stop; y++)
    {
        pc.y = y; pc.z = 16; pc.k = 0; pc.m = 0; pc.a = pc.b = s->n; pc.i = 0;
        /* every AAD length, whole call, out of place and in place */
        for (x = 0; x <= 64 + 6 && !B.stop; x++)
        {
            if (nbig && x > 17 && x < 64)
            {
                continue;
            }
            pc.x = x <= 64 ? x : AAD_EXTRA[x - 65];
            for (o = 0; o >= -1; o--)
            {
                pc.o = o;
                chk(&pc, "aad");
            }
        }
        /* partitions */
        for (j = 0; j < 5 && !B.stop; j++)
        {
            if ((level == 0 || level == 2) && s->n > 65 && j != 2)
            {
                continue;
            }
            pc.x = AAD_PART[j]; pc.k = j;
            for (o = 0; o >= -1; o--)
            {
                pc.o = o;
                /* quick: 2-cuts for AAD 0, 13, 17; 1-cuts for every AAD of the set */
                if (level == 2 && o < 0)
                {
                    continue;
                }
                parts(&pc, s->n, (level == 1 && (!thorough || s->n > 65) && (j == 1 || j == 3)) ? 0 : level, 128);
            }
        }
        /* tag lengths, fresh context and re-used context */
        pc.m = 0; pc.a = pc.b = s->n; pc.o = 0;
        for (z = 1; z <= 16 && !B.stop; z++)
        {
            for (j = 0; j < 2; j++)
            {
                pc.z = z; pc.x = j ? 13 : 0;
                pc.k = 1; chk(&pc, "taglen");
                pc.k = 9; chk(&pc, "taglen-ctx-reuse");
            }
        }
        pc.z = 16; pc.k = 0; pc.x = 13;
        if (!nbig)
        {
            align_sweep(&pc, s->n <= 65);
        }
    }
}

static void open_sweep(pc_t *pc, int n, int taglen, int with_trunc)
{
    int b;
    pc->a = 0; pc->b = 0;
    chk(pc, "untouched");
    for (b = 0; b < 8 * n && !B.stop; b++) { pc->a = 1; pc->b = b; chk(pc, "flip-ct"); }
    for (b = 0; b < 8 * taglen; b++) { pc->a = 2; pc->b = b; chk(pc, "flip-tag"); }
    for (b = 0; b < 96; b++) { pc->a = 3; pc->b = b; chk(pc, "flip-nonce"); }
    for (b = 0; b < 8 * pc->x && !B.stop; b++) { pc->a = 4; pc->b = b; chk(pc, "flip-aad"); }
    if (with_trunc)
    {
        for (b = 1; b <= 16 + (n < 4 ? n : 4); b++) { pc->a = 5; pc->b = b; chk(pc, "truncated"); }
    }
}

static void bundle_gcmopen(const pc_t *s)
{
    pc_t pc = *s;
    int z;
    pc.k = (s->n + s->x) % 5;
    pc.y = 1; pc.z = 16;
    open_sweep(&pc, s->n, 16, 1);
    pc.y = 2;
    open_sweep(&pc, s->n, 16, 0);
    for (z = 1; z < 16 && !B.stop; z++)
    {
        /* tag lengths the caller asks for: right prefix accepted, every flipped bit of it rejected */
        pc.z = z;
        pc.y = 1; pc.a = 0; pc.b = 0; chk(&pc, "untouched-shorttag");
        pc.y = 2; chk(&pc, "untouched-shorttag");
        if (z == 4 || z == 8 || z == 12 || z == 15)
        {
            int b;
            for (b = 0; b < 8 * z; b++)
            {
                pc.a = 2; pc.b = b;
                pc.y = 1; chk(&pc, "flip-shorttag");
                pc.y = 2; chk(&pc, "flip-shorttag");
            }
            if (s->n > 0)
            {
                pc.a = 1; pc.b = 8 * s->n - 1; pc.y = 1; chk(&pc, "flip-ct"); pc.y = 2; chk(&pc, "flip-ct");
            }
        }
    }
}

static void bundle_chacha(const pc_t *s)
{
    pc_t pc = *s;
    int x, y, o, nbig = s->n > 1025;
    for (y = 0; y < 2 && !B.stop; y++)
    {
        pc.y = y; pc.i = 0; pc.k = s->n % 5;
        for (x = 0; x <= 64 + 6 && !B.stop; x++)
        {
            if (nbig && x > 17 && x < 64)
            {
                continue;
            }
            pc.x = x <= 64 ? x : AAD_EXTRA[x - 65];
            for (o = 0; o >= -1; o--)
            {
                pc.o = o;
                chk(&pc, "aad");
            }
        }
        pc.x = 13;
        align_sweep(&pc, s->n <= 257);
        for (o = 0; o < 16; o++)
        {
            pc.i = o; pc.o = -1;
            chk(&pc, "align");
        }
        pc.i = pc.o = 0;
    }
}

static void bundle_chaopen(const pc_t *s)
{
    pc_t pc = *s;
    pc.k = (s->n + s->x) % 5;
    pc.z = 16;
    pc.o = 0;
    pc.y = 3; open_sweep(&pc, s->n, 16, 1);
    pc.y = 2; open_sweep(&pc, s->n, 16, 0);
    pc.o = -1;
    pc.y = 3; open_sweep(&pc, s->n, 16, 0);
    pc.y = 2; open_sweep(&pc, s->n, 16, 0);
}

static void bundle_human(const pc_t *s, char *out, size_t sz)
{
    pc_t t = *s;
    if (s->t == T_HMAC)
    {
        snprintf(out, sz, "%s len=%d all key lengths and apis", MAPI[s->g].name, s->n);
        return;
    }
    if (s->t == T_GCMOPEN || s->t == T_CHAOPEN)
    {
        t.a = 0;
    }
    snprintf(out, sz, "%s len=%d level=%d", alg_label(&t), s->n, s->x);
}

static void run_bundle(const pc_t *s)
{
    memset(&B, 0, sizeof(B));
    B.spec = *s;
    bundle_human(s, B.human, sizeof(B.human));
    switch (s->t)
    {
    case T_HASH: bundle_hash(s); break;
    case T_HMAC: bundle_hmac(s); break;
    case T_HKDF: bundle_hkdf(s); break;
    case T_PBKDF2: bundle_pbkdf2(s); break;
    case T_AESBLK: bundle_aesblk(s); break;
    case T_CBC: bundle_cbc(s); break;
    case T_GCM: bundle_gcm(s); break;
    case T_GCMOPEN: bundle_gcmopen(s); break;
    case T_CHACHA: bundle_chacha(s); break;
    case T_CHAOPEN: bundle_chaopen(s); break;
    }
}

static void bundle_desc(const pc_t *s, char *out, size_t sz)
{
    char h[96], d[200];
    bundle_human(s, h, sizeof(h));
    pc_desc(s, d, sizeof(d), "bundle", h);
    snprintf(out, sz, "bundle;%s", d);
}

/* result of one (bundle, family): transitions = number of primitive comparisons */
static void fam_result(const pc_t *s, const famstat_t *f, mx_result_t *r)
{
    char h[96];
    memset(r, 0, sizeof(*r));
    bundle_human(s, h, sizeof(h));
    snprintf(r->desc, sizeof(r->desc), "bundle;t=%s;g=%d;n=%d;m=%d;a=%d;b=%d;i=%d;o=%d;k=%d;x=%d;y=%d;z=%d;f=%s (%s)", tname[s->t], s->g, s->n,
        s->m, s->a, s->b, s->i, s->o, s->k, s->x, s->y, s->z, f->fam, h);
    snprintf(r->outcome, sizeof(r->outcome), "%.30s:%.20s:%s", short_label(s), f->fam, f->bad ? "MISMATCH" : "equal");
    r->transitions = (uint32_t) f->cmp;
    r->nontrivial = f->cmp > f->refused;
    r->trace_hash = fnv1a(r->desc, strlen(r->desc), FNV0);
}

static void bundle_case(void *ctx, mx_result_t *r)
{
    const pc_t *s = ctx;
    int i;
    mx_result_t fr;
    run_bundle(s);
    if (B.nf == 0)
    {
        snprintf(r->outcome, sizeof(r->outcome), B.stop ? "deadline" : "empty");
        return;
    }
    for (i = 0; i < B.nf; i++)
    {
        fam_result(s, &B.f[i], &fr);
        if (i < B.nf - 1)
        {
            mx_record(&fr);
        }
    }
    *r = fr;
}

#define MAXB 40000
static pc_t bundles[MAXB];
static double bcost[MAXB];
static long nb;

static void add_bundle(int t, int g, int n, int x, int y, double cost)
{
    pc_t s;
    if (nb >= MAXB)
    {
        fprintf(stderr, "drv_c12: bundle table full\n");
        exit(2);
    }
    memset(&s, 0, sizeof(s));
    s.t = t; s.g = g; s.n = n; s.x = x; s.y = y;
    bcost[nb] = cost;
    bundles[nb++] = s;
}

static int cmp_cost(const void *a, const void *b)
{
    long ia = *(const long *) a, ib = *(const long *) b;
    if (bcost[ia] != bcost[ib])
    {
        return bcost[ia] < bcost[ib] ? 1 : -1;
    }
    return ia < ib ? -1 : 1;
}

static void build_bundles(void)
{
    int g, n, j;
    /* hashes */
    for (g = 0; g < HA_N; g++)
    {
        int blk = ref_hblock[HAPI[g].halg], top = 4 * blk + 1;
        int wrapper = g >= HA_GEN256;
        for (n = 0; n <= top; n++)
        {
            int r = n % blk, padb = blk - (blk == 128 ? 16 : 8);
            int window = r >= blk - 2 || r <= 1 || (r >= padb - 2 && r <= padb + 1);
            int level;
            if (wrapper)
            {
                level = 0;
            }
            else if (thorough)
            {
                level = (blk == 64 || n <= 2 * blk + 1 || window) ? 1 : 0;
            }
            else
            {
                level = (n <= blk + 1 || (window && (blk == 64 || n <= 2 * blk + 1)) || (blk == 64 && n <= 2 * blk + 1)) ? 1 : 0;
            }
            add_bundle(T_HASH, g, n, level, 0, (double) n * n * (level ? n : 4) / blk + 300);
        }
        for (j = 0; j < NGRID && thorough; j++)
        {
            add_bundle(T_HASH, g, GRID[j], 2, 0, (double) GRID[j] * 200 / blk);
        }
    }
    /* HMAC */
    for (g = 0; g < MA_N; g++)
    {
        int blk = ref_hblock[MAPI[g].halg];
        for (n = 0; n <= 4 * blk + 1; n++)
        {
            add_bundle(T_HMAC, g, n, 0, 0, (double) n * n * (n <= (thorough ? 2 * blk + 1 : 129) ? n : 20) / blk + 2000);
        }
        for (j = 0; j < NGRID && thorough; j++)
        {
            add_bundle(T_HMAC, g, GRID[j], 2, 0, (double) GRID[j] * 1200 / blk);
        }
    }
    /* HKDF, PBKDF2 */
    for (g = 0; g < MA_N; g++)
    {
        add_bundle(T_HKDF, g, 0, 0, 0, 3e5);
        add_bundle(T_HKDF, g, 0, 0, 1, 3e6);
        add_bundle(T_HKDF, g, 0, 0, 2, 1e5);
    }
    {
        static const int pl[] = { 0, 1, 8, 63, 64, 65, 131 };
        for (j = 0; j < 7; j++)
        {
            add_bundle(T_PBKDF2, 0, 0, 0, 0, 2e5);
            bundles[nb - 1].k = pl[j];
        }
    }
    /* AES block */
    for (g = 0; g < 3; g++)
    {
        add_bundle(T_AESBLK, g, 16, 0, 0, 4e5);
        add_bundle(T_AESBLK, g, 16, 0, 1, 4e5);
    }
    add_bundle(T_AESBLK, 3, 0, 0, 0, 100);
    add_bundle(T_AESBLK, 3, 0, 0, 1, 100);
    /* CBC: AES-128/192/256 and 3DES; n in blocks */
    for (g = 0; g < 4; g++)
    {
        for (n = 0; n <= 17; n++)
        {
            add_bundle(T_CBC, g, n, 1, 0, 5000.0 * n * n + 1000);
        }
        for (n = 18; n <= 33 && thorough; n++)
        {
            add_bundle(T_CBC, g, n, 1, 0, 5000.0 * n * n + 1000);
        }
        for (j = 0; j < NGRID && thorough; j++)
        {
            int bl = g == 3 ? 8 : 16;
            add_bundle(T_CBC, g, GRID[j] / bl, 2, 0, (double) GRID[j] * 100);
        }
    }
    /* GCM */
    for (g = 0; g < 3; g++)
    {
        for (n = 0; n <= 260; n++)
        {
            int level = (n <= 65 || (thorough && n <= 130)) ? 1 : 0;
            add_bundle(T_GCM, g, n, level, 0, level ? 40.0 * n * n * n + 5e4 : 300.0 * n * n);
        }
        for (j = 0; j < NGRID && thorough; j++)
        {
            add_bundle(T_GCM, g, GRID[j], 2, 0, (double) GRID[j] * 3000);
        }
        for (n = 0; n < 5; n++)
        {
            for (j = 0; j < 6; j++)
            {
                add_bundle(T_GCMOPEN, g, OPEN_PT[n], OPEN_AAD[j], 0, 2e5);
            }
        }
    }
    /* ChaCha20-Poly1305, both implementations */
    for (g = 0; g < 2; g++)
    {
        static const int extra[] = { 319, 320, 321, 383, 384, 385, 447, 448, 449, 511, 512, 513, 575, 576, 577, 639, 640, 641, 767, 768, 769,
                                     1023, 1024, 1025 };
        static const int opl[] = { 0, 1, 16, 17, 33, 63, 64, 65, 257 };
        for (n = 0; n <= (thorough ? 1025 : 257); n++)
        {
            add_bundle(T_CHACHA, g, n, 0, 0, 800.0 * (n + 200));
        }
        for (j = 0; j < (int) (sizeof(extra) / sizeof(extra[0])) && !thorough; j++)
        {
            add_bundle(T_CHACHA, g, extra[j], 0, 0, 800.0 * (extra[j] + 200));
        }
        for (j = 3; j < NGRID && thorough; j++)
        {
            add_bundle(T_CHACHA, g, GRID[j], 0, 0, 200.0 * GRID[j]);
        }
        for (n = 0; n < (thorough ? 9 : 5); n++)
        {
            for (j = 0; j < 6; j++)
            {
                add_bundle(T_CHAOPEN, g, opl[n], OPEN_AAD[j], 0, 3e5);
            }
        }
    }
}

static long order[MAXB];
static slot_t *slots;
static volatile int *slot_next;
#define NSLOT 256

static void run_group(long gi, void *unused)
{
    const pc_t *s = &bundles[order[gi]];
    char desc[240];
    (void) unused;
    if (!g_slot)
    {
        g_slot = &slots[__atomic_fetch_add(slot_next, 1, __ATOMIC_SEQ_CST) % NSLOT];
    }
    g_slot->active = 0;
    bundle_desc(s, desc, sizeof(desc));
    {
        double t0 = now_s();
        mx_fork_case(desc, bundle_case, (void *) s);
        if (getenv("C12_TIMING") && now_s() - t0 > atof(getenv("C12_TIMING")))
        {
            fprintf(stderr, "slow bundle %.1fs (est %.0f): %s\n", now_s() - t0, bcost[order[gi]], desc);
        }
    }
    if (g_slot->active)
    {
        /* the bundle child died (sanitizer abort / signal) while this primitive was running */
        mx_result_t r;
        pc_t pc = g_slot->pc;
        memset(&r, 0, sizeof(r));
        pc_desc(&pc, r.desc, sizeof(r.desc), (const char *) g_slot->fam, "child died inside this primitive");
        r.violation = 1;
        r.nontrivial = 1;
        snprintf(r.key, sizeof(r.key), "crash|%s|%s", alg_label(&pc), (const char *) g_slot->fam);
        snprintf(r.what, sizeof(r.what), "process aborted (ASan/UBSan report or signal) inside the library while running %s", r.desc);
        snprintf(r.outcome, sizeof(r.outcome), "CRASH-in-primitive");
        mx_record(&r);
        g_slot->active = 0;
    }
}

int main(int argc, char **argv)
{
    mx_cfg_t cfg;
    const char *replay;
    long i;
    static char extra[512];

    memset(&cfg, 0, sizeof(cfg));
    cfg.property = "C12";
    cfg.level = "exploration";
    cfg.sanitizer_is_oracle = 1;
    cfg.engine = "bounded-exhaustive differential enumeration against OpenSSL 3.0 libcrypto, ASan+UBSan build, exact-size heap buffers";
    cfg.rule =
        "case = one (algorithm, length, family) bundle; transitions = primitive comparisons, each one MatrixSSL call sequence whose output bytes "
        "(digest/MAC/OKM/key/ciphertext/tag/plaintext, or accept/reject for AEAD open) are compared with OpenSSL on the same inputs. "
        "Algorithms: md5 sha1 sha256 sha384 sha512 md5sha1 psHash*(sha256/384/512) psSha512Single; hmac-md5/sha1/sha256/sha384 through psHmac<X>, psHmac, "
        "Init/Update/Final, psHmacInit/Update/Final, psHmacSingle; hkdf extract/expand/expandlabel x 4 hashes; pbkdf2-hmac-sha1; aes128/192/256 block enc+dec "
        "(every single-bit key and block, all-0/all-1, seeded; invalid key lengths 0..64 must be refused); aes-cbc x3 and 3des-cbc; aes-gcm x3; chacha20-poly1305 "
        "(best and reference implementation). Lengths: hash/hmac 0..4*block+1 (block 64 or 128); cbc 0..17 blocks (33 thorough); gcm 0..260; chacha 0..257 plus the "
        "triples around 320,384,448,512,576,640,768,1024 (0..1025 thorough); thorough adds 2^k-1,2^k,2^k+1 for k=10..16. Call patterns per length n: all 2^(n-1) "
        "compositions for n<=10; whole + every 1-cut for every n; zero-length calls at start/middle/end; every 2-cut for: hash block 64: n<=129 or n mod 64 in "
        "{62,63,0,1,54..57} (thorough: every n<=257); hash block 128: n<=129 or (n<=257 and n mod 128 in {126,127,0,1,110..113}) (thorough: n<=257 or that window "
        "up to 513); hmac (Init/Update/Final, key=block): n<=129 (thorough n<=2*block+1); cbc: every block count; gcm: n<=65 with AAD {0,13,17} (thorough: all of "
        "{0,1,13,16,17} for n<=65 and {0,13,17} for n<=130); the 2^k grid uses cuts at {1,blk-1,blk,blk+1,2blk-1,2blk,2blk+1,n/2,n-blk-1,n-blk,n-blk+1,n-1}. "
        "hmac keys {0,1,block-1,block,block+1,2*block+3} (quick: 1-cut partitions of messages longer than block+1 only for keys 0, block, 2*block+3); "
        "input x output offsets 0..15 x 0..15 on exact-size heap buffers, and in place for ciphers/AEADs; hkdf okm {0,1,H-1,H,H+1,2H,2H+1,255H-1,255H; 255H+1 must be "
        "refused} x prk {H-1 refused,H,H+1,block,block+1,2*block+3} x info 0..81; pbkdf2 password {0,1,8,63,64,65,131} x salt {0,1,8,16,64,65} x rounds {1,2,5,100} x "
        "key {1,19,20,21,40,41,64}; gcm/chacha AAD 0..64 and 127..129,255..257; gcm tag lengths 1..16 on a fresh context and on a context that already processed "
        "a message; AEAD open for pt {0,1,16,17,33} x aad {0,1,13,16,17,64} (chacha thorough also 63,64,65,257): untouched tuple must open with the exact plaintext, "
        "every single flipped bit of ct/tag/nonce/aad and every record shortened by 1..16(+4) bytes must be rejected, short tags only when asked for (gcm 1..15). "
        "Undefined behaviour reported by UBSan inside a primitive is a violation of that primitive (key ubsan|file:line|kind); an ASan abort is a crash violation. "
        "non-trivial = the bundle compared at least one MatrixSSL output with the reference (correct refusals of out-of-range inputs are counted separately). "
        "Excluded (documented preconditions, not called): ps*HmacInit/psHmacInit/psHmacSingle with key > block (source asserts keyLen<=block; the one-shot functions "
        "normalise the key and their output key is what is fed to Init), CBC/3DES lengths that are not block multiples, psPkcs5Pbkdf2 kLen=0 (psAssert), GCM tag "
        "length 0 or >16, nonces other than 12 bytes, misaligned context structures.";
    cfg.assumptions[0] = "OpenSSL 3.0 libcrypto (default provider) is a correct implementation of the standards for these inputs";
    cfg.assumptions[1] = "input bytes are fixed pseudo-random patterns derived from the seed; the set of cases does not depend on the seed";
    cfg.assumptions[2] = "AES-NI code paths (aes_aesni.c) are not compiled in this build configuration and are not covered";
    cfg.assumptions[3] = "AEAD open oracle is the return code: MatrixSSL writes unauthenticated plaintext to the output buffer before verifying the tag";
    replay = mx_parse_args(argc, argv, &cfg);
    thorough = !strcmp(cfg.tier, "thorough");
    cfg.bound = thorough
        ? "all bundles of the thorough enumeration (lengths to 4*block+1 with all 2-cuts, plus the 2^k+-1 grid to 65537) completed"
        : "all bundles of the quick enumeration (lengths to 4*block+1, all 1-cuts, 2-cuts in the block-boundary regions) completed";
    data_init(cfg.seed);
    if (world_open() < 0)
    {
        fprintf(stderr, "matrixSslOpen failed\n");
        return 2;
    }
    ref_init();

    if (replay)
    {
        pc_t pc;
        mx_result_t r;
        memset(&pc, 0, sizeof(pc));
        memset(&r, 0, sizeof(r));
        snprintf(r.desc, sizeof(r.desc), "%s", replay);
        if (pc_parse(replay, &pc) < 0)
        {
            fprintf(stderr, "bad descriptor: %s\n", replay);
            return 2;
        }
        if (!strncmp(replay, "bundle;", 7))
        {
            int j;
            long bad = 0, cmp = 0;
            g_replay_mode = 1;
            run_bundle(&pc);
            for (j = 0; j < B.nf; j++)
            {
                fprintf(stderr, "  family %-18s comparisons=%ld refused=%ld mismatches=%ld\n", B.f[j].fam, B.f[j].cmp, B.f[j].refused, B.f[j].bad);
                bad += B.f[j].bad; cmp += B.f[j].cmp;
            }
            r.violation = bad ? 1 : 0;
            r.transitions = (uint32_t) cmp;
            snprintf(r.outcome, sizeof(r.outcome), "bundle:%s", bad ? "MISMATCH" : "equal");
            snprintf(r.key, sizeof(r.key), "%s", bad ? "bundle-mismatch" : "");
            snprintf(r.what, sizeof(r.what), "%ld comparisons, %ld mismatches", cmp, bad);
        }
        else
        {
            char human[160] = "", what[320] = "";
            int rc;
            g_verbose = 1;
            fprintf(stderr, "replaying %s\n", replay);
            rc = prim_guarded(&pc, human, what);
            fprintf(stderr, "  case: %s\n  result: %s\n", human, rc == 0 ? "equal" : (rc == 1 || rc == 3) ? what : "refused / not applicable (allowed)");
            if (rc == 3)
            {
                r.violation = 1;
                snprintf(r.key, sizeof(r.key), "ubsan|%s|%s", ub_where, ub_kind);
                snprintf(r.what, sizeof(r.what), "%s", what);
            }
            if (rc == 1)
            {
                char fam[32];
                pc_fam(replay, fam, sizeof(fam));
                r.violation = 1;
                snprintf(r.key, sizeof(r.key), "%s|%s", alg_label(&pc), fam);
                snprintf(r.what, sizeof(r.what), "%s", what);
            }
            snprintf(r.outcome, sizeof(r.outcome), "%s", rc == 0 ? "equal" : rc == 1 ? "MISMATCH" : rc == 3 ? "UBSAN" : "refused");
            r.transitions = 1;
            r.trace_hash = fnv1a(what, strlen(what), FNV0);
        }
        mx_replay_print(&r);
        return 0;
    }

    mx_init(&cfg);
    mx_case_timeout_s = thorough ? 300 : 60;
    mx_note_skipped("aes_aesni.c (AES-NI block/CBC/GCM): not compiled in this build (no -maes), software AES is what is checked");
    mx_note_skipped("SHA-224, MD2, MD4, ARC4, IDEA, SEED, RC2: not enabled in crypto/cryptoConfig.h");
    mx_note_skipped("HMAC-SHA512: no such API in this build (psHmac supports md5/sha1/sha256/sha384)");
    slots = mmap(NULL, sizeof(slot_t) * NSLOT + 64, PROT_READ | PROT_WRITE, MAP_SHARED | MAP_ANONYMOUS, -1, 0);
    if (slots == MAP_FAILED)
    {
        perror("mmap");
        return 2;
    }
    slot_next = (volatile int *) (slots + NSLOT);
    build_bundles();
    for (i = 0; i < nb; i++)
    {
        order[i] = i;
    }
    qsort(order, (size_t) nb, sizeof(order[0]), cmp_cost);
    fprintf(stderr, "[C12 %s] %ld bundles\n", cfg.tier, nb);
    mx_parallel(nb, run_group, NULL);
    snprintf(extra, sizeof(extra), "\"bundles\": %ld", nb);
    return mx_finish(extra);
}
