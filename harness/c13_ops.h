/* c13_ops.h - the operations under test and their exact-arithmetic oracle for drv_c13 (private header) */
#ifndef C13_OPS_H
#define C13_OPS_H
#include "c13_univ.h"

enum { OP_ADD = 0, OP_SUB, OP_CMP, OP_MUL, OP_DIV, OP_MOD, OP_SQR, OP_MUL2, OP_DIV2, OP_MULD, OP_ADDD, OP_SUBD, OP_LSHD, OP_RSHD, OP_DIV2D,
       OP_COPY, OP_INITCOPY, OP_ABS, OP_CMPD, OP_BITS, OP_EXPORT, OP_IMPORT, OP_ASN, OP_RADIX, OP_MSETUP, OP_2EXPT,
       OP_MULMOD, OP_EXPTMOD, OP_INVMOD, OP_MREDUCE, OP_MNORM, OP_N };
static const char *opname[OP_N] = { "add", "sub", "cmp", "mul", "div", "mod", "sqr", "mul_2", "div_2", "mul_d", "add_d", "sub_d", "lshd", "rshd", "div_2d",
                                    "copy", "init_copy", "abs", "cmp_d", "count_bits", "export", "import", "read_asn", "read_radix", "mont_setup", "2expt",
                                    "mulmod", "exptmod", "invmod", "mont_reduce", "mont_norm" };

/* one case: operands are (digit count, index in the universe of that digit count, sign); al = aliasing pattern; v = variant */
typedef struct { int op, d1, i1, s1, d2, i2, s2, d3, i3, s3, al, v; } bc_t;

/* universe kinds */
enum { UK_R = 0, UK_U = 1, UK_M = 2 };
#define MAXD 100
static univ_t *ucache[3][MAXD];

static void build_moduli(univ_t *u, int d)
{
    dig_t *t = calloc((size_t) d + 2, 8);
    int i;
    uint64_t s = 0xD13ULL * 1000003ULL + (uint64_t) g_seed13 * 104729ULL + (uint64_t) d;
    memset(u, 0, sizeof(*u));
    u->d = d;
#define Z() memset(t, 0, (size_t) (d + 1) * 8)
#define ONES() do { for (i = 0; i < d; i++) t[i] = ALLONES; } while (0)
    ONES(); uni_add(u, t, d, "odd-allones");                     /* 2^k - 1 */
    ONES(); t[0] = ALLONES - 2; uni_add(u, t, d, "odd-allones-2");
    Z(); t[d - 1] = TOPBIT; t[0] |= 1; uni_add(u, t, d, "odd-topbit+1");      /* 2^k + 1, full bit length */
    for (i = 0; i < d; i++) t[i] = sm64(&s);
    t[d - 1] |= TOPBIT; t[0] |= 1; uni_add(u, t, d, "odd-seeded");
    for (i = 0; i < d; i++) t[i] = 0xAAAAAAAAAAAAAAAAULL;
    t[0] |= 1; uni_add(u, t, d, "odd-altA");
    Z(); t[d - 1] = 1; t[0] += 1; uni_add(u, t, d, "odd-powtop+1");            /* 2^k + 1, short top digit */
    for (i = 0; i < d; i++) t[i] = 0x5555555555555555ULL;
    uni_add(u, t, d, "odd-alt5");
    Z(); t[d - 1] = 1; t[0] = ALLONES; if (d == 1) t[0] = ALLONES - 4; uni_add(u, t, d, "odd-top+bottom");
    ONES(); t[0] = ALLONES - 1; uni_add(u, t, d, "even-allones-1");
    Z(); t[d - 1] = TOPBIT; uni_add(u, t, d, "even-topbit");
    for (i = 0; i < d; i++) t[i] = 0xAAAAAAAAAAAAAAAAULL;
    uni_add(u, t, d, "even-altA");
    Z(); t[d - 1] = ALLONES; if (d == 1) t[0] = ALLONES - 3; uni_add(u, t, d, "even-toponly");
    Z(); t[d - 1] = 1; if (d == 1) t[0] = 6; uni_add(u, t, d, "even-powtop");
    if (d == 1)
    {
        Z(); t[0] = 1; uni_add(u, t, d, "one");
        t[0] = 2; uni_add(u, t, d, "even-two");
        t[0] = 3; uni_add(u, t, d, "odd-three");
        t[0] = 5; uni_add(u, t, d, "odd-five");
    }
#undef Z
#undef ONES
    free(t);
}

static univ_t *get_univ(int kind, int d)
{
    if (d < 1 || d >= MAXD)
    {
        fprintf(stderr, "drv_c13: bad digit count %d\n", d);
        exit(2);
    }
    if (!ucache[kind][d])
    {
        ucache[kind][d] = calloc(1, sizeof(univ_t));
        if (kind == UK_M)
        {
            build_moduli(ucache[kind][d], d);
        }
        else
        {
            build_universe(ucache[kind][d], d, kind == UK_U);
        }
    }
    return ucache[kind][d];
}

static const uel_t *get_el(int kind, int d, int i)
{
    univ_t *u = get_univ(kind, d);
    if (i < 0 || i >= u->n)
    {
        fprintf(stderr, "drv_c13: element %d outside universe of %d digits (%d elements)\n", i, d, u->n);
        exit(2);
    }
    return &u->e[i];
}

static const dig_t DIGS[5] = { 0, 1, 2, ALLONES, TOPBIT };
#define NDIGS 5

static int shift_amounts(int d, int *out)
{
    int n = 0;
    out[n++] = 0; out[n++] = 1; out[n++] = 7; out[n++] = 8; out[n++] = 63; out[n++] = 64; out[n++] = 65; out[n++] = 127; out[n++] = 128;
    out[n++] = 64 * d - 1; out[n++] = 64 * d; out[n++] = 64 * d + 1; out[n++] = -1;
    return n;
}

static void uel_from_bn(uel_t *e, const BIGNUM *b)
{
    e->nd = (BN_num_bits(b) + 63) / 64;
    e->dg = calloc((size_t) e->nd + 1, 8);
    if (e->nd)
    {
        BN_bn2lebinpad(b, (unsigned char *) e->dg, e->nd * 8);
    }
    e->bn = BN_dup(b);
    BN_set_negative(e->bn, 0);
    snprintf(e->cls, sizeof(e->cls), "derived");
}
static void uel_free(uel_t *e)
{
    free(e->dg);
    BN_free(e->bn);
}

/* exponent universe of pstm_exptmod relative to the modulus P */
#define NEXPO 14
static const char *expo_name[NEXPO] = { "0", "1", "2", "3", "65537", "B-1", "B", "P-1", "P-2", "(P-1)/2", "alt5", "P", "P+1", "seeded" };
static void expo_make(uel_t *e, int idx, const uel_t *P)
{
    BIGNUM *x = BN_new();
    int d = P->nd > 0 ? P->nd : 1, i;
    switch (idx)
    {
    case 0: case 1: case 2: case 3: BN_set_word(x, (BN_ULONG) idx); break;
    case 4: BN_set_word(x, 65537); break;
    case 5: BN_set_word(x, ALLONES); break;
    case 6: BN_set_word(x, 1); BN_lshift(x, x, 64); break;
    case 7: BN_copy(x, P->bn); BN_sub_word(x, 1); break;
    case 8: BN_copy(x, P->bn); BN_sub_word(x, 2); break;
    case 9: BN_copy(x, P->bn); BN_sub_word(x, 1); BN_rshift1(x, x); break;
    case 10:
    {
        dig_t *t = calloc((size_t) d, 8);
        for (i = 0; i < d; i++) t[i] = 0x5555555555555555ULL;
        BN_lebin2bn((unsigned char *) t, d * 8, x);
        free(t);
        break;
    }
    case 11: BN_copy(x, P->bn); break;
    case 12: BN_copy(x, P->bn); BN_add_word(x, 1); break;
    default:
    {
        dig_t *t = calloc((size_t) d, 8);
        uint64_t s = 0xE13ULL + (uint64_t) g_seed13 * 31337ULL + (uint64_t) d;
        for (i = 0; i < d; i++) t[i] = sm64(&s);
        t[d - 1] &= ~TOPBIT;
        BN_lebin2bn((unsigned char *) t, d * 8, x);
        free(t);
    }
    }
    if (BN_is_negative(x))
    {
        BN_zero(x);
    }
    uel_from_bn(e, x);
    BN_free(x);
}

static void case_desc(const bc_t *c, char *out, size_t sz, const char *human)
{
    snprintf(out, sz, "op=%s;d1=%d;i1=%d;s1=%d;d2=%d;i2=%d;s2=%d;d3=%d;i3=%d;s3=%d;al=%d;v=%d (%s)", opname[c->op], c->d1, c->i1, c->s1, c->d2, c->i2, c->s2,
        c->d3, c->i3, c->s3, c->al, c->v, human);
}

static int case_parse(const char *s, bc_t *c)
{
    char on[24];
    int i;
    if (!strncmp(s, "bundle;", 7))
    {
        s += 7;
    }
    if (sscanf(s, "op=%23[^;];d1=%d;i1=%d;s1=%d;d2=%d;i2=%d;s2=%d;d3=%d;i3=%d;s3=%d;al=%d;v=%d", on, &c->d1, &c->i1, &c->s1, &c->d2, &c->i2, &c->s2, &c->d3,
            &c->i3, &c->s3, &c->al, &c->v) != 12)
    {
        return -1;
    }
    for (i = 0; i < OP_N; i++)
    {
        if (!strcmp(on, opname[i]))
        {
            c->op = i;
            return 0;
        }
    }
    return -1;
}

/* class part of a violation key */
static char g_cls[80];

#define RET_OK 0
#define RET_WRONG 1
#define RET_ERR_ALLOWED 2
#define RET_NA 3
#define RET_REPR 4
#define RET_ERR_UNEXPECTED 5
#define RET_STALE 6
#define RET_UNREDUCED 7

static int unexpected(int rc, char *what, const char *human)
{
    snprintf(what, 320, "%s: returned error %d although the operation is defined and all operands/results are far below PSTM_MAX_SIZE", human, rc);
    return RET_ERR_UNEXPECTED;
}

static int run_case(const bc_t *c, char *human, char *what)
{
    BIGNUM *A = BN_new(), *Bv = BN_new(), *E = BN_new(), *E2 = BN_new(), *T = BN_new();
    pstm_int a, b, m, out, out2;
    const uel_t *ea = NULL, *eb = NULL, *em = NULL;
    int r = RET_OK, rc = 0, na = 0, nb2 = 0, nm = 0, no = 0, no2 = 0, big;
    memset(&a, 0, sizeof(a)); memset(&b, 0, sizeof(b)); memset(&m, 0, sizeof(m)); memset(&out, 0, sizeof(out)); memset(&out2, 0, sizeof(out2));
    g_cls[0] = 0;
#define HUM(...) snprintf(human, 200, __VA_ARGS__)
#define DONE(x) do { r = (x); goto done; } while (0)

    switch (c->op)
    {
    /* ------------------------------------------------------------ pairs */
    case OP_ADD: case OP_SUB: case OP_MUL: case OP_CMP: case OP_DIV: case OP_MOD:
    {
        pstm_int *pa, *pb, *po;
        int same = c->al >= 3;
        ea = get_el(UK_U, c->d1, c->i1);
        eb = same ? ea : get_el(UK_U, c->d2, c->i2);
        snprintf(g_cls, sizeof(g_cls), "signs=%d%d|alias=%d", c->s1, same ? c->s1 : c->s2, c->al);
        HUM("%s %s%s[%d digits] , %s%s[%d digits] alias=%d variant=%d", opname[c->op], c->s1 ? "-" : "", ea->cls, ea->nd, (same ? c->s1 : c->s2) ? "-" : "",
            eb->cls, eb->nd, c->al, c->v);
        bn_signed(A, ea, c->s1);
        bn_signed(Bv, eb, same ? c->s1 : c->s2);
        hex_bn("a", A); hex_bn("b", Bv);
        big = ea->nd + eb->nd + 4;
        mk(&a, ea, c->s1, (c->al == 1 || c->al == 4) ? 0 : 2); na = 1;
        pa = &a;
        if (same)
        {
            pb = &a;
        }
        else
        {
            mk(&b, eb, c->s2, c->al == 2 ? 0 : 2); nb2 = 1;
            pb = &b;
        }
        if (c->al == 1 || c->al == 4)
        {
            po = &a;
        }
        else if (c->al == 2)
        {
            po = &b;
        }
        else
        {
            if (c->v & 1)
            {
                mk_junk(&out, big + 3, big + 2, 1);
            }
            else
            {
                mk_junk(&out, 1, 1, 0);
            }
            no = 1;
            po = &out;
        }
        switch (c->op)
        {
        case OP_ADD:
            rc = pstm_add(pa, pb, po);
            BN_add(E, A, Bv);
            break;
        case OP_SUB:
            rc = pstm_sub(pa, pb, po);
            BN_sub(E, A, Bv);
            break;
        case OP_MUL:
        {
            dig_t *pad = NULL;
            psSize_t padlen = 0;
            if ((c->v >> 1) == 1)
            {
                padlen = (psSize_t) ((ea->nd + eb->nd + 2) * 8); pad = malloc(padlen); memset(pad, 0x5A, padlen);
            }
            else if ((c->v >> 1) == 2)
            {
                padlen = 8; pad = malloc(padlen);
            }
            rc = pstm_mul_comba(NULL, pa, pb, po, (pstm_digit *) pad, padlen);
            free(pad);
            BN_mul(E, A, Bv, bnctx);
            break;
        }
        case OP_CMP:
        {
            int g1 = pstm_cmp(pa, pb), g2 = pstm_cmp_mag(pa, pb), e1 = BN_cmp(A, Bv), e2 = BN_ucmp(A, Bv);
            e1 = e1 < 0 ? PSTM_LT : e1 > 0 ? PSTM_GT : PSTM_EQ;
            e2 = e2 < 0 ? PSTM_LT : e2 > 0 ? PSTM_GT : PSTM_EQ;
            if (g_verbose13)
            {
                fprintf(stderr, "  pstm_cmp=%d (expected %d) pstm_cmp_mag=%d (expected %d)\n", g1, e1, g2, e2);
            }
            if (g1 != e1 || g2 != e2)
            {
                snprintf(what, 320, "%s: pstm_cmp=%d (exact %d), pstm_cmp_mag=%d (exact %d)", human, g1, e1, g2, e2);
                DONE(RET_WRONG);
            }
            DONE(RET_OK);
        }
        case OP_DIV:
        {
            pstm_int *pq = NULL, *pr = NULL;
            int mode = c->v >> 1; /* 0 both, 1 quotient only, 2 remainder only */
            if (c->al == 1) { pq = &a; pr = &b; }
            else if (c->al == 2) { pq = &b; pr = &a; }
            else
            {
                pq = &out;
                mk_junk(&out2, (c->v & 1) ? big : 1, (c->v & 1) ? big - 1 : 1, 1); no2 = 1;
                pr = &out2;
            }
            if (mode == 1) pr = NULL;
            if (mode == 2) pq = NULL;
            if (same && c->al == 4)
            {
                DONE(RET_NA);
            }
            rc = pstm_div(NULL, pa, pb, pq, pr);
            if (BN_is_zero(Bv))
            {
                if (rc >= 0)
                {
                    snprintf(what, 320, "%s: division by zero did not return an error (rc=%d)", human, rc);
                    DONE(RET_WRONG);
                }
                DONE(RET_ERR_ALLOWED);
            }
            if (rc < 0)
            {
                DONE(unexpected(rc, what, human));
            }
            BN_div(E, E2, A, Bv, bnctx);
            if (pq && (r = cmp_res(pq, E, what, human, "quotient")) != 0)
            {
                goto done;
            }
            if (pr && (r = cmp_res(pr, E2, what, human, "remainder")) != 0)
            {
                goto done;
            }
            DONE(RET_OK);
        }
        default: /* OP_MOD */
            if (BN_is_zero(Bv) || BN_is_negative(Bv))
            {
                if (BN_is_negative(Bv))
                {
                    DONE(RET_NA); /* modulus must be positive (0 <= c < b) */
                }
                rc = pstm_mod(NULL, pa, pb, po);
                if (rc >= 0)
                {
                    snprintf(what, 320, "%s: reduction modulo zero did not return an error (rc=%d)", human, rc);
                    DONE(RET_WRONG);
                }
                DONE(RET_ERR_ALLOWED);
            }
            rc = pstm_mod(NULL, pa, pb, po);
            BN_nnmod(E, A, Bv, bnctx);
            break;
        }
        if (rc < 0)
        {
            DONE(unexpected(rc, what, human));
        }
        DONE(cmp_res(po, E, what, human, "result"));
    }
    /* ------------------------------------------------------------ unary */
    case OP_SQR: case OP_MUL2: case OP_DIV2: case OP_MULD: case OP_ADDD: case OP_SUBD: case OP_LSHD: case OP_RSHD: case OP_DIV2D: case OP_COPY:
    case OP_INITCOPY: case OP_ABS: case OP_CMPD: case OP_BITS: case OP_EXPORT: case OP_IMPORT: case OP_ASN: case OP_RADIX: case OP_MSETUP:
    {
        pstm_int *po;
        ea = get_el(UK_U, c->d1, c->i1);
        snprintf(g_cls, sizeof(g_cls), "sign=%d|alias=%d", c->s1, c->al);
        HUM("%s %s%s[%d digits] alias=%d variant=%d", opname[c->op], c->s1 ? "-" : "", ea->cls, ea->nd, c->al, c->v);
        bn_signed(A, ea, c->s1);
        hex_bn("a", A);
        big = 2 * ea->nd + 6;
        mk(&a, ea, c->s1, c->al == 1 ? 0 : 1); na = 1;
        if (c->al == 1)
        {
            po = &a;
        }
        else
        {
            if (c->v & 1)
            {
                mk_junk(&out, big, big - 1, 1);
            }
            else
            {
                mk_junk(&out, 1, 1, 0);
            }
            no = 1;
            po = &out;
        }
        switch (c->op)
        {
        case OP_SQR:
        {
            dig_t *pad = NULL;
            psSize_t padlen = 0;
            if ((c->v >> 1) == 1)
            {
                padlen = (psSize_t) ((2 * ea->nd + 2) * 8); pad = malloc(padlen); memset(pad, 0x5A, padlen);
            }
            else if ((c->v >> 1) == 2)
            {
                padlen = 8; pad = malloc(padlen);
            }
            rc = pstm_sqr_comba(NULL, &a, po, (pstm_digit *) pad, padlen);
            free(pad);
            BN_sqr(E, A, bnctx);
            break;
        }
        case OP_MUL2:
            rc = pstm_mul_2(&a, po);
            BN_lshift1(E, A);
            break;
        case OP_DIV2:
            rc = pstm_div_2(&a, po);
            BN_copy(E, ea->bn); BN_rshift1(E, E); BN_set_negative(E, c->s1 && !BN_is_zero(E));
            break;
        case OP_MULD:
            rc = pstm_mul_d(&a, DIGS[c->v >> 1], po);
            BN_set_word(T, DIGS[c->v >> 1]); BN_mul(E, A, T, bnctx);
            break;
        case OP_ADDD:
            rc = pstm_add_d(NULL, &a, DIGS[c->v >> 1], po);
            BN_set_word(T, DIGS[c->v >> 1]); BN_add(E, A, T);
            break;
        case OP_SUBD:
            rc = pstm_sub_d(NULL, &a, DIGS[c->v >> 1], po);
            BN_set_word(T, DIGS[c->v >> 1]); BN_sub(E, A, T);
            break;
        case OP_LSHD:
        {
            static const int cnt[] = { 0, 1, 2, 5 };
            int k = cnt[(c->v >> 1) & 3];
            rc = pstm_lshd(&a, (uint16_t) k);
            BN_lshift(E, A, 64 * k);
            po = &a;
            /* pstm_lshd does not clamp: a zero shifted left keeps used = k zero digits; compare values after a clamp for zero only */
            if (ea->nd == 0)
            {
                pstm_clamp(&a);
            }
            break;
        }
        case OP_RSHD:
        {
            int cnt[4], k;
            cnt[0] = 0; cnt[1] = 1; cnt[2] = ea->nd > 0 ? ea->nd - 1 : 0; cnt[3] = ea->nd + 1;
            k = cnt[(c->v >> 1) & 3];
            pstm_rshd(&a, (uint16_t) k);
            BN_copy(E, ea->bn); BN_rshift(E, E, 64 * k); BN_set_negative(E, c->s1 && !BN_is_zero(E));
            po = &a;
            break;
        }
        case OP_DIV2D:
        {
            int sh[16], ns = shift_amounts(c->d1, sh), k = sh[(c->v >> 1) % ns];
            pstm_int *pr = NULL;
            (void) ns;
            if (c->al != 2)
            {
                mk_junk(&out2, (c->v & 1) ? big : 1, (c->v & 1) ? big - 1 : 1, 1); no2 = 1;
                pr = &out2;
            }
            rc = pstm_div_2d(NULL, &a, (int16_t) k, po, pr);
            if (rc < 0)
            {
                DONE(unexpected(rc, what, human));
            }
            if (k < 0)
            {
                k = 0;
            }
            HUM("div_2d %s%s[%d digits] shift=%d alias=%d variant=%d", c->s1 ? "-" : "", ea->cls, ea->nd, k, c->al, c->v);
            BN_copy(E, ea->bn); BN_rshift(E, E, k); BN_set_negative(E, c->s1 && !BN_is_zero(E));
            BN_copy(E2, ea->bn); BN_mask_bits(E2, k); BN_set_negative(E2, c->s1 && !BN_is_zero(E2));
            if ((r = cmp_res(po, E, what, human, "quotient")) != 0)
            {
                goto done;
            }
            if (pr && (r = cmp_res(pr, E2, what, human, "remainder")) != 0)
            {
                goto done;
            }
            DONE(RET_OK);
        }
        case OP_COPY:
            rc = pstm_copy(&a, po);
            BN_copy(E, A);
            break;
        case OP_INITCOPY:
            if (no)
            {
                pstm_clear(&out); no = 0;
            }
            rc = pstm_init_copy(NULL, &out, &a, (uint8_t) ((c->v >> 1) & 1));
            if (rc >= 0)
            {
                no = 1;
            }
            po = &out;
            BN_copy(E, A);
            break;
        case OP_ABS:
            rc = pstm_abs(&a, po);
            BN_copy(E, ea->bn);
            break;
        case OP_CMPD:
        {
            int g = pstm_cmp_d(&a, DIGS[c->v >> 1]), e;
            BN_set_word(T, DIGS[c->v >> 1]);
            e = BN_cmp(A, T);
            e = e < 0 ? PSTM_LT : e > 0 ? PSTM_GT : PSTM_EQ;
            if (g != e)
            {
                snprintf(what, 320, "%s: pstm_cmp_d(a, 0x%llx)=%d, exact %d", human, (unsigned long long) DIGS[c->v >> 1], g, e);
                DONE(RET_WRONG);
            }
            DONE(RET_OK);
        }
        case OP_BITS:
        {
            int g1 = pstm_count_bits(&a), g2 = pstm_unsigned_bin_size(&a), e1 = BN_num_bits(A), e2 = BN_num_bytes(A);
            if (g1 != e1 || g2 != e2)
            {
                snprintf(what, 320, "%s: count_bits=%d (exact %d) unsigned_bin_size=%d (exact %d)", human, g1, e1, g2, e2);
                DONE(RET_WRONG);
            }
            DONE(RET_OK);
        }
        case OP_EXPORT:
        {
            int nbytes = BN_num_bytes(A), mode = c->v >> 1, i;
            unsigned char *eb8 = malloc((size_t) nbytes + 16), *gb = malloc((size_t) nbytes + 16), *ga = NULL;
            memset(gb, 0xA5, (size_t) nbytes + 16);
            BN_bn2bin(A, eb8);
            if (mode == 0)
            {
                rc = pstm_to_unsigned_bin(NULL, &a, gb + 8);
            }
            else if (mode == 1)
            {
                rc = pstm_to_unsigned_bin_nr(NULL, &a, gb + 8);
                for (i = 0; i < nbytes / 2; i++)
                {
                    unsigned char t8 = eb8[i]; eb8[i] = eb8[nbytes - 1 - i]; eb8[nbytes - 1 - i] = t8;
                }
            }
            else
            {
                ga = pstm_to_unsigned_bin_alloc(NULL, &a);
                rc = ga ? 0 : -1;
                if (ga)
                {
                    memcpy(gb + 8, ga, (size_t) nbytes);
                    psFree(ga, NULL);
                }
            }
            if (rc < 0)
            {
                free(eb8); free(gb);
                DONE(unexpected(rc, what, human));
            }
            r = RET_OK;
            if (memcmp(gb + 8, eb8, (size_t) nbytes))
            {
                snprintf(what, 320, "%s: exported bytes differ from the exact big-endian encoding (%d bytes)", human, nbytes);
                r = RET_WRONG;
            }
            for (i = 0; i < 8; i++)
            {
                if (gb[i] != 0xA5 || gb[8 + nbytes + i] != 0xA5)
                {
                    snprintf(what, 320, "%s: export wrote outside the %d bytes of pstm_unsigned_bin_size", human, nbytes);
                    r = RET_WRONG;
                }
            }
            free(eb8); free(gb);
            goto done;
        }
        case OP_IMPORT:
        {
            static const int lzs[] = { 0, 1, 9 };
            int lz = lzs[(c->v >> 2) % 3], kind = (c->v >> 1) & 1, nbytes = BN_num_bytes(A), len = nbytes + lz;
            unsigned char *buf = calloc((size_t) len + 1, 1);
            BN_bn2bin(A, buf + lz);
            if (no)
            {
                pstm_clear(&out); no = 0;
            }
            rc = kind ? pstm_init(NULL, &out) : pstm_init_for_read_unsigned_bin(NULL, &out, (psSize_t) len);
            if (rc >= 0)
            {
                no = 1;
                rc = pstm_read_unsigned_bin(&out, buf, (psSize_t) len);
            }
            free(buf);
            po = &out;
            BN_copy(E, ea->bn);
            HUM("import %s[%d digits] leading-zero-bytes=%d init=%s", ea->cls, ea->nd, lz, kind ? "pstm_init" : "pstm_init_for_read_unsigned_bin");
            break;
        }
        case OP_ASN:
        {
            int nbytes = BN_num_bytes(A), pad = (nbytes == 0 || (BN_is_bit_set(A, nbytes * 8 - 1))) ? 1 : 0, vl = nbytes + pad, hl, tot;
            unsigned char *buf = calloc((size_t) vl + 8, 1);
            const unsigned char *p;
            buf[0] = 0x02;
            if (vl < 128) { buf[1] = (unsigned char) vl; hl = 2; }
            else if (vl < 256) { buf[1] = 0x81; buf[2] = (unsigned char) vl; hl = 3; }
            else { buf[1] = 0x82; buf[2] = (unsigned char) (vl >> 8); buf[3] = (unsigned char) vl; hl = 4; }
            BN_bn2bin(A, buf + hl + pad);
            tot = hl + vl;
            p = buf;
            if (no)
            {
                pstm_clear(&out); no = 0;
            }
            rc = pstm_read_asn(NULL, &p, (psSize_t) tot, &out);
            if (rc >= 0)
            {
                no = 1;
                if (p != buf + tot)
                {
                    snprintf(what, 320, "%s: pstm_read_asn advanced %ld bytes instead of %d", human, (long) (p - buf), tot);
                    free(buf);
                    DONE(RET_WRONG);
                }
            }
            free(buf);
            po = &out;
            BN_copy(E, ea->bn);
            break;
        }
        case OP_RADIX:
        {
            char *h = BN_bn2hex(ea->bn), *s = malloc(strlen(h) + 3);
            size_t i;
            snprintf(s, strlen(h) + 3, "%s%s", c->s1 ? "-" : "", h);
            if ((c->v >> 1) & 1)
            {
                for (i = 0; s[i]; i++)
                {
                    if (s[i] >= 'A' && s[i] <= 'F') s[i] = (char) (s[i] - 'A' + 'a');
                }
            }
            if (no)
            {
                pstm_clear(&out); no = 0;
            }
            rc = pstm_init_size(NULL, &out, (psSize_t) (ea->nd + 2));
            if (rc >= 0)
            {
                no = 1;
                rc = pstm_read_radix(NULL, &out, s, (psSize_t) strlen(s), 16);
            }
            OPENSSL_free(h); free(s);
            po = &out;
            BN_copy(E, A);
            break;
        }
        default: /* OP_MSETUP */
        {
            pstm_digit rho = 0;
            if (ea->nd == 0)
            {
                DONE(RET_NA);
            }
            rc = pstm_montgomery_setup(&a, &rho);
            if (!(ea->dg[0] & 1))
            {
                if (rc >= 0)
                {
                    snprintf(what, 320, "%s: even modulus accepted by pstm_montgomery_setup", human);
                    DONE(RET_WRONG);
                }
                DONE(RET_ERR_ALLOWED);
            }
            if (rc < 0)
            {
                DONE(unexpected(rc, what, human));
            }
            if ((dig_t) (rho * ea->dg[0]) != ALLONES)
            {
                snprintf(what, 320, "%s: rho=0x%llx is not -1/m mod 2^64 (m0=0x%llx)", human, (unsigned long long) rho, (unsigned long long) ea->dg[0]);
                DONE(RET_WRONG);
            }
            DONE(RET_OK);
        }
        }
        if (rc < 0)
        {
            DONE(unexpected(rc, what, human));
        }
        DONE(cmp_res(po, E, what, human, "result"));
    }
    case OP_2EXPT:
    {
        int bexp = c->v;
        snprintf(g_cls, sizeof(g_cls), "alias=%d", c->al);
        HUM("2expt b=%d", bexp);
        mk_junk(&out, (c->al & 1) ? 40 : 1, (c->al & 1) ? 39 : 1, 1); no = 1;
        rc = pstm_2expt(&out, (int16_t) bexp);
        if (bexp < 0)
        {
            BN_zero(E);
        }
        else
        {
            BN_set_word(E, 1); BN_lshift(E, E, bexp);
        }
        if (rc < 0)
        {
            if (bexp / 64 < 128)
            {
                DONE(unexpected(rc, what, human));
            }
            DONE(RET_ERR_ALLOWED);
        }
        DONE(cmp_res(&out, E, what, human, "result"));
    }
    /* ---------------------------------------------------------- triples */
    case OP_MULMOD:
    {
        pstm_int *po;
        ea = get_el(UK_R, c->d1, c->i1); eb = get_el(UK_R, c->d2, c->i2); em = get_el(UK_M, c->d3, c->i3);
        snprintf(g_cls, sizeof(g_cls), "modulus=%s|alias=%d", BN_is_odd(em->bn) ? "odd" : "even", c->al);
        HUM("mulmod %s[%d] * %s[%d] mod %s[%d] alias=%d", ea->cls, ea->nd, eb->cls, eb->nd, em->cls, em->nd, c->al);
        hex_bn("a", ea->bn); hex_bn("b", eb->bn); hex_bn("m", em->bn);
        mk(&a, ea, 0, c->al == 1 ? 0 : 2); na = 1;
        mk(&b, eb, 0, c->al == 2 ? 0 : 2); nb2 = 1;
        mk(&m, em, 0, 1); nm = 1;
        if (c->al == 1) po = &a;
        else if (c->al == 2) po = &b;
        else
        {
            mk_junk(&out, (c->v & 1) ? em->nd + 5 : 1, (c->v & 1) ? em->nd + 4 : 1, 1); no = 1;
            po = &out;
        }
        rc = pstm_mulmod(NULL, &a, &b, &m, po);
        if (rc < 0)
        {
            DONE(unexpected(rc, what, human));
        }
        BN_mod_mul(E, ea->bn, eb->bn, em->bn, bnctx);
        DONE(cmp_res(po, E, what, human, "result"));
    }
    case OP_INVMOD:
    {
        pstm_int *po;
        int inv_exists;
        ea = get_el(UK_R, c->d1, c->i1); em = get_el(UK_M, c->d3, c->i3);
        snprintf(g_cls, sizeof(g_cls), "modulus=%s|alias=%d", BN_is_odd(em->bn) ? "odd" : "even", c->al);
        HUM("invmod %s[%d] mod %s[%d] alias=%d", ea->cls, ea->nd, em->cls, em->nd, c->al);
        hex_bn("a", ea->bn); hex_bn("m", em->bn);
        if (BN_is_one(em->bn))
        {
            DONE(RET_NA); /* modulus 1: every value is congruent to 0, no convention to check */
        }
        mk(&a, ea, 0, c->al == 1 ? 0 : 2); na = 1;
        mk(&m, em, 0, 1); nm = 1;
        if (c->al == 1) po = &a;
        else
        {
            mk_junk(&out, (c->v & 1) ? em->nd + 5 : 1, (c->v & 1) ? em->nd + 4 : 1, 1); no = 1;
            po = &out;
        }
        rc = pstm_invmod(NULL, &a, &m, po);
        BN_gcd(T, ea->bn, em->bn, bnctx);
        inv_exists = BN_is_one(T);
        if (!inv_exists)
        {
            if (rc >= 0)
            {
                snprintf(what, 320, "%s: no inverse exists (gcd != 1) but pstm_invmod returned success", human);
                hex_pstm("got", po);
                DONE(RET_WRONG);
            }
            DONE(RET_ERR_ALLOWED);
        }
        if (rc < 0)
        {
            /* the inverse exists: an error is only a completeness gap (e.g. the 4096-iteration sanity bound) */
            DONE(RET_ERR_ALLOWED);
        }
        if (!BN_mod_inverse(E, ea->bn, em->bn, bnctx))
        {
            abort();
        }
        r = cmp_res(po, E, what, human, "inverse");
        if (r == RET_WRONG)
        {
            /* congruent to the inverse but outside [0, m)?  For a >= m (operand not reduced) any representative is accepted;
             * for a < m it is reported as its own violation class */
            BIGNUM *G = BN_new();
            BN_lebin2bn((unsigned char *) po->dp, po->used * 8, G);
            BN_set_negative(G, po->sign == PSTM_NEG);
            BN_nnmod(G, G, em->bn, bnctx);
            if (!BN_cmp(G, E))
            {
                if (BN_ucmp(ea->bn, em->bn) >= 0)
                {
                    r = RET_ERR_ALLOWED;
                }
                else
                {
                    char tmp[320];
                    r = RET_UNREDUCED;
                    snprintf(tmp, sizeof(tmp), "%.150s: returned value is congruent to the inverse but not reduced into [0, m) (%d digits for a %d-digit modulus)", human,
                        po->used, em->nd);
                    snprintf(what, 320, "%s", tmp);
                }
            }
            BN_free(G);
        }
        goto done;
    }
    case OP_EXPTMOD:
    {
        uel_t ex;
        pstm_int x, *po;
        int bits, supported, g_ge_p;
        em = get_el(UK_M, c->d3, c->i3);
        ea = get_el(UK_R, c->d1, c->i1);
        expo_make(&ex, c->i2, em);
        snprintf(g_cls, sizeof(g_cls), "modulus=%s|alias=%d", BN_is_odd(em->bn) ? "odd" : "even", c->al);
        HUM("exptmod %s[%d] ^ %s mod %s[%d] alias=%d", ea->cls, ea->nd, expo_name[c->i2], em->cls, em->nd, c->al);
        hex_bn("g", ea->bn); hex_bn("x", ex.bn); hex_bn("p", em->bn);
        bits = BN_num_bits(em->bn);
        /* documented: x positive and < p, p positive, odd, 512/1024/1536/2048/3072/4096 bits */
        supported = (bits == 512 || bits == 1024 || bits == 1536 || bits == 2048 || bits == 3072 || bits == 4096) && BN_is_odd(em->bn)
            && !BN_is_zero(ex.bn) && BN_ucmp(ex.bn, em->bn) < 0;
        g_ge_p = BN_ucmp(ea->bn, em->bn) >= 0;
        mk(&a, ea, 0, c->al == 1 ? (em->nd > ea->nd ? em->nd - ea->nd + 1 : 1) : 2); na = 1;
        mk(&x, &ex, 0, 1);
        mk(&m, em, 0, 1); nm = 1;
        if (c->al == 1) po = &a;
        else
        {
            mk_junk(&out, (c->v & 1) ? em->nd + 5 : 1, (c->v & 1) ? em->nd + 4 : 1, 0); no = 1;
            po = &out;
        }
        rc = pstm_exptmod(NULL, &a, &x, &m, po);
        pstm_clear(&x);
        if (rc < 0)
        {
            uel_free(&ex);
            if (supported)
            {
                snprintf(what, 320, "%s: returned error %d for inputs inside the documented range (odd %d-bit modulus, 0 < x < p)", human, rc, bits);
                DONE(RET_ERR_UNEXPECTED);
            }
            DONE(RET_ERR_ALLOWED);
        }
        BN_mod_exp(E, ea->bn, ex.bn, em->bn, bnctx);
        uel_free(&ex);
        r = cmp_res(po, E, what, human, "result");
        (void) g_ge_p;
        goto done;
    }
    case OP_MREDUCE:
    {
        pstm_digit rho = 0;
        dig_t *pad = NULL;
        psSize_t padlen = 0;
        uel_t prod;
        em = get_el(UK_M, c->d3, c->i3);
        ea = get_el(UK_R, c->d1, c->i1); eb = get_el(UK_R, c->d2, c->i2);
        snprintf(g_cls, sizeof(g_cls), "modulus=%s|alias=%d", BN_is_odd(em->bn) ? "odd" : "even", c->al);
        HUM("mont_reduce (%s[%d] * %s[%d]) / B^%d mod %s[%d] variant=%d", ea->cls, ea->nd, eb->cls, eb->nd, em->nd, em->cls, em->nd, c->v);
        if (!BN_is_odd(em->bn) || BN_is_one(em->bn) || BN_ucmp(ea->bn, em->bn) >= 0 || BN_ucmp(eb->bn, em->bn) >= 0)
        {
            DONE(RET_NA); /* Montgomery reduction is defined for odd m and inputs < m*B^n */
        }
        BN_mul(T, ea->bn, eb->bn, bnctx);
        uel_from_bn(&prod, T);
        hex_bn("x*y", T); hex_bn("m", em->bn);
        mk(&a, &prod, 0, 2 * em->nd + 2 - prod.nd); na = 1;
        uel_free(&prod);
        mk(&m, em, 0, 1); nm = 1;
        if (pstm_montgomery_setup(&m, &rho) < 0)
        {
            DONE(unexpected(-1, what, human));
        }
        if ((c->v >> 1) == 1)
        {
            padlen = (psSize_t) ((2 * em->nd + 1) * 8); pad = malloc(padlen); memset(pad, 0x5A, padlen);
        }
        else if ((c->v >> 1) == 2)
        {
            padlen = 8; pad = malloc(padlen);
        }
        rc = pstm_montgomery_reduce(NULL, &a, &m, rho, (pstm_digit *) pad, padlen);
        free(pad);
        if (rc < 0)
        {
            DONE(unexpected(rc, what, human));
        }
        /* expected = x*y * B^-n mod m */
        BN_set_word(E2, 1); BN_lshift(E2, E2, 64 * em->nd);
        if (!BN_mod_inverse(E2, E2, em->bn, bnctx))
        {
            abort();
        }
        BN_mod_mul(E, T, E2, em->bn, bnctx);
        DONE(cmp_res(&a, E, what, human, "result"));
    }
    case OP_MNORM:
    {
        em = get_el(UK_M, c->d3, c->i3);
        snprintf(g_cls, sizeof(g_cls), "modulus=%s|alias=%d", BN_is_odd(em->bn) ? "odd" : "even", c->al);
        HUM("mont_norm B^%d mod %s[%d]", em->nd, em->cls, em->nd);
        hex_bn("m", em->bn);
        if (!BN_is_odd(em->bn) || BN_is_one(em->bn))
        {
            DONE(RET_NA); /* Montgomery arithmetic is defined for odd moduli > 1 only */
        }
        mk(&m, em, 0, 1); nm = 1;
        mk_junk(&out, (c->v & 1) ? em->nd + 5 : em->nd + 1, (c->v & 1) ? em->nd + 4 : 1, 0); no = 1;
        rc = pstm_montgomery_calc_normalization(&out, &m);
        if (rc < 0)
        {
            DONE(unexpected(rc, what, human));
        }
        BN_set_word(E, 1); BN_lshift(E, E, 64 * em->nd); BN_nnmod(E, E, em->bn, bnctx);
        DONE(cmp_res(&out, E, what, human, "result"));
    }
    }
done:
    if (na) pstm_clear(&a);
    if (nb2) pstm_clear(&b);
    if (nm) pstm_clear(&m);
    if (no) pstm_clear(&out);
    if (no2) pstm_clear(&out2);
    BN_free(A); BN_free(Bv); BN_free(E); BN_free(E2); BN_free(T);
    return r;
#undef HUM
#undef DONE
}

#endif
