/* world.c - in-memory client/server world around real MatrixSSL sessions */
#include "mxv.h"
#include <stdarg.h>

#include "testkeys/RSA/2048_RSA.h"
#include "testkeys/RSA/2048_RSA_KEY.h"
#include "testkeys/RSA/2048_RSA_CA.h"
#include "testkeys/RSA/1024_RSA_CA.h"
#include "testkeys/EC/256_EC.h"
#include "testkeys/EC/256_EC_KEY.h"
#include "testkeys/EC/256_EC_CA.h"
#include "testkeys/EC/ED25519.h"
#include "testkeys/EC/ED25519_KEY.h"
#include "testkeys/EC/ED25519_CA.h"
#include "testkeys/ECDH_RSA/256_ECDH-RSA.h"
#include "testkeys/ECDH_RSA/256_ECDH-RSA_KEY.h"
#include "testkeys/ECDH_RSA/ALL_ECDH-RSA_CAS.h"
#include "testkeys/PSK/psk.h"
#include "testkeys/PSK/tls13_psk.h"

int world_cert_cb_mode = 0;
static int opened;

const char *ver_name(int v)
{
    static const char *n[] = { "?", "tls11", "tls12", "tls13", "dtls10", "dtls12", "multi" };
    return (v >= 0 && v < V_NVER) ? n[v] : "?";
}
int32 ver_flag(int v)
{
    switch (v)
    {
    case V_TLS11: return SSL_FLAGS_TLS_1_1;
    case V_TLS12: return SSL_FLAGS_TLS_1_2;
    case V_TLS13: return SSL_FLAGS_TLS_1_3;
    case V_DTLS10: return SSL_FLAGS_TLS_1_1 | SSL_FLAGS_DTLS;
    case V_DTLS12: return SSL_FLAGS_TLS_1_2 | SSL_FLAGS_DTLS;
    default: return 0;
    }
}
int ver_is_dtls(int v) { return v == V_DTLS10 || v == V_DTLS12; }
const char *kx_name(int kx)
{
    static const char *n[] = { "psk", "rsa", "ecdhe_rsa", "ecdhe_ecdsa", "ecdh_ecdsa", "ecdh_rsa", "13rsa", "13ecdsa", "13psk", "13ed25519" };
    return n[kx];
}
void cfg_desc(const wcfg_t *c, char *out, size_t n)
{
    snprintf(out, n, "%s%s%s/%s/%04x%s%s%s%s", ver_name(c->ver), c->cver ? "+c" : "", c->cver ? ver_name(c->cver) : "",
        kx_name(c->kx), c->suite, c->client_auth ? "/cauth" : "", c->early_data == 2 ? (c->early_send ? "/early-off-at-server+0rtt" : "/early-off-at-server") : c->early_data ? (c->early_send ? "/early+0rtt" : "/early") : "",
        c->resume13 ? "/tick+resumed" : c->tickets == 2 ? "/tick-asked-only" : c->tickets ? "/tick" : "", c->bad_server_cert ? "/badcert" : c->bad_server_sig ? "/badsig" : c->bogus_psk ? "/unknown-psk-offered" : c->hrr ? "/hrr" : "");
}

static uint16_t default_suite(int ver, int kx)
{
    switch (kx)
    {
    case KX_PSK: return TLS_PSK_WITH_AES_128_CBC_SHA;
    case KX_RSA: return TLS_RSA_WITH_AES_128_CBC_SHA;
    case KX_ECDHE_RSA: return TLS_ECDHE_RSA_WITH_AES_128_CBC_SHA;
    case KX_ECDHE_ECDSA: return TLS_ECDHE_ECDSA_WITH_AES_128_CBC_SHA;
    case KX_ECDH_ECDSA: return TLS_ECDH_ECDSA_WITH_AES_128_CBC_SHA;
    case KX_ECDH_RSA: return TLS_ECDH_RSA_WITH_AES_128_CBC_SHA;
    default: return TLS_AES_128_GCM_SHA256;
    }
    (void) ver;
}

int cfg_supported(const wcfg_t *c)
{
    int is13kx = c->kx >= KX_13_RSA;
    if (c->ver == V_TLS13 && !is13kx) return 0;
    if (c->ver != V_TLS13 && c->ver != V_MULTI && is13kx) return 0;
    return 1;
}

int world_open(void)
{
    if (!opened)
    {
        if (matrixSslOpen() < 0)
        {
            return -1;
        }
        opened = 1;
    }
    return 0;
}

void world_tracef(world_t *w, const char *fmt, ...)
{
    char tmp[512];
    va_list ap;
    int n;
    va_start(ap, fmt);
    n = vsnprintf(tmp, sizeof(tmp), fmt, ap);
    va_end(ap);
    if (n > 0)
    {
        buf_add(&w->trace, tmp, (size_t) (n < (int) sizeof(tmp) ? n : (int) sizeof(tmp) - 1));
    }
}
uint64_t world_trace_hash(const world_t *w)
{
    return fnv1a(w->trace.p, w->trace.len, FNV0);
}

static int32 cert_cb(ssl_t *ssl, psX509Cert_t *cert, int32 alert)
{
    side_t *s = (side_t *) ssl->userPtr;
    (void) cert;
    if (s)
    {
        s->cert_cb_calls++;
        s->cert_cb_alert = alert;
    }
    if (world_cert_cb_mode == 1)
    {
        return 0;
    }
    return alert;
}

static int load_side_keys(world_t *w, int side)
{
    const wcfg_t *c = &w->cfg;
    sslKeys_t *k = NULL;
    int rc = 0;
    if (matrixSslNewKeys(&k, NULL) < 0)
    {
        return -1;
    }
    w->s[side].keys = k;
    switch (c->kx)
    {
    case KX_PSK:
    {
        size_t i;
        for (i = 0; i < PSK_HEADER_TABLE_COUNT; i++)
        {
            rc = matrixSslLoadPsk(k, PSK_HEADER_TABLE[i].key, sizeof(PSK_HEADER_TABLE[i].key),
                    PSK_HEADER_TABLE[i].id, sizeof(PSK_HEADER_TABLE[i].id));
            if (rc < 0)
            {
                return rc;
            }
        }
        break;
    }
    case KX_13_PSK:
    {
        psTls13SessionParams_t sp;
        memset(&sp, 0, sizeof(sp));
        sp.maxEarlyData = c->early_data ? 16384 : 0;
        sp.cipherId = c->early_data ? TLS_AES_128_GCM_SHA256 : 0;
        rc = matrixSslLoadTls13Psk(k, g_tls13_test_psk_256, 32, g_tls13_test_psk_id_sha256,
                sizeof(g_tls13_test_psk_id_sha256), &sp);
        break;
    }
    case KX_RSA:
    case KX_ECDHE_RSA:
    case KX_13_RSA:
        if (side == 1 || c->client_auth)
        {
            rc = matrixSslLoadRsaKeysMem(k, RSA2048, sizeof(RSA2048), RSA2048KEY, sizeof(RSA2048KEY),
                    (side == 0 && c->bad_server_cert) ? RSA1024CA : RSA2048CA,
                    (side == 0 && c->bad_server_cert) ? sizeof(RSA1024CA) : sizeof(RSA2048CA));
        }
        else
        {
            rc = matrixSslLoadRsaKeysMem(k, NULL, 0, NULL, 0,
                    c->bad_server_cert ? RSA1024CA : RSA2048CA,
                    c->bad_server_cert ? sizeof(RSA1024CA) : sizeof(RSA2048CA));
        }
        break;
    case KX_ECDHE_ECDSA:
    case KX_ECDH_ECDSA:
    case KX_13_ECDSA:
        if (side == 1 || c->client_auth)
        {
            rc = matrixSslLoadEcKeysMem(k, EC256, sizeof(EC256), EC256KEY, sizeof(EC256KEY),
                    (side == 0 && c->bad_server_cert) ? RSA1024CA : EC256CA,
                    (side == 0 && c->bad_server_cert) ? sizeof(RSA1024CA) : sizeof(EC256CA));
        }
        else
        {
            rc = matrixSslLoadEcKeysMem(k, NULL, 0, NULL, 0,
                    c->bad_server_cert ? RSA1024CA : EC256CA,
                    c->bad_server_cert ? sizeof(RSA1024CA) : sizeof(EC256CA));
        }
        break;
    case KX_ECDH_RSA:
        if (side == 1 || c->client_auth)
        {
            rc = matrixSslLoadEcKeysMem(k, ECDHRSA256, sizeof(ECDHRSA256), ECDHRSA256KEY, sizeof(ECDHRSA256KEY),
                    ECDHRSACAS, sizeof(ECDHRSACAS));
        }
        else
        {
            rc = matrixSslLoadEcKeysMem(k, NULL, 0, NULL, 0, ECDHRSACAS, sizeof(ECDHRSACAS));
        }
        break;
    case KX_13_ED25519:
    {
        matrixSslLoadKeysOpts_t o;
        memset(&o, 0, sizeof(o));
        o.key_type = PS_ED25519;
        if (side == 1 || c->client_auth)
        {
            rc = matrixSslLoadKeysMem(k, ED25519, sizeof(ED25519), ED25519_KEY, sizeof(ED25519_KEY),
                    ED25519CA, sizeof(ED25519CA), &o);
        }
        else
        {
            rc = matrixSslLoadKeysMem(k, NULL, 0, NULL, 0, ED25519CA, sizeof(ED25519CA), &o);
        }
        break;
    }
    }
    if (rc < 0)
    {
        return rc;
    }
    if (side == 1 && c->bad_server_sig)
    {
        /* a malicious real endpoint: the bytes it sends are not the ones it loaded (the sender never re-checks its unparsedBin) */
        psX509Cert_t *ic = k->identity ? k->identity->cert : NULL;
        if (!ic || !ic->unparsedBin || ic->binLen < 64)
        {
            return -1;
        }
        ic->unparsedBin[ic->binLen - 20] ^= 0x04;
    }
    if (side == 0 && c->bogus_psk)
    {
        static const unsigned char bk[32] = { 0xb0, 0x90, 0x55, 1, 2, 3, 4, 5, 6, 7, 8, 9, 10, 11, 12, 13, 14, 15, 16, 17, 18, 19, 20, 21, 22, 23, 24, 25, 26, 27, 28, 29 };
        static const unsigned char bid[32] = "mxv-psk-the-server-never-heard-o";
        psTls13SessionParams_t sp;
        memset(&sp, 0, sizeof(sp));
        rc = matrixSslLoadTls13Psk(k, bk, 32, bid, sizeof(bid), &sp);
        if (rc < 0)
        {
            return rc;
        }
    }
    if (side == 1 && c->tickets == 1)    /* tickets == 2: the client asks for a ticket, the server has no ticket keys */
    {
        static const unsigned char name[16] = "mxv-ticket-key-1";
        static const unsigned char sk[32] = { 1, 2, 3, 4, 5, 6, 7, 8, 9, 10, 11, 12, 13, 14, 15, 16, 17, 18, 19, 20, 21, 22, 23, 24, 25, 26, 27, 28, 29, 30, 31, 32 };
        static const unsigned char hk[32] = { 32, 31, 30, 29, 28, 27, 26, 25, 24, 23, 22, 21, 20, 19, 18, 17, 16, 15, 14, 13, 12, 11, 10, 9, 8, 7, 6, 5, 4, 3, 2, 1 };
        rc = matrixSslLoadSessionTicketKeys(k, name, sk, 32, hk, 32);
        if (rc < 0)
        {
            return rc;
        }
    }
    return 0;
}

int world_new_sessions(world_t *w)
{
    const wcfg_t *c = &w->cfg;
    sslSessOpts_t so, co;
    psCipher16_t suites[4];
    int ns = 0, rc;
    int cver = c->cver ? c->cver : c->ver;
    sslCertCb_t cb = c->no_cert_cb ? NULL : cert_cb;

    memset(&so, 0, sizeof(so));
    memset(&co, 0, sizeof(co));
    so.versionFlag = ver_flag(c->ver);
    co.versionFlag = ver_flag(cver);
    if (c->ocsp)
    {
        co.OCSPstapling = 1;
    }
    if (cver == V_MULTI)
    {
        static const psProtocolVersion_t all[] = { v_tls_1_3, v_tls_1_2, v_tls_1_1 };
        if (matrixSslSessOptsSetClientTlsVersions(&co, all, 3) < 0)
        {
            return -1;
        }
    }
    if (c->dtls_cmulti)
    {
        co.versionFlag = SSL_FLAGS_TLS_1_2 | SSL_FLAGS_TLS_1_1 | SSL_FLAGS_DTLS;
    }
    so.userPtr = &w->s[1];
    co.userPtr = &w->s[0];
    if (c->tickets)
    {
        co.ticketResumption = 1;
    }
    if (c->ems_off)
    {
        co.extendedMasterSecret = -1;
    }
    if (c->ec384)
    {
        co.ecFlags = IS_SECP384R1;
    }
    if (c->hrr)
    {
        uint16_t cg[2] = { namedgroup_secp256r1, namedgroup_secp384r1 }, sg[1] = { namedgroup_secp384r1 };
        if (matrixSslSessOptsSetKeyExGroups(&co, cg, 2, 1) < 0 || matrixSslSessOptsSetKeyExGroups(&so, sg, 1, 1) < 0)
        {
            return -1;
        }
    }
    if (c->early_data == 1)
    {
        so.tls13SessionMaxEarlyData = 16384;
    }
    suites[ns++] = c->suite ? c->suite : default_suite(c->ver, c->kx);
    if (cver == V_MULTI && c->ver != V_TLS13)
    {
        suites[ns++] = TLS_AES_128_GCM_SHA256;
    }
    if (ver_is_dtls(c->ver))
    {
        matrixDtlsSetPmtu(c->pmtu ? c->pmtu : -1); /* global: must be set before the sessions allocate their buffers */
    }
    rc = matrixSslNewServerSession(&w->s[1].ssl, w->s[1].keys, c->client_auth ? cb : NULL, &so);
    if (rc < 0)
    {
        return rc;
    }
    {
        tlsExtension_t *ext = NULL;
        if (c->sni_ext)
        {
            unsigned char *e = NULL;
            int32 el = 0;
            if (matrixSslNewHelloExtension(&ext, NULL) < 0)
            {
                return PS_MEM_FAIL;
            }
            if (matrixSslCreateSNIext(NULL, (unsigned char *) "localhost", 9, &e, &el) < 0)
            {
                matrixSslDeleteHelloExtension(ext);
                return PS_MEM_FAIL;
            }
            rc = matrixSslLoadHelloExtension(ext, e, (uint32) el, EXT_SNI);
            psFree(e, NULL);
            if (rc < 0)
            {
                matrixSslDeleteHelloExtension(ext);
                return rc;
            }
        }
        rc = matrixSslNewClientSession(&w->s[0].ssl, w->s[0].keys, w->sid, suites, (uint8_t) ns, cb, c->expected_name, ext, NULL, &co);
        if (ext)
        {
            matrixSslDeleteHelloExtension(ext);
        }
    }
    if (rc < 0)
    {
        return rc;
    }
    if (c->early_send && matrixSslGetMaxEarlyData(w->s[0].ssl) > 0)
    {
        /* honest 0-RTT: one early-data record behind the ClientHello */
        static const unsigned char early[] = "0-RTT early application data";
        rc = matrixSslEncodeToOutdata(w->s[0].ssl, (unsigned char *) early, (uint32) sizeof(early) - 1);
        world_tracef(w, "0:encode-early %d -> %d\n", (int) sizeof(early) - 1, rc);
        if (rc > 0)
        {
            buf_add(&w->s[0].submitted, early, sizeof(early) - 1);
        }
    }
    return 0;
}

int world_init(world_t *w, const wcfg_t *cfg)
{
    int rc;
    memset(w, 0, sizeof(*w));
    w->cfg = *cfg;
    w->s[1].is_server = 1;
    buf_init(&w->trace);
    buf_init(&w->s[0].delivered); buf_init(&w->s[1].delivered);
    buf_init(&w->s[0].submitted); buf_init(&w->s[1].submitted);
    env_reset(cfg->seed);
    if (world_open() < 0)
    {
        return -1;
    }
    if ((rc = load_side_keys(w, 0)) < 0 || (rc = load_side_keys(w, 1)) < 0)
    {
        return rc;
    }
    if (matrixSslNewSessionId(&w->sid, NULL) < 0)
    {
        return -1;
    }
    if (cfg->resume13)
    {
        /* prelude: a first, complete connection whose server session offers early data; its ticket is kept in w->sid */
        wcfg_t real = w->cfg;
        w->cfg.early_data = real.early_data ? 1 : 0;
        w->cfg.early_send = 0;
        if ((rc = world_new_sessions(w)) < 0)
        {
            return rc;
        }
        world_pump(w, 200);
        if (!(world_is_complete(w, 0) && world_is_complete(w, 1)))
        {
            return -1;
        }
        world_app_send(w, 1, (const unsigned char *) "prelude", 7);
        world_pump(w, 50);
        world_free_sessions(w);
        world_wire_clear(w, 0);
        world_wire_clear(w, 1);
        buf_clear(&w->trace);
        w->cfg = real;
    }
    return world_new_sessions(w);
}

void world_wire_clear(world_t *w, int dir)
{
    wire_t *q = &w->wire[dir];
    int i;
    for (i = 0; i < q->n; i++)
    {
        free(q->r[(q->head + i) % W_MAXREC].p);
    }
    q->head = q->n = 0;
}

void world_free_sessions(world_t *w)
{
    int i;
    for (i = 0; i < 2; i++)
    {
        if (w->s[i].ssl)
        {
            matrixSslDeleteSession(w->s[i].ssl);
            w->s[i].ssl = NULL;
        }
        world_wire_clear(w, i);
        w->s[i].complete = w->s[i].closed = w->s[i].err_rc = 0;
        w->s[i].got_alert_lvl = w->s[i].got_alert_desc = 0;
        w->s[i].n_deliveries = w->s[i].deliv_incomplete = 0;
        buf_clear(&w->s[i].delivered);
        buf_clear(&w->s[i].submitted);
    }
}

void world_free(world_t *w)
{
    int i;
    world_free_sessions(w);
    if (w->sid)
    {
        matrixSslDeleteSessionId(w->sid);
        w->sid = NULL;
    }
    for (i = 0; i < 2; i++)
    {
        if (w->s[i].keys)
        {
            matrixSslDeleteKeys(w->s[i].keys);
            w->s[i].keys = NULL;
        }
        buf_free(&w->s[i].delivered);
        buf_free(&w->s[i].submitted);
    }
    buf_free(&w->trace);
}

void world_wire_push(world_t *w, int dir, const unsigned char *p, int len)
{
    wire_t *q = &w->wire[dir];
    rec_t *r;
    if (q->n >= W_MAXREC)
    {
        world_tracef(w, "WIRE-OVERFLOW %d\n", dir);
        return;
    }
    r = &q->r[(q->head + q->n) % W_MAXREC];
    r->p = h_malloc((size_t) len + 1);
    memcpy(r->p, p, (size_t) len);
    r->p[len] = 0; /* spare marker byte for drivers */
    r->len = len;
    q->n++;
}
rec_t world_wire_pop(world_t *w, int dir)
{
    wire_t *q = &w->wire[dir];
    rec_t r = { NULL, 0 };
    if (q->n == 0)
    {
        return r;
    }
    r = q->r[q->head];
    q->head = (q->head + 1) % W_MAXREC;
    q->n--;
    return r;
}

int world_is_complete(world_t *w, int side)
{
    return w->s[side].ssl && matrixSslHandshakeIsComplete(w->s[side].ssl) == PS_TRUE;
}

static void note_sent_rc(world_t *w, int side, int rc)
{
    side_t *s = &w->s[side];
    if (rc == MATRIXSSL_HANDSHAKE_COMPLETE)
    {
        s->complete = 1;
        world_tracef(w, "%d:complete(sent)\n", side);
    }
    else if (rc == MATRIXSSL_REQUEST_CLOSE)
    {
        s->closed = 1;
        world_tracef(w, "%d:close-after-send\n", side);
    }
    else if (rc < 0)
    {
        world_tracef(w, "%d:sent-err %d\n", side, rc);
    }
}

void world_collect(world_t *w, int side)
{
    side_t *s = &w->s[side];
    unsigned char *out;
    int32 n;
    int guard = 0;
    if (!s->ssl || w->no_autocollect)
    {
        return;
    }
    if (ver_is_dtls(w->cfg.ver))
    {
        /* Only flush NEW output.  Calling matrixDtlsGetOutdata with an empty
           outbuf means "retransmit timer fired" and is a separate action
           (world_dtls_timeout). */
        n = 0;
        while (s->ssl->outlen > 0 && (n = matrixDtlsGetOutdata(s->ssl, &out)) > 0 && guard++ < 64)
        {
            int rc;
            world_wire_push(w, side, out, n);
            rc = matrixDtlsSentData(s->ssl, (uint32) n);
            note_sent_rc(w, side, rc);
        }
        if (n < 0)
        {
            world_tracef(w, "%d:getoutdata-err %d\n", side, n);
        }
        return;
    }
    while ((n = matrixSslGetOutdata(s->ssl, &out)) > 0 && guard++ < 64)
    {
        int off = 0, rc;
        while (off + 5 <= n)
        {
            int rl = 5 + ((out[off + 3] << 8) | out[off + 4]);
            if (off + rl > n)
            {
                break;
            }
            if (out[off] == SSL_RECORD_TYPE_ALERT && rl == 7)
            {
                s->sent_alert_lvl = out[off + 5];
                s->sent_alert_desc = out[off + 6];
                world_tracef(w, "%d:sent-plain-alert %d/%d\n", side, out[off + 5], out[off + 6]);
            }
            world_wire_push(w, side, out + off, rl);
            off += rl;
        }
        if (off < n)
        {
            world_wire_push(w, side, out + off, n - off);
        }
        rc = matrixSslSentData(s->ssl, (uint32) n);
        note_sent_rc(w, side, rc);
    }
    if (n < 0)
    {
        world_tracef(w, "%d:getoutdata-err %d\n", side, n);
    }
}

/* Feed raw bytes to a side the way an application would; returns the last
 * rc of matrixSslReceivedData/ProcessedData (or <0 error). */
int world_feed(world_t *w, int side, const unsigned char *p, int len)
{
    side_t *s = &w->s[side];
    int off = 0, rc = 0, guard = 0;
    if (!s->ssl)
    {
        return PS_FAILURE;
    }
    w->actions++;
    while (off < len || len == 0)
    {
        unsigned char *rb, *pt = NULL;
        uint32 ptlen = 0;
        int32 cap = (w->cfg.feed_of_size && off > 0) ? matrixSslGetReadbufOfSize(s->ssl, 5000, &rb) : matrixSslGetReadbuf(s->ssl, &rb);
        int n;
        if (cap <= 0)
        {
            world_tracef(w, "%d:readbuf-err %d\n", side, cap);
            s->last_rc = cap;
            if (!s->err_rc)
            {
                s->err_rc = cap ? cap : -1;
            }
            return cap ? cap : -1;
        }
        if (s->ssl->inlen < 0 || s->ssl->inlen > s->ssl->insize || rb < s->ssl->inbuf || cap > s->ssl->insize)
        {
            /* matrixSslGetReadbuf handed out a region outside inbuf: an application would now recv() out of bounds */
            w->corrupt = 1;
            world_tracef(w, "%d:READBUF-OUT-OF-BOUNDS inlen %d insize %d\n", side, s->ssl->inlen, s->ssl->insize);
            if (!s->err_rc)
            {
                s->err_rc = -9998;
            }
            return -9998;
        }
        n = len - off < cap ? len - off : cap;
        if (w->cfg.feed_of_size && off == 0 && n > 7)
        {
            n = 7;
        }
        memcpy(rb, p + off, (size_t) n);
        off += n;
        rc = matrixSslReceivedData(s->ssl, (uint32) n, &pt, &ptlen);
        for (;;)
        {
            if (++guard > 4096)
            {
                world_tracef(w, "%d:LOOP-GUARD\n", side);
                return -9999;
            }
            s->last_rc = rc;
            if (rc == MATRIXSSL_APP_DATA || rc == MATRIXSSL_APP_DATA_COMPRESSED)
            {
                int comp = world_is_complete(w, side);
                world_tracef(w, "%d:app %u %016llx c%d\n", side, ptlen,
                    (unsigned long long) fnv1a(pt, ptlen, FNV0), comp);
                buf_add(&s->delivered, pt, ptlen);
                if (s->n_deliveries < 64)
                {
                    s->dlog[s->n_deliveries].len = ptlen;
                    s->dlog[s->n_deliveries].hash = fnv1a(pt, ptlen, FNV0);
                }
                s->n_deliveries++;
                if (comp)
                {
                    s->complete = 1;
                }
                else
                {
                    s->deliv_incomplete++;
                }
                rc = matrixSslProcessedData(s->ssl, &pt, &ptlen);
                continue;
            }
            if (rc == MATRIXSSL_RECEIVED_ALERT)
            {
                int lvl = ptlen >= 1 ? pt[0] : -1, desc = ptlen >= 2 ? pt[1] : -1;
                s->got_alert_lvl = lvl;
                s->got_alert_desc = desc;
                world_tracef(w, "%d:alert %d/%d\n", side, lvl, desc);
                if (lvl == SSL_ALERT_LEVEL_FATAL || desc == SSL_ALERT_CLOSE_NOTIFY)
                {
                    s->closed = 1;
                }
                rc = matrixSslProcessedData(s->ssl, &pt, &ptlen);
                continue;
            }
            break;
        }
        if (rc == MATRIXSSL_HANDSHAKE_COMPLETE)
        {
            s->complete = 1;
            world_tracef(w, "%d:complete\n", side);
        }
        else if (rc == MATRIXSSL_REQUEST_SEND)
        {
            if (ver_is_dtls(w->cfg.ver) && !w->no_autocollect)
            {
                /* DTLS contract: REQUEST_SEND with an empty outbuf means "a duplicate flight was seen,
                   call matrixDtlsGetOutdata to rebuild and resend ours" */
                unsigned char *out;
                int32 n;
                int g2 = 0;
                while ((n = matrixDtlsGetOutdata(s->ssl, &out)) > 0 && g2++ < 64)
                {
                    int rc2;
                    world_wire_push(w, side, out, n);
                    rc2 = matrixDtlsSentData(s->ssl, (uint32) n);
                    note_sent_rc(w, side, rc2);
                }
            }
            else
            {
                world_collect(w, side);
            }
        }
        else if (rc == MATRIXSSL_REQUEST_CLOSE)
        {
            s->closed = 1;
            world_tracef(w, "%d:request-close\n", side);
        }
        else if (rc < 0)
        {
            if (!s->err_rc)
            {
                s->err_rc = rc;
            }
            world_tracef(w, "%d:err %d\n", side, rc);
            /* an application would now flush any pending alert and close */
            world_collect(w, side);
            return rc;
        }
        else if (rc != MATRIXSSL_REQUEST_RECV && rc != MATRIXSSL_SUCCESS)
        {
            world_tracef(w, "%d:rc %d\n", side, rc);
        }
        if (len == 0)
        {
            break;
        }
    }
    /* responses may be pending even if rc was not REQUEST_SEND (e.g. after complete) */
    world_collect(w, side);
    return rc;
}

/* DTLS retransmission timer fired on side: rebuild and emit the last flight */
int world_dtls_timeout(world_t *w, int side)
{
    side_t *s = &w->s[side];
    unsigned char *out;
    int32 n;
    int guard = 0, units = 0;
    if (!s->ssl)
    {
        return -1;
    }
    w->actions++;
    while ((n = matrixDtlsGetOutdata(s->ssl, &out)) > 0 && guard++ < 64)
    {
        int rc;
        world_wire_push(w, side, out, n);
        units++;
        rc = matrixDtlsSentData(s->ssl, (uint32) n);
        note_sent_rc(w, side, rc);
    }
    world_tracef(w, "%d:timeout -> %d units rc %d\n", side, units, n);
    return n < 0 ? n : units;
}

int world_deliver(world_t *w, int dir)
{
    rec_t r = world_wire_pop(w, dir);
    int rc;
    if (!r.p)
    {
        return -1;
    }
    rc = world_feed(w, 1 - dir, r.p, r.len);
    free(r.p);
    return rc;
}

int world_pump(world_t *w, int max_units)
{
    int n = 0, progress = 1;
    world_collect(w, 0);
    world_collect(w, 1);
    while (progress && n < max_units)
    {
        int d;
        progress = 0;
        for (d = 0; d < 2; d++)
        {
            while (w->wire[d].n > 0 && n < max_units)
            {
                world_deliver(w, d);
                n++;
                progress = 1;
            }
        }
    }
    return n;
}

int world_handshake(world_t *w)
{
    world_pump(w, 200);
    return (world_is_complete(w, 0) && world_is_complete(w, 1)) ? 0 : -1;
}

int world_app_send(world_t *w, int side, const unsigned char *p, int len)
{
    side_t *s = &w->s[side];
    int rc;
    if (!s->ssl)
    {
        return PS_FAILURE;
    }
    w->actions++;
    rc = matrixSslEncodeToOutdata(s->ssl, (unsigned char *) p, (uint32) len);
    world_tracef(w, "%d:encode %d -> %d\n", side, len, rc);
    if (rc > 0)
    {
        buf_add(&s->submitted, p, (size_t) len);
    }
    world_collect(w, side);
    return rc;
}

int world_encode_probe(world_t *w, int side)
{
    unsigned char b = 'P';
    return world_app_send(w, side, &b, 1);
}

int world_close(world_t *w, int side)
{
    int rc;
    if (!w->s[side].ssl)
    {
        return PS_FAILURE;
    }
    w->actions++;
    rc = matrixSslEncodeClosureAlert(w->s[side].ssl);
    world_tracef(w, "%d:closure -> %d\n", side, rc);
    world_collect(w, side);
    return rc;
}
