/* drv_c11 - C11: signatures verify iff valid; public-key results standard; bad keys rejected.
 *
 * Bounded exhaustive enumeration (no sampling) of
 *   - RSA PKCS#1 v1.5 and RSASSA-PSS encoded messages reachable by editing a valid
 *     encoding (every byte position x value alphabet, named DigestInfo / padding /
 *     trailer variants, signature representative variants), each turned into a REAL
 *     signature with the test key's private exponent (OpenSSL BN, CRT) and handed to
 *     every MatrixSSL verification entry point;
 *   - ECDSA (r,s) range grid and DER shapes on every enabled curve, Ed25519 RFC 8032
 *     vectors with S+kL / every single bit flip;
 *   - every truncation of every signature / key blob / point in exact-size heap
 *     buffers (the driver is built with ASan+UBSan: an over-read kills the case);
 *   - invalid EC points / DH public values / X25519 low-order values into the import
 *     + shared-secret functions;
 *   - positive direction: MatrixSSL sign / encrypt / decrypt / ECDH / X25519 / DH against
 *     OpenSSL.
 * Oracle = OpenSSL 3 libcrypto on the same inputs + the encoding rules of RFC 8017 /
 * FIPS 186-4 / RFC 8032 computed by the harness itself (both must agree, otherwise the
 * case is a harness-internal error, never a finding).
 *
 * Every group of cases runs in a forked child of the worker (results go to the shared
 * statistics through mx_record); if the child dies (sanitizer report, signal, watchdog)
 * the worker records a crash finding for exactly the case that was running and resumes
 * the group behind it. */
#include "c11_misc.h"

typedef struct { case_t base; long lo, hi; int mode; } grp_t;
enum { M_RANGE = 0, M_BYTE, M_GRID, M_SALT, M_EDBIT };

#define MAXGRP 6000
static grp_t groups[MAXGRP];
static long ngroups;

static int run_case(const case_t *c, mx_result_t *r)
{
    switch (c->f)
    {
    case F_RSA15: return run_rsa15(c, r);
    case F_PSS:   return run_pss(c, r);
    case F_ECDSA: return run_ecdsa(c, r);
    case F_ED:    return run_ed(c, r);
    case F_POINT: return run_point(c, r);
    case F_DH:    return run_dh(c, r);
    case F_POS:   return run_pos(c, r);
    case F_BLOB:  return run_blob(c, r);
    }
    return NA;
}

/* stable class name of a case for crash keys */
static void case_class(const case_t *c, char *out, size_t n)
{
    const char *nm = var_name[c->v];
    if (c->v == V_NAMED || c->v == V_SIG || c->v == V_DER)
    {
        long i = c->i;
        if (c->f == F_RSA15 && c->v == V_NAMED && i >= 0 && i < N_NNAMED) nm = rsa15_named[i];
        else if (c->f == F_PSS && c->v == V_NAMED && i >= 0 && i < P_NNAMED) nm = pss_named[i];
        else if ((c->f == F_RSA15 || c->f == F_PSS) && c->v == V_SIG && i >= 0 && i < S_NSIG) nm = rsa_sig_named[i];
        else if (c->f == F_ECDSA && c->v == V_DER && i >= 0 && i < D_NDER) nm = ecdsa_der_named[i];
        else if (c->f == F_POINT && i >= 0 && i < Q_NPT) nm = point_named[i];
        else if (c->f == F_ED && i >= 0 && i < X_NED) nm = ed_named[i];
        else if (c->f == F_DH && i >= 0 && i < Y_NDH) nm = dh_named[i];
    }
    snprintf(out, n, "%s|%s", fam_name[c->f], nm);
}

/* ------------------------------------------------------------ sandboxing */
typedef struct { volatile long seq; volatile int have; case_t cur; } sbx_t;
static sbx_t *sbx;
static long resume_after_seq;   /* child: skip cases with sequence number <= this */
static long emit_seq;

static void emit(const case_t *c)
{
    mx_result_t r;
    int rc;
    long seq = emit_seq++;
    if (seq <= resume_after_seq || mx_deadline_hit())
    {
        return;
    }
    sbx->cur = *c;
    sbx->seq = seq;
    sbx->have = 1;
    memset(&r, 0, sizeof(r));
    alarm((unsigned) mx_case_timeout_s);
    rc = run_case(c, &r);
    alarm(0);
    sbx->have = 0;
    if (rc == NA)
    {
        return;
    }
    mx_record(&r);
}

static void group_cases(const grp_t *g)
{
    case_t c = g->base;
    long i, j;
    emit_seq = 0;
    switch (g->mode)
    {
    case M_RANGE:
        for (i = g->lo; i < g->hi; i++)
        {
            c.i = i;
            emit(&c);
        }
        break;
    case M_BYTE:
    {
        /* positions [lo,hi) of the valid EM x value alphabet */
        static rtest_t t;
        rsakey_t *K = rsa_get(c.k);
        const unsigned char *em;
        int all, pss = c.f == F_PSS, rc;
        if (!K) return;
        rc = pss ? pss_build(K, c.h, V_NAMED, P_VALID, &t) : rsa15_build(K, c.h, V_NAMED, N_VALID, &t);
        if (rc != 0) return;
        em = pss ? t.em : t.emc;
        all = g_thorough && (pss ? (c.k <= 2048 && c.h == H_SHA256) : (c.k <= 2048 || c.h == H_SHA256));
        for (i = g->lo; i < g->hi && i < K->k; i++)
        {
            unsigned char vals[256];
            /* RSA-4096: the full alphabet on the structured part (block type, first padding bytes, separator,
               DigestInfo, digest = last 96 bytes), the 5-value alphabet on the interior FF padding */
            int nv = byte_values(em[i], all && (c.k < 4096 || i < 12 || i >= K->k - 96), pss, vals);
            for (j = 0; j < nv; j++)
            {
                c.i = i * 256 + vals[j];
                emit(&c);
            }
        }
        break;
    }
    case M_GRID:
        for (i = g->lo; i < g->hi; i++)
        {
            for (j = 0; j < NGS; j++)
            {
                c.i = i * 16 + j;
                emit(&c);
            }
        }
        break;
    case M_SALT:
        for (i = 0; i < 9; i++)
        {
            for (j = 0; j < 9; j++)
            {
                c.i = i * 16 + j;
                emit(&c);
            }
        }
        break;
    case M_EDBIT:
        for (i = g->lo; i < g->hi; i++)
        {
            for (j = 0; j < 1024; j++)
            {
                c.i = i * 4096 + j;
                emit(&c);
            }
        }
        break;
    }
}

static void run_group(long gi, void *unused)
{
    const grp_t *g = &groups[gi];
    long after = -1;
    int tries = 0;
    (void) unused;
    if (!sbx)
    {
        sbx = mmap(NULL, sizeof(*sbx), PROT_READ | PROT_WRITE, MAP_SHARED | MAP_ANONYMOUS, -1, 0);
        if (sbx == MAP_FAILED)
        {
            perror("mmap");
            exit(2);
        }
    }
    for (;;)
    {
        pid_t pid;
        int st = 0;
        sbx->have = 0;
        fflush(NULL);
        pid = fork();
        if (pid < 0)
        {
            perror("fork");
            exit(2);
        }
        if (pid == 0)
        {
            resume_after_seq = after;
            if (!getenv("C11_VERBOSE"))
            {
                /* sanitizer reports of deliberately provoked faults would flood the log: each one is
                   reproduced with its full report by --desc / --replay */
                int fd = open("/dev/null", O_WRONLY);
                if (fd >= 0)
                {
                    dup2(fd, 2);
                    close(fd);
                }
            }
            group_cases(g);
            fflush(NULL);
            _exit(0);
        }
        while (waitpid(pid, &st, 0) < 0 && errno == EINTR)
        {
        }
        if (WIFEXITED(st) && WEXITSTATUS(st) == 0)
        {
            return;
        }
        /* the child died: attribute it to the case that was running */
        {
            mx_result_t r;
            char md[96], cls[96];
            memset(&r, 0, sizeof(r));
            r.violation = 1;
            r.nontrivial = 1;
            if (!sbx->have)
            {
                r.violation = 2;
                snprintf(r.key, sizeof(r.key), "harness|group-child-died-outside-case");
                snprintf(r.what, sizeof(r.what), "group %ld child ended with status 0x%x outside of any case", gi, st);
                snprintf(r.desc, sizeof(r.desc), "group=%ld", gi);
                snprintf(r.outcome, sizeof(r.outcome), "INTERNAL");
                mx_record(&r);
                return;
            }
            case_mdesc((const case_t *) &sbx->cur, md, sizeof(md));
            case_class((const case_t *) &sbx->cur, cls, sizeof(cls));
            if (WIFSIGNALED(st) && WTERMSIG(st) == SIGALRM)
            {
                snprintf(r.key, sizeof(r.key), "hang|%s", cls);
                snprintf(r.outcome, sizeof(r.outcome), "HANG");
            }
            else
            {
                snprintf(r.key, sizeof(r.key), "crash|%s", cls);
                snprintf(r.outcome, sizeof(r.outcome), "CRASH");
            }
            snprintf(r.desc, sizeof(r.desc), "%s (process died while running this case)", md);
            snprintf(r.what, sizeof(r.what), "the process died (%s %d: sanitizer report / memory fault / watchdog) inside MatrixSSL while running case %s; re-run with --desc to see the report",
                WIFSIGNALED(st) ? "signal" : "exit status", WIFSIGNALED(st) ? WTERMSIG(st) : WEXITSTATUS(st), md);
            mx_record(&r);
            after = sbx->seq;
        }
        if (++tries > 4000)
        {
            return;
        }
    }
}

/* ------------------------------------------------------------- group table */
static void add_group(int f, int k, int h, int v, int mode, long lo, long hi)
{
    grp_t *g;
    if (ngroups >= MAXGRP)
    {
        fprintf(stderr, "c11: group table full\n");
        exit(2);
    }
    g = &groups[ngroups++];
    g->base.f = f; g->base.k = k; g->base.h = h; g->base.v = v; g->base.i = 0;
    g->mode = mode; g->lo = lo; g->hi = hi;
}

static const int ecdsa_combo[][2] = { { 192, H_SHA256 }, { 192, H_SHA1 }, { 224, H_SHA256 }, { 256, H_SHA256 }, { 256, H_SHA512 }, { 256, H_SHA1 },
                                      { 384, H_SHA384 }, { 384, H_SHA256 }, { 521, H_SHA512 }, { 521, H_SHA256 } };

static void build_groups(void)
{
    static const int rsabits[4] = { 1024, 2048, 3072, 4096 };
    static const int ecbits[5] = { 192, 224, 256, 384, 521 };
    int nk = 4, ki, h, j;
    long p;

    /* cheap families first so that a capped run still covers all of them */
    for (j = 0; j < 5; j++)
    {
        int b = ecbits[j];
        if (!ec_get(b)) continue;
        add_group(F_POINT, b, -1, V_NAMED, M_RANGE, 0, Q_NPT);
        add_group(F_POINT, b, -1, V_TRUNC, M_RANGE, 0, 2 * EK[j].size + 1);
        add_group(F_POS, b, -1, V_ECDH, M_RANGE, 0, 4);
        add_group(F_POS, b, -1, V_ALGMIX, M_RANGE, 0, 3);
        add_group(F_BLOB, b, -1, V_TRUNC, M_RANGE, 0, EK[j].derlen + 1);
    }
#ifdef USE_DH
    add_group(F_DH, 1024, -1, V_NAMED, M_RANGE, 0, Y_NDH);
    add_group(F_DH, 2048, -1, V_NAMED, M_RANGE, 0, Y_NDH);
    add_group(F_DH, 2049, -1, V_NAMED, M_RANGE, 0, Y_NDH);
    add_group(F_BLOB, 31024, -1, V_TRUNC, M_RANGE, 0, DHPARAM1024_SIZE + 1);
    add_group(F_BLOB, 32048, -1, V_TRUNC, M_RANGE, 0, DHPARAM2048_SIZE + 1);
#endif
#ifdef USE_X25519
    add_group(F_POS, 0, -1, V_X25519, M_RANGE, 0, 28);
#endif
#ifdef USE_ED25519
    for (j = 0; j < ED_NVEC; j++)
    {
        add_group(F_ED, j, -1, V_NAMED, M_RANGE, 0, X_NED);
        add_group(F_ED, j, -1, V_TRUNC, M_RANGE, 0, 64);
        add_group(F_ED, j, -1, V_BIT, M_EDBIT, 0, 2);
        add_group(F_ED, j, -1, V_BIT, M_EDBIT, 2, 4);
        add_group(F_POS, j, -1, V_EDSIGN, M_RANGE, 0, 1);
    }
    add_group(F_BLOB, 25519, -1, V_TRUNC, M_RANGE, 0, ED25519_KEY_SIZE + 1);
#endif
    for (j = 0; j < (int) (sizeof(ecdsa_combo) / sizeof(ecdsa_combo[0])); j++)
    {
        int b = ecdsa_combo[j][0];
        h = ecdsa_combo[j][1];
        if (!ec_get(b) || !HI[h].enabled) continue;
        for (p = 0; p < NGR; p += 3)
        {
            add_group(F_ECDSA, b, h, V_GRID, M_GRID, p, p + 3);
        }
        add_group(F_ECDSA, b, h, V_DER, M_RANGE, 0, D_NDER);
        add_group(F_ECDSA, b, h, V_MSG, M_RANGE, 0, HI[h].len);
        add_group(F_ECDSA, b, h, V_NAMED, M_RANGE, 0, 3);
        add_group(F_ECDSA, b, h, V_TRUNC, M_RANGE, 0, 80);
        add_group(F_ECDSA, b, h, V_TRUNC, M_RANGE, 80, 160);
        add_group(F_POS, b, h, V_ECSIGN, M_RANGE, 0, 6);
    }
    for (ki = 0; ki < nk; ki++)
    {
        int bits = rsabits[ki], k = bits / 8;
        if (!rsa_get(bits)) continue;
        add_group(F_BLOB, bits, -1, V_TRUNC, M_RANGE, 0, RK[ki].derlen / 2);
        add_group(F_BLOB, bits, -1, V_TRUNC, M_RANGE, RK[ki].derlen / 2, RK[ki].derlen + 1);
        add_group(F_POS, bits, -1, V_RSAENC, M_RANGE, 0, rsa_lens_n);
        add_group(F_POS, bits, -1, V_RSALONG, M_RANGE, 0, 18);
        add_group(F_POS, bits, -1, V_RSADEC, M_RANGE, 0, rsa_lens_n);
        add_group(F_POS, bits, -1, V_RSADEC, M_RANGE, 100, C_END);
        for (h = 0; h < H_N; h++)
        {
            if (!HI[h].enabled) continue;
            add_group(F_RSA15, bits, h, V_NAMED, M_RANGE, 0, N_NNAMED);
            add_group(F_RSA15, bits, h, V_SIG, M_RANGE, 0, S_NSIG);
            add_group(F_POS, bits, h, V_RSASIGN, M_RANGE, 0, 3);
            if (g_thorough || h == H_SHA256 || h == H_RAW36)
            {
                add_group(F_RSA15, bits, h, V_TRUNC, M_RANGE, 0, k);
            }
#ifdef USE_PKCS1_PSS
            if (h != H_RAW36)
            {
                add_group(F_PSS, bits, h, V_SALT, M_SALT, 0, 0);
                add_group(F_PSS, bits, h, V_NAMED, M_RANGE, 0, P_NNAMED);
                add_group(F_PSS, bits, h, V_SIG, M_RANGE, 0, S_NSIG);
                add_group(F_POS, bits, h, V_PSSSIGN, M_RANGE, 0, 4);
                if (g_thorough || h == H_SHA256)
                {
                    add_group(F_PSS, bits, h, V_TRUNC, M_RANGE, 0, k);
                }
            }
#endif
        }
    }
    /* the bulk: every byte position of EM x value alphabet; largest keys first (longest groups) */
    for (ki = nk - 1; ki >= 0; ki--)
    {
        int bits = rsabits[ki], k = bits / 8, step = bits >= 3072 ? 4 : 16;
        if (!rsa_get(bits)) continue;
        for (h = 0; h < H_N; h++)
        {
            if (!HI[h].enabled) continue;
            if (!g_thorough && bits >= 3072 && h != H_SHA256) continue; /* quick: big keys with sha256 only */
            for (p = 0; p < k; p += step)
            {
                add_group(F_RSA15, bits, h, V_BYTE, M_BYTE, p, p + step);
#ifdef USE_PKCS1_PSS
                if (h != H_RAW36)
                {
                    add_group(F_PSS, bits, h, V_BYTE, M_BYTE, p, p + step);
                }
#endif
            }
        }
    }
}

int main(int argc, char **argv)
{
    mx_cfg_t cfg;
    const char *replay;
    static char extra[512];

    memset(&cfg, 0, sizeof(cfg));
    cfg.property = "C11";
    cfg.level = "exploration";
    cfg.sanitizer_is_oracle = 1;
    cfg.engine = "deterministic enumeration of edited encodings, each signed with the real private exponent (OpenSSL BN, CRT), "
                 "fed to every MatrixSSL verification entry point in exact-size heap buffers under ASan+UBSan; reference = OpenSSL 3 libcrypto "
                 "+ RFC 8017 / FIPS 186-4 / RFC 8032 rules recomputed by the harness; every group runs in a forked sandbox";
    cfg.rule = "case = (scheme, key size or curve, hash, variant class, variant index); all cases distinct by construction; non-trivial = "
               "a MatrixSSL verdict (accept/reject, secret/refusal, produced signature) was compared with the reference. "
               "RSA PKCS#1 v1.5: accept <=> siglen == k and s < n and s^e mod n is byte-identical to the unique EMSA-PKCS1-v1_5 encoding (checked by the "
               "harness and by OpenSSL EVP_PKEY_verify, which must agree). DON'T CARE (either verdict passes): DigestInfo whose AlgorithmIdentifier "
               "omits the NULL parameters but is otherwise canonical (RFC 8017 A.2.4: verifiers must be prepared to meet both forms). "
               "PSS: accept <=> OpenSSL verifies with the same hash, MGF1 hash and exact salt length (siglen != k is invalid, RFC 8017 8.1.2 step 1). "
               "ECDSA: the tolerant unsigned reading (r,s) of the blob is judged by OpenSSL ECDSA_do_verify: MatrixSSL accept => (r,s) valid; "
               "strict-DER valid => MatrixSSL must accept; valid (r,s) in a non-DER wrapper (BER lengths, padding zeros, missing sign octet, trailing bytes) "
               "is DON'T CARE. Ed25519: accept <=> OpenSSL (RFC 8032 5.1.7, S < L); DON'T CARE: small-order public key (implementations may refuse). "
               "EC points: a secret may only be produced if (x,y) satisfies the curve equation; canonical valid points must be accepted with the reference "
               "secret; valid residues in a non-canonical form (coordinate >= p, extra leading zeros) are DON'T CARE but the secret must then be correct. "
               "DH: secret <=> 2 <= y <= p-2. X25519: low-order inputs (all-zero secret) must be refused, everything else equals OpenSSL.";
    cfg.assumptions[0] = "test keys: testkeys/RSA/{1024,2048,3072,4096}_RSA_KEY, testkeys/EC/{192,224,256,384,521}_EC_KEY, ED25519_KEY, RFC 8032 7.1 vectors, testkeys/DH 1024/2048/ffdhe2048 parameters";
    cfg.assumptions[1] = "messages are fixed strings (perturbed only by the seed); one edit per encoded message";
    cfg.assumptions[2] = "OpenSSL libcrypto and the harness' own RFC 8017/FIPS 186-4 computations are the reference; a disagreement between the two is a harness error";
    cfg.assumptions[3] = "exact-size malloc() copies of every input; ASan/UBSan abort = finding attributed to the running case";
    replay = mx_parse_args(argc, argv, &cfg);
    g_thorough = !strcmp(cfg.tier, "thorough");
    g_seed = cfg.seed;
    cfg.bound = g_thorough ?
        "RSA-1024/2048/3072/4096 x {sha1,sha256,sha384,sha512,raw36}: all named variants, all signature truncations, every EM byte position x all 255 other values "
        "(3072: 255 values for sha256; 4096: 255 values for sha256 on the first 12 and last 96 positions = block type, separator, DigestInfo, digest; "
        "{00,01,ff,x^01,x^80} elsewhere and for the other hashes); PSS likewise (255 values for 1024/2048 sha256, {00,ff,x^01,x^80} otherwise) + 9x9 salt grid; "
        "ECDSA 10 curve/hash pairs: 9x10 (r,s) grid, 25 DER shapes, every digest byte, every truncation; Ed25519 5 vectors: every bit of R,S,A,msg, S+kL, truncations; "
        "32 point variants + all truncations per curve; 12 DH values x 3 groups; 28 X25519 inputs; all key blob truncations; positive direction" :
        "RSA-1024/2048/3072/4096 x {sha1,sha256,sha384,sha512,raw36}: all named EM/signature variants, 9x9 PSS salt grid, all signature truncations (sha256, raw36); "
        "every EM byte position x {00,01,ff,x^01,x^80} (PSS: {00,ff,x^01,x^80}) for RSA-1024/2048 all hashes and RSA-3072/4096 sha256; ECDSA 10 curve/hash pairs: 9x10 (r,s) grid, 25 DER shapes, every digest byte, every truncation; Ed25519 5 vectors: every bit of R,S,A,msg, "
        "S+kL, truncations; 32 point variants + all truncations per curve; 12 DH values x 3 groups; 28 X25519 inputs; all key blob truncations; positive direction";
    mx_case_timeout_s = 60;

    if (psCryptoOpen(PSCRYPTO_CONFIG) < 0)
    {
        fprintf(stderr, "psCryptoOpen failed\n");
        return 2;
    }
    env_reset((uint64_t) g_seed);

    if (replay)
    {
        case_t c;
        mx_result_t r;
        sbx_t local;
        int rc;
        memset(&r, 0, sizeof(r));
        memset(&local, 0, sizeof(local));
        sbx = &local;
        if (case_parse(replay, &c) < 0)
        {
            fprintf(stderr, "bad case descriptor: %s\n", replay);
            return 2;
        }
        g_dump = 1;
        rc = run_case(&c, &r);
        if (rc == NA)
        {
            fprintf(stderr, "case not applicable in this build: %s\n", replay);
            snprintf(r.outcome, sizeof(r.outcome), "n/a");
        }
        mx_replay_print(&r);
        return 0;
    }

    mx_init(&cfg);
#ifndef USE_SHA1
    mx_note_skipped("SHA-1 signatures: USE_SHA1 not enabled");
#endif
#ifndef USE_PKCS1_PSS
    mx_note_skipped("RSASSA-PSS: USE_PKCS1_PSS not enabled");
#endif
#ifndef USE_DH
    mx_note_skipped("DH public value checks: USE_DH not enabled");
#endif
#ifndef USE_ED25519
    mx_note_skipped("Ed25519: USE_ED25519 not enabled");
#endif
#ifndef USE_X25519
    mx_note_skipped("X25519: USE_X25519 not enabled");
#endif
    mx_note_skipped("Brainpool curves: not enabled in cryptoConfig.h");
    mx_note_skipped("compressed EC points: psEccX963ImportKey supports the uncompressed form only (checked to be refused)");
    mx_note_skipped("RSA PKCS#1 v1.5 SHA-512 signing: psSignHash/privRsaEncryptSignedElement have no SHA-512 DigestInfo (returns PS_UNSUPPORTED_FAIL)");
    if (!g_thorough)
    {
        mx_note_skipped("quick tier: RSA-3072/4096 byte edits for hashes other than sha256, full 255-value byte alphabet, truncations for sha1/sha384/sha512 (thorough tier)");
    }
    build_groups();
    mx_parallel(ngroups, run_group, NULL);
    snprintf(extra, sizeof(extra), "\"c11_groups\": %ld", ngroups);
    return mx_finish(extra);
}
