/* c09_walk.h - consistency walk over objects returned by the parsers (drv_c09).
 * Every (pointer,len) pair must be addressable for len bytes (ASan shadow is
 * consulted, so an inconsistency is reported as a finding instead of a crash),
 * every C string must have its terminator at the recorded length. */
#ifndef C09_WALK_H
#define C09_WALK_H
#include "mxv.h"
#include <stdarg.h>

#if defined(MXV_VARIANT_asan)
# include <sanitizer/asan_interface.h>
# define REGION_BAD(p, n) (__asan_region_is_poisoned((void *) (p), (n)) != NULL)
#else
# define REGION_BAD(p, n) 0
#endif

static char w_field[96];   /* first inconsistent field (stable, no numbers) */
static char w_what[256];
static volatile unsigned w_sink;

static void w_reset(void) { w_field[0] = 0; w_what[0] = 0; }

static void w_bad(const char *field, const char *fmt, ...)
{
    va_list ap;
    if (w_field[0])
    {
        return;
    }
    snprintf(w_field, sizeof(w_field), "%s", field);
    va_start(ap, fmt);
    vsnprintf(w_what, sizeof(w_what), fmt, ap);
    va_end(ap);
}

/* (p,n): n bytes readable */
static int w_region(const char *field, const void *p, size_t n)
{
    size_t i;
    unsigned s = 0;
    if (n == 0)
    {
        return 1;
    }
    if (p == NULL)
    {
        w_bad(field, "%s: NULL pointer with recorded length %zu", field, n);
        return 0;
    }
    if (REGION_BAD(p, n))
    {
        w_bad(field, "%s: recorded length %zu runs outside the allocation", field, n);
        return 0;
    }
    for (i = 0; i < n; i++)
    {
        s += ((const unsigned char *) p)[i];
    }
    w_sink += s;
    return 1;
}

/* pointer into the caller's input buffer */
static void w_inbuf(const char *field, const unsigned char *p, long n, const unsigned char *in, size_t inlen)
{
    if (p == NULL)
    {
        return;
    }
    if (n < 0 || p < in || p > in + inlen || (size_t) n > (size_t) (in + inlen - p))
    {
        w_bad(field, "%s: (ptr,len=%ld) not inside the parsed input buffer of %zu bytes (offset %ld)", field, n, inlen, (long) (p - in));
        return;
    }
    w_region(field, p, (size_t) n);
}

/* C string whose recorded length (without terminators) is n; nterm terminators must follow */
static void w_cstr(const char *field, const char *s, size_t n, int nterm, int no_embedded_nul)
{
    int i;
    if (s == NULL)
    {
        if (n)
        {
            w_bad(field, "%s: NULL string with recorded length %zu", field, n);
        }
        return;
    }
    if (!w_region(field, s, n + (size_t) nterm))
    {
        return;
    }
    for (i = 0; i < nterm; i++)
    {
        if (s[n + (size_t) i] != 0)
        {
            w_bad(field, "%s: no terminator at recorded length %zu", field, n);
            return;
        }
    }
    if (no_embedded_nul && memchr(s, 0, n) != NULL)
    {
        w_bad(field, "%s: strlen %zu < recorded length %zu (embedded NUL)", field, strlen(s), n);
    }
}

#ifdef USE_CERT_PARSE
static int w_is_strtype(int t)
{
    return t == ASN_PRINTABLESTRING || t == ASN_UTF8STRING || t == ASN_IA5STRING || t == ASN_T61STRING;
}

static void w_dnfield(const char *pfx, const char *name, const char *s, size_t reclen, int type)
{
    char f[96];
    if (s == NULL)
    {
        return;
    }
    snprintf(f, sizeof(f), "%s.%s", pfx, name);
    if (reclen < DN_NUM_TERMINATING_NULLS)
    {
        w_bad(f, "%s: recorded length %zu smaller than the %d terminators it must include", f, reclen, DN_NUM_TERMINATING_NULLS);
        return;
    }
    w_cstr(f, s, reclen - DN_NUM_TERMINATING_NULLS, DN_NUM_TERMINATING_NULLS, w_is_strtype(type));
}

static void w_dn(const char *pfx, const x509DNattributes_t *dn)
{
    char f[96];
    x509OrgUnit_t *ou;
    x509DomainComponent_t *dc;
    int n = 0, i, na;
    w_dnfield(pfx, "country", dn->country, dn->countryLen, dn->countryType);
    w_dnfield(pfx, "organization", dn->organization, dn->organizationLen, dn->organizationType);
    w_dnfield(pfx, "dnQualifier", dn->dnQualifier, dn->dnQualifierLen, dn->dnQualifierType);
    w_dnfield(pfx, "serialNumber", dn->serialNumber, dn->serialNumberLen, dn->serialNumberType);
    w_dnfield(pfx, "state", dn->state, dn->stateLen, dn->stateType);
    w_dnfield(pfx, "commonName", dn->commonName, dn->commonNameLen, dn->commonNameType);
    for (ou = dn->orgUnit; ou && n < 100000; ou = ou->next, n++)
    {
        w_dnfield(pfx, "orgUnit", ou->name, ou->len, ou->type);
    }
    for (dc = dn->domainComponent, n = 0; dc && n < 100000; dc = dc->next, n++)
    {
        w_dnfield(pfx, "domainComponent", dc->name, dc->len, dc->type);
    }
    snprintf(f, sizeof(f), "%s.dnenc", pfx);
    w_region(f, dn->dnenc, dn->dnenc ? dn->dnencLen : 0);
    /* accessor API */
    na = psX509GetNumDNAttributes(dn);
    for (i = 0; i < na && i < DN_NUM_ATTRIBUTES_MAX + 2; i++)
    {
        x509DNAttributeType_t at;
        short vt;
        psSize_t vl = 0;
        char *v = NULL;
        if (psX509GetDNAttributeTypeAndValue(dn, i, &at, &vt, &vl, &v) >= 0 && v)
        {
            snprintf(f, sizeof(f), "%s.GetDNAttributeTypeAndValue", pfx);
            w_region(f, v, vl);
        }
    }
# ifdef USE_FULL_CERT_PARSE
    {
        char *s = NULL;
        size_t sl = 0;
        if (psX509GetOnelineDN(dn, &s, &sl, 0) >= 0 && s)
        {
            snprintf(f, sizeof(f), "%s.GetOnelineDN", pfx);
            w_region(f, s, sl);
            psFree(s, NULL);
        }
        s = NULL; sl = 0;
        if (psX509GetOnelineDN(dn, &s, &sl, CERT_DN_USE_ORIGINAL_ATTRIBUTE_ORDER) >= 0 && s)
        {
            psFree(s, NULL);
        }
    }
# endif
    {
        char *s = NULL;
        size_t sl = 0;
        if (psX509GetConcatenatedDomainComponent(dn, &s, &sl) >= 0 && s)
        {
            snprintf(f, sizeof(f), "%s.GetConcatenatedDomainComponent", pfx);
            w_region(f, s, sl);
            psFree(s, NULL);
        }
    }
}

static void w_gn(const char *pfx, const x509GeneralName_t *g)
{
    char f[96];
    int n = 0;
    for (; g && n < 100000; g = g->next, n++)
    {
        snprintf(f, sizeof(f), "%s.data", pfx);
        /* parseGeneralNames: "This guarantees data is null terminated, even for non IA5Strings" */
        if (g->data)
        {
            w_cstr(f, (const char *) g->data, g->dataLen, 1, g->id == GN_EMAIL || g->id == GN_DNS || g->id == GN_URI);
        }
        else if (g->dataLen)
        {
            w_bad(f, "%s: NULL data with dataLen %u", f, (unsigned) g->dataLen);
        }
        snprintf(f, sizeof(f), "%s.oid", pfx);
        w_region(f, g->oid, g->oid ? g->oidLen : 0);
        snprintf(f, sizeof(f), "%s.name", pfx);
        if (memchr(g->name, 0, sizeof(g->name)) == NULL)
        {
            w_bad(f, "%s: type name not terminated", f);
        }
    }
}

static void w_ext(const char *pfx, const x509v3extensions_t *e)
{
    char f[96];
    snprintf(f, sizeof(f), "%s.san", pfx); w_gn(f, e->san);
    snprintf(f, sizeof(f), "%s.issuerAltName", pfx); w_gn(f, e->issuerAltName);
    snprintf(f, sizeof(f), "%s.sk.id", pfx); w_region(f, e->sk.id, e->sk.id ? e->sk.len : 0);
    snprintf(f, sizeof(f), "%s.ak.keyId", pfx); w_region(f, e->ak.keyId, e->ak.keyId ? e->ak.keyLen : 0);
    snprintf(f, sizeof(f), "%s.ak.serialNum", pfx); w_region(f, e->ak.serialNum, e->ak.serialNum ? e->ak.serialNumLen : 0);
    snprintf(f, sizeof(f), "%s.ak.attribs", pfx); w_dn(f, &e->ak.attribs);
# if defined(USE_FULL_CERT_PARSE) || defined(USE_CERT_GEN)
    {
        x509authorityInfoAccess_t *a;
        x509PolicyInformation_t *pi;
        int n = 0;
        snprintf(f, sizeof(f), "%s.nameConstraints.permitted", pfx); w_gn(f, e->nameConstraints.permitted);
        snprintf(f, sizeof(f), "%s.nameConstraints.excluded", pfx); w_gn(f, e->nameConstraints.excluded);
        for (a = e->authorityInfoAccess; a && n < 100000; a = a->next, n++)
        {
            snprintf(f, sizeof(f), "%s.authorityInfoAccess.ocsp", pfx); w_region(f, a->ocsp, a->ocsp ? a->ocspLen : 0);
            snprintf(f, sizeof(f), "%s.authorityInfoAccess.caIssuers", pfx); w_region(f, a->caIssuers, a->caIssuers ? a->caIssuersLen : 0);
        }
        for (pi = e->certificatePolicy.policy, n = 0; pi && n < 100000; pi = pi->next, n++)
        {
            x509PolicyQualifierInfo_t *q;
            int m = 0;
            if (pi->policyAsnOid)
            {
                snprintf(f, sizeof(f), "%s.policy.oid", pfx); w_region(f, pi->policyAsnOid, sizeof(psAsnOid_t));
            }
            for (q = pi->qualifiers; q && m < 100000; q = q->next, m++)
            {
                snprintf(f, sizeof(f), "%s.policy.cps", pfx);
                if (q->cps) w_cstr(f, q->cps, q->cpsLen, 1, 0);
                snprintf(f, sizeof(f), "%s.policy.unoticeOrganization", pfx);
                if (q->unoticeOrganization) w_cstr(f, q->unoticeOrganization, q->unoticeOrganizationLen, 1, 0);
                snprintf(f, sizeof(f), "%s.policy.unoticeExplicitText", pfx);
                if (q->unoticeExplicitText) w_cstr(f, q->unoticeExplicitText, q->unoticeExplicitTextLen, 1, 0);
                if (q->unoticeNumbersLen > MAX_UNOTICE_NUMBERS)
                {
                    snprintf(f, sizeof(f), "%s.policy.unoticeNumbers", pfx);
                    w_bad(f, "%s: %u numbers recorded, array holds %d", f, (unsigned) q->unoticeNumbersLen, MAX_UNOTICE_NUMBERS);
                }
            }
        }
        if (e->netscapeComment && e->netscapeComment->comment)
        {
            snprintf(f, sizeof(f), "%s.netscapeComment", pfx);
            w_region(f, e->netscapeComment->comment, e->netscapeComment->commentLen);
        }
    }
# endif
# ifdef USE_CRL
    snprintf(f, sizeof(f), "%s.crlDist", pfx); w_gn(f, e->crlDist);
    snprintf(f, sizeof(f), "%s.crlNum", pfx); w_region(f, e->crlNum, e->crlNum && e->crlNumLen > 0 ? (size_t) e->crlNumLen : 0);
    if (e->crlNum && e->crlNumLen < 0)
    {
        w_bad(f, "%s: negative length %d", f, (int) e->crlNumLen);
    }
# endif
}
#endif /* USE_CERT_PARSE */

static void w_cert_chain(const char *pfx, psX509Cert_t *cert, int flags, int only_parsed)
{
    char f[96];
    int n = 0;
    for (; cert && n < 10000; cert = cert->next, n++)
    {
        if (only_parsed && cert->parseStatus != PS_X509_PARSE_SUCCESS)
        {
            continue; /* partial-parse bundles keep failed entries in the list */
        }
        snprintf(f, sizeof(f), "%s.signature", pfx); w_region(f, cert->signature, cert->signature ? cert->signatureLen : 0);
#ifdef USE_CERT_PARSE
        snprintf(f, sizeof(f), "%s.serialNumber", pfx); w_region(f, cert->serialNumber, cert->serialNumber ? cert->serialNumberLen : 0);
        snprintf(f, sizeof(f), "%s.issuer", pfx); w_dn(f, &cert->issuer);
        snprintf(f, sizeof(f), "%s.subject", pfx); w_dn(f, &cert->subject);
        /* notBefore / notAfter are C strings without a recorded length: they must be terminated inside their allocation */
        if (cert->notBefore)
        {
            snprintf(f, sizeof(f), "%s.notBefore", pfx);
            if (REGION_BAD(cert->notBefore, 1)) w_bad(f, "%s: not addressable", f);
            else w_region(f, cert->notBefore, strlen(cert->notBefore) + 1);
        }
        if (cert->notAfter)
        {
            snprintf(f, sizeof(f), "%s.notAfter", pfx);
            if (REGION_BAD(cert->notAfter, 1)) w_bad(f, "%s: not addressable", f);
            else w_region(f, cert->notAfter, strlen(cert->notAfter) + 1);
        }
        snprintf(f, sizeof(f), "%s.uniqueIssuerId", pfx); w_region(f, cert->uniqueIssuerId, cert->uniqueIssuerId ? cert->uniqueIssuerIdLen : 0);
        snprintf(f, sizeof(f), "%s.uniqueSubjectId", pfx); w_region(f, cert->uniqueSubjectId, cert->uniqueSubjectId ? cert->uniqueSubjectIdLen : 0);
        snprintf(f, sizeof(f), "%s.extensions", pfx); w_ext(f, &cert->extensions);
        if (cert->sigHashLen > sizeof(cert->sigHash))
        {
            snprintf(f, sizeof(f), "%s.sigHash", pfx);
            w_bad(f, "%s: length %u exceeds the array", f, (unsigned) cert->sigHashLen);
        }
#endif
        if (cert->unparsedBin)
        {
            snprintf(f, sizeof(f), "%s.unparsedBin", pfx);
            if (w_region(f, cert->unparsedBin, cert->binLen))
            {
                snprintf(f, sizeof(f), "%s.publicKeyDer", pfx);
                if ((size_t) cert->publicKeyDerOffsetIntoUnparsedBin + cert->publicKeyDerLen > cert->binLen)
                {
                    w_bad(f, "%s: offset %u + len %u exceeds unparsedBin length %u", f, (unsigned) cert->publicKeyDerOffsetIntoUnparsedBin,
                        (unsigned) cert->publicKeyDerLen, (unsigned) cert->binLen);
                }
#ifdef USE_CERT_PARSE
                else
                {
                    static unsigned char der[70000];
                    psSize_t dl = (psSize_t) 65535;
                    (void) psX509GetCertPublicKeyDer(cert, der, &dl);
                }
#endif
                snprintf(f, sizeof(f), "%s.subjectKeyDerOffset", pfx);
                if (cert->subjectKeyDerOffsetIntoUnparsedBin > cert->binLen)
                {
                    w_bad(f, "%s: offset %u exceeds unparsedBin length %u", f, (unsigned) cert->subjectKeyDerOffsetIntoUnparsedBin, (unsigned) cert->binLen);
                }
            }
        }
        else if ((flags & CERT_STORE_UNPARSED_BUFFER) && cert->parseStatus == PS_X509_PARSE_SUCCESS)
        {
            snprintf(f, sizeof(f), "%s.unparsedBin", pfx);
            w_bad(f, "%s: CERT_STORE_UNPARSED_BUFFER requested but no buffer stored on a successfully parsed certificate", f);
        }
    }
}

#ifdef USE_CRL
static void w_crl(psX509Crl_t *crl)
{
    x509revoked_t *r;
    int n = 0;
    w_region("crl.sig", crl->sig, crl->sig ? crl->sigLen : 0);
    if (crl->nextUpdate)
    {
        if (REGION_BAD(crl->nextUpdate, 1)) w_bad("crl.nextUpdate", "crl.nextUpdate: not addressable");
        else w_region("crl.nextUpdate", crl->nextUpdate, strlen(crl->nextUpdate) + 1);
    }
    if (crl->sigHashLen > sizeof(crl->sigHash))
    {
        w_bad("crl.sigHash", "crl.sigHash: length %u exceeds the array", (unsigned) crl->sigHashLen);
    }
# ifdef USE_CERT_PARSE
    w_dn("crl.issuer", &crl->issuer);
    w_ext("crl.extensions", &crl->extensions);
# endif
    for (r = crl->revoked; r && n < 1000000; r = r->next, n++)
    {
        w_region("crl.revoked.serial", r->serial, r->serial ? r->serialLen : 0);
    }
}
#endif

#ifdef USE_OCSP_RESPONSE
/* independent count of the SingleResponse entries of an OCSPResponse (RFC 6960 4.2.1); -1 if the input is not laid out
 * canonically enough for this small walker (then nothing is concluded) */
static const unsigned char *w_tlv(const unsigned char *p, const unsigned char *end, int *tag, const unsigned char **c, size_t *cl)
{
    size_t l, nb, i;
    if (end - p < 2) return NULL;
    *tag = p[0];
    if (p[1] < 0x80) { l = p[1]; p += 2; }
    else
    {
        nb = p[1] & 0x7f;
        if (nb == 0 || nb > 4 || (size_t) (end - p) < 2 + nb) return NULL;
        for (l = 0, i = 0; i < nb; i++) l = (l << 8) | p[2 + i];
        p += 2 + nb;
    }
    if ((size_t) (end - p) < l) return NULL;
    *c = p; *cl = l;
    return p + l;
}
static int w_ocsp_count_single(const unsigned char *in, size_t inlen)
{
    const unsigned char *c, *e, *p, *n;
    size_t cl;
    int tag, cnt = 0, seen_time = 0;
    if (!w_tlv(in, in + inlen, &tag, &c, &cl) || tag != 0x30) return -1;            /* OCSPResponse */
    p = c; e = c + cl;
    if (!(p = w_tlv(p, e, &tag, &c, &cl)) || tag != 0x0a) return -1;                  /* responseStatus */
    if (!w_tlv(p, e, &tag, &c, &cl) || tag != 0xa0) return -1;                        /* [0] responseBytes */
    if (!w_tlv(c, c + cl, &tag, &c, &cl) || tag != 0x30) return -1;
    p = c; e = c + cl;
    if (!(p = w_tlv(p, e, &tag, &c, &cl)) || tag != 0x06) return -1;                  /* responseType */
    if (!w_tlv(p, e, &tag, &c, &cl) || tag != 0x04) return -1;                        /* response OCTET STRING */
    if (!w_tlv(c, c + cl, &tag, &c, &cl) || tag != 0x30) return -1;                   /* BasicOCSPResponse */
    if (!w_tlv(c, c + cl, &tag, &c, &cl) || tag != 0x30) return -1;                   /* ResponseData */
    p = c; e = c + cl;
    while (p < e)
    {
        if (!(n = w_tlv(p, e, &tag, &c, &cl))) return -1;
        if (tag == 0x18) seen_time = 1;
        else if (tag == 0x30 && seen_time)
        {
            const unsigned char *q = c, *qe = c + cl, *qc;
            size_t ql;
            while (q < qe)
            {
                if (!(q = w_tlv(q, qe, &tag, &qc, &ql)) || tag != 0x30) return -1;
                cnt++;
            }
            return cnt;
        }
        p = n;
    }
    return -1;
}

static void w_ocsp(psOcspResponse_t *r, const unsigned char *in, size_t inlen)
{
    {
        /* an accepted response cannot carry more SingleResponse entries than the object has room for: the surplus was
         * either written behind the array or silently dropped */
        int ns = w_ocsp_count_single(in, inlen);
        if (ns > MAX_OCSP_RESPONSES)
        {
            w_bad("ocsp.single.count", "accepted response carries %d SingleResponse entries but psOcspResponse_t.singleResponse[] holds %d", ns, MAX_OCSP_RESPONSES);
        }
    }
    int i;
    w_inbuf("ocsp.responderName", r->responderName, r->responderName ? 2 : 0, in, inlen);
    w_inbuf("ocsp.responderKeyHash", r->responderKeyHash, r->responderKeyHash ? SHA1_HASH_SIZE : 0, in, inlen);
    w_inbuf("ocsp.timeProduced", r->timeProduced, r->timeProducedLen, in, inlen);
    w_inbuf("ocsp.sig", r->sig, r->sigLen, in, inlen);
    w_inbuf("ocsp.responseType", r->responseType, r->responseType ? 1 : 0, in, inlen);
    if (r->nonce.start || r->nonce.end)
    {
        if (r->nonce.start > r->nonce.end || r->nonce.buf > r->nonce.start)
        {
            w_bad("ocsp.nonce", "ocsp.nonce: buffer pointers out of order");
        }
        else
        {
            w_inbuf("ocsp.nonce", r->nonce.start, (long) (r->nonce.end - r->nonce.start), in, inlen);
        }
    }
    if (r->hashLen > sizeof(r->hashResult))
    {
        w_bad("ocsp.hashResult", "ocsp.hashResult: length %u exceeds the array", (unsigned) r->hashLen);
    }
    for (i = 0; i < MAX_OCSP_RESPONSES; i++)
    {
        psOcspSingleResponse_t *s = &r->singleResponse[i];
        w_inbuf("ocsp.single.certIdNameHash", s->certIdNameHash, s->certIdNameHash ? 20 : 0, in, inlen);
        w_inbuf("ocsp.single.certIdKeyHash", s->certIdKeyHash, s->certIdKeyHash ? 20 : 0, in, inlen);
        w_inbuf("ocsp.single.certIdSerial", s->certIdSerial, s->certIdSerialLen, in, inlen);
        w_inbuf("ocsp.single.thisUpdate", s->thisUpdate, s->thisUpdateLen, in, inlen);
        w_inbuf("ocsp.single.nextUpdate", s->nextUpdate, s->nextUpdateLen, in, inlen);
    }
    if (r->OCSPResponseCert)
    {
        w_cert_chain("ocsp.cert", r->OCSPResponseCert, 0, 1);
    }
    /* date accessor reads the time strings through the recorded pointers */
    if (r->timeProduced)
    {
        psBrokenDownTime_t a, b, c;
        (void) psOcspResponseCheckDates(r, 0, NULL, &a, &b, &c, PS_OCSP_TIME_LINGER);
    }
}
#endif

#endif
