/* c11_common.h - private helpers of drv_c11.c (C11: signatures verify iff valid;
 * public-key results standard; bad keys rejected).  Everything is static. */
#ifndef C11_COMMON_H
#define C11_COMMON_H

#define OPENSSL_SUPPRESS_DEPRECATED
#include "mxv.h"
#include "crypto/cryptoApi.h"
#include "crypto/crypto_sign/ps_ed25519.h"
#include "crypto/scalarmult/ps_x25519.h"
#include <openssl/bn.h>
#include <openssl/evp.h>
#include <openssl/ec.h>
#include <openssl/ecdsa.h>
#include <openssl/rsa.h>
#include <openssl/dh.h>
#include <openssl/x509.h>
#include <openssl/err.h>
#include <openssl/core_names.h>
#include <stdarg.h>
#include <unistd.h>
#include <fcntl.h>
#include <signal.h>
#include <errno.h>
#include <limits.h>
#include <sys/mman.h>
#include <sys/wait.h>

/* ------------------------------------------------------------------ cases */
enum { F_RSA15 = 0, F_PSS, F_ECDSA, F_ED, F_POINT, F_DH, F_POS, F_BLOB, F_N };
static const char *fam_name[F_N] = { "rsa15", "pss", "ecdsa", "ed", "point", "dh", "pos", "blob" };

enum { H_SHA1 = 0, H_SHA256, H_SHA384, H_SHA512, H_RAW36, H_N };
static const char *hash_name[H_N + 1] = { "sha1", "sha256", "sha384", "sha512", "raw36", "-" };

/* variant classes (shared name space, each family uses a subset) */
enum { V_NAMED = 0, V_BYTE, V_SIG, V_TRUNC, V_SALT, V_GRID, V_DER, V_MSG, V_BIT,
       V_RSASIGN, V_PSSSIGN, V_RSAENC, V_RSADEC, V_ECSIGN, V_EDSIGN, V_ECDH, V_X25519, V_RSALONG, V_ALGMIX, V_N };
static const char *var_name[V_N] = { "named", "byte", "sig", "trunc", "salt", "grid", "der", "msg", "bit",
                                     "rsasign", "psssign", "rsaenc", "rsadec", "ecsign", "edsign", "ecdh", "x25519", "rsalong", "algmix" };

typedef struct { int f, k, h, v; long i; } case_t;

static long   g_seed;       /* cfg.seed: perturbs message bytes only */
static int    g_thorough;
static int    g_dump;       /* replay: dump inputs in hex to stderr */

#define NA (-1000)          /* "case not applicable" return of a builder */

static void case_mdesc(const case_t *c, char *out, size_t n)
{
    snprintf(out, n, "f=%s;k=%d;h=%s;v=%s;i=%ld", fam_name[c->f], c->k, hash_name[c->h < 0 ? H_N : c->h], var_name[c->v], c->i);
}

static int lookup(const char *s, const char **tab, int n)
{
    int i;
    for (i = 0; i < n; i++)
    {
        if (!strcmp(s, tab[i]))
        {
            return i;
        }
    }
    return -1;
}

static int case_parse(const char *desc, case_t *c)
{
    char f[16], h[16], v[16];
    if (sscanf(desc, "f=%15[^;];k=%d;h=%15[^;];v=%15[^;];i=%ld", f, &c->k, h, v, &c->i) != 5)
    {
        return -1;
    }
    c->f = lookup(f, fam_name, F_N);
    c->h = lookup(h, hash_name, H_N + 1);
    c->v = lookup(v, var_name, V_N);
    if (c->h == H_N)
    {
        c->h = -1;
    }
    return (c->f < 0 || c->v < 0 || (c->h < 0 && strcmp(h, "-"))) ? -1 : 0;
}

static void dumphex(const char *label, const unsigned char *p, size_t n)
{
    size_t i;
    if (!g_dump)
    {
        return;
    }
    fprintf(stderr, "  %-18s (%zu) ", label, n);
    for (i = 0; i < n; i++)
    {
        fprintf(stderr, "%02x", p[i]);
    }
    fprintf(stderr, "\n");
}
#define DUMPF(...) do { if (g_dump) fprintf(stderr, __VA_ARGS__); } while (0)

/* exact-size heap copy: any access outside [p, p+n) is an ASan report */
static unsigned char *hdup(const unsigned char *p, size_t n)
{
    unsigned char *q = malloc(n);
    if (!q)
    {
        fprintf(stderr, "c11: out of memory\n");
        exit(2);
    }
    if (n)
    {
        memcpy(q, p, n);
    }
    return q;
}

static void internal_err(mx_result_t *r, const char *key, const char *fmt, ...) __attribute__((format(printf, 3, 4)));
static void internal_err(mx_result_t *r, const char *key, const char *fmt, ...)
{
    va_list ap;
    r->violation = 2;
    snprintf(r->key, sizeof(r->key), "harness|%s", key);
    va_start(ap, fmt);
    vsnprintf(r->what, sizeof(r->what), fmt, ap);
    va_end(ap);
    snprintf(r->outcome, sizeof(r->outcome), "INTERNAL");
}

/* first violation wins; later ones of the same case are appended to 'what' if room */
static void violate(mx_result_t *r, const char *key, const char *fmt, ...) __attribute__((format(printf, 3, 4)));
static void violate(mx_result_t *r, const char *key, const char *fmt, ...)
{
    va_list ap;
    if (r->violation)
    {
        return;
    }
    r->violation = 1;
    snprintf(r->key, sizeof(r->key), "%s", key);
    va_start(ap, fmt);
    vsnprintf(r->what, sizeof(r->what), fmt, ap);
    va_end(ap);
    {
        size_t l = strlen(r->what);
        snprintf(r->what + l, sizeof(r->what) - l, " [%s]", r->desc);
    }
}

/* ----------------------------------------------------------------- hashes */
static const unsigned char OID_SHA1_B[]   = { 0x2b, 0x0e, 0x03, 0x02, 0x1a };
static const unsigned char OID_SHA256_B[] = { 0x60, 0x86, 0x48, 0x01, 0x65, 0x03, 0x04, 0x02, 0x01 };
static const unsigned char OID_SHA384_B[] = { 0x60, 0x86, 0x48, 0x01, 0x65, 0x03, 0x04, 0x02, 0x02 };
static const unsigned char OID_SHA512_B[] = { 0x60, 0x86, 0x48, 0x01, 0x65, 0x03, 0x04, 0x02, 0x03 };

typedef struct {
    int len;
    int rsa_oid, ecdsa_oid, pss_id;
    const unsigned char *oid;
    int oidlen;
    const EVP_MD *(*md)(void);
    int enabled;
} hinfo_t;

static hinfo_t HI[H_N] = {
    { 20, OID_SHA1_RSA_SIG, OID_SHA1_ECDSA_SIG, PKCS1_SHA1_ID, OID_SHA1_B, 5, EVP_sha1,
#ifdef USE_SHA1
      1
#else
      0
#endif
    },
    { 32, OID_SHA256_RSA_SIG, OID_SHA256_ECDSA_SIG, PKCS1_SHA256_ID, OID_SHA256_B, 9, EVP_sha256,
#ifdef USE_SHA256
      1
#else
      0
#endif
    },
    { 48, OID_SHA384_RSA_SIG, OID_SHA384_ECDSA_SIG, PKCS1_SHA384_ID, OID_SHA384_B, 9, EVP_sha384,
#ifdef USE_SHA384
      1
#else
      0
#endif
    },
    { 64, OID_SHA512_RSA_SIG, OID_SHA512_ECDSA_SIG, PKCS1_SHA512_ID, OID_SHA512_B, 9, EVP_sha512,
#ifdef USE_SHA512
      1
#else
      0
#endif
    },
    { 36, OID_RSA_TLS_SIG_ALG, 0, -1, NULL, 0, NULL, 1 },
};

static void ref_hash(int h, const unsigned char *m, size_t n, unsigned char *out)
{
    unsigned int l = 0;
    if (h == H_RAW36)
    {
        /* TLS <= 1.1 style 36-byte value (MD5||SHA1 there; any 36 bytes for the RSA layer) */
        unsigned char t[48];
        EVP_Digest(m, n, t, &l, EVP_sha384(), NULL);
        memcpy(out, t, 36);
        return;
    }
    EVP_Digest(m, n, out, &l, HI[h].md(), NULL);
}

/* standard message of a context, perturbed by the seed */
static int std_msg(unsigned char *out, const char *what, int k, int h, int alt)
{
    return snprintf((char *) out, 96, "C11 %s message k=%d h=%s seed=%ld alt=%d", what, k, hash_name[h < 0 ? H_N : h], g_seed, alt);
}

/* deterministic filler bytes */
static void fill_bytes(unsigned char *out, size_t n, const char *label, long ctr)
{
    unsigned char seed[128], blk[64];
    unsigned int l;
    size_t off = 0;
    long j = 0;
    while (off < n)
    {
        int sl = snprintf((char *) seed, sizeof(seed), "c11-fill|%s|%ld|%ld|%ld", label, ctr, g_seed, j++);
        size_t take;
        EVP_Digest(seed, (size_t) sl, blk, &l, EVP_sha512(), NULL);
        take = n - off < 64 ? n - off : 64;
        memcpy(out + off, blk, take);
        off += take;
    }
}

/* -------------------------------------------------------------------- DER */
/* lf: 0 = minimal length form, 1 = 0x81 LL (or 0x82 for >255), 2 = 0x82 00 LL */
static int der_hdr(unsigned char *out, int tag, int len, int lf)
{
    int n = 0;
    out[n++] = (unsigned char) tag;
    if (lf == 0 && len < 128)
    {
        out[n++] = (unsigned char) len;
    }
    else if (lf <= 1 && len < 256)
    {
        out[n++] = 0x81;
        out[n++] = (unsigned char) len;
    }
    else
    {
        out[n++] = 0x82;
        out[n++] = (unsigned char) (len >> 8);
        out[n++] = (unsigned char) len;
    }
    return n;
}

static int der_tlv(unsigned char *out, int tag, const unsigned char *v, int len, int lf)
{
    int n = der_hdr(out, tag, len, lf);
    if (len)
    {
        memcpy(out + n, v, (size_t) len);
    }
    return n + len;
}

/* minimal positive DER INTEGER content of a BIGNUM (adds 00 if top bit set) */
static int bn_int_content(const BIGNUM *b, unsigned char *out)
{
    int n = BN_num_bytes(b);
    if (n == 0)
    {
        out[0] = 0;
        return 1;
    }
    BN_bn2bin(b, out + 1);
    if (out[1] & 0x80)
    {
        out[0] = 0;
        return n + 1;
    }
    memmove(out, out + 1, (size_t) n);
    return n;
}

static int der_ecdsa_strict(const BIGNUM *r, const BIGNUM *s, unsigned char *out)
{
    unsigned char body[400], t[160];
    int bl = 0, l;
    l = bn_int_content(r, t);
    bl += der_tlv(body + bl, 0x02, t, l, 0);
    l = bn_int_content(s, t);
    bl += der_tlv(body + bl, 0x02, t, l, 0);
    return der_tlv(out, 0x30, body, bl, 0);
}

/* tolerant reader used for the ECDSA "don't care" rule: tag, length (short or long
 * form <= 4 octets), returns content pointer/len or -1 */
static int lenient_tlv(const unsigned char **pp, const unsigned char *end, int tag, const unsigned char **v, long *vl, int need_content)
{
    const unsigned char *p = *pp;
    long len;
    if (end - p < 2 || *p++ != tag)
    {
        return -1;
    }
    if (*p < 0x80)
    {
        len = *p++;
    }
    else
    {
        int nb = *p++ & 0x7f, j;
        if (nb < 1 || nb > 4 || end - p < nb)
        {
            return -1;
        }
        for (len = 0, j = 0; j < nb; j++)
        {
            len = (len << 8) | *p++;
        }
    }
    if (need_content && len > end - p)
    {
        return -1;
    }
    *v = p;
    *vl = len;
    *pp = need_content ? p + len : p;
    return 0;
}

/* extract unsigned (r,s) the most tolerant way a verifier could: SEQUENCE header
 * (length not checked against anything), then two INTEGER TLVs read as unsigned */
static int lenient_ecdsa(const unsigned char *sig, size_t len, BIGNUM *r, BIGNUM *s)
{
    const unsigned char *p = sig, *end = sig + len, *v;
    long vl;
    if (lenient_tlv(&p, end, 0x30, &v, &vl, 0) < 0)
    {
        return -1;
    }
    if (lenient_tlv(&p, end, 0x02, &v, &vl, 1) < 0)
    {
        return -1;
    }
    BN_bin2bn(v, (int) vl, r);
    if (lenient_tlv(&p, end, 0x02, &v, &vl, 1) < 0)
    {
        return -1;
    }
    BN_bin2bn(v, (int) vl, s);
    return 0;
}

/* --------------------------------------------------------------- RSA keys */
#include "testkeys/RSA/1024_RSA_KEY.h"
#include "testkeys/RSA/2048_RSA_KEY.h"
#include "testkeys/RSA/3072_RSA_KEY.h"
#include "testkeys/RSA/4096_RSA_KEY.h"

typedef struct {
    int bits, k, ok;
    const unsigned char *der;
    int derlen;
    EVP_PKEY *pkey;
    BIGNUM *n, *e, *d, *p, *q, *dp, *dq, *qi;
    BN_CTX *bn;
    psPubKey_t mx;
} rsakey_t;

static rsakey_t RK[4] = {
    { 1024, 128, 0, RSA1024KEY, RSA1024KEY_SIZE },
    { 2048, 256, 0, RSA2048KEY, RSA2048KEY_SIZE },
    { 3072, 384, 0, RSA3072KEY, RSA3072KEY_SIZE },
    { 4096, 512, 0, RSA4096KEY, RSA4096KEY_SIZE },
};

static rsakey_t *rsa_get(int bits)
{
    int i;
    rsakey_t *K = NULL;
    const unsigned char *p;
    for (i = 0; i < 4; i++)
    {
        if (RK[i].bits == bits)
        {
            K = &RK[i];
        }
    }
    if (!K)
    {
        return NULL;
    }
    if (K->ok)
    {
        return K;
    }
    p = K->der;
    K->pkey = d2i_AutoPrivateKey(NULL, &p, K->derlen);
    if (!K->pkey)
    {
        fprintf(stderr, "c11: OpenSSL cannot parse RSA-%d test key\n", bits);
        return NULL;
    }
    if (!EVP_PKEY_get_bn_param(K->pkey, OSSL_PKEY_PARAM_RSA_N, &K->n) ||
        !EVP_PKEY_get_bn_param(K->pkey, OSSL_PKEY_PARAM_RSA_E, &K->e) ||
        !EVP_PKEY_get_bn_param(K->pkey, OSSL_PKEY_PARAM_RSA_D, &K->d) ||
        !EVP_PKEY_get_bn_param(K->pkey, OSSL_PKEY_PARAM_RSA_FACTOR1, &K->p) ||
        !EVP_PKEY_get_bn_param(K->pkey, OSSL_PKEY_PARAM_RSA_FACTOR2, &K->q) ||
        !EVP_PKEY_get_bn_param(K->pkey, OSSL_PKEY_PARAM_RSA_EXPONENT1, &K->dp) ||
        !EVP_PKEY_get_bn_param(K->pkey, OSSL_PKEY_PARAM_RSA_EXPONENT2, &K->dq) ||
        !EVP_PKEY_get_bn_param(K->pkey, OSSL_PKEY_PARAM_RSA_COEFFICIENT1, &K->qi))
    {
        fprintf(stderr, "c11: cannot extract RSA-%d parameters\n", bits);
        return NULL;
    }
    K->bn = BN_CTX_new();
    if (BN_num_bytes(K->n) != K->k)
    {
        fprintf(stderr, "c11: RSA-%d modulus has %d bytes\n", bits, BN_num_bytes(K->n));
        return NULL;
    }
    memset(&K->mx, 0, sizeof(K->mx));
    if (psRsaParsePkcs1PrivKey(NULL, K->der, (psSize_t) K->derlen, &K->mx.key.rsa) < 0)
    {
        fprintf(stderr, "c11: MatrixSSL cannot parse RSA-%d test key\n", bits);
        return NULL;
    }
    K->mx.type = PS_RSA;
    K->mx.keysize = psRsaSize(&K->mx.key.rsa);
    K->ok = 1;
    return K;
}

/* s = (em mod n)^d mod n by CRT with plain BN arithmetic; rec = s^e mod n.
 * Returns 0, or -1 if the self-check s^e == em mod n fails. */
static int rsa_priv_op(rsakey_t *K, const unsigned char *em, int emlen, unsigned char *sig, unsigned char *rec)
{
    BIGNUM *m, *s1, *s2, *h, *s, *r;
    int ok;
    BN_CTX_start(K->bn);
    m = BN_CTX_get(K->bn); s1 = BN_CTX_get(K->bn); s2 = BN_CTX_get(K->bn);
    h = BN_CTX_get(K->bn); s = BN_CTX_get(K->bn); r = BN_CTX_get(K->bn);
    BN_bin2bn(em, emlen, m);
    BN_nnmod(m, m, K->n, K->bn);
    BN_mod_exp(s1, m, K->dp, K->p, K->bn);
    BN_mod_exp(s2, m, K->dq, K->q, K->bn);
    BN_mod_sub(h, s1, s2, K->p, K->bn);
    BN_mod_mul(h, h, K->qi, K->p, K->bn);
    BN_mul(s, h, K->q, K->bn);
    BN_add(s, s, s2);
    BN_mod_exp(r, s, K->e, K->n, K->bn);
    ok = BN_cmp(r, m) == 0;
    BN_bn2binpad(s, sig, K->k);
    if (rec)
    {
        BN_bn2binpad(r, rec, K->k);
    }
    BN_CTX_end(K->bn);
    return ok ? 0 : -1;
}

/* numeric view of a signature blob: returns 1 and rec (k bytes) if 0 <= s < n, else 0 */
static int rsa_recover(rsakey_t *K, const unsigned char *sig, int siglen, unsigned char *rec)
{
    BIGNUM *s, *r;
    int inrange;
    BN_CTX_start(K->bn);
    s = BN_CTX_get(K->bn); r = BN_CTX_get(K->bn);
    BN_bin2bn(sig, siglen, s);
    inrange = BN_cmp(s, K->n) < 0;
    if (inrange)
    {
        BN_mod_exp(r, s, K->e, K->n, K->bn);
        BN_bn2binpad(r, rec, K->k);
    }
    BN_CTX_end(K->bn);
    return inrange;
}

/* the unique EMSA-PKCS1-v1_5 encoding (RFC 8017 9.2); nonull = 1: AlgorithmIdentifier
 * without parameters (RFC 8017 9.2 note / A.2.4: verifiers may meet it) */
static int digestinfo(unsigned char *out, int h, const unsigned char *dig, int dlen, int nonull)
{
    unsigned char alg[32], body[128];
    int al = 0, bl = 0;
    static const unsigned char nul[2] = { 0x05, 0x00 };
    if (h == H_RAW36)
    {
        memcpy(out, dig, (size_t) dlen);
        return dlen;
    }
    al += der_tlv(alg + al, 0x06, HI[h].oid, HI[h].oidlen, 0);
    if (!nonull)
    {
        memcpy(alg + al, nul, 2);
        al += 2;
    }
    bl += der_tlv(body + bl, 0x30, alg, al, 0);
    bl += der_tlv(body + bl, 0x04, dig, dlen, 0);
    return der_tlv(out, 0x30, body, bl, 0);
}

static int em_wrap(unsigned char *em, int k, int bt, const unsigned char *T, int tl)
{
    int ps = k - 3 - tl, i;
    if (ps < 0)
    {
        return NA;
    }
    em[0] = 0;
    em[1] = (unsigned char) bt;
    for (i = 0; i < ps; i++)
    {
        em[2 + i] = bt == 1 ? 0xff : bt == 0 ? 0x00 : (unsigned char) (0x11 + (i * 7) % 0xe0);
    }
    em[2 + ps] = 0;
    memcpy(em + 3 + ps, T, (size_t) tl);
    return 0;
}

static int em_canonical(unsigned char *em, int k, int h, const unsigned char *dig, int nonull)
{
    unsigned char T[128];
    int tl = digestinfo(T, h, dig, HI[h].len, nonull);
    if (k - 3 - tl < 8)
    {
        return NA;
    }
    return em_wrap(em, k, 1, T, tl);
}

/* OpenSSL reference verdict for RSASSA-PKCS1-v1_5 */
static int ref_rsa15_verify(rsakey_t *K, int h, const unsigned char *dig, const unsigned char *sig, int siglen)
{
    EVP_PKEY_CTX *c = EVP_PKEY_CTX_new(K->pkey, NULL);
    int ok = 0;
    unsigned char dummy = 0;
    if (c && EVP_PKEY_verify_init(c) > 0 && EVP_PKEY_CTX_set_rsa_padding(c, RSA_PKCS1_PADDING) > 0 &&
        (h == H_RAW36 || EVP_PKEY_CTX_set_signature_md(c, HI[h].md()) > 0))
    {
        ok = EVP_PKEY_verify(c, siglen ? sig : &dummy, (size_t) siglen, dig, (size_t) HI[h].len) == 1;
    }
    EVP_PKEY_CTX_free(c);
    ERR_clear_error();
    return ok;
}

static int ref_pss_verify(rsakey_t *K, int h, int mgfh, int saltlen, const unsigned char *dig, const unsigned char *sig, int siglen)
{
    EVP_PKEY_CTX *c = EVP_PKEY_CTX_new(K->pkey, NULL);
    int ok = 0;
    unsigned char dummy = 0;
    if (c && EVP_PKEY_verify_init(c) > 0 && EVP_PKEY_CTX_set_rsa_padding(c, RSA_PKCS1_PSS_PADDING) > 0 &&
        EVP_PKEY_CTX_set_signature_md(c, HI[h].md()) > 0 && EVP_PKEY_CTX_set_rsa_mgf1_md(c, HI[mgfh].md()) > 0 &&
        EVP_PKEY_CTX_set_rsa_pss_saltlen(c, saltlen) > 0)
    {
        ok = EVP_PKEY_verify(c, siglen ? sig : &dummy, (size_t) siglen, dig, (size_t) HI[h].len) == 1;
    }
    EVP_PKEY_CTX_free(c);
    ERR_clear_error();
    return ok;
}

/* --------------------------------------------------------------- EC keys */
#include "testkeys/EC/192_EC_KEY.h"
#include "testkeys/EC/224_EC_KEY.h"
#include "testkeys/EC/256_EC_KEY.h"
#include "testkeys/EC/384_EC_KEY.h"
#include "testkeys/EC/521_EC_KEY.h"
#include "testkeys/EC/ED25519_KEY.h"

typedef struct {
    int bits, size, ok, enabled, iana;
    const unsigned char *der;
    int derlen;
    EC_KEY *ec;
    const EC_GROUP *grp;
    BIGNUM *n, *p, *a, *b;
    const BIGNUM *d;
    BN_CTX *bn;
    psPubKey_t mx;              /* MatrixSSL view of the same private key */
    const psEccCurve_t *curve;
} eckey_t;

static eckey_t EK[5] = {
    { 192, 24, 0,
#ifdef USE_SECP192R1
      1,
#else
      0,
#endif
      IANA_SECP192R1, (const unsigned char *) EC192KEY, EC192KEY_SIZE },
    { 224, 28, 0,
#ifdef USE_SECP224R1
      1,
#else
      0,
#endif
      IANA_SECP224R1, (const unsigned char *) EC224KEY, EC224KEY_SIZE },
    { 256, 32, 0,
#ifdef USE_SECP256R1
      1,
#else
      0,
#endif
      IANA_SECP256R1, (const unsigned char *) EC256KEY, EC256KEY_SIZE },
    { 384, 48, 0,
#ifdef USE_SECP384R1
      1,
#else
      0,
#endif
      IANA_SECP384R1, (const unsigned char *) EC384KEY, EC384KEY_SIZE },
    { 521, 66, 0,
#ifdef USE_SECP521R1
      1,
#else
      0,
#endif
      IANA_SECP521R1, (const unsigned char *) EC521KEY, EC521KEY_SIZE },
};

static eckey_t *ec_get(int bits)
{
    int i;
    eckey_t *E = NULL;
    const unsigned char *p;
    for (i = 0; i < 5; i++)
    {
        if (EK[i].bits == bits)
        {
            E = &EK[i];
        }
    }
    if (!E || !E->enabled)
    {
        return NULL;
    }
    if (E->ok)
    {
        return E;
    }
    p = E->der;
    E->ec = d2i_ECPrivateKey(NULL, &p, E->derlen);
    if (!E->ec)
    {
        fprintf(stderr, "c11: OpenSSL cannot parse P-%d test key\n", bits);
        return NULL;
    }
    E->grp = EC_KEY_get0_group(E->ec);
    E->d = EC_KEY_get0_private_key(E->ec);
    E->bn = BN_CTX_new();
    E->n = BN_new(); E->p = BN_new(); E->a = BN_new(); E->b = BN_new();
    EC_GROUP_get_order(E->grp, E->n, E->bn);
    EC_GROUP_get_curve(E->grp, E->p, E->a, E->b, E->bn);
    if (BN_num_bytes(E->p) != E->size)
    {
        return NULL;
    }
    memset(&E->mx, 0, sizeof(E->mx));
    if (psEccParsePrivKey(NULL, E->der, (psSize_t) E->derlen, &E->mx.key.ecc, NULL) < 0)
    {
        fprintf(stderr, "c11: MatrixSSL cannot parse P-%d test key\n", bits);
        return NULL;
    }
    E->mx.type = PS_ECC;
    E->mx.keysize = psEccSize(&E->mx.key.ecc);
    E->curve = E->mx.key.ecc.curve;
    if (!E->curve || E->curve->size != E->size)
    {
        fprintf(stderr, "c11: MatrixSSL curve mismatch for P-%d\n", bits);
        return NULL;
    }
    E->ok = 1;
    return E;
}

/* deterministic scalar in [1, n-1] */
static void ec_scalar(eckey_t *E, BIGNUM *k, const char *label, long ctr)
{
    unsigned char buf[80];
    BIGNUM *nm1 = BN_new();
    fill_bytes(buf, sizeof(buf), label, ctr * 1000 + E->bits);
    BN_bin2bn(buf, sizeof(buf), k);
    BN_copy(nm1, E->n);
    BN_sub_word(nm1, 1);
    BN_nnmod(k, k, nm1, E->bn);
    BN_add_word(k, 1);
    BN_free(nm1);
}

/* bits2int of FIPS 186-4 6.4: leftmost min(N, 8*dlen) bits of the digest */
static void ec_bits2int(eckey_t *E, const unsigned char *dig, int dlen, BIGNUM *e)
{
    int nbits = BN_num_bits(E->n);
    BN_bin2bn(dig, dlen, e);
    if (8 * dlen > nbits)
    {
        BN_rshift(e, e, 8 * dlen - nbits);
    }
}

/* ECDSA signature with a chosen nonce, plain BN/EC_POINT arithmetic */
static int ec_sign_k(eckey_t *E, const unsigned char *dig, int dlen, const BIGNUM *k, BIGNUM *r, BIGNUM *s)
{
    EC_POINT *R = EC_POINT_new(E->grp);
    BIGNUM *x = BN_new(), *e = BN_new(), *ki = BN_new();
    int ok = 0;
    if (EC_POINT_mul(E->grp, R, k, NULL, NULL, E->bn) && EC_POINT_get_affine_coordinates(E->grp, R, x, NULL, E->bn))
    {
        BN_nnmod(r, x, E->n, E->bn);
        ec_bits2int(E, dig, dlen, e);
        BN_mod_inverse(ki, k, E->n, E->bn);
        BN_mod_mul(s, r, E->d, E->n, E->bn);
        BN_mod_add(s, s, e, E->n, E->bn);
        BN_mod_mul(s, s, ki, E->n, E->bn);
        ok = !BN_is_zero(r) && !BN_is_zero(s);
    }
    EC_POINT_free(R);
    BN_free(x); BN_free(e); BN_free(ki);
    return ok;
}

static int ref_ecdsa_verify(eckey_t *E, const EC_KEY *key, const unsigned char *dig, int dlen, const BIGNUM *r, const BIGNUM *s)
{
    ECDSA_SIG *sg = ECDSA_SIG_new();
    int ok;
    if (BN_is_negative(r) || BN_is_negative(s))
    {
        ECDSA_SIG_free(sg);
        return 0;
    }
    ECDSA_SIG_set0(sg, BN_dup(r), BN_dup(s));
    ok = ECDSA_do_verify(dig, dlen, sg, (EC_KEY *) key) == 1;
    ECDSA_SIG_free(sg);
    ERR_clear_error();
    (void) E;
    return ok;
}

#endif /* C11_COMMON_H */
