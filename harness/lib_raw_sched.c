/* lib_raw_sched.c - cooperative, replayable thread scheduler for C20.
 *
 * Compiled WITHOUT sanitizer instrumentation.  Exactly one registered thread runs at a
 * time; control is handed over by a raw futex on the word 'turn', so ThreadSanitizer sees
 * no happens-before edge from the scheduler itself.  Scheduling points: before every
 * psLockMutex (via env_lock_hook), at thread start and at thread end.  At each point the
 * running thread computes the enabled set (unfinished threads whose pending mutex is free)
 * in canonical order (running thread first if enabled, then ascending ids) and takes
 * choice[prefix] or 0.  Every point is recorded in the shared trace. */
#include <stdint.h>
#include <string.h>
#include <unistd.h>
#include <limits.h>
#include <sys/syscall.h>
#include <linux/futex.h>
#include "sched.h"

static volatile int turn = -2;           /* id allowed to run; -1 = main */
static sr_trace_t *T;
static const unsigned char *prefix;
static int nprefix;
static int nthreads;
static __thread int sr_me = -1;
static int finished[SR_MAXT];
static void *pending[SR_MAXT];
static int started[SR_MAXT];
static struct { void *m; int owner; } owners[32];
static int running = -1;

static void fwait(int val)
{
    syscall(SYS_futex, &turn, FUTEX_WAIT, val, NULL, NULL, 0);
}
static void fwake(void)
{
    syscall(SYS_futex, &turn, FUTEX_WAKE, INT_MAX, NULL, NULL, 0);
}
static void wait_turn(int me)
{
    int v;
    while ((v = __atomic_load_n(&turn, __ATOMIC_ACQUIRE)) != me)
    {
        fwait(v);
    }
}
static void pass_to(int id)
{
    __atomic_store_n(&turn, id, __ATOMIC_RELEASE);
    fwake();
}

static int mutex_free(void *m, int forwhom)
{
    int i;
    (void) forwhom;
    for (i = 0; i < 32; i++)
    {
        /* the library's mutexes are not recursive: a thread that asks for a mutex it holds itself never gets it */
        if (owners[i].m == m && owners[i].owner >= 0)
        {
            return 0;
        }
    }
    return 1;
}
static void set_owner(void *m, int who)
{
    int i, fr = -1;
    for (i = 0; i < 32; i++)
    {
        if (owners[i].m == m)
        {
            owners[i].owner = who;
            return;
        }
        if (owners[i].m == NULL && fr < 0)
        {
            fr = i;
        }
    }
    if (fr >= 0)
    {
        owners[fr].m = m;
        owners[fr].owner = who;
    }
}

/* decide who runs next; 'self' = the deciding thread (-1 main), self_enabled = may self continue */
static int choose(int self, int self_enabled)
{
    unsigned char en[SR_MAXT];
    int n = 0, i, c;
    if (self >= 0 && self_enabled)
    {
        en[n++] = (unsigned char) self;
    }
    for (i = 0; i < nthreads; i++)
    {
        if (i == self || finished[i] || !started[i])
        {
            continue;
        }
        if (pending[i] == NULL || mutex_free(pending[i], i))
        {
            en[n++] = (unsigned char) i;
        }
    }
    if (n == 0)
    {
        return -1;
    }
    if (T->npoints < SR_MAXPOINTS)
    {
        sr_point_t *p = &T->pt[T->npoints];
        p->n = (unsigned char) n;
        memcpy(p->ids, en, (size_t) n);
        p->running_enabled = (unsigned char) (self >= 0 && self_enabled);
        c = (T->npoints < nprefix) ? prefix[T->npoints] : 0;
        if (c >= n)
        {
            T->replay_divergence = 1; /* a recorded choice does not exist any more: hard error */
            c = 0;
        }
        p->chosen = (unsigned char) c;
        T->npoints++;
    }
    else
    {
        T->overflow = 1;
        c = 0;
    }
    return en[c];
}

void sr_init(sr_trace_t *trace, int n, const unsigned char *pfx, int npfx)
{
    T = trace;
    nthreads = n;
    prefix = pfx;
    nprefix = npfx;
    memset(finished, 0, sizeof(finished));
    memset(pending, 0, sizeof(pending));
    memset(started, 0, sizeof(started));
    memset(owners, 0, sizeof(owners));
    turn = -1;
    running = -1;
}

/* main: all threads have been created and are parked in sr_thread_begin */
void sr_main_start(void)
{
    int i, next;
    for (i = 0; i < nthreads; i++)
    {
        started[i] = 1;
    }
    next = choose(-1, 0);
    if (next >= 0)
    {
        running = next;
        pass_to(next);
    }
}

void sr_thread_begin(int id)
{
    sr_me = id;
    wait_turn(id);
}

void sr_thread_end(void)
{
    int next;
    finished[sr_me] = 1;
    next = choose(sr_me, 0);
    if (next >= 0)
    {
        running = next;
        pass_to(next);
    }
    else
    {
        int i, all = 1;
        for (i = 0; i < nthreads; i++)
        {
            if (!finished[i]) all = 0;
        }
        if (!all)
        {
            T->deadlock = 1;
        }
        pass_to(-1);
    }
    sr_me = -1;
}

void sr_before_lock(void *m)
{
    int me = sr_me, next;
    if (me < 0)
    {
        return; /* not a scheduled thread (prelude / main) */
    }
    pending[me] = m;
    next = choose(me, mutex_free(m, me));
    if (next < 0)
    {
        T->deadlock = 1;
        pass_to(-1);
        /* park forever; main will notice the deadlock flag and exit the process */
        for (;;)
        {
            fwait(-1);
            sleep(1);
        }
    }
    if (next != me)
    {
        running = next;
        pass_to(next);
        wait_turn(me);
    }
    pending[me] = NULL;
    set_owner(m, me);
}

int sr_unlock_points;   /* 1: the point right after every unlock is a scheduling point too (a thread that keeps using
                           shared state after dropping its lock can then be interleaved exactly there) */

void sr_after_unlock(void *m)
{
    int me = sr_me, next;
    if (me < 0)
    {
        return;
    }
    set_owner(m, -1);
    if (sr_unlock_points)
    {
        next = choose(me, 1);
        if (next >= 0 && next != me)
        {
            running = next;
            pass_to(next);
            wait_turn(me);
        }
    }
}

void sr_main_wait(void)
{
    wait_turn(-1);
}
