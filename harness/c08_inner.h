/* c08_inner.h - C08 part W: one TLS 1.3 application-phase record whose TLSInnerPlaintext an honest peer never sends.
 * After an honest handshake the attacker is the victim's peer (application traffic secret from the key-log seam) and seals
 * ONE record under the next sequence number whose inner plaintext is: empty (the record is the AEAD tag alone), padding
 * only (1 or 16 zero bytes, no content type), a content type without content (alert, handshake, application data,
 * ChangeCipherSpec, an unknown type), or - positive control of the toolkit - "hi" as application data, which must be
 * delivered. Suites: AES-128-GCM, AES-256-GCM, ChaCha20-Poly1305 (their deprotection code differs); victims: client, server.
 * Oracle: the C08 oracle (sanitizer, crash, hang, buffers, leak after teardown). */
#ifndef C08_INNER_H
#define C08_INNER_H
typedef struct { int si, victim, shape; } wcase_t;
static const struct { uint16_t suite; int hashlen; const char *name; } wsuites[] = {
    { TLS_AES_128_GCM_SHA256, 32, "aes128gcm" }, { TLS_AES_256_GCM_SHA384, 48, "aes256gcm" }, { TLS_CHACHA20_POLY1305_SHA256, 32, "chacha20poly1305" } };
#define NWSUITE 3
static const struct { const char *name; int len; unsigned char b[16]; } wshapes[] = {
    { "control:hi+application_data", 3, { 'h', 'i', 23 } },
    { "empty(tag-only)", 0, { 0 } },
    { "one-zero-byte(padding-only)", 1, { 0 } },
    { "16-zero-bytes(padding-only)", 16, { 0 } },
    { "application_data-type-only", 1, { 23 } },
    { "alert-type-only", 1, { 21 } },
    { "handshake-type-only", 1, { 22 } },
    { "change_cipher_spec-inside", 2, { 1, 20 } },
    { "unknown-type-99", 2, { 7, 99 } },
    { "handshake-type-then-padding", 4, { 22, 0, 0, 0 } },
};
#define NWSHAPE ((int) (sizeof(wshapes) / sizeof(wshapes[0])))

static void w_run_case(void *ctx, mx_result_t *r)
{
    wcase_t *wc = ctx;
    static world_t w;
    wcfg_t c;
    tk13_keys_t k;
    unsigned char sec[64], rec[64];
    int sl, rl, turn = 0, guard = 0, peer = 1 - wc->victim, s2;
    size_t before;
    long live;
    memset(&c, 0, sizeof(c));
    c.ver = V_TLS13; c.kx = KX_13_RSA; c.suite = wsuites[wc->si].suite;
    r->nontrivial = wc->shape != 0;
    env_live_reset();
    env_track(1);
    if (world_init(&w, &c) < 0)
    {
        goto internal;
    }
    world_collect(&w, 0);
    while (!(world_is_complete(&w, 0) && world_is_complete(&w, 1)) && guard++ < 60 && world_step(&w, &turn))
    {
    }
    world_pump(&w, 30);
    if (!(world_is_complete(&w, 0) && world_is_complete(&w, 1)))
    {
        goto internal;
    }
    sl = tk_keylog_find(peer == 0 ? "c ap traffic" : "s ap traffic", sec);
    if (sl != wsuites[wc->si].hashlen || tk13_keys_from_secret(&k, wsuites[wc->si].suite, sec, sl) < 0)
    {
        goto internal;
    }
    k.seq = 0;   /* no ticket keys are loaded and nobody has written application data: nothing was sealed under this key yet */
    rl = tk13_seal_raw(&k, wshapes[wc->shape].b, wshapes[wc->shape].len, rec);
    if (rl < 0)
    {
        goto internal;
    }
    before = w.s[wc->victim].delivered.len;
    world_feed(&w, wc->victim, rec, rl);
    r->transitions = 1;
    world_pump(&w, 30);
    if (wc->shape == 0 && w.s[wc->victim].delivered.len != before + 2)
    {
        r->violation = 2;
        snprintf(r->key, sizeof(r->key), "internal|partW|control-record-not-delivered|%s|v=%d", wsuites[wc->si].name, wc->victim);
        snprintf(r->what, sizeof(r->what), "the toolkit's well-formed application record was not delivered (rc %d)", w.s[wc->victim].err_rc);
        world_free(&w);
        return;
    }
    for (s2 = 0; s2 < 2; s2++)
    {
        ssl_t *x = w.s[s2].ssl;
        if (x && (x->insize > SSL_MAX_BUF_SIZE || x->outsize > SSL_MAX_BUF_SIZE) && !r->violation)
        {
            r->violation = 1;
            snprintf(r->key, sizeof(r->key), "buffer-exceeds-SSL_MAX_BUF_SIZE|inner-plaintext");
            snprintf(r->what, sizeof(r->what), "side %d buffers grew to in %d / out %d bytes", s2, x->insize, x->outsize);
        }
    }
    if (w.corrupt && !r->violation)
    {
        r->violation = 1;
        snprintf(r->key, sizeof(r->key), "readbuf-out-of-bounds|inner-plaintext|%s", wc->victim ? "server" : "client");
        snprintf(r->what, sizeof(r->what), "after the record matrixSslGetReadbuf returned a region outside the input buffer");
    }
    world_free(&w);
    env_track(0);
    live = env_live();
    if (live != 0 && !r->violation)
    {
        void *sites[2];
        char site[128] = "?";
        if (env_live_sites(sites, 2) > 0)
        {
            mx_addr_func(sites[0], site, sizeof(site));
        }
        r->violation = 1;
        snprintf(r->key, sizeof(r->key), "leak-after-delete|inner-plaintext|%s|alloc-in=%s", wc->victim ? "server" : "client", site);
        snprintf(r->what, sizeof(r->what), "%ld tracked allocations still live after teardown, first allocated in %s [%s]", live, site, r->desc);
    }
    snprintf(r->outcome, sizeof(r->outcome), "partW:%s:%s:%s:%s", wsuites[wc->si].name, wc->victim ? "server" : "client", wshapes[wc->shape].name, r->violation ? "VIOLATION" : "ok");
    r->trace_hash = fnv1a(&wc->shape, sizeof(int), FNV0);
    return;
internal:
    r->violation = 2;
    snprintf(r->key, sizeof(r->key), "internal|partW|setup|%s|v=%d", wsuites[wc->si].name, wc->victim);
    snprintf(r->what, sizeof(r->what), "handshake or toolkit setup for part W failed");
}

static void w_run_group(int si, int victim)
{
    wcase_t wc;
    int sh;
    for (sh = 0; sh < NWSHAPE; sh++)
    {
        char desc[200];
        wc.si = si; wc.victim = victim; wc.shape = sh;
        snprintf(desc, sizeof(desc), "W;s=%d;v=%d;x=%d (part W: TLS 1.3 %s, to the %s, inner plaintext %s)", si, victim, sh, wsuites[si].name, victim ? "server" : "client", wshapes[sh].name);
        mx_fork_case(desc, w_run_case, &wc);
    }
}
#endif
