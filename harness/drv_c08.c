/* drv_c08 - C08: no memory fault, hang or leak on any network input in any state.
 *
 * ASan+UBSan build.  For every configuration and every honest-handshake prefix / connected
 * state, the next honest unit travelling to each role is the seed, and the COMPLETE
 * single-edit neighbourhood from a structure-agnostic alphabet is applied on a fork()ed
 * snapshot: every truncation, every byte x 8 values (thorough 255), every 2-byte window x
 * {0000,0001,7fff,ffff,n-1,n+1} (hits every 16-bit length/count at every offset), every
 * 3-byte window x {000000,00ffff,ffffff} (24-bit handshake / fragment lengths), every
 * split of a plaintext handshake record into two records, coalescing with the next unit,
 * plus all raw strings of length <= 2 and all 5-byte record headers over a 6-value
 * alphabet in selected states.  After the edit the world is pumped to quiescence and
 * everything is deleted.  Oracle: no sanitizer report / signal / hang, buffer sizes within
 * SSL_MAX_BUF_SIZE, tracked live allocations back to zero. */
#include "mxv.h"
#include "wire.h"
#include "san.h"
#include "tk_flight.h"
#include "c08_vec.h"

#define MAXCFG 96
static wcfg_t cfgs[MAXCFG];
static int veconly[MAXCFG];   /* quick tier: configurations explored with the vector-resize edits only */
static int ncfg, nsteps[MAXCFG];
static int thorough;

typedef struct { int ci, p; } grp_t;
static grp_t groups[MAXCFG * 40];
static long ngroups;

enum { E_TRUNC = 0, E_BYTE, E_W2, E_W3, E_SPLIT, E_COALESCE, E_RAW, E_HDR, E_REFLIGHT, E_VEC, E_OLD, E_CCSN, E_NK };
static const char *ename[] = { "truncate", "byte", "window16", "window24", "split-record", "coalesce", "raw-string", "raw-header", "re-record-flight", "vector-resize", "earlier-unit-again", "ccs-records-in-front" };
#define HIST_MAX 12
#define HIST_LEN 4200
typedef struct { unsigned char kind; int off, val; } edit_t;

typedef struct {
    world_t w;
    int ci, p, victim;
    unsigned char seed[20000], next[20000];
    int seed_len, next_len;
    /* plaintext handshake units already delivered to the victim on the way to this state (E_OLD) */
    unsigned char hist[HIST_MAX][HIST_LEN];
    int hist_len[HIST_MAX], nhist;
    edit_t e;
} gctx_t;

static const int hv[6] = { 0x00, 0x01, 0x16, 0x17, 0x7f, 0xff };

static int byte_val(int k, unsigned char x)
{
    switch (k)
    {
    case 0: return 0x00;
    case 1: return 0x01;
    case 2: return 0x7f;
    case 3: return 0x80;
    case 4: return 0xff;
    case 5: return x ^ 0x01;
    case 6: return x ^ 0x80;
    case 7: return (x + 1) & 0xff;
    default: return (k - 8) & 0xff;
    }
}

static int reach_state(gctx_t *g)
{
    const wcfg_t *c = &cfgs[g->ci];
    int n = nsteps[g->ci];
    env_live_reset();
    env_track(1);
    if (world_init(&g->w, c) < 0)
    {
        return -2;
    }
    {
        /* world_run_steps, with a copy of every plaintext handshake unit delivered to the victim */
        int turn = 0, k = 0, want = g->p <= n ? g->p : 1000, d;
        g->nhist = 0;
        world_collect(&g->w, 0);
        while (k < want)
        {
            for (d = 0; d < 2; d++)
            {
                wire_t *q = &g->w.wire[(turn + d) % 2];
                if (q->n > 0)
                {
                    rec_t *x = &q->r[q->head];
                    if ((turn + d) % 2 == 1 - g->victim && x->p[0] == SSL_RECORD_TYPE_HANDSHAKE && x->len <= HIST_LEN && g->nhist < HIST_MAX)
                    {
                        hmsg_t hm[12];
                        if (hs_msgs(x->p, x->len, ver_is_dtls(c->ver), hm, 12) > 0)
                        {
                            memcpy(g->hist[g->nhist], x->p, (size_t) x->len);
                            g->hist_len[g->nhist++] = x->len;
                        }
                    }
                    break;
                }
            }
            if (!world_step(&g->w, &turn))
            {
                break;
            }
            k++;
        }
        if (g->p <= n)
        {
            return k == g->p ? 0 : -3;
        }
        if (k != n)
        {
            return -4;
        }
    }
    world_app_send(&g->w, 0, (const unsigned char *) "c-data-1", 8);
    world_app_send(&g->w, 1, (const unsigned char *) "s-data-1", 8);
    world_pump(&g->w, 50);
    return 0;
}

/* seed = next honest unit travelling to the victim (if none and the peer is complete, an application record) */
static void take_seed(gctx_t *g)
{
    int peer = 1 - g->victim;
    wire_t *q = &g->w.wire[peer];
    g->seed_len = g->next_len = 0;
    if (q->n == 0 && world_is_complete(&g->w, peer))
    {
        static unsigned char msg[300];
        memset(msg, 0x6d, sizeof(msg));
        world_app_send(&g->w, peer, msg, 300);
    }
    if (q->n > 0)
    {
        rec_t *r = &q->r[q->head];
        if (r->len <= (int) sizeof(g->seed))
        {
            memcpy(g->seed, r->p, (size_t) r->len);
            g->seed_len = r->len;
        }
        if (q->n > 1)
        {
            rec_t *r2 = &q->r[(q->head + 1) % W_MAXREC];
            if (r2->len <= (int) sizeof(g->next))
            {
                memcpy(g->next, r2->p, (size_t) r2->len);
                g->next_len = r2->len;
            }
        }
    }
}

static void run_case(void *ctx, mx_result_t *r)
{
    gctx_t *g = ctx;
    const wcfg_t *c = &cfgs[g->ci];
    const edit_t *e = &g->e;
    int v = g->victim, peer = 1 - v, dtls = ver_is_dtls(c->ver), hdr = dtls ? 13 : 5;
    static unsigned char buf[41000];
    int len = 0, rc, s, consumed_seed = 1;
    long live;

    r->nontrivial = 1;
    memcpy(buf, g->seed, (size_t) g->seed_len);
    len = g->seed_len;
    switch (e->kind)
    {
    case E_TRUNC: len = e->off; break;
    case E_BYTE: buf[e->off] = (unsigned char) byte_val(e->val, buf[e->off]); break;
    case E_W2:
    {
        int n = (buf[e->off] << 8) | buf[e->off + 1], nv;
        static const int fixed[4] = { 0x0000, 0x0001, 0x7fff, 0xffff };
        nv = e->val < 4 ? fixed[e->val] : e->val == 4 ? (n - 1) & 0xffff : (n + 1) & 0xffff;
        buf[e->off] = (unsigned char) (nv >> 8); buf[e->off + 1] = (unsigned char) nv;
        break;
    }
    case E_W3:
    {
        static const int fixed[3] = { 0x000000, 0x00ffff, 0xffffff };
        int nv = fixed[e->val];
        buf[e->off] = (unsigned char) (nv >> 16); buf[e->off + 1] = (unsigned char) (nv >> 8); buf[e->off + 2] = (unsigned char) nv;
        break;
    }
    case E_SPLIT:
    {
        /* record body split at off (1 <= off < bodylen): two records with the same header fields */
        int bl = g->seed_len - hdr, a = e->off, b = bl - a;
        memcpy(buf, g->seed, (size_t) hdr);
        buf[hdr - 2] = (unsigned char) (a >> 8); buf[hdr - 1] = (unsigned char) a;
        memcpy(buf + hdr, g->seed + hdr, (size_t) a);
        memcpy(buf + hdr + a, g->seed, (size_t) hdr);
        if (dtls)
        {
            buf[hdr + a + 10] ^= 0x40; /* distinct record sequence number for the second record */
        }
        buf[hdr + a + hdr - 2] = (unsigned char) (b >> 8); buf[hdr + a + hdr - 1] = (unsigned char) b;
        memcpy(buf + hdr + a + hdr, g->seed + hdr + a, (size_t) b);
        len = g->seed_len + hdr;
        break;
    }
    case E_COALESCE:
        memcpy(buf + len, g->next, (size_t) g->next_len);
        len += g->next_len;
        if (e->val == 1 && len > 3)
        {
            len -= 3; /* coalesced with a truncated follower */
        }
        break;
    case E_REFLIGHT:
    {
        /* the consecutive plaintext handshake records at the head of the wire are re-cut into three records at body
           offsets off < val: the handshake BYTES are unchanged, only the record boundaries move */
        static unsigned char body[40000];
        int bl = 0, k, nrec = 0, cuts[4], i;
        wire_t *q = &g->w.wire[peer];
        for (k = 0; k < q->n; k++)
        {
            rec_t *x = &q->r[(q->head + k) % W_MAXREC];
            if (x->len <= hdr || x->p[0] != SSL_RECORD_TYPE_HANDSHAKE || bl + x->len - hdr > (int) sizeof(body))
            {
                break;
            }
            memcpy(body + bl, x->p + hdr, (size_t) (x->len - hdr));
            bl += x->len - hdr;
            nrec++;
        }
        cuts[0] = 0; cuts[1] = e->off; cuts[2] = e->val; cuts[3] = bl;
        len = 0;
        for (i = 0; i < 3; i++)
        {
            int a = cuts[i], b = cuts[i + 1] - cuts[i];
            memcpy(buf + len, g->seed, (size_t) hdr);
            buf[len + hdr - 2] = (unsigned char) (b >> 8); buf[len + hdr - 1] = (unsigned char) b;
            memcpy(buf + len + hdr, body + a, (size_t) b);
            len += hdr + b;
        }
        for (k = 0; k < nrec; k++)
        {
            rec_t x = world_wire_pop(&g->w, peer);
            free(x.p);
        }
        consumed_seed = 0;
        break;
    }
    case E_VEC:
        /* off = flat index of the vector in the record, val = resize variant */
    {
        int mis[96], ks[96], nvec = vec_count(buf, len, dtls, mis, ks, 96);
        if (e->off >= nvec || !vec_resize(buf, &len, (int) sizeof(buf), dtls, mis[e->off], ks[e->off], e->val))
        {
            r->nontrivial = 0;
        }
        break;
    }
    case E_OLD:
    {
        /* off = index of an earlier unit, val = 0 as it was / 1 + flat vector index * VR_N + variant; DTLS: fresh record sequence number */
        len = g->hist_len[e->off];
        memcpy(buf, g->hist[e->off], (size_t) len);
        if (dtls)
        {
            buf[9] = 0x7e; buf[10] = (unsigned char) (0x10 + e->off);
        }
        if (e->val > 0)
        {
            int mis[96], ks[96], nvec = vec_count(buf, len, dtls, mis, ks, 96), fi = (e->val - 1) / VR_N;
            if (fi >= nvec || !vec_resize(buf, &len, (int) sizeof(buf), dtls, mis[fi], ks[fi], (e->val - 1) % VR_N))
            {
                r->nontrivial = 0;
            }
        }
        consumed_seed = 0;
        break;
    }
    case E_CCSN:
    {
        /* off = number of plaintext ChangeCipherSpec records put in front of the seed in the SAME buffer (TLS 1.3 ignores
           them at any time after the ClientHello; <= 1.2 must refuse them unless one is due); val = 1: without the seed */
        int k, o2 = 0;
        static unsigned char tmp[41000];
        for (k = 0; k < e->off; k++)
        {
            tmp[o2++] = 20; tmp[o2++] = dtls ? 0xfe : 3; tmp[o2++] = dtls ? 0xfd : 3;
            if (dtls)
            {
                memset(tmp + o2, 0, 8); tmp[o2 + 7] = (unsigned char) (0x60 + k); o2 += 8;
            }
            tmp[o2++] = 0; tmp[o2++] = 1; tmp[o2++] = 1;
        }
        if (e->val == 0)
        {
            memcpy(tmp + o2, g->seed, (size_t) g->seed_len);
            o2 += g->seed_len;
        }
        else if (e->val >= 2)
        {
            /* val 2 / 3: behind the ChangeCipherSpec records only the HEADER of a handshake record that announces 0x0100 /
               0xffff bytes - and the buffer ends there */
            tmp[o2++] = 22; tmp[o2++] = dtls ? 0xfe : 3; tmp[o2++] = dtls ? 0xfd : 3;
            if (dtls)
            {
                memset(tmp + o2, 0, 8); tmp[o2 + 7] = 0x6f; o2 += 8;
            }
            tmp[o2++] = e->val == 2 ? 0x01 : 0xff; tmp[o2++] = e->val == 2 ? 0x00 : 0xff;
            consumed_seed = 0;
        }
        else
        {
            consumed_seed = 0;
        }
        memcpy(buf, tmp, (size_t) o2);
        len = o2;
        break;
    }
    case E_RAW:
        len = e->off; /* 0,1,2 bytes */
        buf[0] = (unsigned char) (e->val >> 8); buf[1] = (unsigned char) e->val;
        if (len == 1) buf[0] = (unsigned char) e->val;
        consumed_seed = 0;
        break;
    case E_HDR:
    {
        int k = e->val, i;
        for (i = 0; i < 5; i++)
        {
            buf[i] = (unsigned char) hv[k % 6];
            k /= 6;
        }
        memset(buf + 5, 0x41, 64);
        len = 5 + 64;
        consumed_seed = 0;
        break;
    }
    }
    if (consumed_seed && g->w.wire[peer].n > 0)
    {
        rec_t x = world_wire_pop(&g->w, peer);
        free(x.p);
        if (e->kind == E_COALESCE && g->w.wire[peer].n > 0)
        {
            x = world_wire_pop(&g->w, peer);
            free(x.p);
        }
    }
    rc = len > 0 ? world_feed(&g->w, v, buf, len) : 0;
    if (getenv("MXV_DEBUG") && g->w.s[v].ssl)
    {
        fprintf(stderr, "after edit feed: rc %d inlen %d insize %d hsState %d err %d flags %x\n", rc, g->w.s[v].ssl->inlen, g->w.s[v].ssl->insize, g->w.s[v].ssl->hsState, g->w.s[v].ssl->err, g->w.s[v].ssl->flags);
    }
    world_pump(&g->w, 100);
    for (s = 0; s < 2; s++)
    {
        ssl_t *ssl = g->w.s[s].ssl;
        if (ssl && (ssl->insize > SSL_MAX_BUF_SIZE || ssl->outsize > SSL_MAX_BUF_SIZE))
        {
            r->violation = 1;
            snprintf(r->key, sizeof(r->key), "buffer-exceeds-SSL_MAX_BUF_SIZE|%s", ename[e->kind]);
            snprintf(r->what, sizeof(r->what), "side %d buffers grew to in %d / out %d bytes (max %d) after %s edit", s, ssl->insize, ssl->outsize, SSL_MAX_BUF_SIZE, ename[e->kind]);
        }
    }
    if (g->w.corrupt && !r->violation)
    {
        r->violation = 1;
        snprintf(r->key, sizeof(r->key), "readbuf-out-of-bounds|%s|%s", ver_name(c->ver), v ? "server" : "client");
        snprintf(r->what, sizeof(r->what), "after the edit (%s off %d val %d) matrixSslGetReadbuf returned a region outside the input buffer (ssl->inlen out of range): the next recv() would write out of bounds [%s]",
            ename[e->kind], e->off, e->val, r->desc);
    }
    snprintf(r->outcome, sizeof(r->outcome), "%s:%s:c%d%d", ename[e->kind], rc < 0 ? "err" : rc == MATRIXSSL_REQUEST_RECV ? "recv" : "ok",
        world_is_complete(&g->w, 0), world_is_complete(&g->w, 1));
    r->transitions = g->w.actions;
    r->trace_hash = world_trace_hash(&g->w);
    world_free(&g->w);
    env_track(0);
    live = env_live();
    if (live != 0 && !r->violation && !g->w.corrupt)
    {
        char cd[96];
        cfg_desc(c, cd, sizeof(cd));
        r->violation = 1;
        {
            void *sites[2];
            char site[128] = "?";
            if (env_live_sites(sites, 2) > 0)
            {
                mx_addr_func(sites[0], site, sizeof(site));
            }
            env_live_dump();
            snprintf(r->key, sizeof(r->key), "leak-after-delete|%s|%s|alloc-in=%s", ver_name(c->ver), v ? "server" : "client", site);
            snprintf(r->what, sizeof(r->what), "%s: %ld tracked allocations still live after both sessions and key sets were deleted, first allocated in %s (edit %s off %d val %d fed to %s) [%s]",
                cd, live, site, ename[e->kind], e->off, e->val, v ? "server" : "client", r->desc);
        }
    }
}

static void on_abnormal(const char *desc, int status, mx_result_t *r)
{
    char k[200];
    (void) status;
    if (san_classify(k, sizeof(k)))
    {
        snprintf(r->key, sizeof(r->key), "%s", k);
        snprintf(r->what, sizeof(r->what), "sanitizer report %s on %s", k, desc);
    }
}

static void fork_edit(gctx_t *g, int kind, int off, int val)
{
    char desc[220], cd[96];
    g->e.kind = (unsigned char) kind; g->e.off = off; g->e.val = val;
    cfg_desc(&cfgs[g->ci], cd, sizeof(cd));
    snprintf(desc, sizeof(desc), "cfg=%d;p=%d;v=%d;k=%d;o=%d;x=%d (%s state=%d/%d to=%s %s)", g->ci, g->p, g->victim, kind, off, val, cd, g->p, nsteps[g->ci],
        g->victim ? "server" : "client", ename[kind]);
    mx_fork_case(desc, run_case, g);
}

/* ------------------------------------------------------------------ part T: malicious TLS 1.3 peer (toolkit)
 * The protected TLS 1.3 flights are opened with the sender's handshake traffic secret, ONE handshake message is edited at
 * the byte level, Finished is recomputed over the edited transcript and the flight is re-sealed: the edits reach the parsers
 * of EncryptedExtensions / CertificateRequest / Certificate / CertificateVerify / Finished behind the record protection,
 * which ciphertext edits (rejected by the AEAD) never do. */
enum { T_BYTE = 0, T_W2, T_W3, T_TRUNC_FIX, T_TRUNC_NOFIX, T_EXTEND, T_NONE, T_EMPTYTYPE, T_KEYUPDATE, T_RETYPE, T_VEC, T_NK };
static const char *tname[] = { "msg-byte", "msg-window16", "msg-window24", "msg-truncate-header-fixed", "msg-truncate-header-kept", "msg-extend", "msg-none", "empty-message-of-type", "key-update-with-body", "msg-retyped", "msg-vector-resize" };
typedef struct { a_ctx_t *g; int mi, kind, off, val; } tcase_t;

static void t_run_case(void *ctx, mx_result_t *r)
{
    tcase_t *c = ctx;
    a_ctx_t *g = c->g;
    const char *acname = g->ci >= 100 ? "tls13-rsa-tickets-post-handshake" : acfgs[g->ci].name;
    static unsigned char em[24100], rec[24200], th[64], vd[64], fin[4 + 64];
    tk_msg_t out[16];
    int i, el, v = g->victim, s;
    buf_t tr;
    long live;

    r->nontrivial = c->kind != T_NONE;
    /* edited copy of message mi */
    el = g->m[c->mi].len;
    memcpy(em, g->m[c->mi].p, (size_t) el);
    switch (c->kind)
    {
    case T_BYTE: em[c->off] = (unsigned char) byte_val(c->val, em[c->off]); break;
    case T_W2:
    {
        int n = (em[c->off] << 8) | em[c->off + 1], nv;
        static const int fixed[4] = { 0x0000, 0x0001, 0x7fff, 0xffff };
        nv = c->val < 4 ? fixed[c->val] : c->val == 4 ? (n - 1) & 0xffff : (n + 1) & 0xffff;
        em[c->off] = (unsigned char) (nv >> 8); em[c->off + 1] = (unsigned char) nv;
        break;
    }
    case T_W3:
    {
        static const int fixed[3] = { 0x000000, 0x00ffff, 0xffffff };
        int nv = fixed[c->val];
        em[c->off] = (unsigned char) (nv >> 16); em[c->off + 1] = (unsigned char) (nv >> 8); em[c->off + 2] = (unsigned char) nv;
        break;
    }
    case T_TRUNC_FIX:
        el = 4 + c->off;
        em[1] = (unsigned char) (c->off >> 16); em[2] = (unsigned char) (c->off >> 8); em[3] = (unsigned char) c->off;
        break;
    case T_TRUNC_NOFIX:
        el = 4 + c->off;
        break;
    case T_EMPTYTYPE:
        em[0] = (unsigned char) c->val; em[1] = em[2] = em[3] = 0;
        el = 4;
        break;
    case T_KEYUPDATE:
        em[0] = 24; em[1] = em[2] = 0; em[3] = (unsigned char) c->off;
        memset(em + 4, c->val, (size_t) c->off);
        el = 4 + c->off;
        break;
    case T_RETYPE:
        em[0] = (unsigned char) c->val;
        break;
    case T_VEC:
    {
        /* off = vector index inside the message, val = resize variant: the message travels as a pseudo record through the
           shared vector grammar (TLS 1.3 layouts) */
        static unsigned char tmp[24200];
        int tl = 5 + el, ok;
        tmp[0] = 22; tmp[1] = 3; tmp[2] = 3; tmp[3] = (unsigned char) (el >> 8); tmp[4] = (unsigned char) el;
        memcpy(tmp + 5, em, (size_t) el);
        vec_tls13 = 1;
        ok = vec_resize(tmp, &tl, (int) sizeof(tmp), 0, 0, c->off, c->val);
        vec_tls13 = 0;
        if (ok && tl - 5 <= (int) sizeof(em))
        {
            el = tl - 5;
            memcpy(em, tmp + 5, (size_t) el);
        }
        else
        {
            r->nontrivial = 0;
        }
        break;
    }
    case T_EXTEND:
        memset(em + el, 0x41, (size_t) c->off);
        el += c->off;
        em[1] = (unsigned char) ((el - 4) >> 16); em[2] = (unsigned char) ((el - 4) >> 8); em[3] = (unsigned char) (el - 4);
        break;
    }
    buf_init(&tr);
    buf_add(&tr, g->tr.p, g->tr.len);
    for (i = 0; i < g->nm; i++)
    {
        out[i] = g->m[i];
        if (i == c->mi)
        {
            out[i].p = em;
            out[i].len = el;
        }
        else if (g->m[i].type == 20 && g->m[i].len == 4 + g->hashlen && i > c->mi)
        {
            /* Finished after the edited message: recomputed over the edited transcript */
            tk_transcript_hash(g->hashlen, &tr, th);
            tk13_finished(&g->fk, th, vd);
            memcpy(fin, g->m[i].p, 4);
            memcpy(fin + 4, vd, (size_t) g->hashlen);
            out[i].p = fin;
        }
        buf_add(&tr, out[i].p, (size_t) out[i].len);
    }
    for (i = 0; i < g->nfirst; i++)
    {
        world_feed(&g->w, v, g->first_units[i], g->first_len[i]);
    }
    g->fk.seq = 0;
    for (i = 0; i < g->nm; i++)
    {
        int rl;
        if (out[i].len <= 0 || out[i].len > 16000)
        {
            continue;
        }
        rl = tk13_seal(&g->fk, 22, out[i].p, out[i].len, rec);
        if (g->w.s[v].err_rc < 0 || (g->w.s[v].ssl && g->w.s[v].ssl->err != SSL_ALERT_NONE))
        {
            break;
        }
        world_feed(&g->w, v, rec, rl);
    }
    world_pump(&g->w, 60);
    for (s = 0; s < 2; s++)
    {
        ssl_t *ssl = g->w.s[s].ssl;
        if (ssl && (ssl->insize > SSL_MAX_BUF_SIZE || ssl->outsize > SSL_MAX_BUF_SIZE))
        {
            r->violation = 1;
            snprintf(r->key, sizeof(r->key), "buffer-exceeds-SSL_MAX_BUF_SIZE|%s", tname[c->kind]);
            snprintf(r->what, sizeof(r->what), "side %d buffers grew to in %d / out %d bytes after %s", s, ssl->insize, ssl->outsize, tname[c->kind]);
        }
    }
    if (g->w.corrupt && !r->violation)
    {
        r->violation = 1;
        snprintf(r->key, sizeof(r->key), "readbuf-out-of-bounds|tls13-peer|%s", v ? "server" : "client");
        snprintf(r->what, sizeof(r->what), "after a protected-message edit (%s msg %d type %d off %d val %d) matrixSslGetReadbuf returned a region outside the input buffer [%s]",
            tname[c->kind], c->mi, g->m[c->mi].type, c->off, c->val, r->desc);
    }
    snprintf(r->outcome, sizeof(r->outcome), "peer13:%s:type%d:c%d%d:a%d", tname[c->kind], g->m[c->mi].type, world_is_complete(&g->w, 0), world_is_complete(&g->w, 1),
        g->w.s[v].ssl ? g->w.s[v].ssl->err : -1);
    r->transitions = g->w.actions;
    r->trace_hash = world_trace_hash(&g->w);
    world_free(&g->w);
    buf_free(&g->tr);
    buf_free(&tr);
    env_track(0);
    live = env_live();
    if (live != 0 && !r->violation)
    {
        void *sites[2];
        char site[128] = "?";
        if (env_live_sites(sites, 2) > 0)
        {
            mx_addr_func(sites[0], site, sizeof(site));
        }
        env_live_dump();
        r->violation = 1;
        snprintf(r->key, sizeof(r->key), "leak-after-delete|tls13-peer|%s|alloc-in=%s", v ? "server" : "client", site);
        snprintf(r->what, sizeof(r->what), "%s: %ld tracked allocations still live after teardown, first allocated in %s (malicious peer edit %s of message %d type %d off %d val %d fed to %s) [%s]",
            acname, live, site, tname[c->kind], c->mi, g->m[c->mi].type, c->off, c->val, v ? "server" : "client", r->desc);
    }
}

static int t_setup(a_ctx_t *g)
{
    env_live_reset();
    env_track(1);
    return a_setup_full(g);
}

static void t_fork(a_ctx_t *g, int mi, int kind, int off, int val)
{
    char desc[220];
    tcase_t c = { g, mi, kind, off, val };
    snprintf(desc, sizeof(desc), "T;c=%d;v=%d;m=%d;k=%d;o=%d;x=%d (%s to=%s message %d type %d %s)", g->ci, g->victim, mi, kind, off, val, g->ci >= 100 ? "tls13-rsa-tickets-post-handshake" : acfgs[g->ci].name,
        g->victim ? "server" : "client", mi, g->m[mi].type, tname[kind]);
    mx_fork_case(desc, t_run_case, &c);
}

/* part U: post-handshake messages of a malicious TLS 1.3 server (NewSessionTicket, KeyUpdate, anything else) under the
 * application traffic keys: the genuine NewSessionTicket records are opened with "s ap traffic", edited and re-sealed */
static int u_setup(a_ctx_t *g)
{
    wcfg_t c;
    unsigned char sec[64], pt[20000];
    int turn = 0, i, n, sl, it, k, guard = 0;
    env_live_reset();
    env_track(1);
    memset(&c, 0, sizeof(c));
    c.ver = V_TLS13; c.kx = KX_13_RSA; c.tickets = 1;
    g->hashlen = 32;
    g->victim = 0;
    if (world_init(&g->w, &c) < 0)
    {
        return -1;
    }
    buf_init(&g->tr);
    world_collect(&g->w, 0);
    while (!world_is_complete(&g->w, 1) && guard++ < 50 && world_step(&g->w, &turn))
    {
    }
    if (!world_is_complete(&g->w, 1) || !world_is_complete(&g->w, 0))
    {
        return -2;
    }
    sl = tk_keylog_find("s ap traffic", sec);
    if (sl != 32 || tk13_keys_from_secret(&g->fk, TLS_AES_128_GCM_SHA256, sec, 32) < 0)
    {
        return -3;
    }
    n = g->w.wire[1].n;
    g->hl = 0;
    g->nfirst = 0;
    for (i = 0; i < n; i++)
    {
        rec_t *r = &g->w.wire[1].r[(g->w.wire[1].head + i) % W_MAXREC];
        k = tk13_open(&g->fk, r->p, r->len, pt, &it);
        if (k < 0 || it != 22 || g->hl + k > (int) sizeof(g->hs))
        {
            return -4;
        }
        memcpy(g->hs + g->hl, pt, (size_t) k);
        g->hl += k;
    }
    g->nm = tk_split_msgs(g->hs, g->hl, g->m, 16);
    if (g->nm < 1)
    {
        return -5;
    }
    world_wire_clear(&g->w, 1);
    return 0;
}

static void t_enumerate(a_ctx_t *g, int mi);

static void u_run_group(int mi)
{
    static a_ctx_t g;
    int rc, t, b, l;
    memset(&g, 0, sizeof(g));
    g.ci = 100;
    if ((rc = u_setup(&g)) != 0)
    {
        mx_result_t r;
        memset(&r, 0, sizeof(r));
        r.violation = 2;
        snprintf(r.key, sizeof(r.key), "toolkit-setup-failed|post-handshake|rc=%d", rc);
        snprintf(r.what, sizeof(r.what), "toolkit could not open the NewSessionTicket flight (rc %d)", rc);
        snprintf(r.desc, sizeof(r.desc), "T;c=100;v=0");
        mx_record(&r);
        return;
    }
    if (mi < g.nm)
    {
        t_enumerate(&g, mi);
        if (mi == 0)
        {
            /* any handshake message type, empty, after the handshake; KeyUpdate with every short body; the ticket body under every type */
            for (t = 0; t < 256 && !mx_deadline_hit(); t++)
            {
                t_fork(&g, 0, T_EMPTYTYPE, 0, t);
                if (thorough || t < 32 || t == 254 || t == 255)
                {
                    t_fork(&g, 0, T_RETYPE, 0, t);
                }
            }
            for (l = 0; l <= 3; l++)
            {
                for (b = 0; b < 4; b++)
                {
                    static const int bv[4] = { 0, 1, 2, 255 };
                    t_fork(&g, 0, T_KEYUPDATE, l, bv[b]);
                }
            }
        }
    }
    world_free(&g.w);
    buf_free(&g.tr);
    env_track(0);
}

static void t_run_group(int aci, int victim, int mi)
{
    static a_ctx_t g;
    int o, k, L, rc;
    memset(&g, 0, sizeof(g));
    g.ci = aci; g.victim = victim;
    if ((rc = t_setup(&g)) != 0)
    {
        mx_result_t r;
        memset(&r, 0, sizeof(r));
        r.violation = 2;
        snprintf(r.key, sizeof(r.key), "toolkit-setup-failed|%s|v=%d|rc=%d", acfgs[aci].name, victim, rc);
        snprintf(r.what, sizeof(r.what), "toolkit could not open the honest flight of %s (victim %d, rc %d)", acfgs[aci].name, victim, rc);
        snprintf(r.desc, sizeof(r.desc), "T;c=%d;v=%d", aci, victim);
        mx_record(&r);
        return;
    }
    if (mi >= g.nm)
    {
        world_free(&g.w);
        buf_free(&g.tr);
        env_track(0);
        return;
    }
    t_enumerate(&g, mi);
    world_free(&g.w);
    buf_free(&g.tr);
    env_track(0);
}

static void t_enumerate(a_ctx_t *gp, int mi)
{
    int o, k, L;
#define g (*gp)
    L = g.m[mi].len;
    if (mi == 0)
    {
        t_fork(&g, 0, T_NONE, 0, 0);
    }
    for (o = 0; o < L && !mx_deadline_hit(); o++)
    {
        /* quick: every offset of short messages, head / tail / 16-byte grid of long ones (certificates), and a reduced value set */
        int dense = thorough || L <= 260 || o < 128 || o >= L - 48 || (o % 16) == 0;
        static const int qb[4] = { 0, 4, 5, 6 }, qw[3] = { 0, 3, 5 };   /* byte: 00 ff x^01 x^80; window16: 0000 ffff n+1 */
        if (!dense)
        {
            continue;
        }
        if (thorough)
        {
            for (k = 0; k < 8; k++) t_fork(&g, mi, T_BYTE, o, k);
            if (o + 1 < L) for (k = 0; k < 6; k++) t_fork(&g, mi, T_W2, o, k);
            if (o + 2 < L) for (k = 0; k < 3; k++) t_fork(&g, mi, T_W3, o, k);
        }
        else
        {
            for (k = 0; k < 4; k++) t_fork(&g, mi, T_BYTE, o, qb[k]);
            if (o + 1 < L) for (k = 0; k < 3; k++) t_fork(&g, mi, T_W2, o, qw[k]);
            if (o + 2 < L) t_fork(&g, mi, T_W3, o, 2);
        }
        if (o <= L - 4)
        {
            t_fork(&g, mi, T_TRUNC_FIX, o, 0);
            t_fork(&g, mi, T_TRUNC_NOFIX, o, 0);
        }
    }
    t_fork(&g, mi, T_EXTEND, 1, 0);
    t_fork(&g, mi, T_EXTEND, 2, 0);
    t_fork(&g, mi, T_EXTEND, 16, 0);
    {
        /* every length-prefixed vector of the protected message resized with all enclosing lengths fixed up */
        static unsigned char tmp[24200];
        int mis[96], ks[96], nvec, fi, var, tl = 5 + L;
        if (L > 0 && L <= 24000)
        {
            tmp[0] = 22; tmp[1] = 3; tmp[2] = 3; tmp[3] = (unsigned char) (L >> 8); tmp[4] = (unsigned char) L;
            memcpy(tmp + 5, g.m[mi].p, (size_t) L);
            vec_tls13 = 1;
            nvec = vec_count(tmp, tl, 0, mis, ks, 96);
            vec_tls13 = 0;
            for (fi = 0; fi < nvec && !mx_deadline_hit(); fi++)
            {
                for (var = 0; var < VR_N; var++) t_fork(&g, mi, T_VEC, ks[fi], var);
            }
        }
    }
#undef g
}

#include "c08_peer12.h"
#include "c08_frag.h"
#include "c08_inner.h"

static void run_group(long gi, void *unused)
{
    static gctx_t g;
    int v, k, o, nv = thorough ? 256 : 8, hdr;
    (void) unused;
    if (groups[gi].ci >= 1000)
    {
        int x = groups[gi].ci - 1000;
        if (x >= 600)
        {
            w_run_group((x - 600) / 2, (x - 600) % 2);
        }
        else if (x >= 500)
        {
            f_run_group((x - 500) % 2, (x - 500) / 2 % 2, groups[gi].p);
        }
        else if (x >= 300)
        {
            v_run_group((x - 300) / 2, (x - 300) % 2);
        }
        else if (x >= 200)
        {
            u_run_group(groups[gi].p);
        }
        else
        {
            t_run_group(x / 2, x % 2, groups[gi].p);
        }
        return;
    }
    for (v = 0; v < 2; v++)
    {
        memset(&g, 0, sizeof(g));
        g.ci = groups[gi].ci;
        g.p = groups[gi].p;
        g.victim = v;
        hdr = ver_is_dtls(cfgs[g.ci].ver) ? 13 : 5;
        if (reach_state(&g) != 0)
        {
            mx_result_t r;
            memset(&r, 0, sizeof(r));
            r.violation = 2;
            snprintf(r.key, sizeof(r.key), "cannot-reach-state|cfg=%d|p=%d", g.ci, g.p);
            snprintf(r.what, sizeof(r.what), "harness could not reach state p=%d of cfg %d", g.p, g.ci);
            snprintf(r.desc, sizeof(r.desc), "cfg=%d;p=%d", g.ci, g.p);
            mx_record(&r);
            return;
        }
        take_seed(&g);
        if (veconly[g.ci])
        {
            int mis[96], ks[96], nvec = vec_count(g.seed, g.seed_len, ver_is_dtls(cfgs[g.ci].ver), mis, ks, 96), fi, var;
            for (fi = 0; g.seed_len > 0 && fi < nvec && !mx_deadline_hit(); fi++)
            {
                for (var = 0; var < VR_N; var++) fork_edit(&g, E_VEC, fi, var);
            }
            continue;
        }
        /* earlier plaintext handshake units delivered once more in this later state (a retransmission, a replay): as they
           were, and - DTLS, where a repeated unit is legitimate traffic - with every vector resized */
        {
            int j, dt = ver_is_dtls(cfgs[g.ci].ver);
            for (j = 0; j < g.nhist && !mx_deadline_hit(); j++)
            {
                fork_edit(&g, E_OLD, j, 0);
                if (dt)
                {
                    int mis[96], ks[96], nvec = vec_count(g.hist[j], g.hist_len[j], dt, mis, ks, 96), fi, var;
                    static const int qv[3] = { VR_GROW16, VR_SHRINK1, VR_EMPTY };
                    for (fi = 0; fi < nvec; fi++)
                    {
                        for (var = 0; var < (thorough ? VR_N : 3); var++) fork_edit(&g, E_OLD, j, 1 + fi * VR_N + (thorough ? var : qv[var]));
                    }
                }
            }
        }
        if (g.seed_len > 0)
        {
            int L = g.seed_len;
            for (o = 0; o < L && !mx_deadline_hit(); o++)
            {
                int dense = thorough || L <= 400 || o < 160 || o >= L - 48 || (o % 16) == 0;
                fork_edit(&g, E_TRUNC, o, 0);
                if (!dense)
                {
                    continue;
                }
                for (k = 0; k < nv; k++)
                {
                    if (thorough)
                    {
                        /* thorough: set the byte to every other value (val 8+k means "set to k") */
                        if (k == g.seed[o])
                        {
                            continue;
                        }
                        fork_edit(&g, E_BYTE, o, 8 + k);
                    }
                    else
                    {
                        fork_edit(&g, E_BYTE, o, k);
                    }
                }
                if (!thorough)
                {
                    /* two more set-to values that matter where the byte is a length or a count: 4 and 32 (val 8+v = "set to v") */
                    if (g.seed[o] != 4) fork_edit(&g, E_BYTE, o, 8 + 4);
                    if (g.seed[o] != 32) fork_edit(&g, E_BYTE, o, 8 + 32);
                }
                if (o + 1 < L)
                {
                    for (k = 0; k < 6; k++)
                    {
                        fork_edit(&g, E_W2, o, k);
                    }
                }
                if (o + 2 < L)
                {
                    for (k = 0; k < 3; k++)
                    {
                        fork_edit(&g, E_W3, o, k);
                    }
                }
            }
            /* fragmentation of plaintext handshake records and coalescing */
            if (g.seed[0] == SSL_RECORD_TYPE_HANDSHAKE && L - hdr > 1)
            {
                for (o = 1; o < L - hdr && !mx_deadline_hit(); o++)
                {
                    if (thorough || o < 64 || o >= L - hdr - 16 || (o % 16) == 0)
                    {
                        fork_edit(&g, E_SPLIT, o, 0);
                    }
                }
            }
            if (g.next_len > 0)
            {
                fork_edit(&g, E_COALESCE, 0, 0);
                fork_edit(&g, E_COALESCE, 0, 1);
            }
            for (k = 1; k <= 3; k++)
            {
                fork_edit(&g, E_CCSN, k, 0);
                fork_edit(&g, E_CCSN, k, 1);
                fork_edit(&g, E_CCSN, k, 2);
                fork_edit(&g, E_CCSN, k, 3);
            }
            /* structure-preserving resize of every length-prefixed vector of a plaintext handshake unit */
            {
                int mis[96], ks[96], nvec = vec_count(g.seed, g.seed_len, ver_is_dtls(cfgs[g.ci].ver), mis, ks, 96), fi, var;
                for (fi = 0; fi < nvec && !mx_deadline_hit(); fi++)
                {
                    for (var = 0; var < VR_N; var++) fork_edit(&g, E_VEC, fi, var);
                }
            }
            /* re-recording of a whole plaintext flight (TLS only): every pair of cut points out of {1, 4, 10 bytes into each
               handshake message, its middle, 1 byte before its end} over the concatenated record bodies */
            if (!ver_is_dtls(cfgs[g.ci].ver) && g.seed[0] == SSL_RECORD_TYPE_HANDSHAKE && g.next_len > 0 && g.next[0] == SSL_RECORD_TYPE_HANDSHAKE)
            {
                static unsigned char body[40000];
                int bl = 0, pts[96], np = 0, a, b2, kk, off2 = 0;
                wire_t *q = &g.w.wire[1 - g.victim];
                for (kk = 0; kk < q->n; kk++)
                {
                    rec_t *x = &q->r[(q->head + kk) % W_MAXREC];
                    if (x->len <= hdr || x->p[0] != SSL_RECORD_TYPE_HANDSHAKE || bl + x->len - hdr > (int) sizeof(body))
                    {
                        break;
                    }
                    memcpy(body + bl, x->p + hdr, (size_t) (x->len - hdr));
                    bl += x->len - hdr;
                }
                while (off2 + 4 <= bl && np + 5 < 96)
                {
                    int ml = 4 + ((body[off2 + 1] << 16) | (body[off2 + 2] << 8) | body[off2 + 3]);
                    static const int rel[3] = { 1, 4, 10 };
                    if (off2 + ml > bl)
                    {
                        break;
                    }
                    for (kk = 0; kk < 3; kk++)
                    {
                        if (rel[kk] < ml) pts[np++] = off2 + rel[kk];
                    }
                    if (ml / 2 > 10) pts[np++] = off2 + ml / 2;
                    if (ml - 1 > ml / 2) pts[np++] = off2 + ml - 1;
                    off2 += ml;
                }
                for (a = 0; a < np && !mx_deadline_hit(); a++)
                {
                    for (b2 = a + 1; b2 < np; b2++)
                    {
                        if (pts[a] < pts[b2] && pts[b2] < bl && pts[b2] - pts[a] <= 16384 && pts[a] <= 16384 && bl - pts[b2] <= 16384)
                        {
                            fork_edit(&g, E_REFLIGHT, pts[a], pts[b2]);
                        }
                    }
                }
            }
        }
        /* raw inputs in the first state and the connected state (quick: PSK configurations only, header alphabet on a stride) */
        if ((g.p == 0 || g.p > nsteps[g.ci]) && (thorough || cfgs[g.ci].kx == KX_PSK || cfgs[g.ci].kx == KX_13_PSK))
        {
            fork_edit(&g, E_RAW, 0, 0);
            for (k = 0; k < 256 && !mx_deadline_hit(); k++)
            {
                fork_edit(&g, E_RAW, 1, k);
            }
            for (k = 0; k < 65536 && !mx_deadline_hit(); k += thorough ? 1 : 251)
            {
                fork_edit(&g, E_RAW, 2, k);
            }
            for (k = 0; k < 7776 && !mx_deadline_hit(); k += thorough ? 1 : 5)
            {
                fork_edit(&g, E_HDR, 0, k);
            }
        }
        world_free(&g.w);
        env_track(0);
    }
}

int main(int argc, char **argv)
{
    mx_cfg_t cfg;
    const char *replay;
    int i, p;

    memset(&cfg, 0, sizeof(cfg));
    cfg.property = "C08";
    cfg.sanitizer_is_oracle = 1;
    cfg.level = "exploration";
    cfg.engine = "fork-dfs over live sessions, ASan+UBSan build, allocator seam for the leak balance";
    cfg.rule = "case = (configuration, handshake prefix or connected state, receiving role, one structure-agnostic edit of the next honest unit): every truncation; every byte x {00,01,7f,80,ff,x^01,x^80,x+1}; "
               "every 2-byte window x {0000,0001,7fff,ffff,n-1,n+1}; every 3-byte window x {000000,00ffff,ffffff}; every split of a plaintext handshake record into two; coalescing with the follower; "
               "raw strings of length <= 2 and 5-byte headers over {00,01,16,17,7f,ff}^5 in the initial and the connected state (quick: PSK configurations, header alphabet on a stride of 5, 2-byte strings on a stride of 251; long units densely at head and tail and on a 16-byte grid); "
               "all distinct; non-trivial = edit applied to a live session; part T (malicious TLS 1.3 peer): the protected flight towards the victim is opened with the sender's handshake secret, ONE handshake message "
               "(EncryptedExtensions, CertificateRequest, Certificate, CertificateVerify, Finished) gets a byte / 16-bit / 24-bit window edit, a truncation with or without header fix-up or an extension, Finished is recomputed and the flight re-sealed";
    cfg.assumptions[0] = "this is the complete single-edit neighbourhood of every honest flight in every reachable handshake state, not all byte strings; (D)TLS <= 1.2 protected phases are edited on ciphertext only (the MAC rejects before the inner parsers); TLS 1.3 protected handshake messages are edited in plaintext by part T";
    cfg.assumptions[1] = "oracle: no ASan/UBSan report, signal or 20 s hang; insize/outsize <= SSL_MAX_BUF_SIZE; after deleting sessions and keys the tracked allocation count is zero";
    replay = mx_parse_args(argc, argv, &cfg);
    thorough = !strcmp(cfg.tier, "thorough");
    cfg.bound = "one edit per execution, then honest continuation to quiescence and full teardown";
    ncfg = std_configs(cfgs, MAXCFG, thorough);
    if (!thorough)
    {
        /* quick: TLS 1.2 / DTLS 1.2 / TLS 1.3 with PSK, plus TLS 1.2 RSA and TLS 1.3 RSA (certificate parsers); everything else in thorough */
        int n = 0;
        for (i = 0; i < ncfg; i++)
        {
            const wcfg_t *c = &cfgs[i];
            int keep = (c->kx == KX_PSK && !c->cver && !c->suite && (c->ver == V_TLS12 || c->ver == V_DTLS12)) || (c->ver == V_TLS12 && c->kx == KX_RSA && !c->cver) || (c->ver == V_TLS13 && c->kx == KX_13_RSA && !c->cver) ||
                (c->ver == V_TLS13 && c->kx == KX_13_PSK && !c->early_data);
            if (!keep && c->ver == V_TLS12 && c->kx == KX_ECDHE_RSA && c->client_auth && !c->cver)
            {
                /* TLS 1.2 with client authentication (ServerKeyExchange, CertificateRequest, client Certificate and
                   CertificateVerify exist): in quick with the vector-resize edits only */
                keep = 1;
                veconly[n] = 1;
            }
            if (keep)
            {
                cfgs[n++] = *c;
            }
        }
        ncfg = n;
    }
    mx_child_init = san_child_redirect;
    mx_on_abnormal = on_abnormal;

    if (replay)
    {
        static gctx_t g;
        mx_result_t r;
        int ci, pp, v, k, o, x;
        if (replay[0] == 'F')
        {
            fcase_t f;
            mx_result_t r;
            memset(&f, 0, sizeof(f));
            if (sscanf(replay, "F;v=%d;t=%d;n=%d;d=%d.%d.%d.%d", &f.victim, &f.dtls10, &f.n, &f.d[0], &f.d[1], &f.d[2], &f.d[3]) != 7 || f.n < 1 || f.n > 4)
            {
                return 2;
            }
            memset(&r, 0, sizeof(r));
            snprintf(r.desc, sizeof(r.desc), "%s", replay);
            f_run_case(&f, &r);
            mx_replay_print(&r);
            return 0;
        }
        if (replay[0] == 'W')
        {
            wcase_t wc;
            mx_result_t r;
            if (sscanf(replay, "W;s=%d;v=%d;x=%d", &wc.si, &wc.victim, &wc.shape) != 3 || wc.si >= NWSUITE || wc.shape >= NWSHAPE)
            {
                return 2;
            }
            memset(&r, 0, sizeof(r));
            snprintf(r.desc, sizeof(r.desc), "%s", replay);
            w_run_case(&wc, &r);
            mx_replay_print(&r);
            return 0;
        }
        if (replay[0] == 'V')
        {
            static v_ctx_t vg;
            int vci, a, b;
            if (sscanf(replay, "V;c=%d;v=%d;k=%d;a=%d;b=%d", &vci, &v, &k, &a, &b) != 5 || vci >= NVCFG || k >= V_NK)
            {
                return 2;
            }
            memset(&vg, 0, sizeof(vg));
            vg.ci = vci; vg.victim = v;
            if (v_setup(&vg) != 0)
            {
                fprintf(stderr, "cannot set up the post-handshake world\n");
                return 2;
            }
            vg.kind = k; vg.a = a; vg.b = b;
            memset(&r, 0, sizeof(r));
            snprintf(r.desc, sizeof(r.desc), "%s", replay);
            v_run_case(&vg, &r);
            mx_replay_print(&r);
            return 0;
        }
        if (replay[0] == 'T')
        {
            static a_ctx_t tg;
            tcase_t tc;
            int aci, mi2;
            if (sscanf(replay, "T;c=%d;v=%d;m=%d;k=%d;o=%d;x=%d", &aci, &v, &mi2, &k, &o, &x) != 6 || (aci >= NACFG && aci != 100))
            {
                return 2;
            }
            memset(&tg, 0, sizeof(tg));
            tg.ci = aci; tg.victim = v;
            if ((aci >= 100 ? u_setup(&tg) : t_setup(&tg)) != 0 || mi2 >= tg.nm)
            {
                fprintf(stderr, "cannot set up the flight\n");
                return 2;
            }
            tc.g = &tg; tc.mi = mi2; tc.kind = k; tc.off = o; tc.val = x;
            memset(&r, 0, sizeof(r));
            snprintf(r.desc, sizeof(r.desc), "%s", replay);
            t_run_case(&tc, &r);
            mx_replay_print(&r);
            return 0;
        }
        if (sscanf(replay, "cfg=%d;p=%d;v=%d;k=%d;o=%d;x=%d", &ci, &pp, &v, &k, &o, &x) != 6 || ci >= ncfg)
        {
            fprintf(stderr, "bad replay descriptor\n");
            return 2;
        }
        nsteps[ci] = world_count_steps(&cfgs[ci]);
        memset(&g, 0, sizeof(g));
        g.ci = ci; g.p = pp; g.victim = v;
        if (reach_state(&g) != 0)
        {
            fprintf(stderr, "cannot reach state\n");
            return 2;
        }
        take_seed(&g);
        g.e.kind = (unsigned char) k; g.e.off = o; g.e.val = x;
        memset(&r, 0, sizeof(r));
        snprintf(r.desc, sizeof(r.desc), "%s", replay);
        run_case(&g, &r);
        mx_replay_print(&r);
        return 0;
    }
    mx_init(&cfg);
    /* (registered first: in the deadline-capped thorough tier these groups must not be the ones that are cut off) */
    /* part T: malicious TLS 1.3 peer, one group per (mode, victim, message index) */
    {
        int aci, vv, mi2;
        for (aci = 0; aci < NACFG; aci++)
        {
            if (!thorough && !(aci == 0 || aci == 1 || aci == 2))
            {
                continue; /* quick: RSA, PSK, ECDSA + client authentication */
            }
            for (vv = 0; vv < 2; vv++)
            {
                for (mi2 = 0; mi2 < 6; mi2++)
                {
                    groups[ngroups].ci = 1000 + aci * 2 + vv;
                    groups[ngroups].p = mi2;
                    ngroups++;
                }
            }
        }
    }
    for (i = 0; i < 3; i++)
    {
        groups[ngroups].ci = 1000 + 200;   /* part U: post-handshake messages, per NewSessionTicket message */
        groups[ngroups].p = i;
        ngroups++;
    }
    /* part F: DTLS fragment scripts, one group per (victim, DTLS version, first descriptor) */
    {
        int v2, t2, a2;
        for (t2 = 0; t2 < (thorough ? 2 : 1); t2++)
            for (v2 = 0; v2 < 2; v2++)
                for (a2 = 0; a2 < FD_N; a2++)
                {
                    groups[ngroups].ci = 1000 + 500 + t2 * 2 + v2; groups[ngroups].p = a2; ngroups++;
                }
    }
    /* part W: TLS 1.3 records with an inner plaintext no honest peer sends, one group per (suite, victim) */
    {
        int s3, v3;
        for (s3 = 0; s3 < NWSUITE; s3++)
            for (v3 = 0; v3 < 2; v3++)
            {
                groups[ngroups].ci = 1000 + 600 + s3 * 2 + v3; groups[ngroups].p = 0; ngroups++;
            }
    }
    /* part V: malicious (D)TLS <= 1.2 peer after the handshake, one group per (configuration, victim) */
    for (i = 0; i < NVCFG; i++)
    {
        if (!thorough && i >= 4)
        {
            continue;
        }
        groups[ngroups].ci = 1000 + 300 + 2 * i; groups[ngroups].p = 0; ngroups++;
        groups[ngroups].ci = 1000 + 300 + 2 * i + 1; groups[ngroups].p = 0; ngroups++;
    }
    for (i = 0; i < ncfg && !getenv("MXV_C08_ONLY_PEER13"); i++)
    {
        nsteps[i] = world_count_steps(&cfgs[i]);
        if (nsteps[i] < 0)
        {
            printf("INTERNAL property=C08 key=honest-handshake-failed what=cfg %d\n", i);
            return 2;
        }
        for (p = 0; p <= nsteps[i] + 1; p++)
        {
            groups[ngroups].ci = i;
            groups[ngroups].p = p;
            ngroups++;
        }
    }
    if (getenv("MXV_C08_ONLY_F"))
    {
        /* development aid (never set by bin/check): keep only the part F groups */
        int k = 0;
        for (i = 0; i < ngroups; i++)
        {
            if (groups[i].ci >= 1500 && groups[i].ci < 1700)
            {
                groups[k++] = groups[i];
            }
        }
        ngroups = k;
    }
    mx_parallel(ngroups, run_group, NULL);
    san_cleanup();
    return mx_finish(NULL);
}
