/* drv_c02 - C02: the delivered stream is an exact prefix of what the peer sent, under any attack.
 *
 * For each (version x record protection) an established connection is built, the sender
 * submits three messages, and EVERY member of an edit alphabet over the ciphertext
 * stream (bit flips, truncations, extensions, type/version/length rewrites, swap, drop,
 * duplicate, insert/replay, cross-direction reflection, block splices) is applied on a
 * fork()ed snapshot of the receiver. */
#include "mxv.h"
#include "wire.h"

static int thorough;

typedef struct { int ver, kx; uint16_t suite; const char *prot; int early; } pcfg_t;
static const pcfg_t pcfgs[] = {
    { V_TLS11, KX_PSK, TLS_PSK_WITH_AES_128_CBC_SHA, "cbc-sha1" },
    { V_TLS11, KX_PSK, TLS_PSK_WITH_AES_256_CBC_SHA, "cbc256-sha1" },
    { V_TLS12, KX_PSK, TLS_PSK_WITH_AES_128_CBC_SHA, "cbc-sha1" },
    { V_TLS12, KX_PSK, TLS_PSK_WITH_AES_128_CBC_SHA256, "cbc-sha256" },
    { V_TLS12, KX_PSK, TLS_PSK_WITH_AES_256_CBC_SHA384, "cbc-sha384" },
    { V_TLS12, KX_RSA, TLS_RSA_WITH_AES_128_GCM_SHA256, "gcm128" },
    { V_TLS12, KX_RSA, TLS_RSA_WITH_AES_256_GCM_SHA384, "gcm256" },
    { V_DTLS10, KX_PSK, TLS_PSK_WITH_AES_128_CBC_SHA, "cbc-sha1" },
    { V_DTLS12, KX_PSK, TLS_PSK_WITH_AES_128_CBC_SHA, "cbc-sha1" },
    { V_DTLS12, KX_PSK, TLS_PSK_WITH_AES_128_CBC_SHA256, "cbc-sha256" },
    { V_DTLS12, KX_RSA, TLS_RSA_WITH_AES_128_GCM_SHA256, "gcm128" },
    { V_TLS13, KX_13_PSK, TLS_AES_128_GCM_SHA256, "13-gcm128" },
    { V_TLS13, KX_13_RSA, TLS_AES_256_GCM_SHA384, "13-gcm256" },
    { V_TLS13, KX_13_RSA, TLS_CHACHA20_POLY1305_SHA256, "13-chacha" },
    /* the client offered 0-RTT data which the server REJECTED (external PSK) and skipped: the licence to skip
       undecryptable records must have ended with the handshake */
    { V_TLS13, KX_13_PSK, TLS_AES_128_GCM_SHA256, "13-gcm128-after-rejected-0rtt", 1 },
};
#define NPCFG ((int) (sizeof(pcfgs) / sizeof(pcfgs[0])))

/* {12, 28, 300}: with a 20-byte MAC these end on a block boundary (the last block is a full, known padding block) */
static const int triples_q[][3] = { { 1, 16, 17 }, { 0, 33, 255 }, { 15, 31, 32 }, { 256, 1, 16385 }, { 12, 28, 300 } };
static const int triples_t[][3] = { { 1, 16, 17 }, { 0, 33, 255 }, { 15, 31, 32 }, { 256, 1, 16385 }, { 12, 28, 300 }, { 16383, 16384, 40000 }, { 16384, 0, 1 }, { 17, 17, 17 } };
static const int triples_d[][3] = { { 1, 16, 17 }, { 0, 33, 255 }, { 15, 31, 32 }, { 256, 1, 1000 }, { 12, 28, 300 } };

enum { E_FLIP = 0, E_TRUNC, E_EXTEND, E_TYPE, E_VER, E_LEN, E_SWAP, E_DROP, E_DUP, E_INSERT, E_REFLECT, E_SPLICE, E_NONE, E_PADSPLICE, E_RESEQ, E_PLAININS, E_NK };
/* E_PLAININS (TLS): an UNPROTECTED record inserted before record j (a = 0: ChangeCipherSpec; 1: warning close_notify alert;
 * 2: fatal alert; b = 1: the record that would have followed is dropped, i.e. replaced) */
static const char *ename[] = { "bitflip", "truncate", "extend", "type", "version", "length", "swap", "drop", "dup", "insert-replay", "reflect", "splice", "none", "cbc-padding-rewrite", "replay-with-rewritten-header-sequence", "plaintext-record-inserted" };
static int cbc_mac_len(const char *prot)
{
    if (strncmp(prot, "cbc", 3)) return 0;
    return strstr(prot, "sha384") ? 48 : strstr(prot, "sha256") ? 32 : 20;
}
typedef struct { unsigned char kind; unsigned char i, j; int a, b; } edit_t;

#define MAXREC 12
typedef struct {
    world_t w;
    int pi, dir, ti;
    int lens[3];
    unsigned char *rec[MAXREC]; int rlen[MAXREC]; int ptlen[MAXREC]; int nrec;
    unsigned char *refl; int refl_len;
    edit_t *edits; long nedits;
    long cur;
    int dtls, hdr;
    uint64_t msg_hash[3];
} gctx_t;

static void fill_msg(unsigned char *p, int len, int k)
{
    int i;
    for (i = 0; i < len; i++)
    {
        p[i] = (unsigned char) (0x30 + k * 61 + i * 7 + (i >> 8));
    }
}

static void add_edit(gctx_t *g, int kind, int i, int j, int a, int b)
{
    static long cap;
    if (g->nedits == 0)
    {
        cap = 0;
    }
    if (g->nedits >= cap)
    {
        cap = cap ? cap * 2 : 4096;
        g->edits = realloc(g->edits, (size_t) cap * sizeof(edit_t));
    }
    g->edits[g->nedits++] = (edit_t) { (unsigned char) kind, (unsigned char) i, (unsigned char) j, a, b };
}

static void build_edits(gctx_t *g)
{
    int i, j, k, n = g->nrec;
    g->nedits = 0;
    add_edit(g, E_NONE, 0, 0, 0, 0);
    for (i = 0; i < n; i++)
    {
        int L = g->rlen[i];
        int small = L <= 160;
        /* bit flips */
        for (k = 0; k < L; k++)
        {
            int b;
            if (small || k < g->hdr + 48 || k >= L - 64)
            {
                for (b = 0; b < 8; b++)
                {
                    add_edit(g, E_FLIP, i, 0, k, b);
                }
            }
            else if (thorough || (k % 16) == 5)
            {
                add_edit(g, E_FLIP, i, 0, k, k % 8);
            }
        }
        /* truncations */
        for (k = 0; k < L; k++)
        {
            if (small || k < g->hdr + 40 || k >= L - 40 || (thorough && (k % 64) == 0))
            {
                add_edit(g, E_TRUNC, i, 0, k, 0);
            }
        }
        add_edit(g, E_EXTEND, i, 0, 1, 0);
        add_edit(g, E_EXTEND, i, 0, 1, 1);
        add_edit(g, E_EXTEND, i, 0, 16, 0);
        add_edit(g, E_EXTEND, i, 0, 16, 1);
        for (k = 0; k < 256; k++)
        {
            if (k != g->rec[i][0])
            {
                add_edit(g, E_TYPE, i, 0, k, 0);
            }
        }
        {
            static const int vv[] = { 0, 1, 2, 3, 4, 0x7f, 0xfd, 0xfe, 0xff };
            int which;
            for (which = 1; which <= 2; which++)
            {
                for (k = 0; k < 9; k++)
                {
                    if (vv[k] != g->rec[i][which])
                    {
                        add_edit(g, E_VER, i, 0, which, vv[k]);
                    }
                }
            }
        }
        {
            static const int dl[] = { -16, -1, 1, 16 };
            for (k = 0; k < 4; k++)
            {
                add_edit(g, E_LEN, i, 0, 0, dl[k]);
            }
            add_edit(g, E_LEN, i, 0, 1, 0);
            add_edit(g, E_LEN, i, 0, 1, 0x4800);
            add_edit(g, E_LEN, i, 0, 1, 0xffff);
        }
        add_edit(g, E_DROP, i, 0, 0, 0);
        add_edit(g, E_DUP, i, 0, 0, 0);
        for (j = 0; j <= n; j++)
        {
            add_edit(g, E_INSERT, i, j, 0, 0);  /* copy of record i inserted before position j */
        }
        if (i == 0 && !g->dtls)
        {
            int a, b;
            for (j = 0; j <= n; j++)
                for (a = 0; a < 3; a++)
                    for (b = 0; b < 2; b++)
                        if (!(b && j == n)) add_edit(g, E_PLAININS, 0, j, a, b);
        }
        for (j = i + 1; j < n; j++)
        {
            add_edit(g, E_SWAP, i, j, 0, 0);
        }
        for (j = 0; j < n; j++)
        {
            int cut, m = (g->rlen[i] < g->rlen[j] ? g->rlen[i] : g->rlen[j]) - g->hdr;
            if (i == j)
            {
                continue;
            }
            for (cut = 16; cut < m; cut += 16)
            {
                if (cut > 96 && cut < m - 96 && !(thorough && (cut % 1024) == 0))
                {
                    continue;
                }
                add_edit(g, E_SPLICE, i, j, cut, 0);
            }
        }
    }
    for (j = 0; j <= n; j++)
    {
        add_edit(g, E_REFLECT, 0, j, 0, 0);
    }
    /* DTLS: a recorded datagram sent again with the epoch / sequence number of its HEADER rewritten to values the
     * anti-replay window has not seen (the payload, explicit nonce and MAC / tag untouched): the header is authenticated,
     * so every such copy must be discarded */
    if (g->dtls)
    {
        for (i = 0; i < n; i++)
        {
            for (k = 0; k < 6; k++)
            {
                add_edit(g, E_RESEQ, i, 0, k, 0);
            }
        }
    }
    /* CBC (MAC-then-encrypt, explicit IV): a record whose plaintext + MAC ends on a block boundary ends in a full padding
     * block of KNOWN plaintext (16 x 0x0f).  Without any key the attacker can rewrite the padding to every longer legal
     * length T = 31, 47, ..., 255: (T+1)/16 - 2 arbitrary blocks and the block X = C[n-1] xor 0x0f.. xor TT.. are inserted
     * before the last block, which then decrypts to 16 x T; the MAC still sits where padding length T says it does.  Only
     * the check of EVERY padding byte rejects these records. */
    {
        int mac = cbc_mac_len(pcfgs[g->pi].prot), T;
        for (i = 0; mac && i < n; i++)
        {
            if (g->ptlen[i] < 0 || (g->ptlen[i] + mac) % 16 != 0 || g->rlen[i] - g->hdr < 48)
            {
                continue;
            }
            for (T = 31; T <= 255; T += 16)
            {
                add_edit(g, E_PADSPLICE, i, 0, T, 0);
            }
        }
    }
}

/* build the modified unit list */
typedef struct { unsigned char *p; int len; int modified; } unit_t;
static int apply_edit(gctx_t *g, const edit_t *e, unit_t *u, int *first_mod)
{
    int i, n = 0, N = g->nrec, h = g->hdr, lo = h - 2;
#define COPY(idx, mod) do { u[n].p = malloc((size_t) g->rlen[idx] + 64); memcpy(u[n].p, g->rec[idx], (size_t) g->rlen[idx]); u[n].len = g->rlen[idx]; u[n].modified = (mod); n++; } while (0)
    *first_mod = -1;
    switch (e->kind)
    {
    case E_NONE:
        for (i = 0; i < N; i++) COPY(i, 0);
        break;
    case E_FLIP: case E_TRUNC: case E_EXTEND: case E_TYPE: case E_VER: case E_LEN:
        for (i = 0; i < N; i++)
        {
            COPY(i, i == e->i);
            if (i != e->i)
            {
                continue;
            }
            *first_mod = i;
            {
                unit_t *x = &u[n - 1];
                int bl = (x->p[lo] << 8) | x->p[lo + 1];
                switch (e->kind)
                {
                case E_FLIP: x->p[e->a] ^= (unsigned char) (1 << e->b); break;
                case E_TRUNC: x->len = e->a; break;
                case E_EXTEND:
                    memset(x->p + x->len, 0, (size_t) e->a);
                    x->len += e->a;
                    if (e->b)
                    {
                        bl += e->a;
                        x->p[lo] = (unsigned char) (bl >> 8); x->p[lo + 1] = (unsigned char) bl;
                    }
                    break;
                case E_TYPE: x->p[0] = (unsigned char) e->a; break;
                case E_VER: x->p[e->a] = (unsigned char) e->b; break;
                case E_LEN:
                    bl = e->a ? e->b : bl + e->b;
                    if (bl < 0) bl = 0;
                    x->p[lo] = (unsigned char) (bl >> 8); x->p[lo + 1] = (unsigned char) bl;
                    break;
                }
            }
        }
        break;
    case E_DROP:
        for (i = 0; i < N; i++)
        {
            if (i != e->i) COPY(i, 0);
        }
        *first_mod = e->i;
        break;
    case E_DUP:
        for (i = 0; i < N; i++)
        {
            COPY(i, 0);
            if (i == e->i)
            {
                COPY(i, 1);
            }
        }
        *first_mod = e->i + 1;
        break;
    case E_INSERT:
        for (i = 0; i <= N; i++)
        {
            if (i == e->j)
            {
                COPY(e->i, 1);
            }
            if (i < N) COPY(i, 0);
        }
        *first_mod = e->j;
        break;
    case E_PLAININS:
        for (i = 0; i <= N; i++)
        {
            if (i == e->j)
            {
                static const unsigned char pccs[6] = { 20, 3, 3, 0, 1, 1 }, pclose[7] = { 21, 3, 3, 0, 2, 1, 0 }, pfatal[7] = { 21, 3, 3, 0, 2, 2, 40 };
                const unsigned char *src = e->a == 0 ? pccs : e->a == 1 ? pclose : pfatal;
                int sl = e->a == 0 ? 6 : 7;
                u[n].p = malloc(64); memcpy(u[n].p, src, (size_t) sl); u[n].len = sl; u[n].modified = 1; n++;
                if (e->b && i < N)
                {
                    continue;
                }
            }
            if (i < N) COPY(i, 0);
        }
        *first_mod = e->j;
        break;
    case E_SWAP:
        for (i = 0; i < N; i++)
        {
            int src = i == e->i ? e->j : i == e->j ? e->i : i;
            COPY(src, src != i);
        }
        *first_mod = e->i;
        break;
    case E_REFLECT:
        for (i = 0; i <= N; i++)
        {
            if (i == e->j && g->refl_len > 0)
            {
                u[n].p = malloc((size_t) g->refl_len);
                memcpy(u[n].p, g->refl, (size_t) g->refl_len);
                u[n].len = g->refl_len; u[n].modified = 1; n++;
            }
            if (i < N) COPY(i, 0);
        }
        *first_mod = e->j;
        break;
    case E_RESEQ:
        for (i = 0; i < N; i++) COPY(i, 0);
        COPY(e->i, 1);
        {
            unit_t *x = &u[n - 1];
            uint64_t sq = 0;
            int q, ep = (x->p[3] << 8) | x->p[4];
            for (q = 0; q < 6; q++) sq = (sq << 8) | x->p[5 + q];
            switch (e->a)
            {
            case 0: sq += 64; break;
            case 1: sq += 1000; break;
            case 2: sq = 0xffffffffffffULL; break;
            case 3: sq += 3; break;
            case 4: ep += 1; break;
            default: ep = 0; break;
            }
            x->p[3] = (unsigned char) (ep >> 8); x->p[4] = (unsigned char) ep;
            for (q = 0; q < 6; q++) x->p[5 + q] = (unsigned char) (sq >> (8 * (5 - q)));
        }
        *first_mod = N;
        break;
    case E_PADSPLICE:
        for (i = 0; i < N; i++)
        {
            COPY(i, i == e->i);
            if (i == e->i)
            {
                unit_t *x = &u[n - 1];
                int T = e->a, k = (T + 1) / 16 - 1, L = g->rlen[i], bl, q;   /* k inserted blocks: k-1 arbitrary + X (the old padding block becomes the 16th.. last block of the new padding) */
                unsigned char *np = malloc((size_t) L + 16 * (size_t) k + 64), *prev = g->rec[i] + L - 32, *o;
                memcpy(np, g->rec[i], (size_t) (L - 16));
                o = np + L - 16;
                for (q = 0; q < 16 * (k - 1); q++) *o++ = (unsigned char) (0x52 + q);
                for (q = 0; q < 16; q++) *o++ = (unsigned char) (prev[q] ^ 0x0f ^ T);
                memcpy(o, g->rec[i] + L - 16, 16);
                bl = L - h + 16 * k;
                np[lo] = (unsigned char) (bl >> 8); np[lo + 1] = (unsigned char) bl;
                free(x->p);
                x->p = np; x->len = L + 16 * k;
                *first_mod = i;
            }
        }
        break;
    case E_SPLICE:
        for (i = 0; i < N; i++)
        {
            COPY(i, i == e->i);
            if (i == e->i)
            {
                unit_t *x = &u[n - 1];
                int cut = e->a, jl = g->rlen[e->j], bl;
                unsigned char *np = malloc((size_t) jl + 64);
                memcpy(np, g->rec[e->i], (size_t) (h + cut));
                memcpy(np + h + cut, g->rec[e->j] + h + cut, (size_t) (jl - h - cut));
                bl = jl - h;
                np[lo] = (unsigned char) (bl >> 8); np[lo + 1] = (unsigned char) bl;
                free(x->p);
                x->p = np; x->len = jl;
                *first_mod = i;
            }
        }
        break;
    }
#undef COPY
    return n;
}

static int setup_group(gctx_t *g)
{
    const pcfg_t *pc = &pcfgs[g->pi];
    wcfg_t c;
    int k, recv = 1 - g->dir;
    static unsigned char msg[40100];
    memset(&c, 0, sizeof(c));
    c.ver = pc->ver; c.kx = pc->kx; c.suite = pc->suite; c.early_data = pc->early; c.early_send = pc->early;
    g->dtls = ver_is_dtls(pc->ver);
    g->hdr = g->dtls ? 13 : 5;
    if (world_init(&g->w, &c) < 0 || world_handshake(&g->w) != 0)
    {
        return -1;
    }
    world_pump(&g->w, 50);
    if (pc->early)
    {
        /* the rejected 0-RTT data was legitimately not delivered (the client is told so): the stream under test starts here */
        buf_clear(&g->w.s[0].submitted); buf_clear(&g->w.s[1].submitted);
        buf_clear(&g->w.s[0].delivered); buf_clear(&g->w.s[1].delivered);
        if (g->w.s[1].n_deliveries != 0)
        {
            return -5;   /* the configuration is meant to have its early data rejected */
        }
    }
    /* reflection candidate: a record sent by the receiver */
    world_app_send(&g->w, recv, (const unsigned char *) "reflect-me-0123456789", 21);
    {
        rec_t r = world_wire_pop(&g->w, recv);
        if (r.p)
        {
            g->refl = r.p; g->refl_len = r.len;
        }
        world_wire_clear(&g->w, recv);
    }
    g->nrec = 0;
    for (k = 0; k < 3; k++)
    {
        int before = g->w.wire[g->dir].n, i;
        fill_msg(msg, g->lens[k], k);
        g->msg_hash[k] = fnv1a(msg, (size_t) g->lens[k], FNV0);
        if (world_app_send(&g->w, g->dir, msg, g->lens[k]) <= 0 && g->lens[k] > 0)
        {
            return -2; /* (a zero-length write may be refused by the API: then nothing is sent for it) */
        }
        /* plaintext bytes carried by each new record */
        {
            int added = g->w.wire[g->dir].n - before, left = g->lens[k], expect = g->lens[k] == 0 ? 1 : (g->lens[k] + 16383) / 16384;
            if (added != expect && !(g->lens[k] == 0 && added == 0))
            {
                return -4;
            }
            for (i = 0; i < added && before + i < MAXREC; i++)
            {
                int take = left > 16384 ? 16384 : left;
                g->ptlen[before + i] = take;
                left -= take;
            }
        }
    }
    while (g->w.wire[g->dir].n > 0 && g->nrec < MAXREC)
    {
        rec_t r = world_wire_pop(&g->w, g->dir);
        g->rec[g->nrec] = r.p;
        g->rlen[g->nrec] = r.len;
        g->nrec++;
    }
    if (g->w.wire[g->dir].n > 0)
    {
        return -3;
    }
    build_edits(g);
    return 0;
}

static int recv_dead(gctx_t *g)
{
    side_t *s = &g->w.s[1 - g->dir];
    return s->err_rc < 0 || s->ssl->err != SSL_ALERT_NONE || s->got_alert_lvl == SSL_ALERT_LEVEL_FATAL;
}

static void run_case(void *ctx, mx_result_t *r)
{
    gctx_t *g = ctx;
    const pcfg_t *pc = &pcfgs[g->pi];
    const edit_t *e = &g->edits[g->cur];
    int recv = 1 - g->dir, n, i, first_mod, rc = 0;
    unit_t u[MAXREC + 2];
    side_t *rs = &g->w.s[recv], *ss = &g->w.s[g->dir];
    size_t clean_bytes = 0;
    int complete_mod_presented = 0;
    const char *sym = NULL;
    char cd[64];

    snprintf(cd, sizeof(cd), "%s/%s", ver_name(pc->ver), pc->prot);
    n = apply_edit(g, e, u, &first_mod);
    r->nontrivial = e->kind != E_NONE;

    if (g->dtls)
    {
        for (i = 0; i < n; i++)
        {
            if (u[i].len > 0)
            {
                rc = world_feed(&g->w, recv, u[i].p, u[i].len);
            }
        }
    }
    else
    {
        /* TLS: one byte stream */
        static unsigned char stream[120000];
        int off = 0, c = 0, pos;
        /* honest stream for the common-prefix computation */
        static unsigned char honest[120000];
        int hl = 0, boundary = 0;
        for (i = 0; i < g->nrec; i++)
        {
            memcpy(honest + hl, g->rec[i], (size_t) g->rlen[i]);
            hl += g->rlen[i];
        }
        for (i = 0; i < n; i++)
        {
            memcpy(stream + off, u[i].p, (size_t) u[i].len);
            off += u[i].len;
        }
        while (c < off && c < hl && stream[c] == honest[c])
        {
            c++;
        }
        /* snap down to a record boundary of the honest stream; count clean plaintext */
        pos = 0;
        {
            size_t sub = 0;
            int k = 0, acc = 0;
            /* plaintext bytes carried by honest records wholly inside the common prefix:
               records map onto messages in order; a message of length L>16384 spans several records */
            int *rec_pt = g->ptlen, ri = g->nrec;
            for (k = 0; k < g->nrec; k++)
            {
                if (pos + g->rlen[k] <= c)
                {
                    pos += g->rlen[k];
                    sub += (size_t) (k < ri ? rec_pt[k] : 0);
                }
                else
                {
                    break;
                }
            }
            boundary = pos;
            clean_bytes = sub;
            (void) acc;
        }
        /* was a complete record presented after the clean boundary? */
        if (off - boundary >= 5)
        {
            int L = (stream[boundary + 3] << 8) | stream[boundary + 4];
            if (boundary + 5 + L <= off && !(boundary == hl))
            {
                complete_mod_presented = 1;
            }
        }
        if (off == hl && c == hl)
        {
            complete_mod_presented = 0;
            clean_bytes = ss->submitted.len;
        }
        if (off > 0)
        {
            rc = world_feed(&g->w, recv, stream, off);
        }
    }
    /* horizon: let the receiver flush; nothing else arrives */
    world_collect(&g->w, recv);

    /* ---- oracle ---- */
    if (g->dtls)
    {
        int used[3] = { 0, 0, 0 }, d, m;
        for (d = 0; d < rs->n_deliveries && d < 64 && !sym; d++)
        {
            for (m = 0; m < 3; m++)
            {
                if (!used[m] && rs->dlog[d].len == (uint32_t) g->lens[m] && rs->dlog[d].hash == g->msg_hash[m])
                {
                    used[m] = 1;
                    break;
                }
            }
            if (m == 3)
            {
                sym = "datagram-not-sent-or-delivered-twice";
            }
        }
        /* the only copy of datagram i was modified in flight (header or body): it must have been discarded */
        if (!sym && g->nrec == 3 && (e->kind == E_FLIP || e->kind == E_TYPE || e->kind == E_VER || e->kind == E_LEN || e->kind == E_TRUNC || e->kind == E_SPLICE ||
                (e->kind == E_EXTEND && e->b)) && e->i < 3 && used[e->i] &&
            !(g->lens[0] == g->lens[1] && g->msg_hash[0] == g->msg_hash[1]) && !(g->lens[1] == g->lens[2] && g->msg_hash[1] == g->msg_hash[2]))
        {
            sym = "modified-datagram-accepted";
        }
    }
    else
    {
        /* the 21-byte reflect message was submitted by the receiver, not the sender: sender log is ss->submitted */
        if (!is_prefix(&rs->delivered, &ss->submitted))
        {
            sym = "delivered-not-a-prefix";
        }
        else if (rs->delivered.len > clean_bytes)
        {
            sym = "data-delivered-from-or-after-modified-record";
        }
        else if (complete_mod_presented && !recv_dead(g))
        {
            sym = "modified-record-not-fatal";
        }
        else if (complete_mod_presented && e->kind == E_PLAININS && e->a == 1 && rs->ssl->err == SSL_ALERT_NONE && rs->got_alert_lvl != SSL_ALERT_LEVEL_FATAL && rs->err_rc >= 0)
        {
            sym = "forged-plaintext-close-notify-reported-as-orderly-closure";
        }
        else if (complete_mod_presented && g->w.wire[recv].n == 0 && !rs->closed)
        {
            sym = "no-alert-emitted";
        }
    }
    /* uniform CBC rejection: any body bit flip must give bad_record_mac */
    if (!sym && !g->dtls && e->kind == E_FLIP && e->a >= g->hdr && strstr(pc->prot, "cbc") && rs->ssl->err != SSL_ALERT_BAD_RECORD_MAC)
    {
        sym = "cbc-bitflip-alert-not-bad-record-mac";
    }
    snprintf(r->outcome, sizeof(r->outcome), "%s:%s:err%d:d%d", ename[e->kind], rc < 0 ? "rc<0" : rc == MATRIXSSL_REQUEST_RECV ? "recv" : rc == MATRIXSSL_REQUEST_SEND ? "send" : "ok",
        rs->ssl->err, rs->n_deliveries);
    if (sym)
    {
        r->violation = 1;
        snprintf(r->key, sizeof(r->key), "%s|dir=%c|%s|%s", cd, "cs"[g->dir], ename[e->kind], sym);
        snprintf(r->what, sizeof(r->what), "%s sender=%s msgs=%d,%d,%d edit=%s(rec %d, j %d, a %d, b %d): %s (delivered %zu bytes in %d deliveries, clean %zu, alert %d) [%s]",
            cd, g->dir ? "server" : "client", g->lens[0], g->lens[1], g->lens[2], ename[e->kind], e->i, e->j, e->a, e->b, sym,
            rs->delivered.len, rs->n_deliveries, clean_bytes, rs->ssl->err, r->desc);
    }
    r->transitions = (uint32_t) n;
    r->trace_hash = world_trace_hash(&g->w);
    for (i = 0; i < n; i++)
    {
        free(u[i].p);
    }
}

/* ---------------------------------------------------------------- DTLS anti-replay window scripts
 * 48 one-record datagrams; script(g, r): deliver #0..#2, skip g datagrams, deliver #(3+g), replay it, replay #2,
 * replay datagram r, then deliver all skipped ones in order and finally replay every datagram once more.
 * Every delivery must be of a distinct submitted datagram (at most once each). */
#define NWIN 48
typedef struct { gctx_t *g; int gap, extra; } wcase_t;
static unsigned char *wrec[NWIN];
static int wlen[NWIN];
static uint64_t whash[NWIN];

static void run_window_case(void *ctx, mx_result_t *r)
{
    wcase_t *c = ctx;
    gctx_t *g = c->g;
    const pcfg_t *pc = &pcfgs[g->pi];
    int recv = 1 - g->dir, i, d, jump = 3 + c->gap;
    side_t *rs = &g->w.s[recv];
    int cnt[NWIN];
    const char *sym = NULL;
    char cd[64];
    snprintf(cd, sizeof(cd), "%s/%s", ver_name(pc->ver), pc->prot);
    r->nontrivial = 1;
#define FEED(k) do { if ((k) >= 0 && (k) < NWIN) { world_feed(&g->w, recv, wrec[k], wlen[k]); r->transitions++; } } while (0)
    for (i = 0; i < 3; i++) FEED(i);
    if (jump < NWIN)
    {
        FEED(jump);
        FEED(jump);
    }
    FEED(2);
    FEED(c->extra);
    for (i = 3; i < NWIN; i++)
    {
        if (i != jump) FEED(i);
    }
    for (i = 0; i < NWIN; i++) FEED(i);
#undef FEED
    memset(cnt, 0, sizeof(cnt));
    for (d = 0; d < rs->n_deliveries && d < 64 && !sym; d++)
    {
        for (i = 0; i < NWIN; i++)
        {
            if (rs->dlog[d].hash == whash[i] && rs->dlog[d].len == 24)
            {
                cnt[i]++;
                break;
            }
        }
        if (i == NWIN)
        {
            sym = "delivered-datagram-never-sent";
        }
    }
    if (rs->n_deliveries > 64 && !sym)
    {
        sym = "datagram-not-sent-or-delivered-twice";
    }
    for (i = 0; i < NWIN && !sym; i++)
    {
        if (cnt[i] > 1)
        {
            sym = "datagram-not-sent-or-delivered-twice";
        }
    }
    snprintf(r->outcome, sizeof(r->outcome), "dtls-window:gap%d:d%d:%s", c->gap, rs->n_deliveries > 60 ? 60 : rs->n_deliveries, sym ? sym : "ok");
    r->trace_hash = world_trace_hash(&g->w);
    if (sym)
    {
        r->violation = 1;
        snprintf(r->key, sizeof(r->key), "%s|dir=%c|window-jump+replay|%s", cd, "cs"[g->dir], sym);
        snprintf(r->what, sizeof(r->what), "%s sender=%s: 48 datagrams, deliver #0-2, jump over %d to #%d, replay it, replay #2 and #%d, then the rest and every datagram again => %s (%d deliveries)",
            cd, g->dir ? "server" : "client", c->gap, jump, c->extra, sym, rs->n_deliveries);
    }
}

static int setup_window_group(gctx_t *g)
{
    const pcfg_t *pc = &pcfgs[g->pi];
    wcfg_t c;
    int k;
    memset(&c, 0, sizeof(c));
    c.ver = pc->ver; c.kx = pc->kx; c.suite = pc->suite;
    g->dtls = 1;
    g->hdr = 13;
    if (world_init(&g->w, &c) < 0 || world_handshake(&g->w) != 0)
    {
        return -1;
    }
    world_pump(&g->w, 50);
    for (k = 0; k < NWIN; k++)
    {
        unsigned char msg[24];
        rec_t r;
        fill_msg(msg, 24, k + 3);
        msg[0] = (unsigned char) k;
        whash[k] = fnv1a(msg, 24, FNV0);
        if (world_app_send(&g->w, g->dir, msg, 24) <= 0)
        {
            return -2;
        }
        r = world_wire_pop(&g->w, g->dir);
        if (!r.p || g->w.wire[g->dir].n != 0)
        {
            return -3;
        }
        wrec[k] = r.p;
        wlen[k] = r.len;
    }
    return 0;
}

static void run_window_group(int pi, int dir)
{
    static gctx_t g;
    static const int gaps[] = { 0, 1, 2, 15, 29, 30, 31, 32, 33, 34, 40, 44 };
    int gi, ex;
    memset(&g, 0, sizeof(g));
    g.pi = pi; g.dir = dir;
    if (setup_window_group(&g) != 0)
    {
        mx_result_t r;
        memset(&r, 0, sizeof(r));
        r.violation = 2;
        snprintf(r.key, sizeof(r.key), "window-setup-failed|p=%d|dir=%d", pi, dir);
        snprintf(r.what, sizeof(r.what), "could not set up the DTLS window scenario for %s/%s", ver_name(pcfgs[pi].ver), pcfgs[pi].prot);
        snprintf(r.desc, sizeof(r.desc), "p=%d;dir=%d;t=-1", pi, dir);
        mx_record(&r);
        return;
    }
    for (gi = 0; gi < (int) (sizeof(gaps) / sizeof(gaps[0])); gi++)
    {
        for (ex = 0; ex < NWIN; ex += (thorough ? 1 : 5))
        {
            char desc[200];
            wcase_t c = { &g, gaps[gi], ex };
            if (mx_deadline_hit())
            {
                return;
            }
            snprintf(desc, sizeof(desc), "p=%d;dir=%d;t=-1;e=%d (%s/%s sender=%s dtls-window gap=%d extra-replay=%d)", pi, dir, gaps[gi] * 100 + ex,
                ver_name(pcfgs[pi].ver), pcfgs[pi].prot, dir ? "server" : "client", gaps[gi], ex);
            mx_fork_case(desc, run_window_case, &c);
        }
    }
    world_free(&g.w);
}

typedef struct { int pi, dir, ti; } grp_t;
static grp_t groups[512];
static long ngroups;

static const int *triple(int pi, int ti)
{
    if (ver_is_dtls(pcfgs[pi].ver))
    {
        return triples_d[ti];
    }
    return thorough ? triples_t[ti] : triples_q[ti];
}
static int ntriples(int pi)
{
    if (ver_is_dtls(pcfgs[pi].ver))
    {
        return 5;
    }
    return thorough ? 8 : 5;
}

static void run_group(long gi, void *unused)
{
    static gctx_t g;
    const int *t;
    long k;
    int rc;
    (void) unused;
    memset(&g, 0, sizeof(g));
    if (groups[gi].ti < 0)
    {
        run_window_group(groups[gi].pi, groups[gi].dir);
        return;
    }
    g.pi = groups[gi].pi; g.dir = groups[gi].dir; g.ti = groups[gi].ti;
    t = triple(g.pi, g.ti);
    g.lens[0] = t[0]; g.lens[1] = t[1]; g.lens[2] = t[2];
    if ((rc = setup_group(&g)) != 0)
    {
        mx_result_t r;
        memset(&r, 0, sizeof(r));
        r.violation = 2;
        snprintf(r.key, sizeof(r.key), "setup-failed|p=%d|dir=%d|t=%d|rc=%d", g.pi, g.dir, g.ti, rc);
        snprintf(r.what, sizeof(r.what), "could not establish %s/%s and send messages (rc %d)", ver_name(pcfgs[g.pi].ver), pcfgs[g.pi].prot, rc);
        snprintf(r.desc, sizeof(r.desc), "p=%d;dir=%d;t=%d", g.pi, g.dir, g.ti);
        mx_record(&r);
        return;
    }
    for (k = 0; k < g.nedits; k++)
    {
        char desc[200];
        const edit_t *e = &g.edits[k];
        if (mx_deadline_hit())
        {
            break;
        }
        g.cur = k;
        snprintf(desc, sizeof(desc), "p=%d;dir=%d;t=%d;e=%ld (%s/%s sender=%s msgs=%d,%d,%d %s rec=%d j=%d a=%d b=%d)", g.pi, g.dir, g.ti, k,
            ver_name(pcfgs[g.pi].ver), pcfgs[g.pi].prot, g.dir ? "server" : "client", g.lens[0], g.lens[1], g.lens[2], ename[e->kind], e->i, e->j, e->a, e->b);
        mx_fork_case(desc, run_case, &g);
    }
    world_free(&g.w);
}

int main(int argc, char **argv)
{
    mx_cfg_t cfg;
    const char *replay;
    int pi, dir, ti;

    memset(&cfg, 0, sizeof(cfg));
    cfg.property = "C02";
    cfg.sanitizer_is_oracle = 1;
    cfg.level = "model_checking";
    cfg.engine = "fork-dfs: one forked receiver snapshot per ciphertext edit script";
    cfg.rule = "case = (version x record protection, sender role, message-length triple, one edit of the ciphertext record stream); "
               "edits: every bit of short records and of the first/last bytes of long ones (+ every 16th byte, rotating bit), truncation to each such length, "
               "extension by 1/16 bytes with and without length fix-up, every type value, version bytes, length rewrites, drop, duplicate, insert-replay at every position, "
               "swap of every pair, reflection of a receiver-originated record at every position, block-boundary splices of every ordered pair; "
               "DTLS additionally: 48-datagram anti-replay window scripts (jump over g in {0,1,2,15,29..34,40,44} datagrams, replay the jumping datagram, an older one and a third, deliver the skipped ones, replay everything); non-trivial = edit other than 'none'";
    cfg.assumptions[0] = "entropy and clock pinned; fork() snapshot faithful";
    cfg.assumptions[1] = "TLS oracle: delivered bytes are a prefix of submitted bytes and lie wholly before the first modified byte (record-aligned); a complete modified record must leave the receiver dead with an alert emitted; CBC body bit flips must all yield bad_record_mac";
    cfg.assumptions[2] = "DTLS oracle: every delivered datagram equals a submitted one, at most once; silent discard is accepted";
    cfg.assumptions[3] = "timing uniformity is not observable by this technique";
    replay = mx_parse_args(argc, argv, &cfg);
    thorough = !strcmp(cfg.tier, "thorough");
    cfg.bound = "one edit per execution over the stated alphabet";

    if (replay)
    {
        static gctx_t g;
        mx_result_t r;
        long e;
        const int *t;
        if (sscanf(replay, "p=%d;dir=%d;t=%d;e=%ld", &pi, &dir, &ti, &e) != 4 || pi >= NPCFG)
        {
            fprintf(stderr, "bad descriptor\n");
            return 2;
        }
        if (ti < 0)
        {
            wcase_t wc;
            memset(&g, 0, sizeof(g));
            g.pi = pi; g.dir = dir;
            if (setup_window_group(&g) != 0)
            {
                fprintf(stderr, "setup failed\n");
                return 2;
            }
            wc.g = &g; wc.gap = (int) (e / 100); wc.extra = (int) (e % 100);
            memset(&r, 0, sizeof(r));
            snprintf(r.desc, sizeof(r.desc), "%s", replay);
            run_window_case(&wc, &r);
            mx_replay_print(&r);
            return 0;
        }
        memset(&g, 0, sizeof(g));
        g.pi = pi; g.dir = dir; g.ti = ti;
        t = triple(pi, ti);
        g.lens[0] = t[0]; g.lens[1] = t[1]; g.lens[2] = t[2];
        if (setup_group(&g) != 0 || e >= g.nedits)
        {
            fprintf(stderr, "setup failed\n");
            return 2;
        }
        g.cur = e;
        memset(&r, 0, sizeof(r));
        snprintf(r.desc, sizeof(r.desc), "%s", replay);
        run_case(&g, &r);
        fprintf(stderr, "%s", (char *) g.w.trace.p);
        mx_replay_print(&r);
        return 0;
    }
    mx_init(&cfg);
    for (pi = 0; pi < NPCFG; pi++)
    {
        for (dir = 0; dir < 2; dir++)
        {
            for (ti = 0; ti < ntriples(pi); ti++)
            {
                if (!thorough && dir == 1 && ti > 1)
                {
                    continue; /* quick: server->client direction with the two short triples only */
                }
                groups[ngroups++] = (grp_t) { pi, dir, ti };
            }
            if (ver_is_dtls(pcfgs[pi].ver))
            {
                groups[ngroups++] = (grp_t) { pi, dir, -1 };
            }
        }
    }
    mx_parallel(ngroups, run_group, NULL);
    return mx_finish(NULL);
}
