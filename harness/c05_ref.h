/* c05_ref.h - reference matcher of drv_c05.c, written from the property statement and
 * RFC 6125 (section 6.4) / RFC 5280 (4.2.1.6, 7.2, 7.5) - NOT derived from matrixssl.c -
 * plus the root-cause diagnosis that turns a disagreement into a stable violation key.
 *
 * Reference rules
 *   eligible names per nameType: ANY = dNSName + rfc822Name + iPAddress (+CN fallback);
 *   HOSTNAME = dNSName (+CN fallback); CN = CN fallback only; SAN_DNS / SAN_EMAIL /
 *   SAN_IP_ADDRESS = that kind only.  CN fallback = the subject CN is tried only when the
 *   certificate has no dNSName/rfc822Name/iPAddress entry at all, or when
 *   VCERTS_MFLAG_ALWAYS_CHECK_SUBJECT_CN is given (documented override).
 *   dNSName / CN: ASCII case-insensitive exact match, or pattern "*.<rest>" (exactly one '*',
 *   left-most label is exactly "*") against "<label>.<rest>" with a NON-EMPTY label, <rest>
 *   compared case-insensitively, expected name without '@'.  A '*' anywhere else never matches.
 *   rfc822Name: exactly one '@' with non-empty local and host parts on both sides (anything
 *   else is not a mailbox and never matches); host part case-insensitive; local part
 *   case-sensitive (RFC 5280 7.5) unless VCERTS_MFLAG_SAN_EMAIL_CASE_INSENSITIVE_LOCAL_PART.
 *   iPAddress: only 4-octet entries match, and only the canonical dotted quad of their octets.
 *   URI entries never match.  Entries with an embedded NUL / control / non-ASCII byte, empty
 *   entries and iPAddress entries that are neither 4 nor 16 octets are malformed: they never
 *   match, and the library may refuse the whole certificate because of them.
 *
 * DON'T CARE (tri-state reference; excluded from oracle (a), still part of oracle (b)):
 *   1. an entry with ONE trailing NUL (documented interop tolerance of the library): verdict is
 *      computed with the entry read as its stripped string and as never-matching; if the two
 *      differ the case is don't-care;
 *   2. names that differ only by one trailing '.' (absolute vs relative form);
 *   3. an entry/CN carrying '*' in an unsupported position compared with an expected name that
 *      is literally the same string (garbage in; exact-match rule and wildcard rule conflict);
 *   4. CN fallback while the only SAN entries are URIs (RFC 6125 6.4.4 forbids, the property
 *      statement allows);
 *   5. CN fallback for nameType HOSTNAME/CN when the certificate has rfc822Name/iPAddress
 *      entries but no dNSName (the statement forbids, RFC 6125 6.4.4 allows). */
#ifndef C05_REF_H
#define C05_REF_H
#include "c05_names.h"

enum { R_REJECT = 0, R_ACCEPT = 1, R_DONTCARE = 2 };

typedef struct { int n; int idx[3]; int cn; } names_t;   /* SAN list in certificate order + CN variant */

static int lc_(int c) { return (c >= 'A' && c <= 'Z') ? c + 32 : c; }
static int ieqn(const char *a, int al, const char *b, int bl)
{
    int i;
    if (al != bl || al < 0) return 0;
    for (i = 0; i < al; i++)
    {
        if (lc_((unsigned char) a[i]) != lc_((unsigned char) b[i])) return 0;
    }
    return 1;
}
static int bad_bytes(const char *p, int n)
{
    int i;
    for (i = 0; i < n; i++)
    {
        unsigned char c = (unsigned char) p[i];
        if (c < 0x20 || c > 0x7e) return 1;
    }
    return 0;
}
static int ent_is_string(const sanent_t *e) { return e->kind != K_IP && e->kind != K_OTHER; }
/* string entry = printable text + exactly one trailing NUL */
static int ent_trailing_nul(const sanent_t *e)
{
    return ent_is_string(e) && e->len >= 2 && e->b[e->len - 1] == 0 && !bad_bytes(e->b, e->len - 1);
}
static int ent_malformed(const sanent_t *e)
{
    if (e->kind == K_OTHER) return 0;   /* opaque: never a name, never malformed as far as the matcher is concerned */
    if (e->kind == K_IP) return e->len != 4 && e->len != 16;
    if (e->len == 0) return 1;
    if (ent_trailing_nul(e)) return 0;
    return bad_bytes(e->b, e->len);
}
static int cn_malformed(const cnent_t *c) { return c->len >= 0 && (c->len == 0 || bad_bytes(c->b, c->len)); }

/* an expected name that is an IPv4 literal (dotted quad of decimal numbers) is not a host name */
static int exp_is_ipv4_literal(const char *E, int el)
{
    int i, dots = 0, digits = 0;
    for (i = 0; i < el; i++)
    {
        if (E[i] == '.')
        {
            if (digits == 0 || digits > 3) return 0;
            dots++; digits = 0;
        }
        else if (E[i] >= '0' && E[i] <= '9') digits++;
        else return 0;
    }
    return dots == 3 && digits >= 1 && digits <= 3;
}
static int host_rule_strict(const char *P, int pl, const char *E, int el)
{
    int i, nstar = 0;
    for (i = 0; i < pl; i++) nstar += P[i] == '*';
    /* "an entry of the right kind": an IP literal or an e-mail address is authenticated by an iPAddress / rfc822Name
       entry.  A dNSName or CN that spells the same characters is a don't-care (the library now refuses it for SAN
       entries and keeps the exact CN fallback); a WILDCARD never stands for part of an address */
    if (nstar == 0 && (exp_is_ipv4_literal(E, el) || memchr(E, '@', (size_t) el))) return ieqn(P, pl, E, el) ? 2 : 0;
    if (nstar == 0) return ieqn(P, pl, E, el);
    if (nstar == 1 && pl >= 3 && P[0] == '*' && P[1] == '.')
    {
        const char *dot;
        if (exp_is_ipv4_literal(E, el)) return 0;
        if (memchr(E, '@', (size_t) el)) return 0;
        dot = memchr(E, '.', (size_t) el);
        if (dot == NULL || dot == E) return 0;                       /* no label boundary / empty label */
        return ieqn(P + 1, pl - 1, dot, el - (int) (dot - E));
    }
    return ieqn(P, pl, E, el) ? 2 : 0;                               /* don't-care 3 */
}
static int host_rule(const char *P, int pl, const char *E, int el)
{
    int r = host_rule_strict(P, pl, E, el), pd, ed;
    if (r) return r;
    pd = pl > 0 && P[pl - 1] == '.';
    ed = el > 0 && E[el - 1] == '.';
    if (pd != ed && host_rule_strict(P, pl - pd, E, el - ed)) return 2;   /* don't-care 2 */
    return 0;
}
static int one_at(const char *p, int n)   /* position of the only '@' if the string is local@host, else -1 */
{
    int i, at = -1;
    for (i = 0; i < n; i++)
    {
        if (p[i] == '@')
        {
            if (at >= 0) return -1;
            at = i;
        }
    }
    return (at > 0 && at < n - 1) ? at : -1;
}
static int email_rule(const char *P, int pl, const char *E, int el, int ci_local)
{
    int pa = one_at(P, pl), ea = one_at(E, el);
    if (pa < 0 || ea < 0 || pa != ea) return 0;
    if (ci_local ? !ieqn(P, pa, E, ea) : memcmp(P, E, (size_t) pa) != 0) return 0;
    return ieqn(P + pa + 1, pl - pa - 1, E + ea + 1, el - ea - 1);
}
static void ip_canon(const char *b, char out[20])
{
    snprintf(out, 20, "%u.%u.%u.%u", (unsigned char) b[0], (unsigned char) b[1], (unsigned char) b[2], (unsigned char) b[3]);
}

/* does this SAN entry match E under the rule of ITS kind?  0 / 1 / 2 (don't care) */
static int ent_rule(const sanent_t *e, const char *E, unsigned mflags)
{
    int el = (int) strlen(E), len = e->len, r, tn = 0;
    if (ent_malformed(e)) return 0;
    if (ent_trailing_nul(e))
    {
        tn = 1;
        len--;
    }
    switch (e->kind)
    {
    case K_DNS: r = host_rule(e->b, len, E, el); break;
    case K_EMAIL: r = email_rule(e->b, len, E, el, (mflags & MF_CI) != 0); break;
    case K_IP:
    {
        char c[20];
        if (e->len != 4) return 0;
        ip_canon(e->b, c);
        r = strcmp(c, E) == 0;
        break;
    }
    default: return 0;
    }
    return (r && tn) ? 2 : r;                                         /* don't-care 1 */
}
static int cn_rule(const cnent_t *c, const char *E)
{
    if (c->len < 0 || cn_malformed(c)) return 0;
    return host_rule(c->b, c->len, E, (int) strlen(E));
}
static int kind_eligible(int kind, int type)
{
    switch (kind)
    {
    case K_DNS: return type == NAME_TYPE_ANY || type == NAME_TYPE_HOSTNAME || type == NAME_TYPE_SAN_DNS;
    case K_EMAIL: return type == NAME_TYPE_ANY || type == NAME_TYPE_SAN_EMAIL;
    case K_IP: return type == NAME_TYPE_ANY || type == NAME_TYPE_SAN_IP_ADDRESS;
    }
    return 0;
}
/* 0 = CN not consulted, 1 = consulted, 2 = don't care */
static int cn_eligibility(const names_t *N, int type, unsigned mflags)
{
    int i, supported = 0, has_dns = 0, has_uri = 0;
    if (type != NAME_TYPE_ANY && type != NAME_TYPE_HOSTNAME && type != NAME_TYPE_CN) return 0;
    if (mflags & MF_CN) return 1;
    for (i = 0; i < N->n; i++)
    {
        int k = POOL[N->idx[i]].kind;
        if (k == K_URI || k == K_OTHER) has_uri = 1; else supported = 1;
        if (k == K_DNS) has_dns = 1;
    }
    if (!supported) return has_uri ? 2 : 1;                           /* don't-care 4 */
    if (type != NAME_TYPE_ANY && !has_dns) return 2;                  /* don't-care 5 */
    return 0;
}

/* witness: list position of the first name that definitely matches, -2 = CN, -1 = none */
static int ref_verdict(const names_t *N, const char *E, int type, unsigned mflags, int *witness)
{
    int i, definite = 0, possible = 0, ce;
    if (witness) *witness = -1;
    for (i = 0; i < N->n; i++)
    {
        const sanent_t *e = &POOL[N->idx[i]];
        int r;
        if (!kind_eligible(e->kind, type)) continue;
        r = ent_rule(e, E, mflags);
        if (r == 1)
        {
            if (!definite && witness) *witness = i;
            definite = 1;
        }
        else if (r == 2) possible = 1;
    }
    ce = cn_eligibility(N, type, mflags);
    if (ce)
    {
        int r = cn_rule(&CNS[N->cn], E);
        if (r == 1 && ce == 1)
        {
            if (!definite && witness) *witness = -2;
            definite = 1;
        }
        else if (r) possible = 1;
    }
    return definite ? R_ACCEPT : possible ? R_DONTCARE : R_REJECT;
}

/* may the library refuse this certificate outright?  (malformed or merely tolerated names) */
static int refusal_justified(const names_t *N)
{
    int i;
    for (i = 0; i < N->n; i++)
    {
        if (ent_malformed(&POOL[N->idx[i]]) || ent_trailing_nul(&POOL[N->idx[i]])) return 1;
        /* an otherName whose value uses a high-tag-number identifier is valid DER that a small parser may refuse */
        if (POOL[N->idx[i]].kind == K_OTHER && POOL[N->idx[i]].len > 14 && (unsigned char) POOL[N->idx[i]].b[13] == 0x5f) return 1;
    }
    return cn_malformed(&CNS[N->cn]);
}

/* ------------------------------------------------------------------ diagnosis
 * Only names the root cause of a disagreement that the oracle has already established. */
static int trailing_nul_before(const names_t *N, int pos)
{
    int i;
    for (i = 0; i < pos && i < N->n; i++)
    {
        if (ent_trailing_nul(&POOL[N->idx[i]])) return 1;
    }
    return 0;
}
static int has_trailing_nul_and_other_string(const names_t *N)
{
    int i, tn = 0, other = 0;
    for (i = 0; i < N->n; i++)
    {
        const sanent_t *e = &POOL[N->idx[i]];
        if (ent_trailing_nul(e)) tn++;
        else if (e->kind == K_DNS || e->kind == K_EMAIL) other++;
    }
    return tn && (other || tn > 1);
}

/* nameType family for keys: combination name without the flag suffixes */
static const char *family(int ci)
{
    static char f[16];
    size_t k = strcspn(COMBO[ci].name, "+");
    snprintf(f, sizeof(f), "%.*s", (int) (k < sizeof(f) - 1 ? k : sizeof(f) - 1), COMBO[ci].name);
    return f;
}

/* loose glob: '*' matches any run of characters (dots included), the pattern may also stop early (prefix match) */
static int loose_glob(const char *P, int pl, const char *E, int el)
{
    if (pl == 0) return 1;
    if (P[0] == '*')
    {
        int k;
        for (k = 0; k <= el; k++)
        {
            if (loose_glob(P + 1, pl - 1, E + k, el - k)) return 1;
        }
        return 0;
    }
    if (el == 0 || lc_((unsigned char) P[0]) != lc_((unsigned char) E[0])) return 0;
    return loose_glob(P + 1, pl - 1, E + 1, el - 1);
}

static void diag_false_accept(const names_t *N, const char *E, int ci, char *out, size_t n)
{
    int type = COMBO[ci].type, i, pass, el = (int) strlen(E);
    unsigned mflags = COMBO[ci].mflags;
    int cn_ok = type == NAME_TYPE_ANY || type == NAME_TYPE_HOSTNAME || type == NAME_TYPE_CN;
    /* known loose-matching patterns on an eligible name */
    for (i = 0; i < N->n; i++)
    {
        const sanent_t *e = &POOL[N->idx[i]];
        if (!kind_eligible(e->kind, type) || ent_malformed(e)) continue;
        if (e->kind == K_IP && e->len >= 4)
        {
            char c[20];
            ip_canon(e->b, c);
            if (e->len == 4 && strlen(c) == 15 && el == 14 && strncmp(c, E, 14) == 0)
            {
                snprintf(out, n, "ip-san-15char-truncation");
                return;
            }
            if (e->len != 4 && (strcmp(c, E) == 0 || (strlen(c) == 15 && el == 14 && strncmp(c, E, 14) == 0)))
            {
                snprintf(out, n, e->len == 16 ? "ipv6-san-as-ipv4" : "ip-san-odd-length-as-ipv4");
                return;
            }
        }
        if (e->kind == K_DNS)
        {
            int len = e->len - ent_trailing_nul(e);
            if (len >= 3 && e->b[0] == '*' && e->b[1] == '.' && el >= 1 && E[0] == '.' && ieqn(e->b + 1, len - 1, E, el))
            {
                snprintf(out, n, "wildcard-empty-label");
                return;
            }
        }
        if (e->kind == K_EMAIL)
        {
            int len = e->len - ent_trailing_nul(e);
            if (one_at(e->b, len) < 0 && ieqn(e->b, len, E, el))
            {
                snprintf(out, n, "email-san-without-at");
                return;
            }
        }
    }
    if (cn_ok && CNS[N->cn].len >= 3 && !cn_malformed(&CNS[N->cn]) && cn_eligibility(N, type, mflags) &&
        CNS[N->cn].b[0] == '*' && CNS[N->cn].b[1] == '.' && el >= 1 && E[0] == '.' && ieqn(CNS[N->cn].b + 1, CNS[N->cn].len - 1, E, el))
    {
        snprintf(out, n, "wildcard-empty-label");
        return;
    }
    /* the CN matches (strictly, or with an empty wildcard label) although it must not be consulted */
    if (CNS[N->cn].len > 0 && !cn_malformed(&CNS[N->cn]) && cn_eligibility(N, type, mflags) == 0 &&
        (cn_rule(&CNS[N->cn], E) || (CNS[N->cn].len >= 3 && CNS[N->cn].b[0] == '*' && CNS[N->cn].b[1] == '.' && ieqn(CNS[N->cn].b + 1, CNS[N->cn].len - 1, E, el))))
    {
        snprintf(out, n, "ineligible-cn-matched|t=%s", family(ci));
        return;
    }
    /* an eligible wildcard-bearing name that matches when '*' is read loosely: "*."-patterns first, then (after the
       ineligible-SAN explanation) every other pattern */
    for (pass = 0; pass < 2; pass++)
    {
        for (i = 0; i < N->n; i++)
        {
            const sanent_t *e = &POOL[N->idx[i]];
            int len = e->len - ent_trailing_nul(e);
            if ((pass == 0) != (len >= 2 && e->b[0] == '*' && e->b[1] == '.')) continue;
            if (kind_eligible(e->kind, type) && e->kind == K_DNS && !ent_malformed(e) && memchr(e->b, '*', (size_t) len) && loose_glob(e->b, len, E, el))
            {
                snprintf(out, n, "wildcard-overmatch|san=%s", e->tag);
                return;
            }
        }
        if (pass == 0 && cn_ok && CNS[N->cn].len > 0 && !cn_malformed(&CNS[N->cn]) && memchr(CNS[N->cn].b, '*', (size_t) CNS[N->cn].len) &&
            cn_eligibility(N, type, mflags) && loose_glob(CNS[N->cn].b, CNS[N->cn].len, E, el))
        {
            snprintf(out, n, "wildcard-overmatch|san=%s", CNS[N->cn].tag);
            return;
        }
        if (pass == 1) break;
        /* a SAN entry that matches by the rule of its kind but is not eligible for this nameType */
        for (i = 0; i < N->n; i++)
        {
            const sanent_t *e = &POOL[N->idx[i]];
            if (!kind_eligible(e->kind, type) && ent_rule(e, E, mflags | MF_CI))
            {
                snprintf(out, n, "ineligible-%s-san-matched|t=%s", kind_name[e->kind], family(ci));
                return;
            }
        }
    }
    /* an e-mail entry that matches only when the local part is compared case-insensitively */
    for (i = 0; i < N->n; i++)
    {
        const sanent_t *e = &POOL[N->idx[i]];
        if (e->kind == K_EMAIL && kind_eligible(e->kind, type) && !(mflags & MF_CI) && ent_rule(e, E, mflags | MF_CI))
        {
            snprintf(out, n, "email-local-part-case-ignored");
            return;
        }
    }
    snprintf(out, n, "unexplained|t=%s", family(ci));
}

static void diag_false_reject(const names_t *N, const char *E, int ci, int parsed, int witness, char *out, size_t n)
{
    (void) E;
    if (!parsed)
    {
        snprintf(out, n, "well-formed-cert-refused-by-parser");
        return;
    }
    if (witness >= 0)
    {
        const sanent_t *e = &POOL[N->idx[witness]];
        if (e->kind == K_IP)
        {
            char c[20];
            ip_canon(e->b, c);
            if (strlen(c) == 15)
            {
                snprintf(out, n, "ip-san-15char");
                return;
            }
        }
        if (ent_is_string(e) && trailing_nul_before(N, witness))
        {
            snprintf(out, n, "san-entry-after-trailing-nul-entry");
            return;
        }
        snprintf(out, n, "witness=%s-san|pos=%s", kind_name[e->kind], witness == 0 ? "first" : "later");
        return;
    }
    snprintf(out, n, "witness=%s|t=%s", witness == -2 ? "cn" : "none", family(ci));
}

#endif
