#ifndef MXV_SCHED_H
#define MXV_SCHED_H
#define SR_MAXT 4
#define SR_MAXPOINTS 768
typedef struct { unsigned char n, ids[SR_MAXT], chosen, running_enabled; } sr_point_t;
typedef struct {
    int npoints, deadlock, overflow, replay_divergence;
    sr_point_t pt[SR_MAXPOINTS];
    char outcome[256];      /* filled by the driver: per-thread outcome signature */
    int  done;              /* execution ran to the end */
} sr_trace_t;
void sr_init(sr_trace_t *trace, int nthreads, const unsigned char *prefix, int nprefix);
void sr_main_start(void);
void sr_main_wait(void);
void sr_thread_begin(int id);
void sr_thread_end(void);
void sr_before_lock(void *m);
void sr_after_unlock(void *m);
extern int sr_unlock_points;  /* also schedule right after every unlock */
#endif
