/* c10_creds.h - sample credentials (DER arrays from /repo/testkeys) used on BOTH endpoints of the
 * C10 interop cells: MatrixSSL loads them with matrixSslLoad*KeysMem, OpenSSL with d2i_X509 /
 * d2i_AutoPrivateKey. */
#ifndef C10_CREDS_H
#define C10_CREDS_H

#include "testkeys/RSA/2048_RSA.h"
#include "testkeys/RSA/2048_RSA_KEY.h"
#include "testkeys/RSA/2048_RSA_CA.h"
#include "testkeys/EC/256_EC.h"
#include "testkeys/EC/256_EC_KEY.h"
#include "testkeys/EC/256_EC_CA.h"
#include "testkeys/EC/384_EC.h"
#include "testkeys/EC/384_EC_KEY.h"
#include "testkeys/EC/384_EC_CA.h"
#include "testkeys/EC/521_EC.h"
#include "testkeys/EC/521_EC_KEY.h"
#include "testkeys/EC/521_EC_CA.h"
#include "testkeys/EC/ED25519.h"
#include "testkeys/EC/ED25519_KEY.h"
#include "testkeys/EC/ED25519_CA.h"
#include "testkeys/PSK/psk.h"
/* the same P-384 / P-521 keys, certified with ecdsa-with-SHA384 / ecdsa-with-SHA512 (MatrixSSL signs TLS 1.2
 * handshakes with the hash of its certificate's signature, so these reach its SHA-384/512 signing paths) */
#undef EC384_SIZE
#undef EC384CA_SIZE
#undef EC521_SIZE
#undef EC521CA_SIZE
#define EC384 EC384_S384
#define EC384CA EC384CA_S384
#define EC521 EC521_S512
#define EC521CA EC521CA_S512
#include "testkeys/EC/384_EC_SHA384.h"
#include "testkeys/EC/384_EC_CA_SHA384.h"
#include "testkeys/EC/521_EC_SHA512.h"
#include "testkeys/EC/521_EC_CA_SHA512.h"
#undef EC384
#undef EC384CA
#undef EC521
#undef EC521CA

enum { CR_NONE = 0, CR_RSA, CR_EC256, CR_EC384, CR_EC521, CR_ED, CR_EC384S, CR_EC521S, CR_N };

typedef struct {
    const char *name;
    const unsigned char *cert; size_t certlen;
    const unsigned char *key;  size_t keylen;
    const unsigned char *ca;   size_t calen;
    int mtype;                 /* PS_RSA / PS_ECC / PS_ED25519 */
} c10_cred_t;

static const c10_cred_t c10_creds[CR_N] = {
    { "psk", NULL, 0, NULL, 0, NULL, 0, 0 },
    { "rsa2048", RSA2048, sizeof(RSA2048), RSA2048KEY, sizeof(RSA2048KEY), RSA2048CA, sizeof(RSA2048CA), PS_RSA },
    { "ecP256", EC256, sizeof(EC256), EC256KEY, sizeof(EC256KEY), EC256CA, sizeof(EC256CA), PS_ECC },
    { "ecP384", EC384, sizeof(EC384), EC384KEY, sizeof(EC384KEY), EC384CA, sizeof(EC384CA), PS_ECC },
    { "ecP521", EC521, sizeof(EC521), EC521KEY, sizeof(EC521KEY), EC521CA, sizeof(EC521CA), PS_ECC },
    { "ed25519", ED25519, sizeof(ED25519), ED25519_KEY, sizeof(ED25519_KEY), ED25519CA, sizeof(ED25519CA), PS_ED25519 },
    { "ecP384-sha384chain", EC384_S384, sizeof(EC384_S384), EC384KEY, sizeof(EC384KEY), EC384CA_S384, sizeof(EC384CA_S384), PS_ECC },
    { "ecP521-sha512chain", EC521_S512, sizeof(EC521_S512), EC521KEY, sizeof(EC521KEY), EC521CA_S512, sizeof(EC521CA_S512), PS_ECC },
};

/* PSK for TLS <= 1.2 PSK suites: first entry of the sample table; identity without the trailing NUL
 * (OpenSSL's callback interface carries the identity as a C string) */
#define C10_PSK_ID      "Client_identity"
#define C10_PSK_ID_LEN  15
#define C10_PSK_KEY     (PSK_HEADER_TABLE[0].key)
#define C10_PSK_KEY_LEN 16

#endif
