/* drv_c09 - C09: credential and PKI parsers are memory-safe and total on arbitrary bytes.
 *
 * Bounded exhaustive enumeration (no sampling): for every parser entry point and
 * every matching seed (all testkeys files + the embedded seeds of c09_seeds.h) the
 * complete single-edit neighbourhood is executed:
 *   ident | every truncation | every offset x byte-value set | every DER TLV node x
 *   {18 length forms, 16 tags, delete, duplicate, nest depth 1..64, 6 INTEGER values} |
 *   PEM-aware edits | all byte strings of length <= 2 (<= 3 for cheap parsers, thorough).
 * Cases run in-process in batches inside a forked child (ASan+UBSan build); a
 * progress marker in shared memory identifies the case that killed a child, which is
 * then re-run alone in a fresh child (isolation) before it is recorded.
 * Oracle: no sanitizer report / crash / hang, rc is success or negative, live
 * allocation count returns to the pre-call value after the result is freed, and a
 * consistency walk over every successfully returned object (c09_walk.h). */
#include "mxv.h"
#include "c09_seeds.h"
#include "c09_mut.h"
#include "c09_walk.h"
#include <dirent.h>
#include <unistd.h>
#include <signal.h>
#include <errno.h>
#include <fcntl.h>
#include <limits.h>
#include <libgen.h>
#include <sys/mman.h>
#include <sys/wait.h>
#include <sys/stat.h>
#include <sys/time.h>

/* sanitizer runtime defaults (environment set by bin/check overrides them) */
const char *__asan_default_options(void) { return "detect_leaks=0:abort_on_error=1:allocator_may_return_null=1:handle_abort=1:max_allocation_size_mb=512"; }
const char *__ubsan_default_options(void) { return "print_stacktrace=1:halt_on_error=1"; }

static int thorough;
static double t_main0;
static int t_case_s = 5;           /* per-case CPU-time bound (s) */
#define BATCH 1000
#define FLOOD_N 6                  /* identical crashes per (group, class) before the rest of the class is skipped */
#define CHUNK 30000                /* max cases per work group */

/* =================================================================== seeds */
enum { K_CERT_DER = 0, K_CERT_PEM, K_CRL_DER, K_OCSP_DER, K_RSAKEY_DER, K_ECKEY_DER, K_P8_DER, K_P8E_DER, K_KEY_PEM, K_ENCKEY_PEM,
       K_P12, K_DH_DER, K_PUB_DER, K_PUB_PEM, K_MISC_DER, K_MISC_PEM, K_NKIND };
#define KB(k) (1u << (k))
static const char *kind_name[K_NKIND] = { "cert-der", "cert-pem", "crl-der", "ocsp-der", "rsakey-der", "eckey-der", "pkcs8-der", "pkcs8enc-der",
    "key-pem", "enckey-pem", "pkcs12", "dh-der", "pub-der", "pub-pem", "misc-der", "misc-pem" };

typedef struct {
    char name[100];
    unsigned char *p;
    size_t len;
    int kind;
    int text;
} seed_t;
#define MAXSEEDS 700
static seed_t seeds[MAXSEEDS];
static int nseeds;
static long seeds_by_kind[K_NKIND];

static int seed_dup(const unsigned char *p, size_t len, int kind)
{
    int i;
    for (i = 0; i < nseeds; i++)
    {
        if (seeds[i].kind == kind && seeds[i].len == len && !memcmp(seeds[i].p, p, len))
        {
            return 1;
        }
    }
    return 0;
}

static int seed_add(const char *name, const unsigned char *p, size_t len, int kind, int text)
{
    seed_t *s;
    if (nseeds >= MAXSEEDS || len == 0 || seed_dup(p, len, kind))
    {
        return -1;
    }
    s = &seeds[nseeds];
    snprintf(s->name, sizeof(s->name), "%s", name);
    s->p = malloc(len + 1);
    memcpy(s->p, p, len);
    s->p[len] = 0;
    s->len = len;
    s->kind = kind;
    s->text = text;
    seeds_by_kind[kind]++;
    return nseeds++;
}

static int seed_find(const char *name)
{
    int i;
    for (i = 0; i < nseeds; i++)
    {
        if (!strcmp(seeds[i].name, name))
        {
            return i;
        }
    }
    return -1;
}

static int label_kind_der(const char *lab)
{
    if (!strcmp(lab, "CERTIFICATE")) return K_CERT_DER;
    if (!strcmp(lab, "RSA PRIVATE KEY")) return K_RSAKEY_DER;
    if (!strcmp(lab, "EC PRIVATE KEY")) return K_ECKEY_DER;
    if (!strcmp(lab, "PRIVATE KEY")) return K_P8_DER;
    if (!strcmp(lab, "DH PARAMETERS")) return K_DH_DER;
    if (!strcmp(lab, "PUBLIC KEY")) return K_PUB_DER;
    return K_MISC_DER;
}

/* split a PEM text into blocks; add the text seed and one DER seed per block */
static void add_pem_file(const char *name, const unsigned char *txt, size_t len)
{
    size_t pos = 0;
    int nblk = 0, ncert = 0, anyenc = 0, k;
    char lastlab[64] = "";
    static unsigned char der[70000], bundle[70000];
    size_t bundle_len = 0;
    char nm[128];
    for (;;)
    {
        size_t h = find_sub(txt, pos, len, "-----BEGIN "), le, body, fe;
        char lab[64];
        size_t dl;
        int enc = 0;
        if (h == (size_t) -1)
        {
            break;
        }
        le = find_sub(txt, h + 11, len, "-----");
        if (le == (size_t) -1 || le - (h + 11) >= sizeof(lab))
        {
            break;
        }
        memcpy(lab, txt + h + 11, le - (h + 11));
        lab[le - (h + 11)] = 0;
        body = le + 5;
        fe = find_sub(txt, body, len, "-----END ");
        if (fe == (size_t) -1)
        {
            break;
        }
        if (find_sub(txt, body, fe, "Proc-Type:") != (size_t) -1)
        {
            size_t bl = find_sub(txt, body, fe, "\n\n");
            enc = anyenc = 1;
            if (bl != (size_t) -1)
            {
                body = bl + 2;
            }
        }
        dl = fe - body < sizeof(der) * 4 / 3 ? b64dec(txt + body, fe - body, der) : 0;
        snprintf(lastlab, sizeof(lastlab), "%s", lab);
        if (dl > 0 && !enc)
        {
            k = label_kind_der(lab);
            snprintf(nm, sizeof(nm), "%s:der%d", name, nblk);
            seed_add(nm, der, dl, k, 0);
            if (k == K_CERT_DER)
            {
                ncert++;
                if (bundle_len + dl < sizeof(bundle))
                {
                    memcpy(bundle + bundle_len, der, dl);
                    bundle_len += dl;
                }
            }
        }
        nblk++;
        pos = fe + 9;
    }
    if (ncert >= 2 && bundle_len <= 3000)
    {
        snprintf(nm, sizeof(nm), "%s:bundle", name);
        seed_add(nm, bundle, bundle_len, K_CERT_DER, 0);
    }
    if (nblk == 0)
    {
        return;
    }
    if (strstr(lastlab, "PRIVATE KEY")) k = anyenc ? K_ENCKEY_PEM : K_KEY_PEM;
    else if (!strcmp(lastlab, "CERTIFICATE")) k = K_CERT_PEM;
    else if (strstr(lastlab, "PUBLIC KEY")) k = K_PUB_PEM;
    else k = K_MISC_PEM;
    seed_add(name, txt, len, k, 1);
}

static char *flist[1024];
static int nflist;
static void list_dir(const char *base, const char *rel)
{
    char path[PATH_MAX];
    DIR *d;
    struct dirent *de;
    snprintf(path, sizeof(path), "%s/%s", base, rel);
    d = opendir(path);
    if (!d)
    {
        return;
    }
    while ((de = readdir(d)) != NULL)
    {
        char r[PATH_MAX];
        struct stat st;
        size_t n;
        if (de->d_name[0] == '.')
        {
            continue;
        }
        snprintf(r, sizeof(r), "%s%s%s", rel, rel[0] ? "/" : "", de->d_name);
        snprintf(path, sizeof(path), "%s/%s", base, r);
        if (stat(path, &st) < 0)
        {
            continue;
        }
        if (S_ISDIR(st.st_mode))
        {
            list_dir(base, r);
            continue;
        }
        n = strlen(r);
        if (n > 4 && (!strcmp(r + n - 4, ".pem") || !strcmp(r + n - 4, ".der")) && nflist < 1024)
        {
            flist[nflist++] = strdup(r);
        }
    }
    closedir(d);
}
static int cmp_str(const void *a, const void *b) { return strcmp(*(char *const *) a, *(char *const *) b); }

static int load_seeds(const char *argv0)
{
    char base[PATH_MAX], tmp[PATH_MAX];
    const char *ld = getenv("MXV_LIBDIR");
    int i;
    static unsigned char fb[1 << 17];
    if (ld)
    {
        snprintf(base, sizeof(base), "%s/testkeys", ld);
    }
    else
    {
        snprintf(tmp, sizeof(tmp), "%s", argv0);
        snprintf(base, sizeof(base), "%s/lib/testkeys", dirname(tmp));
    }
    list_dir(base, "");
    qsort(flist, (size_t) nflist, sizeof(flist[0]), cmp_str);
    for (i = 0; i < nflist; i++)
    {
        char path[PATH_MAX];
        FILE *f;
        size_t n, nl;
        snprintf(path, sizeof(path), "%s/%s", base, flist[i]);
        f = fopen(path, "rb");
        if (!f)
        {
            continue;
        }
        n = fread(fb, 1, sizeof(fb) - 1, f);
        fclose(f);
        fb[n] = 0;
        nl = strlen(flist[i]);
        if (!strcmp(flist[i] + nl - 4, ".pem"))
        {
            add_pem_file(flist[i], fb, n);
        }
        else if (strstr(flist[i], "OCSP"))
        {
            seed_add(flist[i], fb, n, K_OCSP_DER, 0);
        }
        else
        {
            seed_add(flist[i], fb, n, K_MISC_DER, 0);
        }
    }
    for (i = 0; i < C09_N_EMBEDDED; i++)
    {
        const c09_embedded_t *e = &c09_embedded[i];
        const char *b = e->name + 9;
        if (strstr(b, ".pem")) add_pem_file(e->name, e->p, e->len);
        else if (!strncmp(b, "p8e_", 4)) seed_add(e->name, e->p, e->len, K_P8E_DER, 0);
        else if (!strncmp(b, "p8_", 3)) seed_add(e->name, e->p, e->len, K_P8_DER, 0);
        else if (strstr(b, ".p12")) seed_add(e->name, e->p, e->len, K_P12, 0);
        else if (!strncmp(b, "crl_", 4)) seed_add(e->name, e->p, e->len, K_CRL_DER, 0);
        else if (!strncmp(b, "rich", 4))
        {
            static unsigned char pm[8192];
            mbuf_t m = { pm, 0 };
            seed_add(e->name, e->p, e->len, K_CERT_DER, 0);
            mb_adds(&m, "-----BEGIN CERTIFICATE-----\n");
            b64enc(&m, e->p, e->len, 64);
            mb_adds(&m, "-----END CERTIFICATE-----\n");
            seed_add("embedded/rich_ec256.pem", m.p, m.len, K_CERT_PEM, 1);
        }
    }
    return nseeds;
}

/* ================================================================= entries */
enum { F_X509 = 0, F_X509DATA, F_PEMLIST, F_CRL, F_OCSP, F_P8, F_RSAPRIV, F_ECPRIV, F_EDPRIV, F_UNKPRIV, F_P12, F_LOADP12, F_PEMDEC, F_PEMTRY,
       F_LOADKEYS, F_DH, F_UNKPUB, F_RSAPUBMEM, F_SPKI };
enum { C_IDENT = 1, C_TRUNC = 2, C_BYTE = 4, C_DER = 8, C_PEM = 16, C_RAW = 32, C_RAW3 = 64, C_ALL = 63 };

typedef struct {
    const char *name;
    int fn;
    int a;                 /* flags / variant */
    const char *pass;      /* password or NULL */
    unsigned kinds;        /* seed kinds */
    int zterm;             /* 1: input buffer carries a NUL after len bytes (C-string convention of the PEM APIs) */
    unsigned classes;
    size_t byte_cap;       /* byte-value class only for seeds up to this size (0 = no cap) */
    const char *const *only; /* optional list of seed names (prefix match up to ':') */
    int max_ok_rc;         /* largest rc that counts as documented success */
    const char *const *quick_only; /* quick tier: only these seeds (thorough: all seeds of the kinds) */
    const char *const *byte_only;  /* quick tier: byte-value class only for these seeds; thorough: 255 values for these, 8 for the others */
    const char *const *der_only;   /* quick tier: DER-structure class only for these seeds (thorough: all) */
    const char *const *thorough_only; /* thorough tier: only these seeds */
    const char *const *wide_only;  /* thorough tier: 255 byte values only for these seeds (default: byte_only list, else all seeds <= 2 KB) */
} entry_t;

static const char *const lk_cert_seeds[] = { "EC/256_EC.pem", "RSA/1024_RSA.pem", "EC/ED25519.pem", NULL };
static const char *const lk_key_seeds[] = { "EC/256_EC_KEY.pem", "RSA/1024_RSA_KEY.pem", "EC/ED25519_KEY.pem", NULL };
static const char *const lk_ca_seeds[] = { "EC/256_EC_CA.pem", "RSA/1024_RSA_CA.pem", "ECDH_RSA/ALL_ECDH-RSA_CAS.pem", NULL };
static const char *const x509data_der_seeds[] = { "EC/256_EC.pem", "RSA/2048_RSA.pem", "EC/ED25519.pem", "RSA/2048_RSA_PSS.pem", "embedded/rich_ec256.der",
    "RSA/2048_RSA_CHAIN.pem", NULL };

static const char *const x509_quick_seeds[] = { "EC/256_EC.pem", "RSA/2048_RSA.pem", "EC/ED25519.pem", "RSA/2048_RSA_PSS.pem", "embedded/rich_ec256.der",
    "RSA/1024_RSA_MD4.pem", "ECDH_RSA/ALL_ECDH-RSA_CAS.pem", "EC/ALL_EC_CAS_EXCEPT_P192_P224_AND_P521.pem", NULL };
static const char *const x509_der_seeds[] = { "EC/256_EC.pem", "RSA/2048_RSA.pem", "EC/ED25519.pem", "RSA/2048_RSA_PSS.pem", "embedded/rich_ec256.der",
    "RSA/1024_RSA_MD4.pem", "ECDH_RSA/ALL_ECDH-RSA_CAS.pem", "EC/ALL_EC_CAS_EXCEPT_P192_P224_AND_P521.pem", "EC/192_EC.pem", "EC/224_EC.pem", "EC/384_EC.pem",
    "EC/521_EC.pem", "EC/521_EC_CA.pem", "EC/ED25519_CA.pem", "RSA/1024_RSA.pem", "RSA/3072_RSA.pem", "RSA/4096_RSA_CA.pem", "RSA/2048_RSA_SHA1.pem",
    "RSA/2048_RSA_SHA512.pem", "RSA/2048_RSA_PSS_CA.pem", "ECDH_RSA/256_ECDH-RSA.pem", "ECDH_RSA/ecdsaCert.pem", "trusted-roots/DSTRootCAX3.pem",
    "trusted-roots/DigiCertGlobalRootCA.pem", NULL };
static const char *const x509_quick4_seeds[] = { "EC/256_EC.pem", "RSA/2048_RSA_PSS.pem", "embedded/rich_ec256.der", "EC/ALL_EC_CAS_EXCEPT_P192_P224_AND_P521.pem", NULL };
static const char *const x509_store_byte_seeds[] = { "EC/256_EC.pem", "RSA/2048_RSA_PSS.pem", "embedded/rich_ec256.der", "EC/ALL_EC_CAS_EXCEPT_P192_P224_AND_P521.pem",
    "EC/ED25519.pem", "RSA/1024_RSA_MD4.pem", NULL };
static const char *const p8e_byte_seeds[] = { "embedded/p8e_ec256.der", "embedded/p8_ec256.der", NULL };
static const char *const unkpriv_byte_seeds[] = { "EC/256_EC_KEY.pem", "EC/ED25519_KEY.pem", "embedded/p8_ec256.der", "EC/256_EC_KEY.noparam.nopub.pem", "EC/256_EC_KEY.noparam.pem", NULL };
static const char *const lk_byte_seeds[] = { "EC/256_EC.pem", "EC/256_EC_KEY.pem", "EC/256_EC_CA.pem", NULL };
static const char *const rsa_byte_seeds[] = { "RSA/1024_RSA_KEY.pem", "RSA/2048_RSA_KEY.pem", NULL };
static const char *const dh_byte_seeds[] = { "DH/dh512.pem", "DH/1024_DH_PARAMS.pem", "DH/ffdhe2048_DH_PARAMS.pem", "DH/dh2048_key.pem", NULL };
static const char *const pem_cert_byte_seeds[] = { "EC/256_EC.pem", "RSA/1024_RSA.pem", "EC/ED25519.pem", "RSA/2048_RSA_PSS.pem", "embedded/rich_ec256.pem",
    "ECDH_RSA/ALL_ECDH-RSA_CAS.pem", NULL };
static const char *const pem_any_byte_seeds[] = { "EC/256_EC_KEY.pem", "RSA/1024_RSA_KEY.pem", "EC/ED25519_KEY.pem", "EC/256_EC.pem", "RSA/2048_RSA_PUB.pem",
    "EC/256_EC_PUB.pem", "DH/dh512.pem", "embedded/rsa1024_des3.pem", "embedded/rsa1024_aes128.pem", "embedded/ec256_des3.pem",
    "RSA/2048_RSA_KEY_encrypted.pem", NULL };
#define STORE (CERT_STORE_UNPARSED_BUFFER | CERT_STORE_DN_BUFFER)
static const entry_t entries[] = {
    { "psX509ParseCert/flags0", F_X509, 0, NULL, KB(K_CERT_DER), 0, C_ALL, 0, NULL, INT_MAX, x509_quick4_seeds, x509_quick4_seeds, NULL, x509_der_seeds },
    { "psX509ParseCert/store", F_X509, STORE, NULL, KB(K_CERT_DER), 0, C_ALL, 0, NULL, INT_MAX, NULL, x509_store_byte_seeds, x509_der_seeds },
    { "psX509ParseCert/partial", F_X509, STORE | CERT_ALLOW_BUNDLE_PARTIAL_PARSE, NULL, KB(K_CERT_DER), 0, C_ALL, 0, NULL, INT_MAX, x509_quick_seeds, x509_quick4_seeds, NULL, x509_der_seeds },
    { "psX509ParseCertData/pem", F_X509DATA, STORE, NULL, KB(K_CERT_PEM), 1, C_ALL, 4000, NULL, INT_MAX, NULL, pem_cert_byte_seeds },
    { "psX509ParseCertData/pem-partial", F_X509DATA, STORE | CERT_ALLOW_BUNDLE_PARTIAL_PARSE, NULL, KB(K_CERT_PEM), 1, C_IDENT | C_TRUNC | C_PEM, 0, NULL, INT_MAX },
    { "psX509ParseCertData/der", F_X509DATA, 0, NULL, KB(K_CERT_DER), 1, C_IDENT | C_TRUNC | C_DER, 0, x509data_der_seeds, INT_MAX },
    { "psX509ParseCertData/unterminated", F_X509DATA, 0, NULL, KB(K_CERT_DER) | KB(K_CERT_PEM), 0, C_IDENT | C_RAW, 0, x509data_der_seeds, INT_MAX },
    { "psPemCertBufToList", F_PEMLIST, 0, NULL, KB(K_CERT_PEM), 1, C_ALL, 4000, NULL, 0, NULL, pem_cert_byte_seeds },
    { "psX509ParseCRL", F_CRL, 0, NULL, KB(K_CRL_DER), 0, C_ALL | C_RAW3, 0, NULL, 0 },
    { "psOcspParseResponse", F_OCSP, 0, NULL, KB(K_OCSP_DER), 0, C_ALL | C_RAW3, 0, NULL, 0 },
    { "psPkcs8ParsePrivBin", F_P8, 0, NULL, KB(K_P8_DER), 0, C_ALL | C_RAW3, 0, NULL, INT_MAX },
    { "psPkcs8ParsePrivBin/pass", F_P8, 0, C09_PASSWORD, KB(K_P8E_DER) | KB(K_P8_DER), 0, C_ALL, 0, NULL, INT_MAX, NULL, NULL, NULL, NULL, p8e_byte_seeds },
    { "psRsaParsePkcs1PrivKey", F_RSAPRIV, 0, NULL, KB(K_RSAKEY_DER), 0, C_ALL | C_RAW3, 0, NULL, INT_MAX, NULL, rsa_byte_seeds },
    { "psEccParsePrivKey", F_ECPRIV, 0, NULL, KB(K_ECKEY_DER), 0, C_ALL | C_RAW3, 0, NULL, INT_MAX, NULL, NULL, NULL, NULL, unkpriv_byte_seeds },
    { "psEd25519ParsePrivKey", F_EDPRIV, 0, NULL, KB(K_P8_DER), 0, C_ALL | C_RAW3, 0, NULL, INT_MAX },
    { "psParseUnknownPrivKeyMem", F_UNKPRIV, 0, NULL, KB(K_RSAKEY_DER) | KB(K_ECKEY_DER) | KB(K_P8_DER) | KB(K_MISC_DER), 0, C_ALL, 700, NULL, 16, NULL, NULL, NULL, NULL, unkpriv_byte_seeds },
    { "psParseUnknownPrivKeyMem/pass", F_UNKPRIV, 0, C09_PASSWORD, KB(K_P8E_DER), 0, C_IDENT | C_TRUNC | C_DER, 0, NULL, 16 },
    { "psPkcs12ParseMem", F_P12, 0, C09_PASSWORD, KB(K_P12), 0, C_ALL, 0, NULL, 0 },
    { "matrixSslLoadPkcs12Mem", F_LOADP12, 0, C09_PASSWORD, KB(K_P12), 0, C_IDENT | C_TRUNC | C_DER, 0, NULL, 0 },
    { "psPemDecode", F_PEMDEC, 0, NULL, KB(K_KEY_PEM) | KB(K_CERT_PEM) | KB(K_PUB_PEM) | KB(K_MISC_PEM) | KB(K_ENCKEY_PEM), 1, C_ALL, 2000, NULL, 0, NULL, pem_any_byte_seeds },
    { "psPemDecode/pass", F_PEMDEC, 0, C09_PASSWORD, KB(K_KEY_PEM) | KB(K_ENCKEY_PEM), 1, C_ALL, 2000, NULL, 0, NULL, pem_any_byte_seeds },
    { "psPemDecode/unterminated", F_PEMDEC, 0, C09_PASSWORD, KB(K_ENCKEY_PEM), 0, C_IDENT | C_RAW | C_PEM, 0, NULL, 0 },
    { "psPemTryDecode", F_PEMTRY, 0, C09_PASSWORD, KB(K_KEY_PEM) | KB(K_ENCKEY_PEM) | KB(K_PUB_PEM) | KB(K_CERT_PEM), 1, C_IDENT | C_TRUNC | C_PEM | C_RAW, 0, NULL, 0 },
    { "matrixSslLoadKeysMem/cert-pem", F_LOADKEYS, 0, NULL, KB(K_CERT_PEM), 1, C_ALL & ~C_RAW, 0, lk_cert_seeds, 0, NULL, NULL, NULL, NULL, lk_byte_seeds },
    { "matrixSslLoadKeysMem/key-pem", F_LOADKEYS, 1, NULL, KB(K_KEY_PEM), 1, C_ALL & ~C_RAW, 0, lk_key_seeds, 0, NULL, NULL, NULL, NULL, lk_byte_seeds },
    { "matrixSslLoadKeysMem/ca-pem", F_LOADKEYS, 2, NULL, KB(K_CERT_PEM), 1, C_ALL, 0, lk_ca_seeds, 0, NULL, NULL, NULL, NULL, lk_byte_seeds },
    { "matrixSslLoadKeysMem/cert-der", F_LOADKEYS, 0, NULL, KB(K_CERT_DER), 1, C_IDENT | C_TRUNC | C_DER, 0, lk_cert_seeds, 0 },
    { "matrixSslLoadKeysMem/key-der", F_LOADKEYS, 1, NULL, KB(K_ECKEY_DER) | KB(K_RSAKEY_DER) | KB(K_P8_DER), 1, C_IDENT | C_TRUNC | C_DER, 0, lk_key_seeds, 0 },
    { "matrixSslLoadKeysMem/ca-der", F_LOADKEYS, 2, NULL, KB(K_CERT_DER), 1, C_IDENT | C_TRUNC | C_DER, 0, lk_ca_seeds, 0 },
    { "psPkcs3ParseDhParamBin", F_DH, 0, NULL, KB(K_DH_DER) | KB(K_MISC_DER), 0, C_ALL | C_RAW3, 1300, NULL, 0, NULL, dh_byte_seeds },
    { "psParseUnknownPubKeyMem", F_UNKPUB, 0, NULL, KB(K_PUB_DER) | KB(K_PUB_PEM), 1, C_ALL, 0, NULL, 0 },
    { "psParseUnknownPubKeyMem/unterminated", F_UNKPUB, 0, NULL, KB(K_PUB_DER) | KB(K_PUB_PEM), 0, C_IDENT | C_RAW, 0, NULL, 0 },
    { "psRsaParsePubKeyMem", F_RSAPUBMEM, 0, NULL, KB(K_PUB_DER) | KB(K_PUB_PEM), 1, C_ALL, 0, NULL, 0 },
    { "psParseSubjectPublicKeyInfo", F_SPKI, 0, NULL, KB(K_PUB_DER), 0, C_ALL | C_RAW3, 0, NULL, 0 },
};
#define NENT ((int) (sizeof(entries) / sizeof(entries[0])))

static int seed_in_list(const seed_t *s, const char *const *list)
{
    int i;
    for (i = 0; list[i]; i++)
    {
        size_t n = strlen(list[i]);
        if (!strncmp(s->name, list[i], n) && (s->name[n] == 0 || s->name[n] == ':'))
        {
            return 1;
        }
    }
    return 0;
}

static int entry_takes(const entry_t *E, const seed_t *s)
{
    if (!(E->kinds & KB(s->kind)))
    {
        return 0;
    }
    if (E->only && !seed_in_list(s, E->only))
    {
        return 0;
    }
    if (!thorough && E->quick_only && !seed_in_list(s, E->quick_only))
    {
        return 0;
    }
    if (thorough && E->thorough_only && !seed_in_list(s, E->thorough_only))
    {
        return 0;
    }
    if (E->fn == F_EDPRIV && !strstr(s->name, "ED25519"))
    {
        return 0;
    }
    if (E->fn == F_P8 && E->pass && s->kind == K_P8_DER && !strstr(s->name, "embedded/p8_ec256"))
    {
        return 0; /* one unencrypted seed is enough for the password path */
    }
    return 1;
}

/* companions for matrixSslLoadKeysMem: index 0 cert, 1 key, 2 ca; PEM (text seeds) and DER (first block) */
typedef struct { const unsigned char *p[2]; size_t len[2]; } comp_t; /* [0] pem, [1] der */
static comp_t lk_comp[3][3]; /* [triple][role] */
static void init_companions(void)
{
    int t, r;
    for (t = 0; t < 3; t++)
    {
        const char *nm[3] = { lk_cert_seeds[t], lk_key_seeds[t], lk_ca_seeds[t] };
        for (r = 0; r < 3; r++)
        {
            char dn[128];
            int si = seed_find(nm[r]), di, k;
            if (si >= 0)
            {
                lk_comp[t][r].p[0] = seeds[si].p;
                lk_comp[t][r].len[0] = seeds[si].len;
            }
            /* the DER companion is the last block of the file (EC key files start with an EC PARAMETERS block) */
            for (k = 3, di = -1; k >= 0 && di < 0; k--)
            {
                snprintf(dn, sizeof(dn), "%s:der%d", nm[r], k);
                di = seed_find(dn);
            }
            if (di >= 0)
            {
                lk_comp[t][r].p[1] = seeds[di].p;
                lk_comp[t][r].len[1] = seeds[di].len;
            }
        }
    }
}
static int lk_triple_of(const seed_t *s)
{
    int t;
    for (t = 0; t < 3; t++)
    {
        const char *const one[2] = { NULL, NULL };
        const char *nm[3] = { lk_cert_seeds[t], lk_key_seeds[t], lk_ca_seeds[t] };
        int r;
        (void) one;
        for (r = 0; r < 3; r++)
        {
            size_t n = strlen(nm[r]);
            if (!strncmp(s->name, nm[r], n) && (s->name[n] == 0 || s->name[n] == ':'))
            {
                return t;
            }
        }
    }
    return 0;
}

/* --------------------------------------------------------- running one input */
static int g_ok;              /* last call succeeded */
static int g_triple;          /* companion triple for loadkeys */

static int run_entry(const entry_t *E, unsigned char *in, size_t len)
{
    int rc = -1;
    g_ok = 0;
    w_reset();
    switch (E->fn)
    {
    case F_X509:
    {
        psX509Cert_t *cert = NULL;
        rc = psX509ParseCert(NULL, in, (uint32) len, &cert, E->a);
        g_ok = (E->a & CERT_ALLOW_BUNDLE_PARTIAL_PARSE) ? rc > 0 : rc >= 0;
        if (rc >= 0)
        {
            w_cert_chain("cert", cert, E->a, 1);
            if (!(E->a & CERT_ALLOW_BUNDLE_PARTIAL_PARSE) && (size_t) rc > len)
            {
                w_bad("cert.rc", "psX509ParseCert returned consumed length %d > input length %zu", rc, len);
            }
        }
        psX509FreeCert(cert);
        break;
    }
    case F_X509DATA:
    {
        psX509Cert_t *certs = NULL;
        rc = psX509ParseCertData(NULL, in, len, &certs, E->a);
        g_ok = rc > 0;
        if (rc >= 0)
        {
            w_cert_chain("cert", certs, E->a, 1);
        }
        psX509FreeCert(certs);
        break;
    }
    case F_PEMLIST:
    {
        psList_t *l = NULL, *c;
        int n = 0;
        rc = psPemCertBufToList(NULL, in, len, &l);
        g_ok = rc >= 0;
        if (rc >= 0)
        {
            for (c = l; c && n < 100000; c = c->next, n++)
            {
                w_region("pemlist.item", c->item, c->item ? c->len : 0);
            }
        }
        if (l)
        {
            psFreeList(l, NULL);
        }
        break;
    }
#ifdef USE_CRL
    case F_CRL:
    {
        psX509Crl_t *crl = NULL;
        (void) psX509GetCRLVersion(in, (int32) len);
        rc = psX509ParseCRL(NULL, &crl, in, (int32) len);
        g_ok = rc >= 0;
        if (rc >= 0 && crl)
        {
            w_crl(crl);
        }
        else if (rc >= 0)
        {
            w_bad("crl", "psX509ParseCRL returned %d without a CRL object", rc);
        }
        if (crl)
        {
            psX509FreeCRL(crl);
        }
        break;
    }
#endif
#ifdef USE_OCSP_RESPONSE
    case F_OCSP:
    {
        psOcspResponse_t resp;
        unsigned char *cp = in;
        memset(&resp, 0, sizeof(resp));
        rc = psOcspParseResponse(NULL, (int32) len, &cp, in + len, &resp);
        g_ok = rc >= 0;
        if (rc >= 0)
        {
            w_ocsp(&resp, in, len);
            if (cp < in || cp > in + len)
            {
                w_bad("ocsp.cp", "psOcspParseResponse advanced the cursor outside the input (offset %ld of %zu)", (long) (cp - in), len);
            }
        }
        psOcspResponseUninit(&resp);
        break;
    }
#endif
#ifdef USE_PKCS8
    case F_P8:
    {
        psPubKey_t key;
        memset(&key, 0, sizeof(key));
        rc = psPkcs8ParsePrivBin(NULL, in, len, (char *) E->pass, &key);
        g_ok = rc >= 0;
        psClearPubKey(&key);
        break;
    }
#endif
#ifdef USE_RSA
    case F_RSAPRIV:
    {
        psRsaKey_t key;
        memset(&key, 0, sizeof(key));
        rc = psRsaParsePkcs1PrivKey(NULL, in, (psSize_t) len, &key);
        g_ok = rc >= 0;
        if (rc >= 0)
        {
            w_sink += psRsaSize(&key);
        }
        psRsaClearKey(&key);
        break;
    }
#endif
#ifdef USE_ECC
    case F_ECPRIV:
    {
        psEccKey_t key;
        memset(&key, 0, sizeof(key));
        psEccInitKey(NULL, &key, NULL);
        rc = psEccParsePrivKey(NULL, in, (psSize_t) len, &key, NULL);
        g_ok = rc >= 0;
        if (rc >= 0)
        {
            w_sink += psEccSize(&key);
        }
        psEccClearKey(&key);
        break;
    }
#endif
#ifdef USE_ED25519
    case F_EDPRIV:
    {
        psCurve25519Key_t key;
        memset(&key, 0, sizeof(key));
        rc = psEd25519ParsePrivKey(NULL, in, (psSize_t) len, &key);
        g_ok = rc >= 0;
        break;
    }
#endif
    case F_UNKPRIV:
    {
        psPubKey_t key;
        memset(&key, 0, sizeof(key));
        rc = psParseUnknownPrivKeyMem(NULL, in, (int32) len, E->pass, &key);
        g_ok = rc > 0;
        psClearPubKey(&key);
        break;
    }
#if defined(USE_PKCS12) && defined(MATRIX_USE_FILE_SYSTEM)
    case F_P12:
    {
        psX509Cert_t *cert = NULL;
        psPubKey_t key;
        memset(&key, 0, sizeof(key));
        rc = psPkcs12ParseMem(NULL, &cert, &key, in, (int32) len, 0, (unsigned char *) E->pass, (int32) strlen(E->pass),
            (unsigned char *) E->pass, (int32) strlen(E->pass));
        g_ok = rc >= 0;
        if (rc >= 0)
        {
            w_cert_chain("p12.cert", cert, 0, 1);
        }
        psX509FreeCert(cert);
        psClearPubKey(&key);
        break;
    }
    case F_LOADP12:
    {
        sslKeys_t *keys = NULL;
        if (matrixSslNewKeys(&keys, NULL) < 0)
        {
            return -1000;
        }
        rc = matrixSslLoadPkcs12Mem(keys, in, (int32) len, (const unsigned char *) E->pass, (int32) strlen(E->pass), NULL, 0, 0);
        g_ok = rc >= 0;
        if (rc >= 0 && keys->identity)
        {
            w_cert_chain("p12.identity.cert", keys->identity->cert, 0, 1);
        }
        matrixSslDeleteKeys(keys);
        break;
    }
#endif
#ifdef USE_PEM_DECODE
    case F_PEMDEC:
    {
        unsigned char *out = NULL;
        psSizeL_t outlen = 0;
        rc = psPemDecode(NULL, in, len, E->pass, &out, &outlen);
        g_ok = rc >= 0;
        if (rc >= 0)
        {
            if (out == NULL)
            {
                w_bad("pem.out", "psPemDecode returned %d but no output buffer", rc);
            }
            else
            {
                w_region("pem.out", out, outlen);
            }
        }
        if (rc >= 0 && out)
        {
            psFree(out, NULL);
        }
        break;
    }
    case F_PEMTRY:
    {
        static const psPemType_t types[] = { PEM_TYPE_ANY, PEM_TYPE_KEY, PEM_TYPE_PRIVATE_KEY, PEM_TYPE_PUBLIC_KEY, PEM_TYPE_CERTIFICATE };
        int t;
        rc = -1;
        for (t = 0; t < 5; t++)
        {
            unsigned char *out = NULL;
            psSizeL_t outlen = 0, pl = 0;
            char *st = NULL, *en = NULL;
            int r;
            if (psPemCheckOk(in, len, types[t], &st, &en, &pl))
            {
                if (st == NULL || en == NULL || (unsigned char *) st < in || (unsigned char *) en > in + len || st > en)
                {
                    w_bad("pemcheck.range", "psPemCheckOk reported a body range outside the input (start %ld end %ld of %zu)",
                        st ? (long) ((unsigned char *) st - in) : -1, en ? (long) ((unsigned char *) en - in) : -1, len);
                }
                else if (pl != (psSizeL_t) (en - st))
                {
                    w_bad("pemcheck.len", "psPemCheckOk length %lu != end-start %ld", (unsigned long) pl, (long) (en - st));
                }
            }
            r = psPemTryDecode(NULL, in, len, types[t], E->pass, &out, &outlen);
            if (r >= 0)
            {
                rc = r;
                g_ok = 1;
                if (out)
                {
                    w_region("pem.out", out, outlen);
                    psFree(out, NULL);
                }
                else
                {
                    w_bad("pem.out", "psPemTryDecode returned %d but no output buffer", r);
                }
            }
            else if (rc < 0)
            {
                rc = r;
            }
        }
        break;
    }
#endif
    case F_LOADKEYS:
    {
        sslKeys_t *keys = NULL;
        int f = E->zterm && (E->kinds & (KB(K_CERT_PEM) | KB(K_KEY_PEM))) ? 0 : 1; /* companion format: pem/der */
        const comp_t *c = lk_comp[g_triple];
        const unsigned char *cb = c[0].p[f], *kb = c[1].p[f], *ab = c[2].p[f];
        size_t cl = c[0].len[f], kl = c[1].len[f], al = c[2].len[f];
        sslIdentity_t *id;
        int n = 0;
        if (matrixSslNewKeys(&keys, NULL) < 0)
        {
            return -1000;
        }
        if (E->a == 0) { cb = in; cl = len; ab = NULL; al = 0; }
        else if (E->a == 1) { kb = in; kl = len; ab = NULL; al = 0; }
        else { cb = NULL; cl = 0; kb = NULL; kl = 0; ab = in; al = len; }
        rc = matrixSslLoadKeysMem(keys, cb, (int32) cl, kb, (int32) kl, ab, (int32) al, NULL);
        g_ok = rc >= 0;
        if (rc >= 0)
        {
            for (id = keys->identity; id && n < 1000; id = id->next, n++)
            {
                w_cert_chain("keys.identity.cert", id->cert, STORE, 1);
            }
            w_cert_chain("keys.CAcerts", keys->CAcerts, 0, 1);
        }
        matrixSslDeleteKeys(keys);
        break;
    }
#ifdef USE_DH
    case F_DH:
    {
        psDhParams_t dp;
        memset(&dp, 0, sizeof(dp));
        rc = psPkcs3ParseDhParamBin(NULL, in, (psSize_t) len, &dp);
        g_ok = rc >= 0;
        if (rc >= 0)
        {
            unsigned char *pp = NULL, *pg = NULL;
            psSize_t pl = 0, gl = 0;
            if (psDhExportParameters(NULL, &dp, &pp, &pl, &pg, &gl) >= 0)
            {
                w_region("dh.p", pp, pl);
                w_region("dh.g", pg, gl);
                psFree(pp, NULL);
                psFree(pg, NULL);
            }
        }
        psPkcs3ClearDhParams(&dp);
        break;
    }
#endif
    case F_UNKPUB:
    {
        psPubKey_t key;
        memset(&key, 0, sizeof(key));
        rc = psParseUnknownPubKeyMem(NULL, in, (int32) len, NULL, &key);
        g_ok = rc >= 0;
        psClearPubKey(&key);
        break;
    }
#ifdef USE_RSA
    case F_RSAPUBMEM:
    {
        psRsaKey_t key;
        memset(&key, 0, sizeof(key));
        psRsaInitKey(NULL, &key);
        rc = psRsaParsePubKeyMem(NULL, in, len, NULL, &key);
        g_ok = rc >= 0;
        psRsaClearKey(&key);
        break;
    }
#endif
    case F_SPKI:
    {
        int32_t alg = 0;
        unsigned char *params = NULL;
        psSizeL_t plen = 0;
        const unsigned char *bits = NULL;
        rc = psParseSubjectPublicKeyInfo(NULL, in, len, &alg, &params, &plen, &bits);
        g_ok = rc >= 0;
        if (rc >= 0)
        {
            if (bits == NULL || bits < in || bits > in + len)
            {
                w_bad("spki.bits", "public key pointer outside the input (offset %ld of %zu)", bits ? (long) (bits - in) : -1, len);
            }
            else
            {
                if (params)
                {
                    w_inbuf("spki.params", params, (long) plen, in, len);
                }
#ifdef USE_RSA
                if (alg == OID_RSA_KEY_ALG)
                {
                    psRsaKey_t key;
                    unsigned char h[SHA1_HASH_SIZE];
                    const unsigned char *q = bits;
                    memset(&key, 0, sizeof(key));
                    psRsaInitKey(NULL, &key);
                    (void) psRsaParseAsnPubKey(NULL, &q, (psSize_t) (in + len - bits), &key, h);
                    psRsaClearKey(&key);
                }
#endif
#ifdef USE_ED25519
                if (alg == OID_ED25519_KEY_ALG)
                {
                    psCurve25519Key_t key;
                    unsigned char h[64];
                    const unsigned char *q = bits;
                    memset(&key, 0, sizeof(key));
                    (void) psEd25519ParsePubKey(NULL, &q, (psSize_t) (in + len - bits), &key, h);
                }
#endif
            }
        }
        break;
    }
    default:
        return -1001;
    }
    return rc;
}

/* ============================================================ case layout */
typedef struct { long n_ident, n_trunc, n_byte, n_der, n_pem, n_raw, total; int vals; } layout_t;
#define RAW_SEED (-1)

static void layout_of(const entry_t *E, int si, const dtree_t *t, layout_t *L)
{
    memset(L, 0, sizeof(*L));
    if (si == RAW_SEED)
    {
        if (E->classes & C_RAW)
        {
            L->n_raw = 1 + 256 + 65536;
            if (thorough && (E->classes & C_RAW3))
            {
                L->n_raw += 16777216L;
            }
        }
        L->total = L->n_raw;
        return;
    }
    {
        const seed_t *s = &seeds[si];
        int listed = E->byte_only == NULL || seed_in_list(s, E->byte_only);
        const char *const *wl = E->wide_only ? E->wide_only : E->byte_only;
        int wide = wl == NULL || seed_in_list(s, wl);
        L->vals = (thorough && s->len <= 2048 && wide) ? 255 : 8;
        if (E->classes & C_IDENT) L->n_ident = 1;
        if (E->classes & C_TRUNC) L->n_trunc = (long) s->len;
        if ((E->classes & C_BYTE) && (E->byte_cap == 0 || s->len <= E->byte_cap) && (thorough || listed)) L->n_byte = (long) s->len * L->vals;
        if ((E->classes & C_DER) && !s->text && t && (thorough || E->der_only == NULL || seed_in_list(s, E->der_only))) L->n_der = (long) t->count * DOP_PER_NODE;
        if ((E->classes & C_PEM) && s->text) L->n_pem = PEM_NEDITS;
        L->total = L->n_ident + L->n_trunc + L->n_byte + L->n_der + L->n_pem;
    }
}

/* per-process cache of the current seed's structure */
static dtree_t cur_tree;
static pemloc_t cur_pem;
static int cur_tree_seed = -2;
static unsigned char *obuf, *tmpa, *tmpb, *tmpc;

static void seed_prepare(int si)
{
    if (si == cur_tree_seed)
    {
        return;
    }
    cur_tree_seed = si;
    cur_tree.count = 0;
    memset(&cur_pem, 0, sizeof(cur_pem));
    if (si >= 0)
    {
        if (seeds[si].text) pem_locate(seeds[si].p, seeds[si].len, &cur_pem);
        else der_walk(&cur_tree, seeds[si].p, seeds[si].len);
    }
}

/* Build case idx of (entry, seed). Returns 1 when a case exists (0 = not applicable / duplicate of the seed).
 * top: flood-control class (0 ident 1 trunc 2 byte 3 der 4 pem 5 raw). */
static int g_sub; /* flood-control sub bucket of the last built case: DER op / byte value index */
static int build_case(const entry_t *E, int si, long idx, mbuf_t *out, const char **cls, int *top, char *detail, size_t dn)
{
    layout_t L;
    const seed_t *s;
    seed_prepare(si);
    layout_of(E, si, &cur_tree, &L);
    detail[0] = 0;
    g_sub = 0;
    mb_reset(out);
    if (idx < 0 || idx >= L.total)
    {
        return 0;
    }
    if (si == RAW_SEED)
    {
        *top = 5;
        if (idx == 0) { *cls = "raw0"; snprintf(detail, dn, "empty input"); return 1; }
        idx -= 1;
        if (idx < 256) { *cls = "raw1"; mb_addc(out, (int) idx); snprintf(detail, dn, "%02lx", idx); return 1; }
        idx -= 256;
        if (idx < 65536) { *cls = "raw2"; mb_addc(out, (int) (idx >> 8)); mb_addc(out, (int) (idx & 255)); snprintf(detail, dn, "%04lx", idx); return 1; }
        idx -= 65536;
        *cls = "raw3";
        mb_addc(out, (int) (idx >> 16)); mb_addc(out, (int) ((idx >> 8) & 255)); mb_addc(out, (int) (idx & 255));
        snprintf(detail, dn, "%06lx", idx);
        return 1;
    }
    s = &seeds[si];
    if (idx < L.n_ident)
    {
        *cls = "ident"; *top = 0;
        mb_add(out, s->p, s->len);
        snprintf(detail, dn, "unmodified seed, %zu bytes", s->len);
        return 1;
    }
    idx -= L.n_ident;
    if (idx < L.n_trunc)
    {
        *cls = "trunc"; *top = 1;
        mb_add(out, s->p, (size_t) idx);
        snprintf(detail, dn, "first %ld of %zu bytes", idx, s->len);
        return 1;
    }
    idx -= L.n_trunc;
    if (idx < L.n_byte)
    {
        size_t off = (size_t) (idx / L.vals);
        int v = (int) (idx % L.vals);
        unsigned char x = s->p[off], y;
        *cls = "byte"; *top = 2;
        g_sub = v;
        if (L.vals == 255)
        {
            y = (unsigned char) (x + 1 + v);
        }
        else
        {
            static const unsigned char fixed[5] = { 0x00, 0x01, 0x7f, 0x80, 0xff };
            y = v < 5 ? fixed[v] : v == 5 ? (unsigned char) (x ^ 0x01) : v == 6 ? (unsigned char) (x ^ 0x80) : (unsigned char) (x + 1);
            if (y == x)
            {
                return 0;
            }
        }
        mb_add(out, s->p, s->len);
        out->p[off] = y;
        snprintf(detail, dn, "offset %zu: %02x -> %02x", off, x, y);
        return 1;
    }
    idx -= L.n_byte;
    if (idx < L.n_der)
    {
        *top = 3;
        g_sub = (int) (idx % DOP_PER_NODE);
        return der_mutate(&cur_tree, s->p, s->len, (int) (idx / DOP_PER_NODE), (int) (idx % DOP_PER_NODE), out, tmpa, tmpb, tmpc, cls, detail, dn);
    }
    idx -= L.n_der;
    *top = 4;
    return pem_mutate(s->p, s->len, &cur_pem, (int) idx, out, cls, detail, dn);
}

/* ======================================================= one case + oracle */
typedef struct { int viol; char key[160]; char what[320]; long idx; } bfind_t;
#define BMAXFIND 24
typedef struct {
    volatile long cur;
    volatile int done;
    long n_ok, n_err, n_na, n_skip, n_viol;
    uint64_t rch;
    int nfind;
    long find_dropped;
    bfind_t find[BMAXFIND];
} bshm_t;

static const char *seed_name(int si) { return si == RAW_SEED ? "raw" : seeds[si].name; }

static void arm_timer(int s)
{
    struct itimerval it;
    memset(&it, 0, sizeof(it));
    it.it_value.tv_sec = s;
    setitimer(ITIMER_PROF, &it, NULL); /* CPU time of this process: immune to machine load */
}

/* flood control: (top,sub) buckets that are no longer executed in the current work group */
typedef struct { int top, sub; } bucket_t;
static bucket_t skip_b[64];
static int nskip_b;
static int bucket_skipped(int top, int sub)
{
    int i;
    for (i = 0; i < nskip_b; i++)
    {
        if (skip_b[i].top == top && skip_b[i].sub == sub)
        {
            return 1;
        }
    }
    return 0;
}

/* allocation bound per parser call: no honest parse needs more than a few thousand allocations, and a parser may
 * allocate in proportion to its input (a bundle of 257 repeated elements is ~20 k allocations): 20000 + 4 per input byte */
#define ALLOC_BOUND 20000
static long g_alloc_bound = ALLOC_BOUND;
static int alloc_bound_hook(long k)
{
    if (k > g_alloc_bound)
    {
        fprintf(stderr, "c09: allocation runaway: more than %d + 4 x input length allocations inside one parser call\n", ALLOC_BOUND);
        abort();
    }
    return 0;
}

/* run one case in this process; returns 0 ok / 1 violation (f filled) / -1 not applicable / -2 skipped by flood control */
static const char *addr_func(void *addr, char *buf, size_t n)
{
    /* resolve the allocation site to a function name with addr2line (PIE: subtract the load base) */
    unsigned long base = 0; /* drivers are linked -no-pie: addresses are absolute */
    char cmd[400], exe[256];
    FILE *p;
    ssize_t l;
    l = readlink("/proc/self/exe", exe, sizeof(exe) - 1);
    if (l <= 0)
    {
        snprintf(buf, n, "?");
        return buf;
    }
    exe[l] = 0;
    snprintf(cmd, sizeof(cmd), "addr2line -f -i -e %s 0x%lx 2>/dev/null", exe, (unsigned long) addr - base - 1);
    p = popen(cmd, "r");
    snprintf(buf, n, "?");
    if (p)
    {
        char line[256];
        /* with -i the innermost frame comes first; skip allocator shims */
        while (fgets(line, sizeof(line), p))
        {
            line[strcspn(line, "\n")] = 0;
            if (line[0] && line[0] != '/' && line[0] != '?' && !strstr(line, "psMalloc") && !strstr(line, "__wrap"))
            {
                snprintf(buf, n, "%s", line);
                break;
            }
        }
        pclose(p);
    }
    return buf;
}

static int run_case(const entry_t *E, int si, long idx, bfind_t *f, int *ok, int *rcout, int verbose)
{
    mbuf_t m = { obuf, 0 };
    const char *cls = "?";
    char detail[160];
    int top = 0, rc, attempt;
    unsigned char *in;
    long live0, live1 = 0;
    if (!build_case(E, si, idx, &m, &cls, &top, detail, sizeof(detail)))
    {
        return -1;
    }
    if (nskip_b && bucket_skipped(top, g_sub))
    {
        return -2;
    }
    if (si != RAW_SEED)
    {
        g_triple = lk_triple_of(&seeds[si]);
    }
    if (verbose)
    {
        size_t i, n = m.len > 4096 ? 4096 : m.len;
        fprintf(stderr, "case e=%s s=%s i=%ld class=%s (%s) input %zu bytes%s:\n", E->name, seed_name(si), idx, cls, detail, m.len,
            m.len > n ? " (first 4096 shown)" : "");
        for (i = 0; i < n; i++)
        {
            fprintf(stderr, "%02x", m.p[i]);
        }
        fprintf(stderr, "\n");
    }
    for (attempt = 0; attempt < 2; attempt++)
    {
        /* exact-size heap copy: ASan red zones right after the last input byte (after the NUL for the C-string convention) */
        in = malloc(m.len + (size_t) E->zterm + (m.len + (size_t) E->zterm == 0 ? 1 : 0));
        memcpy(in, m.p, m.len);
        if (E->zterm)
        {
            in[m.len] = 0;
        }
        env_reset(0);
        env_alloc_count = 0;
        env_alloc_hook = alloc_bound_hook;
        g_alloc_bound = ALLOC_BOUND + 4 * (long) m.len;
        live0 = env_live();
        env_track(1);
        rc = run_entry(E, in, m.len);
        env_track(0);
        live1 = env_live();
        free(in);
        if (live1 == live0 || w_field[0])
        {
            break;
        }
        /* a one-time lazy initialisation inside the library is not a leak: only a repeatable imbalance counts */
    }
    *ok = g_ok;
    *rcout = rc;
    f->idx = idx;
    f->viol = 0;
    if (verbose)
    {
        fprintf(stderr, "rc=%d ok=%d live %ld -> %ld %s\n", rc, g_ok, live0, live1, w_field[0] ? w_what : "");
    }
    if (rc == -1000 || rc == -1001)
    {
        f->viol = 2;
        snprintf(f->key, sizeof(f->key), "%s|harness-setup", E->name);
        snprintf(f->what, sizeof(f->what), "harness could not set up the call (%d)", rc);
        return 1;
    }
    if (w_field[0])
    {
        f->viol = 1;
        snprintf(f->key, sizeof(f->key), "%s|inconsistent|%s", E->name, w_field);
        snprintf(f->what, sizeof(f->what), "%s succeeded (rc %d) on seed %s %s (%s) but the result is inconsistent: %s", E->name, rc, seed_name(si), cls, detail, w_what);
        return 1;
    }
    if (live1 != live0)
    {
        void *sites[2];
        char site[128] = "?";
        if (env_live_sites(sites, 2) > 0)
        {
            addr_func(sites[0], site, sizeof(site));
        }
        f->viol = 1;
        snprintf(f->key, sizeof(f->key), "%s|leak|%s", E->name, site);
        snprintf(f->what, sizeof(f->what), "%s rc %d on seed %s %s (%s): %ld allocation(s) still live after the result was freed, first allocated in %s", E->name, rc, seed_name(si), cls, detail, live1 - live0, site);
        return 1;
    }
    if (rc > E->max_ok_rc)
    {
        f->viol = 1;
        snprintf(f->key, sizeof(f->key), "%s|bad-rc|%s", E->name, cls);
        snprintf(f->what, sizeof(f->what), "%s returned %d (neither documented success nor a negative error) on seed %s %s (%s)", E->name, rc, seed_name(si), cls, detail);
        return 1;
    }
    return 0;
}

/* ================================================== forked batch execution */
static bshm_t *bsh;          /* per-worker shared block */
static int capfd = -1;       /* per-worker capture file for the child's stdout/stderr */

static void worker_setup(void)
{
    char path[64];
    if (bsh)
    {
        return;
    }
    bsh = mmap(NULL, sizeof(*bsh), PROT_READ | PROT_WRITE, MAP_SHARED | MAP_ANONYMOUS, -1, 0);
    snprintf(path, sizeof(path), "/tmp/c09-cap-%d-XXXXXX", (int) getpid());
    capfd = mkstemp(path);
    if (capfd >= 0)
    {
        unlink(path);
    }
    if (bsh == MAP_FAILED || capfd < 0)
    {
        perror("c09 worker setup");
        exit(2);
    }
}

/* child body */
static void child_run(const entry_t *E, int si, long lo, long hi, int verbose)
{
    long i;
    dup2(capfd, 2);
    if (!verbose)
    {
        dup2(capfd, 1);
    }
    for (i = lo; i < hi; i++)
    {
        bfind_t f;
        int ok = 0, rc = 0, r;
        bsh->cur = i;
        arm_timer(t_case_s);
        r = run_case(E, si, i, &f, &ok, &rc, verbose);
        if (r < 0)
        {
            if (r == -2) bsh->n_skip++; else bsh->n_na++;
            continue;
        }
        if (ok) bsh->n_ok++; else bsh->n_err++;
        bsh->rch = fnv1a(&rc, sizeof(rc), bsh->rch ? bsh->rch : FNV0);
        if (r > 0)
        {
            /* keep the first case of every distinct key of this batch (a parser that leaks on every input must not crowd out other keys) */
            int k;
            bsh->n_viol++;
            for (k = 0; k < bsh->nfind; k++)
            {
                if (!strcmp(bsh->find[k].key, f.key))
                {
                    break;
                }
            }
            if (k == bsh->nfind)
            {
                if (bsh->nfind < BMAXFIND) bsh->find[bsh->nfind++] = f; else bsh->find_dropped++;
            }
        }
    }
    arm_timer(0);
    bsh->cur = hi;
    bsh->done = 1;
    fflush(NULL);
    _exit(0);
}

/* fork a child for [lo,hi); returns wait status */
static int fork_range(const entry_t *E, int si, long lo, long hi, int verbose)
{
    pid_t pid;
    int st = 0;
    worker_setup();
    if (ftruncate(capfd, 0) < 0 || lseek(capfd, 0, SEEK_SET) < 0)
    {
        perror("capture reset");
    }
    bsh->done = 0;
    bsh->cur = lo;
    fflush(NULL);
    pid = fork();
    if (pid < 0)
    {
        perror("fork");
        exit(2);
    }
    if (pid == 0)
    {
        child_run(E, si, lo, hi, verbose);
    }
    while (waitpid(pid, &st, 0) < 0 && errno == EINTR)
    {
    }
    return st;
}

static char capbuf[1 << 16];
static size_t read_capture(void)
{
    ssize_t n;
    lseek(capfd, 0, SEEK_SET);
    n = read(capfd, capbuf, sizeof(capbuf) - 1);
    if (n < 0)
    {
        n = 0;
    }
    capbuf[n] = 0;
    return (size_t) n;
}

/* derive "<kind>|<file:function>" from the sanitizer report in capbuf */
static void classify_crash(int st, char *kind, size_t kn, char *site, size_t sn, char *line, size_t ln)
{
    char *p, *q;
    kind[0] = site[0] = line[0] = 0;
    if ((p = strstr(capbuf, "ERROR: AddressSanitizer: ")) != NULL)
    {
        char k[64];
        size_t i = 0;
        p += 25;
        for (q = p; *q && *q != ' ' && *q != '\n' && i < sizeof(k) - 1; q++)
        {
            k[i++] = *q;
        }
        k[i] = 0;
        snprintf(kind, kn, "asan-%s", k);
        for (q = p, i = 0; *q && *q != '\n' && i < ln - 1; q++)
        {
            line[i++] = *q;
        }
        line[i] = 0;
    }
    else if ((p = strstr(capbuf, "runtime error: ")) != NULL)
    {
        size_t i = 0;
        snprintf(kind, kn, "ubsan");
        for (q = p + 15; *q && *q != '\n' && i < ln - 1; q++)
        {
            line[i++] = *q;
        }
        line[i] = 0;
        /* "<path>:<line>:<col>: runtime error" : remember the file as fallback site */
        for (q = p; q > capbuf && q[-1] != '\n'; q--)
        {
        }
        {
            char fl[128];
            size_t j = 0;
            char *c;
            while (q < p && *q != ':' && j < sizeof(fl) - 1)
            {
                fl[j++] = *q++;
            }
            fl[j] = 0;
            c = strrchr(fl, '/');
            snprintf(site, sn, "%s", c ? c + 1 : fl);
        }
    }
    else if (WIFSIGNALED(st))
    {
        snprintf(kind, kn, WTERMSIG(st) == SIGPROF ? "hang" : "crash-sig%d", WTERMSIG(st));
        snprintf(line, ln, WTERMSIG(st) == SIGPROF ? "no result within %d s of CPU time" : "killed by signal %d", WTERMSIG(st) == SIGPROF ? t_case_s : WTERMSIG(st));
    }
    else
    {
        snprintf(kind, kn, "crash-exit%d", WEXITSTATUS(st));
        snprintf(line, ln, "child exited with status %d without finishing", WEXITSTATUS(st));
    }
    if (strstr(capbuf, "env: live table full") || strstr(capbuf, "c09: allocation runaway"))
    {
        snprintf(kind, kn, "alloc-runaway");
        snprintf(line, ln, "more than %d + 4 x input length allocations inside one parser call (unbounded loop)", ALLOC_BOUND);
    }
    /* first stack frame of the first stack that belongs to the library: frames up to and including the last
     * interceptor / allocator-seam frame are skipped */
    {
        struct { char fn[96], file[96]; int seam, harness; } fr[24];
        int nfr = 0, i, start = 0;
        p = strstr(capbuf, "\n    #0 ");
        while (p && nfr < 24)
        {
            char file[200];
            char *in_ = strstr(p, " in "), *eol = strchr(p + 1, '\n');
            size_t j = 0;
            char *c;
            if (strncmp(p, "\n    #", 6) || !in_ || (eol && in_ > eol))
            {
                break;
            }
            in_ += 4;
            while (*in_ && *in_ != ' ' && *in_ != '\n' && j < sizeof(fr[0].fn) - 1)
            {
                fr[nfr].fn[j++] = *in_++;
            }
            fr[nfr].fn[j] = 0;
            j = 0;
            if (*in_ == ' ')
            {
                in_++;
                while (*in_ && *in_ != '\n' && *in_ != ':' && j < sizeof(file) - 1)
                {
                    file[j++] = *in_++;
                }
            }
            file[j] = 0;
            c = strrchr(file, '/');
            c = c ? c + 1 : file;
            snprintf(fr[nfr].file, sizeof(fr[nfr].file), "%s", file[0] == '(' ? "" : c);
            fr[nfr].harness = !strncmp(c, "drv_c09", 7) || !strncmp(c, "c09_", 4) || !strcmp(c, "explore.c");
            fr[nfr].seam = !strcmp(c, "env.c") || strstr(file, "libsanitizer") || strstr(file, "sanitizer_common") ||
                !strncmp(fr[nfr].fn, "__interceptor", 13) || !strncmp(fr[nfr].fn, "__asan", 6) || !strncmp(fr[nfr].fn, "__ubsan", 7) ||
                !strncmp(fr[nfr].fn, "__sanitizer", 11) || !strncmp(fr[nfr].fn, "__wrap_", 7);
            nfr++;
            p = eol;
        }
        for (i = 0; i < nfr && i < 10; i++)
        {
            if (fr[i].seam)
            {
                start = i + 1;
            }
        }
        if (!strcmp(kind, "alloc-runaway"))
        {
            /* the allocation that crosses the bound is incidental: name the outermost library function (the API entered) */
            for (i = start; i < nfr && !fr[i].harness; i++)
            {
            }
            if (i > start && i < nfr)
            {
                start = i - 1;
            }
        }
        for (i = start; i < nfr; i++)
        {
            if (!fr[i].file[0])
            {
                continue;
            }
            if (fr[i].harness)
            {
                snprintf(site, sn, "harness:%s", fr[i].fn);
            }
            else
            {
                snprintf(site, sn, "%s:%s", fr[i].file, fr[i].fn);
            }
            break;
        }
    }
}

/* ------------------------------------------------------------ statistics */
typedef struct { long cases, ok, err, na, crashes, skipped_flood, usec, viol; } estat_t;
static estat_t *estats; /* shared, [NENT] */

typedef struct { int e, s; long lo, hi; double cost; } grp_t;
static grp_t *groups;
static long ngroups;

static void rec_finding(const entry_t *E, int si, long idx, long idx_hi, int viol, const char *key, const char *what)
{
    mx_result_t r;
    const char *cls = "?";
    char detail[160] = "";
    int top;
    mbuf_t m = { obuf, 0 };
    memset(&r, 0, sizeof(r));
    build_case(E, si, idx_hi, &m, &cls, &top, detail, sizeof(detail));
    if (idx == idx_hi)
    {
        snprintf(r.desc, sizeof(r.desc), "e=%s;s=%s;i=%ld (%s: %.120s)", E->name, seed_name(si), idx, cls, detail);
    }
    else
    {
        snprintf(r.desc, sizeof(r.desc), "e=%s;s=%s;i=%ld-%ld (%s: %.100s)", E->name, seed_name(si), idx, idx_hi, cls, detail);
    }
    r.violation = viol;
    snprintf(r.key, sizeof(r.key), "%s", key);
    snprintf(r.what, sizeof(r.what), "%s", what);
    snprintf(r.outcome, sizeof(r.outcome), "%s:%s", E->name, viol == 1 ? "VIOLATION" : "INTERNAL");
    r.nontrivial = 1;
    r.transitions = 1;
    r.trace_hash = fnv1a(key, strlen(key), FNV0);
    mx_record(&r);
}

/* ---- crash signatures.  The bulk enumeration runs with symbolize=0 (a symbolized report costs ~0.15 s of DWARF
 * parsing per crash); the first crash with a new signature (kind + top frame offsets) is re-executed ALONE in a fresh,
 * symbolizing process (`self --desc ...`): that is the isolation step and it yields the stable key. */
static char self_exe[PATH_MAX];
static const char *tier_name = "quick";
typedef struct { uint64_t sig; char key[160]; char what[200]; } sigent_t;
static sigent_t sigcache[256];
static int nsigcache;

static uint64_t crash_signature(const char *entry, const char *kind)
{
    uint64_t h = fnv1a(entry, strlen(entry), FNV0);
    char *p = capbuf;
    int n = 0;
    h = fnv1a(kind, strlen(kind), h);
    if ((p = strstr(capbuf, "runtime error: ")) != NULL)
    {
        /* UBSan prints file:line:col itself */
        char *q = p;
        while (q > capbuf && q[-1] != '\n')
        {
            q--;
        }
        h = fnv1a(q, (size_t) (p - q), h);
    }
    for (p = capbuf; n < 4 && (p = strstr(p, "\n    #")) != NULL; p++)
    {
        char *plus = strstr(p + 1, "+0x"), *eol = strchr(p + 1, '\n');
        if (eol && strstr(p + 1, "\n\n") == eol)
        {
            n = 99; /* end of the first stack after this frame */
        }
        if (plus && (!eol || plus < eol))
        {
            char *e = plus + 3;
            while ((*e >= '0' && *e <= '9') || (*e >= 'a' && *e <= 'f'))
            {
                e++;
            }
            h = fnv1a(plus, (size_t) (e - plus), h);
            n++;
        }
    }
    return h;
}

/* run `self --desc <d>` with symbolizing sanitizer options; returns 1 and fills key/what when it reports a violation */
static int external_replay(const char *d, char *key, size_t kn, char *what, size_t wn)
{
    char cmd[PATH_MAX + 1200], line[2048];
    const char *ao = getenv("C09_ASAN_ORIG"), *uo = getenv("C09_UBSAN_ORIG");
    FILE *f;
    int got = 0;
    /* /proc/<pid>/exe stays executable even if the build directory is pruned while we run */
    snprintf(cmd, sizeof(cmd), "ASAN_OPTIONS='%s' UBSAN_OPTIONS='%s' /proc/%d/exe --tier %s --desc '%s' 2>/dev/null",
        ao ? ao : __asan_default_options(), uo ? uo : __ubsan_default_options(), (int) getpid(), tier_name, d);
    f = popen(cmd, "r");
    if (!f)
    {
        return 0;
    }
    while (fgets(line, sizeof(line), f))
    {
        char *k = strstr(line, "REPLAY violation=1 key="), *w;
        if (k)
        {
            size_t i = 0;
            k += 23;
            while (*k && *k != ' ' && i < kn - 1)
            {
                key[i++] = *k++;
            }
            key[i] = 0;
            w = strstr(k, " what=");
            snprintf(what, wn, "%s", w ? w + 6 : "");
            what[strcspn(what, "\n")] = 0;
            got = 1;
        }
    }
    pclose(f);
    return got;
}

/* crash of case c (child started at `from`): isolate and record. Returns the finding key in keyout. */
static void handle_crash(const entry_t *E, int si, long from, long c, int st, char *keyout, size_t kn)
{
    char kind[80], site[200], line[200], key[160], what[320], d[256];
    const char *cls = "?";
    char detail[160] = "";
    int top, i;
    uint64_t sig;
    mbuf_t m = { obuf, 0 };
    read_capture();
    classify_crash(st, kind, sizeof(kind), site, sizeof(site), line, sizeof(line));
    build_case(E, si, c, &m, &cls, &top, detail, sizeof(detail));
    if (!strcmp(kind, "hang"))
    {
        /* the progress marker is exact (timer is re-armed per case); no second 5 s wait */
        snprintf(key, sizeof(key), "%s|hang|%s", E->name, cls);
        snprintf(what, sizeof(what), "%s on seed %s %s (%s): %.150s", E->name, seed_name(si), cls, detail, line);
        rec_finding(E, si, c, c, 1, key, what);
        snprintf(keyout, kn, "%s", key);
        return;
    }
    sig = crash_signature(E->name, kind);
    for (i = 0; i < nsigcache; i++)
    {
        if (sigcache[i].sig == sig)
        {
            snprintf(what, sizeof(what), "%s on seed %s %s (%s): %.150s", E->name, seed_name(si), cls, detail, sigcache[i].what);
            rec_finding(E, si, c, c, 1, sigcache[i].key, what);
            snprintf(keyout, kn, "%s", sigcache[i].key);
            return;
        }
    }
    /* new signature: isolation = the case alone in a fresh symbolizing process */
    snprintf(d, sizeof(d), "e=%s;s=%s;i=%ld", E->name, seed_name(si), c);
    if (external_replay(d, key, sizeof(key), what, sizeof(what)))
    {
        if (nsigcache < 256)
        {
            char *colon;
            sigcache[nsigcache].sig = sig;
            snprintf(sigcache[nsigcache].key, sizeof(sigcache[nsigcache].key), "%s", key);
            colon = strstr(what, "): ");
            snprintf(sigcache[nsigcache].what, sizeof(sigcache[nsigcache].what), "%s", colon ? colon + 3 : what);
            nsigcache++;
        }
        rec_finding(E, si, c, c, 1, key, what);
        snprintf(keyout, kn, "%s", key);
        return;
    }
    /* does not reproduce alone: report the shortest known failing range */
    snprintf(d, sizeof(d), "e=%s;s=%s;i=%ld-%ld", E->name, seed_name(si), from, c);
    if (!external_replay(d, key, sizeof(key), what, sizeof(what)))
    {
        snprintf(key, sizeof(key), "%s|%s|%s|nonisolated", E->name, kind, site[0] ? site : cls);
        snprintf(what, sizeof(what), "%s: child died (%s) at case %ld of seed %s after cases %ld.. in the same process; neither the case alone nor the range reproduces it in a fresh process",
            E->name, line, c, seed_name(si), from);
    }
    rec_finding(E, si, from, c, 1, key, what);
    snprintf(keyout, kn, "%s", key);
}

static const char *ok_bucket(long ok, long n)
{
    if (n == 0) return "none";
    if (ok == 0) return "ok=0";
    if (ok * 100 < n) return "ok<1%";
    if (ok * 10 < n) return "ok<10%";
    if (ok * 2 < n) return "ok<50%";
    if (ok < n) return "ok>=50%";
    return "ok=all";
}

/* flood control table of one group */
typedef struct { int top, sub; char key[160]; int n; } flood_t;

static void run_group(long gi, void *unused)
{
    const grp_t *g = &groups[gi];
    const entry_t *E = &entries[g->e];
    estat_t *es = &estats[g->e];
    static flood_t fl[64];
    int nfl = 0;
    long lo;
    (void) unused;
    double tg0 = now_s();
    worker_setup();
    nskip_b = 0;
    for (lo = g->lo; lo < g->hi; )
    {
        long bsz = g->s == RAW_SEED ? 20 * BATCH : BATCH; /* raw strings are rejected in microseconds: larger batches */
        long hi = lo + bsz < g->hi ? lo + bsz : g->hi, pos = lo;
        long b_ok = 0, b_err = 0, b_na = 0, b_crash = 0, b_skip = 0, b_viol = 0;
        uint64_t rch = FNV0;
        mx_result_t r;
        double t0 = now_s();
        if (mx_deadline_hit())
        {
            return;
        }
        while (pos < hi)
        {
            int st, i;
            memset((void *) bsh, 0, sizeof(*bsh));
            st = fork_range(E, g->s, pos, hi, 0);
            b_ok += bsh->n_ok; b_err += bsh->n_err; b_na += bsh->n_na; b_skip += bsh->n_skip; b_viol += bsh->n_viol;
            rch = fnv1a((void *) &bsh->rch, sizeof(bsh->rch), rch);
            for (i = 0; i < bsh->nfind; i++)
            {
                rec_finding(E, g->s, bsh->find[i].idx, bsh->find[i].idx, bsh->find[i].viol, bsh->find[i].key, bsh->find[i].what);
            }
            if (bsh->done)
            {
                pos = hi;
            }
            else
            {
                long c = bsh->cur;
                char key[160];
                int k, top = -1, sub;
                mbuf_t m = { obuf, 0 };
                const char *cls = "?";
                char detail[160];
                b_crash++;
                build_case(E, g->s, c, &m, &cls, &top, detail, sizeof(detail));
                sub = g_sub;
                handle_crash(E, g->s, pos, c, st, key, sizeof(key));
                for (k = 0; k < nfl; k++)
                {
                    if (fl[k].top == top && fl[k].sub == sub && !strcmp(fl[k].key, key))
                    {
                        break;
                    }
                }
                if (k == nfl && nfl < 64)
                {
                    fl[nfl].top = top;
                    fl[nfl].sub = sub;
                    snprintf(fl[nfl].key, sizeof(fl[nfl].key), "%s", key);
                    fl[nfl].n = 0;
                    nfl++;
                }
                if (k < nfl && (fl[k].n += strstr(key, "|hang|") ? 3 : 1) >= FLOOD_N && nskip_b < 64 && !bucket_skipped(top, sub))
                {
                    char note[160];
                    skip_b[nskip_b].top = top;
                    skip_b[nskip_b].sub = sub;
                    nskip_b++;
                    snprintf(note, sizeof(note), "%s: rest of one mutation sub-class (same op / byte value) skipped in a work group after %d identical crashes (flood control)", E->name, FLOOD_N);
                    mx_note_skipped(note);
                }
                pos = c + 1;
            }
        }
        __atomic_fetch_add(&es->cases, b_ok + b_err, __ATOMIC_RELAXED);
        __atomic_fetch_add(&es->ok, b_ok, __ATOMIC_RELAXED);
        __atomic_fetch_add(&es->err, b_err, __ATOMIC_RELAXED);
        __atomic_fetch_add(&es->na, b_na, __ATOMIC_RELAXED);
        __atomic_fetch_add(&es->crashes, b_crash, __ATOMIC_RELAXED);
        __atomic_fetch_add(&es->skipped_flood, b_skip, __ATOMIC_RELAXED);
        __atomic_fetch_add(&es->viol, b_viol + b_crash, __ATOMIC_RELAXED);
        __atomic_fetch_add(&es->usec, (long) ((now_s() - t0) * 1e6), __ATOMIC_RELAXED);
        memset(&r, 0, sizeof(r));
        snprintf(r.desc, sizeof(r.desc), "e=%s;s=%s;i=%ld-%ld (batch)", E->name, seed_name(g->s), lo, hi - 1);
        snprintf(r.outcome, sizeof(r.outcome), "%s:%s", E->name, ok_bucket(b_ok, b_ok + b_err));
        r.transitions = (uint32_t) (b_ok + b_err + b_crash > 0 ? b_ok + b_err + b_crash : 1);
        r.nontrivial = (b_ok + b_err + b_crash) > 0;
        r.trace_hash = rch;
        r.state_hash = fnv1a(r.desc, strlen(r.desc), rch);
        mx_record(&r);
        lo = hi;
    }
    if (getenv("C09_DEBUG") && now_s() - tg0 > 5)
    {
        fprintf(stderr, "[c09] group %ld %s %s %ld-%ld took %.1fs (finished at +%.1fs)\n", gi, E->name, seed_name(g->s), g->lo, g->hi, now_s() - tg0, now_s() - t_main0);
    }
}

static int cmp_grp(const void *a, const void *b)
{
    const grp_t *x = a, *y = b;
    if (x->cost != y->cost)
    {
        return x->cost > y->cost ? -1 : 1;
    }
    if (x->e != y->e) return x->e - y->e;
    if (x->s != y->s) return x->s - y->s;
    return x->lo < y->lo ? -1 : 1;
}

static void note_disabled(void)
{
#ifndef USE_CRL
    mx_note_skipped("psX509ParseCRL: USE_CRL disabled in this build");
#endif
#ifndef USE_OCSP_RESPONSE
    mx_note_skipped("psOcspParseResponse: USE_OCSP_RESPONSE disabled in this build");
#endif
#if !defined(USE_PKCS12) || !defined(MATRIX_USE_FILE_SYSTEM)
    mx_note_skipped("psPkcs12ParseMem / matrixSslLoadPkcs12Mem: USE_PKCS12 disabled in this build");
#endif
#ifndef USE_PKCS8
    mx_note_skipped("psPkcs8ParsePrivBin: USE_PKCS8 disabled in this build");
#endif
#ifndef USE_DH
    mx_note_skipped("psPkcs3ParseDhParamBin: USE_DH disabled in this build");
#endif
#ifndef USE_PEM_DECODE
    mx_note_skipped("psPemDecode / psPemTryDecode: USE_PEM_DECODE disabled in this build");
#endif
#ifndef USE_ED25519
    mx_note_skipped("psEd25519ParsePrivKey: USE_ED25519 disabled in this build");
#endif
    mx_note_skipped("file-name based entry points (psX509ParseCertFile, psPkcs12Parse, matrixSslLoadKeys, psPkcs3ParseDhParamFile): same parsers after psGetFileBuf, not enumerated separately");
    mx_note_skipped("getAsnRsaPubKey / psEccParsePubKey: not exported by this version; public keys go through psParseUnknownPubKeyMem, psRsaParsePubKeyMem, psParseSubjectPublicKeyInfo+psRsaParseAsnPubKey/psEd25519ParsePubKey");
}

static int entry_enabled(const entry_t *E)
{
    switch (E->fn)
    {
#ifndef USE_CRL
    case F_CRL: return 0;
#endif
#ifndef USE_OCSP_RESPONSE
    case F_OCSP: return 0;
#endif
#if !defined(USE_PKCS12) || !defined(MATRIX_USE_FILE_SYSTEM)
    case F_P12: case F_LOADP12: return 0;
#endif
#ifndef USE_PKCS8
    case F_P8: return 0;
#endif
#ifndef USE_DH
    case F_DH: return 0;
#endif
#ifndef USE_PEM_DECODE
    case F_PEMDEC: case F_PEMTRY: case F_PEMLIST: return 0;
#endif
#ifndef USE_ED25519
    case F_EDPRIV: return 0;
#endif
    default: return 1;
    }
}

static int find_entry(const char *name)
{
    int i;
    for (i = 0; i < NENT; i++)
    {
        if (!strcmp(entries[i].name, name))
        {
            return i;
        }
    }
    return -1;
}

int main(int argc, char **argv)
{
    mx_cfg_t cfg;
    const char *replay;
    int e, s;
    long total_cases = 0;
    static char extra[16384];
    static char boundtxt[600];

    memset(&cfg, 0, sizeof(cfg));
    cfg.property = "C09";
    cfg.sanitizer_is_oracle = 1;
    cfg.level = "exploration";
    cfg.engine = "in-process batch enumeration inside forked ASan+UBSan children; shared-memory progress marker + single-case re-execution isolates the offending input";
    cfg.rule = "case = (parser entry point incl. flag/password variant, seed, mutation index): ident | truncation length | (offset,value) | (DER node,op) | PEM edit | raw string; "
               "violation = sanitizer report, crash, no result within the per-case time bound, rc neither success nor negative, live-allocation imbalance after free "
               "(repeatable twice), or a successfully returned object with a (ptr,len) outside its allocation / a missing string terminator / an embedded NUL in a "
               "string-typed field; one record per batch of <=1000 cases (<=20000 for raw strings; transitions = cases), every violation individually; excluded from the oracle: whether a mutated "
               "input is accepted or rejected (any verdict is fine), AIA/netscape-comment fields (counted strings, no terminator promised)";
    cfg.assumptions[0] = "PEM-capable entry points get a NUL byte after the input (the C-string convention their own callers use); the same entry points are additionally "
                         "run on exact-size unterminated buffers for ident + all strings of length <= 2 (variants named */unterminated)";
    cfg.assumptions[1] = "clock pinned to 2024-01-01 (inside every seed's validity window), entropy pinned; allocator seam counts live allocations between call and free";
    cfg.assumptions[2] = "seeds: every *.pem/*.der under testkeys (PEM text, each block as DER, small bundles concatenated) plus c09_seeds.h "
                         "(CRLs, PKCS#12, PKCS#8 plain+PBES2, encrypted PEM, extension-rich certificate) generated with OpenSSL from testkeys material";
    cfg.assumptions[3] = "neighbourhood: one edit from a seed (DER edits re-encode ancestor lengths when the size changes), plus all raw strings of length <= 2 (<= 3 thorough, cheap parsers)";
    cfg.assumptions[4] = "after 6 identical crashes of one mutation sub-class (same DER op / same byte value / same class) within one work group (<= 30000 cases) the rest of that sub-class in that group is skipped and reported under 'skipped' (flood control)";
    replay = mx_parse_args(argc, argv, &cfg);
    thorough = !strcmp(cfg.tier, "thorough");
    tier_name = thorough ? "thorough" : "quick";
    t_case_s = thorough ? 8 : 4;
    {
        ssize_t n = readlink("/proc/self/exe", self_exe, sizeof(self_exe) - 1);
        self_exe[n > 0 ? n : 0] = 0;
    }
    {
        /* pin the library directory (testkeys) by its real path: the driver directory's `lib` symlink may be pruned by a concurrent build */
        char l[PATH_MAX], r[PATH_MAX], t[PATH_MAX];
        const char *ld = getenv("MXV_LIBDIR");
        if (ld)
        {
            snprintf(l, sizeof(l), "%s", ld);
        }
        else
        {
            snprintf(t, sizeof(t), "%s", self_exe);
            snprintf(l, sizeof(l), "%s/lib", dirname(t));
        }
        if (realpath(l, r))
        {
            setenv("MXV_LIBDIR", r, 1);
        }
    }
#if defined(MXV_VARIANT_asan)
    if (!replay && !getenv("C09_NOSYM") && self_exe[0])
    {
        /* bulk enumeration: unsymbolized reports (see crash_signature); original options are kept for the isolating replays */
        char ao[1024], uo[1024];
        const char *a0 = getenv("ASAN_OPTIONS"), *u0 = getenv("UBSAN_OPTIONS");
        setenv("C09_ASAN_ORIG", a0 ? a0 : __asan_default_options(), 1);
        setenv("C09_UBSAN_ORIG", u0 ? u0 : __ubsan_default_options(), 1);
        snprintf(ao, sizeof(ao), "%s:symbolize=0", a0 ? a0 : __asan_default_options());
        snprintf(uo, sizeof(uo), "%s:symbolize=0", u0 ? u0 : __ubsan_default_options());
        setenv("ASAN_OPTIONS", ao, 1);
        setenv("UBSAN_OPTIONS", uo, 1);
        setenv("C09_NOSYM", "1", 1);
        execv(self_exe, argv);
        perror("execv");
    }
#endif

    obuf = malloc(C09_OUTMAX + 16);
    tmpa = malloc(C09_OUTMAX + 16);
    tmpb = malloc(C09_OUTMAX + 16);
    tmpc = malloc(C09_OUTMAX + 16);
    if (load_seeds(argv[0]) < 10)
    {
        printf("INTERNAL property=C09 key=no-seeds what=could not load testkeys seeds (MXV_LIBDIR or <exe dir>/lib/testkeys)\n");
        return 2;
    }
    init_companions();
    if (world_open() < 0)
    {
        printf("INTERNAL property=C09 key=open-failed what=matrixSslOpen failed\n");
        return 2;
    }

    if (replay)
    {
        char en[128], sn[128];
        long lo = 0, hi = 0, i;
        const char *p1 = strstr(replay, "e="), *p2 = strstr(replay, ";s="), *p3 = strstr(replay, ";i=");
        mx_result_t r;
        int st;
        if (!p1 || !p2 || !p3 || p2 - p1 - 2 >= (long) sizeof(en) || p3 - p2 - 3 >= (long) sizeof(sn))
        {
            fprintf(stderr, "bad descriptor: %s\n", replay);
            return 2;
        }
        memcpy(en, p1 + 2, (size_t) (p2 - p1 - 2)); en[p2 - p1 - 2] = 0;
        memcpy(sn, p2 + 3, (size_t) (p3 - p2 - 3)); sn[p3 - p2 - 3] = 0;
        if (sscanf(p3 + 3, "%ld-%ld", &lo, &hi) < 2)
        {
            hi = lo;
        }
        e = find_entry(en);
        s = !strcmp(sn, "raw") ? RAW_SEED : seed_find(sn);
        if (e < 0 || (s < 0 && s != RAW_SEED))
        {
            fprintf(stderr, "unknown entry or seed in descriptor: %s\n", replay);
            return 2;
        }
        memset(&r, 0, sizeof(r));
        snprintf(r.desc, sizeof(r.desc), "%s", replay);
        snprintf(r.outcome, sizeof(r.outcome), "%s:replayed", entries[e].name);
        worker_setup();
        memset((void *) bsh, 0, sizeof(*bsh));
        st = fork_range(&entries[e], s, lo, hi + 1, 1);
        read_capture();
        fprintf(stderr, "%s", capbuf);
        if (!bsh->done)
        {
            char kind[80], site[200], line[200];
            const char *cls = "?";
            char detail[160];
            int top;
            mbuf_t m = { obuf, 0 };
            classify_crash(st, kind, sizeof(kind), site, sizeof(site), line, sizeof(line));
            build_case(&entries[e], s, bsh->cur, &m, &cls, &top, detail, sizeof(detail));
            r.violation = 1;
            snprintf(r.key, sizeof(r.key), "%s|%s|%s%s", entries[e].name, kind, site[0] ? site : cls, (hi > lo && strstr(replay, "-")) ? "|nonisolated" : "");
            snprintf(r.what, sizeof(r.what), "%s on seed %s case %ld %s (%s): %.150s", entries[e].name, sn, (long) bsh->cur, cls, detail, line);
        }
        else
        {
            for (i = 0; i < bsh->nfind && !r.violation; i++)
            {
                r.violation = bsh->find[i].viol;
                snprintf(r.key, sizeof(r.key), "%s", bsh->find[i].key);
                snprintf(r.what, sizeof(r.what), "%s", bsh->find[i].what);
            }
            snprintf(r.outcome, sizeof(r.outcome), "%s:ok=%ld,err=%ld", entries[e].name, bsh->n_ok, bsh->n_err);
        }
        r.trace_hash = fnv1a(r.key, strlen(r.key), FNV0);
        mx_replay_print(&r);
        return 0;
    }

    mx_init(&cfg);
    t_main0 = now_s();
    note_disabled();
    estats = mmap(NULL, sizeof(estat_t) * NENT, PROT_READ | PROT_WRITE, MAP_SHARED | MAP_ANONYMOUS, -1, 0);
    groups = calloc((size_t) NENT * (MAXSEEDS + 600) * 32, sizeof(grp_t));
    for (e = 0; e < NENT; e++)
    {
        const entry_t *E = &entries[e];
        int nmatch = 0;
        if (!entry_enabled(E))
        {
            continue;
        }
        for (s = RAW_SEED; s < nseeds; s++)
        {
            layout_t L;
            long lo;
            double per;
            if (s != RAW_SEED && !entry_takes(E, &seeds[s]))
            {
                continue;
            }
            seed_prepare(s);
            layout_of(E, s, &cur_tree, &L);
            if (L.total == 0)
            {
                continue;
            }
            if (s != RAW_SEED)
            {
                nmatch++;
            }
            {
                /* relative cost per case (measured): key derivation / 3 certificate parses per call dominate */
                int w = (E->fn == F_P12 || E->fn == F_LOADP12) ? 40 : (E->pass && (E->fn == F_P8 || E->fn == F_UNKPRIV)) ? 60 :
                    E->fn == F_LOADKEYS ? 8 : (E->fn == F_X509 || E->fn == F_X509DATA) ? 4 : E->fn == F_DH ? 3 : 1;
                long chunk = CHUNK / w < 1000 ? 1000 : CHUNK / w;
                per = (s == RAW_SEED ? 200.0 : (double) seeds[s].len) * w;
                for (lo = 0; lo < L.total; lo += chunk)
                {
                    grp_t *g = &groups[ngroups++];
                    g->e = e; g->s = s; g->lo = lo;
                    g->hi = lo + chunk < L.total ? lo + chunk : L.total;
                    g->cost = (double) (g->hi - g->lo) * per;
                }
            }
            total_cases += L.total;
        }
        if (nmatch == 0 && (E->classes & (C_IDENT | C_TRUNC | C_BYTE | C_DER | C_PEM)))
        {
            printf("INTERNAL property=C09 key=no-seed-for-entry what=no seed matches entry %s\n", E->name);
            return 2;
        }
    }
    qsort(groups, (size_t) ngroups, sizeof(groups[0]), cmp_grp);
    fprintf(stderr, "[C09 %s] %d seeds, %d entries, %ld groups, %ld case indexes\n", cfg.tier, nseeds, NENT, ngroups, total_cases);
    snprintf(boundtxt, sizeof(boundtxt), "all %ld case indexes of %d entry points x matching seeds (%d seeds): ident, every truncation, every offset x %s, "
        "every DER node x %d structural ops, %d PEM edits per PEM seed, all raw strings of length <= %s", total_cases, NENT, nseeds,
        thorough ? "255 other byte values (seeds <= 2 KB, else 8 values)" : "8 byte values {00,01,7f,80,ff,x^01,x^80,x+1}", DOP_PER_NODE, PEM_NEDITS,
        thorough ? "2 (<= 3 for the cheap binary parsers)" : "2");
    cfg.bound = boundtxt;

    mx_parallel(ngroups, run_group, NULL);

    /* per-entry coverage + vacuity guard: every entry must have accepted at least one input */
    {
        size_t o = 0;
        int first = 1, k;
        o += (size_t) snprintf(extra + o, sizeof(extra) - o, "\"seeds\": %d, \"seeds_by_kind\": {", nseeds);
        for (k = 0; k < K_NKIND; k++)
        {
            o += (size_t) snprintf(extra + o, sizeof(extra) - o, "%s\"%s\": %ld", k ? ", " : "", kind_name[k], seeds_by_kind[k]);
        }
        o += (size_t) snprintf(extra + o, sizeof(extra) - o, "}, \"case_indexes\": %ld, \"per_entry\": {", total_cases);
        for (e = 0; e < NENT; e++)
        {
            estat_t *es = &estats[e];
            if (!entry_enabled(&entries[e]))
            {
                continue;
            }
            o += (size_t) snprintf(extra + o, sizeof(extra) - o, "%s\"%s\": {\"cases\": %ld, \"accepted\": %ld, \"rejected\": %ld, \"not_applicable\": %ld, \"crashes\": %ld, \"violating_cases\": %ld, \"skipped_flood\": %ld, \"cpu_s\": %.1f}",
                first ? "" : ", ", entries[e].name, es->cases, es->ok, es->err, es->na, es->crashes, es->viol, es->skipped_flood, es->usec / 1e6);
            first = 0;
            if (!mx_deadline_hit() && es->ok == 0 && es->crashes == 0 && (entries[e].classes & C_IDENT))
            {
                mx_result_t r;
                memset(&r, 0, sizeof(r));
                r.violation = 2;
                snprintf(r.key, sizeof(r.key), "%s|vacuous", entries[e].name);
                snprintf(r.what, sizeof(r.what), "entry %s never accepted any input (not even an unmodified seed): harness or seed problem", entries[e].name);
                snprintf(r.desc, sizeof(r.desc), "e=%s;s=raw;i=0 (vacuity guard)", entries[e].name);
                snprintf(r.outcome, sizeof(r.outcome), "%s:INTERNAL", entries[e].name);
                mx_record(&r);
            }
        }
        o += (size_t) snprintf(extra + o, sizeof(extra) - o, "}");
    }
    return mx_finish(extra);
}
