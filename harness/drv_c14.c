/* drv_c14 - C14: resumption only with this server's own unexpired, untampered session state.
 *
 * Exhaustive enumeration of operation sequences (histories) up to a depth over
 * {full(c0|c1), resume(c0|c1), resume with EMS switched off, steal (c1 presents c0's
 * identifier/ticket without the secret), clock tick, fatal alert on c0's session, fill the
 * cache beyond capacity, add / delete ticket key}, for three resumption modes (session id,
 * RFC 5077 ticket, TLS 1.3 PSK), each history executed from scratch in a forked child
 * against one server key set and the process-global session cache, checked against a boring
 * reference model; at the end of every history every single-bit / truncation edit of each
 * stored identifier or ticket is tried. */
#include "mxv.h"
#include "wire.h"

static int thorough;

enum { M_ID12 = 0, M_TICKET12, M_PSK13, M_IDD, M_TICKETD, M_NMODE };  /* M_IDD / M_TICKETD: the same over DTLS 1.2 */
#define IS_ID(m) ((m) == M_ID12 || (m) == M_IDD)
#define IS_TICKET(m) ((m) == M_TICKET12 || (m) == M_TICKETD)
static const char *mname[] = { "tls12-session-id", "tls12-ticket", "tls13-psk", "dtls12-session-id", "dtls12-ticket" };

/* O_ABAND_A / O_ABAND_B: c1 starts a full handshake and abandons it with the connection left open - after the server's
 * first flight (A) / after its ClientKeyExchange reached the server (B).  It then holds the session id the ServerHello
 * announced and a master secret: zeros, the value of a secret that was never derived (A), or the one it derived itself (B).
 * No session was ever established (no Finished verified, no client authenticated): the model says c1 holds nothing. */
/* O_TICK25D / O_TICK50D: 25 days + 1 h and 2^32 ms + 60 s - beyond the ranges of a 32-bit millisecond difference.
 * O_SIB_OPEN: c0 resumes on a SECOND connection that stays open; O_SIB_CLOSE: that connection is closed cleanly (while it
 * was open the session may have been invalidated through another connection). */
enum { O_F0 = 0, O_F1, O_R0, O_R1, O_R0E, O_STEAL, O_TICK, O_TICK2, O_FATAL0, O_EVICT, O_KADD, O_KDEL, O_ABAND_A, O_ABAND_B, O_TICK25D, O_TICK50D, O_SIB_OPEN, O_SIB_CLOSE, O_NOP };
static const char *oname[] = { "full(c0)", "full(c1)", "resume(c0)", "resume(c1)", "resume(c0,ems-off)", "steal(c1<-c0)", "tick(50000s)", "tick(100000s)", "fatal(c0)", "evict33", "addkey", "delkey", "abandon(c1,after-server-hello)", "abandon(c1,after-client-key-exchange)", "tick(25d+1h)", "tick(2^32ms+60s)", "open-sibling(resume c0)", "close-sibling" };

#define LIFETIME_MS (86400LL * 1000)
#define LIFETIME13_MS (360LL * 1000)   /* TLS_1_3_TICKET_LIFETIME */
#define TICK_MS     (50000LL * 1000)

/* ------------------------------------------------------------ reference model */
typedef struct {
    int exists;
    unsigned char secret[48];     /* master secret (<=1.2) or resumption PSK (1.3) */
    int secret_len;
    int ems;
    int64_t last_issue_ms;
    int invalidated;              /* fatal alert seen on a connection of this session (cache mode) */
    int keyidx;                   /* ticket modes: index of the ticket key that sealed the credential */
    int evicted;                  /* cache mode: more than table-size newer sessions registered since */
} msess_t;

typedef struct {
    world_t w;
    int mode;
    sslSessionId_t *store[3];     /* c0, c1, and a filler client */
    msess_t held[2];              /* what the model says c0 / c1 hold */
    int stolen;                   /* c1's store is a copy of c0's identifier without the secret */
    int key_alive[8], nkeys, first_key;
    char viol[200];
    char path[96];
    int ops;
    int n_resumed, n_declined;
    world_t w2;                   /* the abandoned, still open connection */
    int w2_live;
    sslSessionId_t *w2_sid;
} hist_t;

static const unsigned char tk_names[4][16] = { "mxv-ticket-key-1", "mxv-ticket-key-2", "mxv-ticket-key-3", "mxv-ticket-key-4" };

static void setup(hist_t *H, int mode)
{
    wcfg_t c;
    int i;
    memset(H, 0, sizeof(*H));
    H->mode = mode;
    memset(&c, 0, sizeof(c));
    switch (mode)
    {
    case M_ID12: c.ver = V_TLS12; c.kx = KX_PSK; break;
    case M_TICKET12: c.ver = V_TLS12; c.kx = KX_RSA; c.tickets = 1; break;
    case M_PSK13: c.ver = V_TLS13; c.kx = KX_13_RSA; c.tickets = 1; break;
    case M_IDD: c.ver = V_DTLS12; c.kx = KX_PSK; break;
    case M_TICKETD: c.ver = V_DTLS12; c.kx = KX_RSA; c.tickets = 1; break;
    }
    if (world_init(&H->w, &c) < 0)
    {
        snprintf(H->viol, sizeof(H->viol), "INTERNAL:world_init");
        return;
    }
    world_free_sessions(&H->w);
    H->store[0] = H->w.sid;
    for (i = 1; i < 3; i++)
    {
        matrixSslNewSessionId(&H->store[i], NULL);
    }
    H->nkeys = c.tickets ? 1 : 0;
    H->key_alive[0] = 1;
    H->first_key = 0;
}

/* how a completed connection ends (part X): 0 close_notify from the client then the server, 2 no closure at all (the
 * sessions are deleted), 3 the server closes first */
static int g_end_kind;
/* one connection by client ci; returns bit0 complete(both), bit1 server says resumed, bit2 client says resumed */
static int connect_once(hist_t *H, int ci, int ems_off, int fatal, unsigned char server_secret[48], int *slen)
{
    int res = 0;
    H->w.sid = H->store[ci];
    H->w.cfg.ems_off = ems_off;
    if (world_new_sessions(&H->w) < 0)
    {
        return -1;
    }
    world_pump(&H->w, 200);
    if (world_is_complete(&H->w, 0) && world_is_complete(&H->w, 1))
    {
        res |= 1;
        world_app_send(&H->w, 0, (const unsigned char *) "ping", 4);
        world_pump(&H->w, 50);
        if (H->w.s[1].delivered.len != 4)
        {
            res &= ~1;
        }
    }
    if (H->w.s[1].ssl && (H->w.s[1].ssl->flags & SSL_FLAGS_RESUMED))
    {
        res |= 2;
    }
    if (H->mode == M_PSK13 && H->w.s[1].ssl && H->w.s[1].ssl->sec.tls13UsingPsk)
    {
        res |= 2;
    }
    if (H->w.s[0].ssl && matrixSslIsResumedSession(H->w.s[0].ssl) == PS_TRUE)
    {
        res |= 4;
    }
    *slen = 0;
    if (H->w.s[1].ssl)
    {
        if (H->mode == M_PSK13)
        {
            psTls13Psk_t *p = H->w.s[1].ssl->sec.tls13ChosenPsk;
            if (p && p->pskKey && p->pskLen <= 48)
            {
                memcpy(server_secret, p->pskKey, p->pskLen);
                *slen = (int) p->pskLen;
            }
        }
        else
        {
            memcpy(server_secret, H->w.s[1].ssl->sec.masterSecret, 48);
            *slen = 48;
        }
    }
    if (fatal && (res & 1))
    {
        unsigned char junk[64], rec[80];
        int len;
        memset(junk, 0x3c, sizeof(junk));
        len = mk_record(rec, 0, 23, 3, 3, 0, 0, junk, 64);
        world_feed(&H->w, 1, rec, len);
        world_pump(&H->w, 20);
    }
    else if ((res & 1) && g_end_kind == 3)
    {
        world_close(&H->w, 1);
        world_pump(&H->w, 20);
        world_close(&H->w, 0);
        world_pump(&H->w, 20);
    }
    else if ((res & 1) && g_end_kind != 2)
    {
        world_close(&H->w, 0);
        world_pump(&H->w, 20);
        world_close(&H->w, 1);
        world_pump(&H->w, 20);
    }
    world_free_sessions(&H->w);
    return res;
}

/* what the client now holds (after a completed handshake) */
static void snapshot_client(hist_t *H, int ci, msess_t *m, int resumed)
{
    sslSessionId_t *s = H->store[ci];
    if (!resumed)
    {
        memset(m, 0, sizeof(*m));
    }
    m->exists = 1;
    if (H->mode == M_PSK13)
    {
        if (s->psk && s->psk->pskKey && s->psk->pskLen <= 48)
        {
            memcpy(m->secret, s->psk->pskKey, s->psk->pskLen);
            m->secret_len = (int) s->psk->pskLen;
        }
        else
        {
            m->exists = 0;
        }
    }
    else
    {
        memcpy(m->secret, s->masterSecret, 48);
        m->secret_len = 48;
    }
    if (!resumed || !IS_ID(H->mode))
    {
        /* a cached session lives for its lifetime counted from the full handshake that created it (resuming it does not
           re-arm the lifetime: otherwise one session could be kept alive for ever); a resumption by ticket / PSK issues a
           NEW ticket, whose own lifetime starts then */
        m->last_issue_ms = env_now_ms();
    }
    if (!resumed)
    {
        m->ems = !H->w.cfg.ems_off;
        m->invalidated = 0;
        m->evicted = 0;
    }
    m->keyidx = H->first_key;
}

static int model_allows(hist_t *H, int ci, int ems_off, const msess_t *m, const char **why)
{
    if (!m->exists)
    {
        *why = "client-holds-no-session"; return 0;
    }
    if (ci == 1 && H->stolen)
    {
        *why = "stolen-identifier-without-secret"; return 0;
    }
    if (env_now_ms() - m->last_issue_ms > (H->mode == M_PSK13 ? LIFETIME13_MS : LIFETIME_MS))
    {
        *why = "expired"; return 0;
    }
    if (IS_ID(H->mode) && m->invalidated)
    {
        *why = "invalidated-by-fatal-alert"; return 0;
    }
    if (H->mode != M_PSK13 && m->ems != !ems_off)
    {
        *why = "extended-master-secret-mismatch"; return 0;
    }
    if (!IS_ID(H->mode) && !H->key_alive[m->keyidx])
    {
        *why = "ticket-key-deleted"; return 0;
    }
    return 1;
}

static void judge_connect(hist_t *H, int ci, int ems_off, int res, const unsigned char *ssec, int slen, const char *opname)
{
    msess_t *m = &H->held[ci];
    const char *why = "";
    if (res < 0)
    {
        return;
    }
    if ((res & 1) && !(res & 2) && m->exists)
    {
        H->n_declined++;
    }
    if ((res & 1) && (res & 2))
    {
        H->n_resumed++;
        /* completed AND the server says it resumed */
        if (!model_allows(H, ci, ems_off, m, &why))
        {
            if (!H->viol[0])
            {
                snprintf(H->viol, sizeof(H->viol), "resumed-although-%s", why);
            }
        }
        else if (slen != m->secret_len || memcmp(ssec, m->secret, (size_t) slen) != 0)
        {
            if (!H->viol[0])
            {
                snprintf(H->viol, sizeof(H->viol), "resumed-with-a-different-secret");
            }
        }
        else if (!(res & 4) && !H->viol[0])
        {
            snprintf(H->viol, sizeof(H->viol), "endpoints-disagree-on-resumption");
        }
    }
    else if ((res & 1) && (res & 4) && !H->viol[0])
    {
        snprintf(H->viol, sizeof(H->viol), "endpoints-disagree-on-resumption");
    }
    (void) opname;
}

static void apply_op(hist_t *H, int op)
{
    unsigned char ssec[48];
    int slen = 0, res, i;
    H->ops++;
    switch (op)
    {
    case O_F0:
    case O_F1:
    {
        int ci = op - O_F0;
        matrixSslClearSessionId(H->store[ci]);
        if (ci == 1)
        {
            H->stolen = 0;
        }
        res = connect_once(H, ci, 0, 0, ssec, &slen);
        if (res >= 0 && (res & 1))
        {
            if (res & 2)
            {
                if (!H->viol[0]) snprintf(H->viol, sizeof(H->viol), "resumed-although-client-offered-nothing");
            }
            snapshot_client(H, ci, &H->held[ci], 0);
            /* every newly registered session ages the others in the bounded cache: handled by O_EVICT only */
        }
        else
        {
            H->held[ci].exists = 0;
        }
        break;
    }
    case O_R0:
    case O_R1:
    case O_R0E:
    {
        int ci = op == O_R1 ? 1 : 0, ems_off = op == O_R0E;
        res = connect_once(H, ci, ems_off, 0, ssec, &slen);
        judge_connect(H, ci, ems_off, res, ssec, slen, oname[op]);
        if (res >= 0 && (res & 1))
        {
            if (res & 2)
            {
                snapshot_client(H, ci, &H->held[ci], 1); /* renewed ticket / refreshed entry */
            }
            else
            {
                if (ci == 1)
                {
                    H->stolen = 0;
                }
                snapshot_client(H, ci, &H->held[ci], 0);
                H->held[ci].ems = !ems_off;
            }
        }
        else if (res >= 0 && !(res & 1))
        {
            /* failed handshake: the server must have dropped the entry if it was a resumption attempt */
            if (IS_ID(H->mode))
            {
                H->held[ci].invalidated = 1;
            }
        }
        break;
    }
    case O_STEAL:
    {
        /* c1 copies c0's public identifier (session id / ticket / PSK identity) but not the secret */
        sslSessionId_t *a = H->store[0], *b = H->store[1];
        matrixSslClearSessionId(b);
        if (!H->held[0].exists)
        {
            break;
        }
        memcpy(b->id, a->id, sizeof(a->id));
        b->idLen = a->idLen;
        b->cipherId = a->cipherId;
        memset(b->masterSecret, 0x5c, sizeof(b->masterSecret));
        if (a->sessionTicket && a->sessionTicketLen)
        {
            b->sessionTicket = psMalloc(b->pool, a->sessionTicketLen);
            memcpy(b->sessionTicket, a->sessionTicket, a->sessionTicketLen);
            b->sessionTicketLen = a->sessionTicketLen;
            b->sessionTicketState = a->sessionTicketState;
            b->sessionTicketLifetimeHint = a->sessionTicketLifetimeHint;
        }
        if (H->mode == M_PSK13)
        {
            /* TLS 1.3: without the resumption PSK the binder cannot be computed; present the identity with a wrong key */
            if (a->psk)
            {
                unsigned char wrong[48];
                memset(wrong, 0x5c, sizeof(wrong));
                b->psk = tls13NewPsk(wrong, a->psk->pskLen, a->psk->pskId, a->psk->pskIdLen, PS_TRUE, a->psk->params);
            }
        }
        H->held[1] = H->held[0];
        H->stolen = 1;
        res = connect_once(H, 1, 0, 0, ssec, &slen);
        judge_connect(H, 1, 0, res, ssec, slen, "steal");
        if (res >= 0 && (res & 1) && !(res & 2))
        {
            H->stolen = 0;
            snapshot_client(H, 1, &H->held[1], 0);
        }
        else
        {
            H->held[1].exists = 0;
            matrixSslClearSessionId(b);
            H->stolen = 0;
            /* a failed handshake on c0's cached id invalidates it */
            if (IS_ID(H->mode) && res >= 0 && !(res & 1))
            {
                H->held[0].invalidated = 1;
            }
        }
        break;
    }
    case O_ABAND_A:
    case O_ABAND_B:
    {
        world_t *w2 = &H->w2;
        sslSessionId_t *b = H->store[1];
        ssl_t *srv;
        int guard = 0, dtls = H->mode == M_IDD;
        if (!IS_ID(H->mode))
        {
            break;
        }
        if (H->w2_live)
        {
            world_free_sessions(w2);
            buf_free(&w2->trace);
            buf_free(&w2->s[0].delivered); buf_free(&w2->s[1].delivered);
            buf_free(&w2->s[0].submitted); buf_free(&w2->s[1].submitted);
            H->w2_live = 0;
        }
        memset(w2, 0, sizeof(*w2));
        w2->cfg = H->w.cfg;
        w2->cfg.ems_off = 0;
        w2->s[1].is_server = 1;
        w2->s[0].keys = H->w.s[0].keys;
        w2->s[1].keys = H->w.s[1].keys;
        if (!H->w2_sid)
        {
            matrixSslNewSessionId(&H->w2_sid, NULL);
        }
        matrixSslClearSessionId(H->w2_sid);
        w2->sid = H->w2_sid;
        buf_init(&w2->trace);
        buf_init(&w2->s[0].delivered); buf_init(&w2->s[1].delivered);
        buf_init(&w2->s[0].submitted); buf_init(&w2->s[1].submitted);
        if (world_new_sessions(w2) < 0)
        {
            break;
        }
        H->w2_live = 1;
        world_collect(w2, 0);
        srv = w2->s[1].ssl;
        /* until the server has encoded its ServerHello (DTLS: the cookie exchange comes first) */
        while (guard++ < 12 && srv->sessionIdLen == 0)
        {
            if (w2->wire[0].n > 0) world_deliver(w2, 0);
            else if (w2->wire[1].n > 0) world_deliver(w2, 1);
            else break;
        }
        matrixSslClearSessionId(b);
        H->held[1].exists = 0;
        H->stolen = 0;
        if (srv->sessionIdLen != SSL_MAX_SESSION_ID_SIZE || !srv->cipher)
        {
            break;
        }
        if (op == O_ABAND_B)
        {
            /* the server's flight to the client, then the client's handshake records up to (not including) its ChangeCipherSpec */
            guard = 0;
            while (w2->wire[1].n > 0 && guard++ < 12) world_deliver(w2, 1);
            guard = 0;
            while (w2->wire[0].n > 0 && guard++ < 6)
            {
                rec_t *x = &w2->wire[0].r[w2->wire[0].head];
                int hl = dtls ? 13 : 5, off = 0;
                if (x->p[0] != 22)
                {
                    break;
                }
                /* a DTLS datagram may carry several records: feed the leading handshake records only */
                while (off + hl <= x->len && x->p[off] == 22)
                {
                    off += hl + ((x->p[off + hl - 2] << 8) | x->p[off + hl - 1]);
                }
                if (off >= x->len)
                {
                    world_deliver(w2, 0);
                }
                else
                {
                    world_feed(w2, 1, x->p, off);
                    break;
                }
            }
            memcpy(b->masterSecret, w2->s[0].ssl->sec.masterSecret, SSL_HS_MASTER_SIZE);
        }
        else
        {
            memset(b->masterSecret, 0, SSL_HS_MASTER_SIZE);
        }
        memcpy(b->id, srv->sessionId, SSL_MAX_SESSION_ID_SIZE);
        b->idLen = SSL_MAX_SESSION_ID_SIZE;
        b->cipherId = srv->cipher->ident;
        break;
    }
    case O_TICK25D:
        env_tick_ms(25LL * 86400 * 1000 + 3600 * 1000);
        break;
    case O_TICK50D:
        env_tick_ms(4294967296LL + 60000);
        break;
    case O_SIB_OPEN:
    {
        world_t *w2 = &H->w2;
        int r2 = 0;
        if (!IS_ID(H->mode))
        {
            break;
        }
        if (H->w2_live)
        {
            world_free_sessions(w2);
            H->w2_live = 0;
        }
        memset(w2, 0, sizeof(*w2));
        w2->cfg = H->w.cfg;
        w2->cfg.ems_off = 0;
        w2->s[1].is_server = 1;
        w2->s[0].keys = H->w.s[0].keys;
        w2->s[1].keys = H->w.s[1].keys;
        w2->sid = H->store[0];
        buf_init(&w2->trace);
        buf_init(&w2->s[0].delivered); buf_init(&w2->s[1].delivered);
        buf_init(&w2->s[0].submitted); buf_init(&w2->s[1].submitted);
        if (world_new_sessions(w2) < 0)
        {
            break;
        }
        H->w2_live = 2;
        world_pump(w2, 200);
        if (world_is_complete(w2, 0) && world_is_complete(w2, 1))
        {
            r2 |= 1;
        }
        if (w2->s[1].ssl && (w2->s[1].ssl->flags & SSL_FLAGS_RESUMED))
        {
            r2 |= 2;
        }
        if (w2->s[0].ssl && matrixSslIsResumedSession(w2->s[0].ssl) == PS_TRUE)
        {
            r2 |= 4;
        }
        memcpy(ssec, w2->s[1].ssl->sec.masterSecret, 48);
        slen = 48;
        judge_connect(H, 0, 0, r2, ssec, slen, "sibling");
        if ((r2 & 1) && !(r2 & 2))
        {
            snapshot_client(H, 0, &H->held[0], 0);
            H->held[0].ems = 1;
        }
        else if (!(r2 & 1))
        {
            H->held[0].invalidated = 1;
            world_free_sessions(w2);
            H->w2_live = 0;
        }
        break;
    }
    case O_SIB_CLOSE:
        if (H->w2_live == 2)
        {
            world_t *w2 = &H->w2;
            world_close(w2, 0);
            world_pump(w2, 20);
            world_close(w2, 1);
            world_pump(w2, 20);
            world_free_sessions(w2);
            H->w2_live = 0;
        }
        break;
    case O_TICK:
        env_tick_ms(TICK_MS);
        break;
    case O_TICK2:
        env_tick_ms(2 * TICK_MS);
        break;
    case O_FATAL0:
        res = connect_once(H, 0, 0, 1, ssec, &slen);
        judge_connect(H, 0, 0, res, ssec, slen, "fatal");
        if (res >= 0 && (res & 1))
        {
            snapshot_client(H, 0, &H->held[0], (res & 2) != 0);
            H->held[0].invalidated = 1;
        }
        break;
    case O_EVICT:
        for (i = 0; i < SSL_SESSION_TABLE_SIZE + 1; i++)
        {
            matrixSslClearSessionId(H->store[2]);
            connect_once(H, 2, 0, 0, ssec, &slen);
        }
        break;
    case O_KADD:
        if (!IS_ID(H->mode) && H->nkeys < 4)
        {
            static const unsigned char sk[32] = { 9, 8, 7, 6, 5, 4, 3, 2, 1, 0, 9, 8, 7, 6, 5, 4, 3, 2, 1, 0, 9, 8, 7, 6, 5, 4, 3, 2, 1, 0, 9, 8 };
            if (matrixSslLoadSessionTicketKeys(H->w.s[1].keys, tk_names[H->nkeys], sk, 32, sk, 32) >= 0)
            {
                H->key_alive[H->nkeys] = 1;
                H->nkeys++;
            }
        }
        break;
    case O_KDEL:
        if (!IS_ID(H->mode))
        {
            /* delete the oldest live key, but keep at least one */
            int live = 0, k, oldest = -1;
            for (k = 0; k < H->nkeys; k++)
            {
                if (H->key_alive[k])
                {
                    live++;
                    if (oldest < 0) oldest = k;
                }
            }
            if (live >= 2 && matrixSslDeleteSessionTicketKey(H->w.s[1].keys, (unsigned char *) tk_names[oldest]) >= 0)
            {
                H->key_alive[oldest] = 0;
                for (k = 0; k < H->nkeys; k++)
                {
                    if (H->key_alive[k])
                    {
                        H->first_key = k;
                        break;
                    }
                }
            }
        }
        break;
    }
}

/* ---------------------------------------------- byte-level edits at the end of a history */
static int cred_bytes(hist_t *H)
{
    sslSessionId_t *s = H->store[0];
    if (!H->held[0].exists)
    {
        return 0;
    }
    if (IS_ID(H->mode)) return 32;
    if (IS_TICKET(H->mode)) return s->sessionTicket ? s->sessionTicketLen : 0;
    return s->psk ? s->psk->pskIdLen : 0;
}

/* edit e: even => flip bit e/2; odd => truncate to (e-1)/2 bytes.  returns 0 if not applicable */
static int apply_edit_and_try(hist_t *H, int e)
{
    sslSessionId_t *s = H->store[0];
    unsigned char ssec[48];
    int slen, res, bytes = cred_bytes(H), k = e / 2;
    unsigned char *buf;
    const char *what;
    if (bytes <= 0)
    {
        return 0;
    }
    if (IS_ID(H->mode)) buf = s->id;
    else if (IS_TICKET(H->mode)) buf = s->sessionTicket;
    else buf = s->psk->pskId;
    if ((e & 1) == 0)
    {
        if (k >= bytes * 8)
        {
            return 0;
        }
        buf[k / 8] ^= (unsigned char) (1 << (k % 8));
        what = "bit-flipped";
    }
    else
    {
        if (k >= bytes)
        {
            return 0;
        }
        if (IS_ID(H->mode)) s->idLen = (psSize_t) k;
        else if (IS_TICKET(H->mode)) s->sessionTicketLen = (psSize_t) k;
        else s->psk->pskIdLen = (psSize_t) k;
        what = "truncated";
    }
    res = connect_once(H, 0, 0, 0, ssec, &slen);
    if (res >= 0 && (res & 1) && (res & 2) && !H->viol[0])
    {
        snprintf(H->viol, sizeof(H->viol), "resumed-with-%s-%s", what, IS_ID(H->mode) ? "session-id" : IS_TICKET(H->mode) ? "ticket" : "psk-identity");
    }
    return 1;
}

/* ------------------------------------------------------------------ cases */
typedef struct { int mode, depth; int ops[6]; int edit; } case_t;

/* ------------------------------------------------------------------ part X: another connection's session id field
 * One server key set with BOTH resumption mechanisms (session cache and ticket keys; XP_TLS13: TLS 1.2 and 1.3 enabled).
 * c0 establishes a cached TLS 1.2 session (id X, secret S0).  c1 then runs a complete connection of its own that merely
 * CARRIES X in its ClientHello session_id field - while resuming by its own ticket (RFC 5077 3.4 lets a client send both;
 * the server echoes the id), or as the legacy_session_id of a TLS 1.3 handshake (echoed as well) - and ends it in one of
 * four ways.  X is public (ServerHello).  Afterwards either c1 presents X with a secret it knows, or the owner c0 resumes:
 * the server may resume X only for c0 and only with S0. */
#define M_X M_NMODE
enum { XP_NONE = 0, XP_TICKET_WITH_ID, XP_TLS13_LEGACY_ID, XP_FULL_WITH_ID, XP_N };
static const char *xpname[] = { "none", "ticket-resumption-carrying-the-id", "tls13-handshake-carrying-the-id", "full-handshake-asking-for-a-ticket-carrying-the-id" };
enum { XE_CLOSE = 0, XE_FATAL, XE_NOCLOSE, XE_SERVER_CLOSES, XE_N };
static const char *xename[] = { "close_notify", "fatal-alert", "no-closure", "server-closes-first" };
enum { XQ_STEAL_OWN = 0, XQ_STEAL_ZERO, XQ_OWNER, XQ_N };
static const char *xqname[] = { "c1-presents-the-id-with-its-own-secret", "c1-presents-the-id-with-a-zero-secret", "owner-resumes" };

static void sid_set_ticket_from(sslSessionId_t *b, const sslSessionId_t *a)
{
    if (a->sessionTicket && a->sessionTicketLen)
    {
        b->sessionTicket = psMalloc(b->pool, a->sessionTicketLen);
        memcpy(b->sessionTicket, a->sessionTicket, a->sessionTicketLen);
        b->sessionTicketLen = a->sessionTicketLen;
        b->sessionTicketState = a->sessionTicketState;
        b->sessionTicketLifetimeHint = a->sessionTicketLifetimeHint;
    }
}

/* part Y: a TLS 1.2 ticket offered in a ClientHello whose supported_versions extension (appended on the wire) selects
 * another version than legacy_version: ops[0] = the version named there (0x0302 TLS 1.1, 0x0303 control) */
static void run_case_y(case_t *c, mx_result_t *r)
{
    static hist_t H;
    wcfg_t cf;
    unsigned char ssec[48], ch[4096];
    int slen = 0, res, sv = c->ops[0], chl, off, el;
    wire_t *q;
    ssl_t *srv;
    const char *viol = NULL;
    memset(&H, 0, sizeof(H));
    H.mode = M_TICKET12;
    memset(&cf, 0, sizeof(cf));
    cf.ver = V_MULTI; cf.cver = V_TLS12; cf.kx = KX_RSA; cf.tickets = 1; cf.suite = TLS_RSA_WITH_AES_128_CBC_SHA;
    r->nontrivial = 1;
    snprintf(r->outcome, sizeof(r->outcome), "partY:supported_versions=%04x", sv);
    if (world_init(&H.w, &cf) < 0)
    {
        goto internal;
    }
    world_free_sessions(&H.w);
    H.store[0] = H.w.sid;
    matrixSslClearSessionId(H.store[0]);
    res = connect_once(&H, 0, 0, 0, ssec, &slen);
    if (res < 0 || !(res & 1) || H.store[0]->sessionTicketLen == 0)
    {
        goto internal;
    }
    H.w.sid = H.store[0];
    if (world_new_sessions(&H.w) < 0)
    {
        goto internal;
    }
    world_collect(&H.w, 0);
    q = &H.w.wire[0];
    if (q->n < 1 || q->r[q->head].p[0] != 22 || q->r[q->head].len + 16 > (int) sizeof(ch))
    {
        goto internal;
    }
    chl = q->r[q->head].len;
    memcpy(ch, q->r[q->head].p, (size_t) chl);
    world_wire_clear(&H.w, 0);
    /* record(5) hs(4) version(2) random(32) sid suites compression extensions */
    off = 5 + 4 + 2 + 32;
    off += 1 + ch[off];
    off += 2 + ((ch[off] << 8) | ch[off + 1]);
    off += 1 + ch[off];
    if (off + 2 > chl)
    {
        goto internal;
    }
    el = (ch[off] << 8) | ch[off + 1];
    if (off + 2 + el != chl)
    {
        goto internal;
    }
    ch[chl++] = 0x00; ch[chl++] = 0x2b; ch[chl++] = 0x00; ch[chl++] = 0x03; ch[chl++] = 0x02; ch[chl++] = (unsigned char) (sv >> 8); ch[chl++] = (unsigned char) sv;
    el += 7;
    ch[off] = (unsigned char) (el >> 8); ch[off + 1] = (unsigned char) el;
    ch[3] = (unsigned char) ((chl - 5) >> 8); ch[4] = (unsigned char) (chl - 5);
    ch[6] = 0; ch[7] = (unsigned char) ((chl - 9) >> 8); ch[8] = (unsigned char) (chl - 9);
    world_feed(&H.w, 1, ch, chl);
    srv = H.w.s[1].ssl;
    if (srv && (srv->flags & SSL_FLAGS_RESUMED) && srv->err == SSL_ALERT_NONE && !NGTD_VER(srv, v_tls_1_2))
    {
        viol = "ticket-resumed-under-another-protocol-version";
    }
    r->transitions = 2;
    r->trace_hash = world_trace_hash(&H.w);
    {
        size_t l = strlen(r->outcome);
        snprintf(r->outcome + l, sizeof(r->outcome) - l, ":%s:%s", srv && (srv->flags & SSL_FLAGS_RESUMED) ? "resumed" : "not-resumed", srv && NGTD_VER(srv, v_tls_1_2) ? "tls12" : srv && NGTD_VER(srv, v_tls_1_1) ? "tls11" : "other");
    }
    if (viol)
    {
        r->violation = 1;
        snprintf(r->key, sizeof(r->key), "tls12-ticket|supported_versions=%04x|%s", sv, viol);
        snprintf(r->what, sizeof(r->what), "TLS 1.2 ticket offered in a ClientHello with legacy_version 0303 and supported_versions {%04x}: the server negotiated that version and RESUMED the TLS 1.2 session (ticket checked against the provisional version only)", sv);
    }
    return;
internal:
    r->violation = 2;
    snprintf(r->key, sizeof(r->key), "internal|partY|setup");
    snprintf(r->what, sizeof(r->what), "part Y could not set up the ticket / ClientHello");
}

static void run_case_x(case_t *c, mx_result_t *r)
{
    static hist_t H;
    wcfg_t cf;
    int xp = c->ops[0], xe = c->ops[1], xq = c->ops[2], dtls = c->ops[3];
    unsigned char ssec[48], S0[48], S1[48], X[SSL_MAX_SESSION_ID_SIZE];
    int slen = 0, res, i;
    uint16_t cipherX;
    const char *viol = NULL;
    memset(&H, 0, sizeof(H));
    H.mode = dtls ? M_IDD : M_ID12;
    memset(&cf, 0, sizeof(cf));
    cf.ver = dtls ? V_DTLS12 : (xp == XP_TLS13_LEGACY_ID ? V_MULTI : V_TLS12);
    cf.cver = dtls ? 0 : V_TLS12;
    cf.kx = KX_RSA; cf.tickets = 1;
    r->nontrivial = 1;
    snprintf(r->outcome, sizeof(r->outcome), "partX:%s:%s:%s:%s", dtls ? "dtls12" : "tls12", xpname[xp], xename[xe], xqname[xq]);
    if (world_init(&H.w, &cf) < 0)
    {
        r->violation = 2;
        snprintf(r->key, sizeof(r->key), "internal|partX|world_init");
        snprintf(r->what, sizeof(r->what), "world_init failed");
        return;
    }
    world_free_sessions(&H.w);
    H.store[0] = H.w.sid;
    for (i = 1; i < 3; i++) matrixSslNewSessionId(&H.store[i], NULL);
    /* 1. c0: cached session (the client does not ask for a ticket) */
    matrixSslClearSessionId(H.store[0]);
    H.w.cfg.tickets = 0;
    g_end_kind = 0;
    res = connect_once(&H, 0, 0, 0, ssec, &slen);
    if (res < 0 || !(res & 1) || H.store[0]->idLen != SSL_MAX_SESSION_ID_SIZE)
    {
        r->violation = 2;
        snprintf(r->key, sizeof(r->key), "internal|partX|no-cached-session");
        snprintf(r->what, sizeof(r->what), "c0 did not obtain a cached session (res %d, idLen %d)", res, (int) H.store[0]->idLen);
        return;
    }
    memcpy(X, H.store[0]->id, sizeof(X));
    memcpy(S0, H.store[0]->masterSecret, 48);
    cipherX = (uint16_t) H.store[0]->cipherId;
    memset(S1, 0, sizeof(S1));
    /* 2./3. c1's own connection that carries X */
    if (xp == XP_TICKET_WITH_ID || xp == XP_FULL_WITH_ID)
    {
        H.w.cfg.tickets = 1;
        if (xp == XP_TICKET_WITH_ID)
        {
            matrixSslClearSessionId(H.store[1]);
            res = connect_once(&H, 1, 0, 0, ssec, &slen);
            if (res < 0 || !(res & 1) || !H.store[1]->sessionTicketLen)
            {
                r->violation = 2;
                snprintf(r->key, sizeof(r->key), "internal|partX|no-ticket");
                snprintf(r->what, sizeof(r->what), "c1 did not obtain a ticket (res %d)", res);
                return;
            }
        }
        else
        {
            matrixSslClearSessionId(H.store[1]);
        }
        memcpy(H.store[1]->id, X, sizeof(X));
        H.store[1]->idLen = SSL_MAX_SESSION_ID_SIZE;
        if (xp == XP_FULL_WITH_ID)
        {
            /* X with a secret the server will not accept: the handshake falls back to a full one that asks for a ticket */
            H.store[1]->cipherId = cipherX;
            memset(H.store[1]->masterSecret, 0x5c, 48);
        }
        g_end_kind = xe;
        res = connect_once(&H, 1, 0, xe == XE_FATAL, ssec, &slen);
        memcpy(S1, H.store[1]->masterSecret, 48);
    }
    else if (xp == XP_TLS13_LEGACY_ID)
    {
        matrixSslClearSessionId(H.store[1]);
        memcpy(H.store[1]->id, X, sizeof(X));
        H.store[1]->idLen = SSL_MAX_SESSION_ID_SIZE;
        H.store[1]->cipherId = cipherX;
        memset(H.store[1]->masterSecret, 0x5c, 48);
        H.w.cfg.cver = V_MULTI; H.w.cfg.kx = KX_RSA; H.w.cfg.tickets = 0;
        g_end_kind = xe;
        res = connect_once(&H, 1, 0, xe == XE_FATAL, ssec, &slen);
        memcpy(S1, ssec, 48);   /* what a TLS 1.3 server session holds in that field: c1 can compute every secret of its own connection */
        H.w.cfg.cver = V_TLS12;
    }
    g_end_kind = 0;
    H.w.cfg.tickets = 0;
    /* 4. probe */
    if (xq == XQ_OWNER)
    {
        res = connect_once(&H, 0, 0, 0, ssec, &slen);
        if (res >= 0 && (res & 2) && (slen != 48 || memcmp(ssec, S0, 48) != 0))
        {
            viol = "resumed-with-a-different-secret";
        }
        else if (res >= 0 && !(res & 1))
        {
            viol = "owner-of-an-untouched-session-can-no-longer-connect";
        }
    }
    else
    {
        matrixSslClearSessionId(H.store[1]);
        memcpy(H.store[1]->id, X, sizeof(X));
        H.store[1]->idLen = SSL_MAX_SESSION_ID_SIZE;
        H.store[1]->cipherId = cipherX;
        if (xq == XQ_STEAL_OWN) memcpy(H.store[1]->masterSecret, S1, 48);
        else memset(H.store[1]->masterSecret, 0, 48);
        res = connect_once(&H, 1, 0, 0, ssec, &slen);
        if (res >= 0 && (res & 1) && (res & 2))
        {
            viol = "resumed-although-stolen-identifier-without-secret";
        }
    }
    r->transitions = 4;
    r->trace_hash = world_trace_hash(&H.w);
    {
        size_t l = strlen(r->outcome);
        snprintf(r->outcome + l, sizeof(r->outcome) - l, ":%s", viol ? viol : (res & 2) ? "resumed" : (res & 1) ? "full" : "failed");
    }
    if (viol)
    {
        r->violation = 1;
        snprintf(r->key, sizeof(r->key), "%s|session-id-carried-by-%s|%s", dtls ? "dtls12" : "tls12", xpname[xp], viol);
        snprintf(r->what, sizeof(r->what), "%s: c0 holds cached session X; c1 ran its own connection (%s, ended by %s) with X in the session_id field; then %s => %s",
            dtls ? "DTLS 1.2" : "TLS 1.2", xpname[xp], xename[xe], xqname[xq], viol);
    }
}

static void run_case(void *ctx, mx_result_t *r)
{
    case_t *c = ctx;
    static hist_t H;
    int i;
    if (c->mode == M_X)
    {
        run_case_x(c, r);
        return;
    }
    if (c->mode == M_X + 1)
    {
        run_case_y(c, r);
        return;
    }
    setup(&H, c->mode);
    for (i = 0; i < c->depth && !H.viol[0]; i++)
    {
        apply_op(&H, c->ops[i]);
    }
    if (c->edit >= 0 && !H.viol[0])
    {
        if (!apply_edit_and_try(&H, c->edit))
        {
            r->nontrivial = 0;
            snprintf(r->outcome, sizeof(r->outcome), "%s:edit-n/a", mname[c->mode]);
            return;
        }
    }
    r->nontrivial = 1;
    r->transitions = (uint32_t) (c->depth + (c->edit >= 0));
    r->trace_hash = world_trace_hash(&H.w);
    snprintf(r->outcome, sizeof(r->outcome), "%s:resumed%d:declined%d:%s", mname[c->mode], H.n_resumed > 2 ? 2 : H.n_resumed, H.n_declined > 2 ? 2 : H.n_declined, H.viol[0] ? H.viol : "ok");
    if (H.viol[0])
    {
        char path[120] = "";
        for (i = 0; i < c->depth; i++)
        {
            size_t l = strlen(path);
            snprintf(path + l, sizeof(path) - l, "%s%s", i ? " " : "", oname[c->ops[i]]);
        }
        r->violation = strncmp(H.viol, "INTERNAL", 8) == 0 ? 2 : 1;
        snprintf(r->key, sizeof(r->key), "%s|%s", mname[c->mode], H.viol);
        snprintf(r->what, sizeof(r->what), "%s: history [%s]%s => %s", mname[c->mode], path, c->edit >= 0 ? " + edited credential" : "", H.viol);
    }
}

static case_t *cases;
static long ncases, capcases;
static void add_case(const case_t *c)
{
    if (ncases >= capcases)
    {
        capcases = capcases ? capcases * 2 : 65536;
        cases = realloc(cases, (size_t) capcases * sizeof(case_t));
    }
    cases[ncases++] = *c;
}

static void gen(int mode, int depth, int maxdepth, case_t *cur)
{
    int op;
    if (depth > 0)
    {
        cur->depth = depth;
        cur->edit = -1;
        add_case(cur);
    }
    if (depth == maxdepth)
    {
        return;
    }
    for (op = 0; op < O_NOP; op++)
    {
        if (IS_ID(mode) && (op == O_KADD || op == O_KDEL))
        {
            continue;
        }
        if (!IS_ID(mode) && (op == O_EVICT || op == O_ABAND_A || op == O_ABAND_B || op == O_SIB_OPEN || op == O_SIB_CLOSE))
        {
            continue; /* the bounded cache plays no role for stateless tickets */
        }
        if (mode == M_PSK13 && op == O_R0E)
        {
            continue;
        }
        cur->ops[depth] = op;
        gen(mode, depth + 1, maxdepth, cur);
    }
}

static void run_group(long gi, void *unused)
{
    long k, lo = gi * 32, hi = lo + 32;
    (void) unused;
    if (hi > ncases) hi = ncases;
    for (k = lo; k < hi; k++)
    {
        char desc[220], path[140] = "";
        case_t *c = &cases[k];
        int i;
        if (mx_deadline_hit())
        {
            return;
        }
        for (i = 0; i < c->depth; i++)
        {
            size_t l = strlen(path);
            snprintf(path + l, sizeof(path) - l, "%s%d", i ? "." : "", c->ops[i]);
        }
        if (c->mode == M_X + 1)
        {
            snprintf(desc, sizeof(desc), "m=%d;e=%d;ops=%s (part Y: TLS 1.2 ticket, ClientHello with supported_versions {%04x} appended)", c->mode, c->edit, path, c->ops[0]);
            mx_fork_case(desc, run_case, c);
            continue;
        }
        if (c->mode == M_X)
        {
            snprintf(desc, sizeof(desc), "m=%d;e=%d;ops=%s (part X: %s, %s, %s, %s)", c->mode, c->edit, path, c->ops[3] ? "dtls12" : "tls12", xpname[c->ops[0]], xename[c->ops[1]], xqname[c->ops[2]]);
            mx_fork_case(desc, run_case, c);
            continue;
        }
        snprintf(desc, sizeof(desc), "m=%d;e=%d;ops=%s (%s history", c->mode, c->edit, path, mname[c->mode]);
        for (i = 0; i < c->depth; i++)
        {
            size_t l = strlen(desc);
            snprintf(desc + l, sizeof(desc) - l, " %s", oname[c->ops[i]]);
        }
        {
            size_t l = strlen(desc);
            snprintf(desc + l, sizeof(desc) - l, "%s)", c->edit >= 0 ? " +edit" : "");
        }
        mx_fork_case(desc, run_case, c);
    }
}

#include <sys/mman.h>
#include <sys/wait.h>
#include <unistd.h>
static int probe_cred_bytes(int mode)
{
    int *sh = mmap(NULL, sizeof(int), PROT_READ | PROT_WRITE, MAP_SHARED | MAP_ANONYMOUS, -1, 0);
    pid_t pid;
    int n;
    *sh = 0;
    fflush(NULL);
    pid = fork();
    if (pid == 0)
    {
        static hist_t H;
        setup(&H, mode);
        apply_op(&H, O_F0);
        *sh = cred_bytes(&H);
        _exit(0);
    }
    waitpid(pid, NULL, 0);
    n = *sh;
    munmap(sh, sizeof(int));
    return n;
}

int main(int argc, char **argv)
{
    mx_cfg_t cfg;
    const char *replay;
    int mode, maxdepth;
    case_t cur;

    memset(&cfg, 0, sizeof(cfg));
    cfg.property = "C14";
    cfg.sanitizer_is_oracle = 1;
    cfg.level = "model_checking";
    cfg.engine = "exhaustive enumeration of operation histories, each executed from scratch in a forked child on the real server key set + global session cache, compared with a reference model";
    cfg.rule = "case = (resumption mode, operation sequence up to the depth bound[, one bit flip or truncation of the stored session id / ticket / PSK identity tried after the sequence]); "
               "all sequences over the alphabet are enumerated (no pruning); credential edits are applied after the base histories {full(c0)} and {full(c0), resume(c0)}";
    cfg.assumptions[0] = "clock pinned, advanced only by the tick operations (50000 s, 100000 s; lifetime 86400 s); a cached session's lifetime counts from the full handshake that created it, a ticket's / PSK's from its (re)issue";
    cfg.assumptions[1] = "reference model: a completed handshake may be reported resumed by the server only if the client holds a genuine credential of a session that is unexpired since its last (re)issue, not invalidated by a fatal alert (cache mode), sealed under a ticket key still loaded (ticket modes), with matching extended-master-secret use; the server's secret must then equal the original";
    cfg.assumptions[2] = "the server declining to resume is never flagged";
    replay = mx_parse_args(argc, argv, &cfg);
    thorough = !strcmp(cfg.tier, "thorough");
    maxdepth = thorough ? 4 : 3;
    cfg.bound = thorough ? "all histories of depth <= 4; all single-bit edits and truncations of the credential after 2 base histories"
                         : "all histories of depth <= 3; bit edits (all bits of the first 16 bytes, every 7th after; session id: all) and all truncations of the credential after 2 base histories";

    if (replay)
    {
        case_t c;
        mx_result_t r;
        const char *p;
        memset(&c, 0, sizeof(c));
        if (sscanf(replay, "m=%d;e=%d;ops=", &c.mode, &c.edit) != 2 || c.mode > M_X + 1)
        {
            fprintf(stderr, "bad descriptor\n");
            return 2;
        }
        p = strstr(replay, "ops=") + 4;
        while (*p && *p != ' ' && c.depth < 6)
        {
            c.ops[c.depth++] = atoi(p);
            while (*p >= '0' && *p <= '9') p++;
            if (*p == '.') p++;
        }
        memset(&r, 0, sizeof(r));
        snprintf(r.desc, sizeof(r.desc), "%s", replay);
        run_case(&c, &r);
        mx_replay_print(&r);
        return 0;
    }
    mx_init(&cfg);
    for (mode = 0; mode < M_NMODE; mode++)
    {
        int e, md = maxdepth, nb;
        memset(&cur, 0, sizeof(cur));
        cur.mode = mode;
        gen(mode, 0, md, &cur);
        /* longer histories over the time-related sub-alphabet, from the state "c0 holds a session": lifetimes that are
           re-armed, or not, by what happened in between (full(c0), then <= 4 (thorough 5) of resume(c0), tick, tick2, resume(c1)) */
        {
            static const int sub[4] = { O_R0, O_TICK, O_TICK2, O_R1 };
            int L, n, k, idx, tmax = thorough ? 5 : 4;
            for (L = md; L <= tmax; L++)        /* lengths <= md - 1 are part of the full enumeration above */
            {
                for (n = 1, k = 0; k < L; k++) n *= 4;
                for (idx = 0; idx < n; idx++)
                {
                    case_t c;
                    int v = idx;
                    memset(&c, 0, sizeof(c));
                    c.mode = mode; c.edit = -1; c.depth = L + 1; c.ops[0] = O_F0;
                    for (k = 0; k < L; k++)
                    {
                        c.ops[1 + k] = sub[v % 4];
                        v /= 4;
                    }
                    add_case(&c);
                }
            }
        }
        if (IS_ID(mode))
        {
            static const int sub2[4] = { O_FATAL0, O_SIB_CLOSE, O_R0, O_TICK };
            int L, n, k, idx;
            for (L = 1; L <= 3; L++)
            {
                for (n = 1, k = 0; k < L; k++) n *= 4;
                for (idx = 0; idx < n; idx++)
                {
                    case_t c;
                    int v = idx;
                    memset(&c, 0, sizeof(c));
                    c.mode = mode; c.edit = -1; c.depth = L + 2; c.ops[0] = O_F0; c.ops[1] = O_SIB_OPEN;
                    for (k = 0; k < L; k++)
                    {
                        c.ops[2 + k] = sub2[v % 4];
                        v /= 4;
                    }
                    add_case(&c);
                }
            }
        }
        /* credential edits after base histories */
        nb = probe_cred_bytes(mode);
        fprintf(stderr, "%s: credential of %d bytes\n", mname[mode], nb);
        for (e = 0; e < 2 * nb * 8; e++)
        {
            case_t c;
            memset(&c, 0, sizeof(c));
            c.mode = mode; c.depth = 1; c.ops[0] = O_F0; c.edit = e;
            if (!IS_ID(mode) && !thorough && (e & 1) == 0 && e / 2 >= 8 * 16 && ((e / 2) % 7) != 0)
            {
                continue; /* quick: every bit of the first 16 bytes (key name), every 7th bit after; all truncations */
            }
            add_case(&c);
            c.depth = 2; c.ops[1] = O_R0;
            add_case(&c);
        }
    }
    /* part X */
    {
        int xp, xe, xq, d;
        for (d = 0; d < 2; d++)
            for (xp = 0; xp < XP_N; xp++)
                for (xe = 0; xe < XE_N; xe++)
                    for (xq = 0; xq < XQ_N; xq++)
                    {
                        case_t c;
                        if (d && xp == XP_TLS13_LEGACY_ID) continue;
                        if (xp == XP_NONE && xe != 0) continue;
                        memset(&c, 0, sizeof(c));
                        c.mode = M_X; c.edit = -1; c.depth = 4;
                        c.ops[0] = xp; c.ops[1] = xe; c.ops[2] = xq; c.ops[3] = d;
                        add_case(&c);
                    }
    }
    /* part Y */
    {
        static const int svs[3] = { 0x0303, 0x0302, 0x0301 };
        int k;
        for (k = 0; k < 3; k++)
        {
            case_t c;
            memset(&c, 0, sizeof(c));
            c.mode = M_X + 1; c.edit = -1; c.depth = 1; c.ops[0] = svs[k];
            add_case(&c);
        }
    }
    mx_parallel((ncases + 31) / 32, run_group, NULL);
    return mx_finish(NULL);
}
