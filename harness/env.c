/* env.c - link-time seams: entropy, clock, allocator.  Linked with
 * -Wl,--wrap=psGetEntropy,--wrap=time,--wrap=gettimeofday,--wrap=clock_gettime
 * -Wl,--wrap=malloc,--wrap=calloc,--wrap=realloc,--wrap=free */
#include "mxv.h"
#include <time.h>
#include <sys/time.h>
#include <stdarg.h>

/* ------------------------------------------------------------ entropy */
static uint64_t ent_state[2] = { 0x9E3779B97F4A7C15ULL, 0xD1B54A32D192ED03ULL };
uint64_t env_entropy_draws, env_entropy_bytes;

static uint64_t xs128p(void)
{
    uint64_t s1 = ent_state[0], s0 = ent_state[1];
    ent_state[0] = s0;
    s1 ^= s1 << 23;
    ent_state[1] = s1 ^ s0 ^ (s1 >> 17) ^ (s0 >> 26);
    return ent_state[1] + s0;
}

int env_entropy_fail;   /* set: the platform's entropy source fails from now on */
int32 __wrap_psGetEntropy(unsigned char *bytes, uint32 size, void *userPtr)
{
    uint32 i;
    uint64_t v = 0;
    (void) userPtr;
    if (env_entropy_fail)
    {
        return PS_PLATFORM_FAIL;
    }
    for (i = 0; i < size; i++)
    {
        if ((i & 7) == 0)
        {
            v = xs128p();
        }
        bytes[i] = (unsigned char) (v >> (8 * (i & 7)));
    }
    env_entropy_draws++;
    env_entropy_bytes += size;
    return (int32) size;
}

/* -------------------------------------------------------------- clock */
static int64_t clock_ms;   /* ms since MXV_T0 */

void env_set_time_ms(int64_t ms) { clock_ms = ms; }
void env_tick_ms(int64_t ms) { clock_ms += ms; }
int64_t env_now_ms(void) { return clock_ms; }

time_t __wrap_time(time_t *t)
{
    time_t v = (time_t) (MXV_T0 + clock_ms / 1000);
    if (t)
    {
        *t = v;
    }
    return v;
}

int __wrap_gettimeofday(struct timeval *tv, void *tz)
{
    (void) tz;
    if (tv)
    {
        tv->tv_sec = (time_t) (MXV_T0 + clock_ms / 1000);
        tv->tv_usec = (clock_ms % 1000) * 1000;
    }
    return 0;
}

int __real_clock_gettime(clockid_t id, struct timespec *ts);
static int harness_clock; /* set while the harness itself wants real time */
int __wrap_clock_gettime(clockid_t id, struct timespec *ts)
{
    if (harness_clock)
    {
        return __real_clock_gettime(id, ts);
    }
    ts->tv_sec = (time_t) (MXV_T0 + clock_ms / 1000);
    ts->tv_nsec = (clock_ms % 1000) * 1000000L;
    return 0;
}

double now_s(void)
{
    struct timespec ts;
    harness_clock++;
    __real_clock_gettime(CLOCK_MONOTONIC, &ts);
    harness_clock--;
    return ts.tv_sec + ts.tv_nsec / 1e9;
}

/* ---------------------------------------------------------- allocator */
void *__real_malloc(size_t);
void *__real_calloc(size_t, size_t);
void *__real_realloc(void *, size_t);
void  __real_free(void *);

static int tracking;
long env_alloc_count, env_fail_at, env_fail_from, env_failed;
int (*env_alloc_hook)(long k);

/* set of tracked live pointers: open addressing, tombstones */
#define LIVE_BITS 18
#define LIVE_N (1u << LIVE_BITS)
static void *live_tab[LIVE_N];
static void *live_site[LIVE_N];
static long  live_seq[LIVE_N];   /* allocation order: the reported site is that of the OLDEST live block (independent of heap addresses) */
static long  live_seq_ctr;
/* MXV_SITE_BT=1 (debugging aid for replays): keep a 10-frame backtrace per live block; env_live_dump() prints them */
#include <execinfo.h>
#define BT_N 10
static void *(*live_bt)[BT_N];
static int bt_on = -1;
static __thread void *cur_site;
static long live_cnt;
#define TOMB ((void *) 1)

static unsigned live_h(void *p)
{
    uint64_t x = (uint64_t) (uintptr_t) p;
    x ^= x >> 33; x *= 0xff51afd7ed558ccdULL; x ^= x >> 29;
    return (unsigned) x & (LIVE_N - 1);
}
static void live_add(void *p)
{
    unsigned i = live_h(p), n;
    for (n = 0; n < LIVE_N; n++, i = (i + 1) & (LIVE_N - 1))
    {
        if (live_tab[i] == NULL || live_tab[i] == TOMB)
        {
            live_tab[i] = p;
            live_site[i] = cur_site;
            live_seq[i] = ++live_seq_ctr;
            if (bt_on < 0)
            {
                bt_on = getenv("MXV_SITE_BT") != NULL;
                if (bt_on)
                {
                    live_bt = __real_calloc(LIVE_N, sizeof(*live_bt));
                }
            }
            if (bt_on && live_bt)
            {
                int was = tracking;
                tracking = 0;
                memset(live_bt[i], 0, sizeof(live_bt[i]));
                backtrace(live_bt[i], BT_N);
                tracking = was;
            }
            live_cnt++;
            return;
        }
    }
    fprintf(stderr, "env: live table full\n");
    abort();
}
static int live_del(void *p)
{
    unsigned i = live_h(p), n;
    for (n = 0; n < LIVE_N; n++, i = (i + 1) & (LIVE_N - 1))
    {
        if (live_tab[i] == p)
        {
            live_tab[i] = TOMB;
            live_cnt--;
            return 1;
        }
        if (live_tab[i] == NULL)
        {
            return 0;
        }
    }
    return 0;
}
long env_live(void) { return live_cnt; }
void env_live_reset(void) { memset(live_tab, 0, sizeof(live_tab)); live_cnt = 0; }
void env_track(int on) { tracking = on; }
/* harness-own allocations: never tracked, never failed */
void *h_malloc(size_t n) { return __real_malloc(n); }
void *h_realloc(void *p, size_t n) { return __real_realloc(p, n); }
/* allocation site (return address of the psMalloc caller) of the i-th live block, for leak reports */


static int should_fail(void)
{
    long k = ++env_alloc_count;
    int fail = 0;
    if (env_alloc_hook)
    {
        int save = tracking;
        tracking = 0;
        fail = env_alloc_hook(k);
        tracking = save;
    }
    if ((env_fail_at && k == env_fail_at) || (env_fail_from && k >= env_fail_from))
    {
        fail = 1;
    }
    if (fail)
    {
        env_failed++;
    }
    return fail;
}

void env_live_dump(void)
{
    unsigned i;
    int k;
    for (i = 0; i < LIVE_N; i++)
    {
        if (live_tab[i] != NULL && live_tab[i] != TOMB && live_bt)
        {
            fprintf(stderr, "LIVE block %p allocated at:", live_tab[i]);
            for (k = 0; k < BT_N && live_bt[i][k]; k++)
            {
                fprintf(stderr, " %p", live_bt[i][k]);
            }
            fprintf(stderr, "\n");
        }
    }
}

int env_live_sites(void **sites, int max)
{
    /* sites of the live blocks in allocation order (oldest first) */
    unsigned i;
    int n = 0, k;
    long seqs[16];
    if (max > 16)
    {
        max = 16;
    }
    for (i = 0; i < LIVE_N; i++)
    {
        if (live_tab[i] != NULL && live_tab[i] != TOMB)
        {
            /* insertion into the sorted prefix */
            k = n < max ? n : max - 1;
            if (n >= max && live_seq[i] > seqs[max - 1])
            {
                continue;
            }
            while (k > 0 && seqs[k - 1] > live_seq[i])
            {
                if (k < max)
                {
                    seqs[k] = seqs[k - 1];
                    sites[k] = sites[k - 1];
                }
                k--;
            }
            seqs[k] = live_seq[i];
            sites[k] = live_site[i];
            if (n < max)
            {
                n++;
            }
        }
    }
    return n;
}

void *__wrap_malloc(size_t n)
{
    void *p;
    cur_site = __builtin_return_address(0);
    if (!tracking)
    {
        return __real_malloc(n);
    }
    if (should_fail())
    {
        return NULL;
    }
    p = __real_malloc(n);
    if (p)
    {
        live_add(p);
    }
    return p;
}
void *__wrap_calloc(size_t a, size_t b)
{
    void *p;
    cur_site = __builtin_return_address(0);
    if (!tracking)
    {
        return __real_calloc(a, b);
    }
    if (should_fail())
    {
        return NULL;
    }
    p = __real_calloc(a, b);
    if (p)
    {
        live_add(p);
    }
    return p;
}
void *__wrap_realloc(void *o, size_t n)
{
    void *p;
    int was;
    cur_site = __builtin_return_address(0);
    if (!tracking)
    {
        if (o && live_cnt)
        {
            live_del(o);
        }
        return __real_realloc(o, n);
    }
    if (should_fail())
    {
        return NULL;
    }
    was = o ? live_del(o) : 0;
    p = __real_realloc(o, n);
    if (p)
    {
        live_add(p);
    }
    else if (was && n != 0)
    {
        live_add(o);
    }
    return p;
}
void __wrap_free(void *p)
{
    if (p && live_cnt)
    {
        live_del(p);
    }
    __real_free(p);
}

void env_reset(uint64_t seed)
{
    ent_state[0] = 0x9E3779B97F4A7C15ULL ^ (seed * 0xBF58476D1CE4E5B9ULL);
    ent_state[1] = 0xD1B54A32D192ED03ULL + seed;
    if (ent_state[0] == 0 && ent_state[1] == 0)
    {
        ent_state[0] = 1;
    }
    env_entropy_draws = env_entropy_bytes = 0;
    clock_ms = 0;
    env_alloc_count = env_fail_at = env_fail_from = env_failed = 0;
}

/* ------------------------------------------------- record-protection seam
 * Pass-through wrappers around the AEAD/CBC primitives the TLS layer calls
 * (libssl_s.a -> libcrypt_s.a, so --wrap sees every call).  A driver that sets
 * env_crypto_hook observes (op, ctx, key/nonce, data) of every seal. */
void (*env_crypto_hook)(int op, const void *ctx, const unsigned char *a, int alen, const unsigned char *b, unsigned blen);

int32_t __real_psAesInitGCM(psAesGcm_t *ctx, const unsigned char *key, uint8_t keylen);
void __real_psAesReadyGCM(psAesGcm_t *ctx, const unsigned char *IV, const unsigned char *aad, psSize_t aadLen);
void __real_psAesEncryptGCM(psAesGcm_t *ctx, const unsigned char *pt, unsigned char *ct, uint32_t len);
int32_t __real_psAesInitCBC(psAesCbc_t *ctx, const unsigned char *IV, const unsigned char *key, uint8_t keylen, uint32_t flags);
void __real_psAesEncryptCBC(psAesCbc_t *ctx, const unsigned char *pt, unsigned char *ct, uint32_t len);
psRes_t __real_psChacha20Poly1305IetfInit(psChacha20Poly1305Ietf_t *c, const unsigned char *key);
psResSize_t __real_psChacha20Poly1305IetfEncrypt(psChacha20Poly1305Ietf_t *c, const unsigned char *pt, psSizeL_t ptlen,
    const unsigned char *iv, const unsigned char *aad, psSizeL_t aadlen, unsigned char *ct);

int32_t __wrap_psAesInitGCM(psAesGcm_t *ctx, const unsigned char *key, uint8_t keylen)
{
    if (env_crypto_hook) env_crypto_hook(ENV_OP_GCM_INIT, ctx, key, keylen, NULL, 0);
    return __real_psAesInitGCM(ctx, key, keylen);
}
void __wrap_psAesReadyGCM(psAesGcm_t *ctx, const unsigned char *IV, const unsigned char *aad, psSize_t aadLen)
{
    if (env_crypto_hook) env_crypto_hook(ENV_OP_GCM_READY, ctx, IV, 12, aad, aadLen);
    __real_psAesReadyGCM(ctx, IV, aad, aadLen);
}
void __wrap_psAesEncryptGCM(psAesGcm_t *ctx, const unsigned char *pt, unsigned char *ct, uint32_t len)
{
    if (env_crypto_hook) env_crypto_hook(ENV_OP_GCM_ENC, ctx, NULL, 0, pt, len);
    __real_psAesEncryptGCM(ctx, pt, ct, len);
}
int32_t __wrap_psAesInitCBC(psAesCbc_t *ctx, const unsigned char *IV, const unsigned char *key, uint8_t keylen, uint32_t flags)
{
    if (env_crypto_hook) env_crypto_hook(ENV_OP_CBC_INIT, ctx, key, keylen, IV, 16);
    return __real_psAesInitCBC(ctx, IV, key, keylen, flags);
}
void __wrap_psAesEncryptCBC(psAesCbc_t *ctx, const unsigned char *pt, unsigned char *ct, uint32_t len)
{
    if (env_crypto_hook) env_crypto_hook(ENV_OP_CBC_ENC, ctx, NULL, 0, pt, len);
    __real_psAesEncryptCBC(ctx, pt, ct, len);
}
psRes_t __wrap_psChacha20Poly1305IetfInit(psChacha20Poly1305Ietf_t *c, const unsigned char *key)
{
    if (env_crypto_hook) env_crypto_hook(ENV_OP_CHACHA_INIT, c, key, 32, NULL, 0);
    return __real_psChacha20Poly1305IetfInit(c, key);
}
/* record MAC of the CBC suites: which (key, sequence number) is bound into this record */
int32_t __real_tlsHMACSha1(ssl_t *ssl, int32 mode, unsigned char type, unsigned char *data, uint32 len, unsigned char *mac);
int32_t __real_tlsHMACSha2(ssl_t *ssl, int32 mode, unsigned char type, unsigned char *data, uint32 len, unsigned char *mac, int32 hashSize);
static void mac_note(ssl_t *ssl, int32 mode, int keylen)
{
    unsigned char seq[8];
    const unsigned char *key = mode == HMAC_CREATE ? ssl->sec.writeMAC : ssl->sec.readMAC;
    if (!env_crypto_hook || !key)
    {
        return;
    }
    memcpy(seq, mode == HMAC_CREATE ? ssl->sec.seq : ssl->sec.remSeq, 8);
#ifdef USE_DTLS
    if (ACTV_VER(ssl, v_dtls_any))
    {
        memcpy(seq, mode == HMAC_CREATE ? ssl->epoch : ssl->rec.epoch, 2);
        memcpy(seq + 2, mode == HMAC_CREATE ? ssl->rsn : ssl->rec.rsn, 6);
    }
#endif
    env_crypto_hook(mode == HMAC_CREATE ? ENV_OP_MAC_CREATE : ENV_OP_MAC_VERIFY, ssl, key, keylen, seq, 8);
}
int32_t __wrap_tlsHMACSha1(ssl_t *ssl, int32 mode, unsigned char type, unsigned char *data, uint32 len, unsigned char *mac)
{
    mac_note(ssl, mode, SHA1_HASH_SIZE);
    return __real_tlsHMACSha1(ssl, mode, type, data, len, mac);
}
int32_t __wrap_tlsHMACSha2(ssl_t *ssl, int32 mode, unsigned char type, unsigned char *data, uint32 len, unsigned char *mac, int32 hashSize)
{
    mac_note(ssl, mode, hashSize);
    return __real_tlsHMACSha2(ssl, mode, type, data, len, mac, hashSize);
}
psResSize_t __wrap_psChacha20Poly1305IetfEncrypt(psChacha20Poly1305Ietf_t *c, const unsigned char *pt, psSizeL_t ptlen,
    const unsigned char *iv, const unsigned char *aad, psSizeL_t aadlen, unsigned char *ct)
{
    if (env_crypto_hook) env_crypto_hook(ENV_OP_CHACHA_ENC, c, iv, 12, pt, (unsigned) ptlen);
    return __real_psChacha20Poly1305IetfEncrypt(c, pt, ptlen, iv, aad, aadlen, ct);
}

/* ------------------------------------------------------------- mutex seam */
void (*env_lock_hook)(void *mutex);     /* called before the real lock (scheduling point) */
void (*env_unlock_hook)(void *mutex);   /* called after the real unlock */
void __real_psLockMutex(psMutex_t *m);
void __real_psUnlockMutex(psMutex_t *m);
void __wrap_psLockMutex(psMutex_t *m)
{
    if (env_lock_hook) env_lock_hook(m);
    __real_psLockMutex(m);
}
void __wrap_psUnlockMutex(psMutex_t *m)
{
    __real_psUnlockMutex(m);
    if (env_unlock_hook) env_unlock_hook(m);
}

/* ------------------------------------------------------------- key-log seam
 * psHkdfExpandLabel is called by the TLS 1.3 key schedule (libssl_s.a -> libcrypt_s.a); the wrapper records
 * (label, output) of the most recent derivations so that the attacker toolkit can act as a peer that knows its
 * own traffic secrets (the moral equivalent of SSLKEYLOGFILE). */
int32_t __real_psHkdfExpandLabel(psPool_t *pool, psCipherType_e hmacAlg, const unsigned char *secret, psSize_t secretLen,
    const char *label, psSize_t labelLen, const unsigned char *context, psSize_t contextLen, psSize_t length, unsigned char *out);
env_keylog_t env_keylog[ENV_KEYLOG_N];
int env_keylog_n;
int32_t __wrap_psHkdfExpandLabel(psPool_t *pool, psCipherType_e hmacAlg, const unsigned char *secret, psSize_t secretLen,
    const char *label, psSize_t labelLen, const unsigned char *context, psSize_t contextLen, psSize_t length, unsigned char *out)
{
    int32_t rc = __real_psHkdfExpandLabel(pool, hmacAlg, secret, secretLen, label, labelLen, context, contextLen, length, out);
    if (rc >= 0 && length <= 64)
    {
        env_keylog_t *e = &env_keylog[env_keylog_n % ENV_KEYLOG_N];
        size_t l = labelLen < sizeof(e->label) - 1 ? labelLen : sizeof(e->label) - 1;
        memcpy(e->label, label, l);
        e->label[l] = 0;
        memcpy(e->out, out, length);
        e->outlen = length;
        e->secret_tag = fnv1a(secret, secretLen, FNV0);
        e->seq = env_keylog_n;
        env_keylog_n++;
    }
    return rc;
}
