/* c12_ref.h - OpenSSL 3.0 libcrypto reference computations for drv_c12 (private header) */
#ifndef C12_REF_H
#define C12_REF_H

#include <openssl/evp.h>
#include <openssl/hmac.h>
#include <openssl/kdf.h>
#include <openssl/core_names.h>
#include <openssl/params.h>

enum { H_MD5 = 0, H_SHA1, H_SHA256, H_SHA384, H_SHA512, H_MD5SHA1, H_NALG };
static const char *ref_hname[] = { "MD5", "SHA1", "SHA256", "SHA384", "SHA512", "MD5-SHA1" };
static const int ref_hlen[] = { 16, 20, 32, 48, 64, 36 };
static const int ref_hblock[] = { 64, 64, 64, 128, 128, 64 };
static EVP_MD *ref_md[H_NALG];

enum { RC_AES128_ECB = 0, RC_AES192_ECB, RC_AES256_ECB, RC_AES128_CBC, RC_AES192_CBC, RC_AES256_CBC, RC_DES3_CBC,
       RC_AES128_GCM, RC_AES192_GCM, RC_AES256_GCM, RC_CHAPOLY, RC_N };
static const char *ref_cname[] = { "AES-128-ECB", "AES-192-ECB", "AES-256-ECB", "AES-128-CBC", "AES-192-CBC", "AES-256-CBC",
                                   "DES-EDE3-CBC", "AES-128-GCM", "AES-192-GCM", "AES-256-GCM", "ChaCha20-Poly1305" };
static EVP_CIPHER *ref_ciph[RC_N];
static EVP_CIPHER_CTX *ref_cctx;
static EVP_MD_CTX *ref_mctx;

static void ref_die(const char *what)
{
    fprintf(stderr, "drv_c12: reference (OpenSSL) failure: %s\n", what);
    abort(); /* harness-internal: the forked bundle child dies -> reported by the caller */
}

static void ref_init(void)
{
    int i;
    for (i = 0; i < H_NALG; i++)
    {
        ref_md[i] = EVP_MD_fetch(NULL, ref_hname[i], NULL);
        if (!ref_md[i])
        {
            ref_die(ref_hname[i]);
        }
    }
    for (i = 0; i < RC_N; i++)
    {
        ref_ciph[i] = EVP_CIPHER_fetch(NULL, ref_cname[i], NULL);
        if (!ref_ciph[i])
        {
            ref_die(ref_cname[i]);
        }
    }
    ref_cctx = EVP_CIPHER_CTX_new();
    ref_mctx = EVP_MD_CTX_new();
    if (!ref_cctx || !ref_mctx)
    {
        ref_die("ctx");
    }
}

static void ref_digest(int halg, const unsigned char *msg, size_t n, unsigned char *out)
{
    unsigned int l = 0;
    if (EVP_DigestInit_ex(ref_mctx, ref_md[halg], NULL) != 1 || EVP_DigestUpdate(ref_mctx, msg, n) != 1
        || EVP_DigestFinal_ex(ref_mctx, out, &l) != 1 || (int) l != ref_hlen[halg])
    {
        ref_die("digest");
    }
}

static void ref_hmac(int halg, const unsigned char *key, size_t klen, const unsigned char *msg, size_t n, unsigned char *out)
{
    unsigned int l = 0;
    static const unsigned char dummy[1] = { 0 };
    if (!HMAC(ref_md[halg], klen ? key : dummy, (int) klen, n ? msg : dummy, n, out, &l) || (int) l != ref_hlen[halg])
    {
        ref_die("hmac");
    }
}

/* mode: EVP_KDF_HKDF_MODE_EXTRACT_ONLY / EXPAND_ONLY; returns 0 ok, -1 refused by OpenSSL */
static int ref_hkdf(int halg, int mode, const unsigned char *key, size_t klen, const unsigned char *salt, size_t slen,
    const unsigned char *info, size_t ilen, unsigned char *out, size_t outlen)
{
    static EVP_KDF *kdf;
    EVP_KDF_CTX *c;
    OSSL_PARAM p[6];
    int np = 0, rc;
    static const unsigned char dummy[1] = { 0 };
    if (!kdf)
    {
        kdf = EVP_KDF_fetch(NULL, "HKDF", NULL);
        if (!kdf)
        {
            ref_die("HKDF fetch");
        }
    }
    c = EVP_KDF_CTX_new(kdf);
    p[np++] = OSSL_PARAM_construct_utf8_string(OSSL_KDF_PARAM_DIGEST, (char *) ref_hname[halg], 0);
    p[np++] = OSSL_PARAM_construct_int(OSSL_KDF_PARAM_MODE, &mode);
    p[np++] = OSSL_PARAM_construct_octet_string(OSSL_KDF_PARAM_KEY, (void *) (klen ? key : dummy), klen);
    if (mode == EVP_KDF_HKDF_MODE_EXTRACT_ONLY)
    {
        p[np++] = OSSL_PARAM_construct_octet_string(OSSL_KDF_PARAM_SALT, (void *) (slen ? salt : dummy), slen);
    }
    else
    {
        p[np++] = OSSL_PARAM_construct_octet_string(OSSL_KDF_PARAM_INFO, (void *) (ilen ? info : dummy), ilen);
    }
    p[np] = OSSL_PARAM_construct_end();
    rc = EVP_KDF_derive(c, out, outlen, p);
    EVP_KDF_CTX_free(c);
    return rc == 1 ? 0 : -1;
}

static void ref_pbkdf2_sha1(const unsigned char *pw, size_t pl, const unsigned char *salt, size_t sl, int iter, unsigned char *out, size_t n)
{
    static const unsigned char dummy[1] = { 0 };
    if (PKCS5_PBKDF2_HMAC((const char *) (pl ? pw : dummy), (int) pl, sl ? salt : dummy, (int) sl, iter, ref_md[H_SHA1], (int) n, out) != 1)
    {
        ref_die("pbkdf2");
    }
}

/* unpadded block-mode encryption/decryption of n bytes (n multiple of the block size) */
static void ref_cipher(int rc, int enc, const unsigned char *key, const unsigned char *iv, const unsigned char *in, size_t n, unsigned char *out)
{
    int l1 = 0, l2 = 0;
    if (EVP_CipherInit_ex(ref_cctx, ref_ciph[rc], NULL, key, iv, enc) != 1 || EVP_CIPHER_CTX_set_padding(ref_cctx, 0) != 1)
    {
        ref_die("cipher init");
    }
    if (n && EVP_CipherUpdate(ref_cctx, out, &l1, in, (int) n) != 1)
    {
        ref_die("cipher update");
    }
    if (EVP_CipherFinal_ex(ref_cctx, out + l1, &l2) != 1 || (size_t) (l1 + l2) != n)
    {
        ref_die("cipher final");
    }
}

/* AEAD seal with a 12-byte nonce; tag = 16 bytes */
static void ref_seal(int rc, const unsigned char *key, const unsigned char *iv, const unsigned char *aad, size_t al,
    const unsigned char *pt, size_t n, unsigned char *ct, unsigned char *tag)
{
    int l = 0;
    unsigned char fin[32];
    if (EVP_EncryptInit_ex(ref_cctx, ref_ciph[rc], NULL, NULL, NULL) != 1
        || EVP_CIPHER_CTX_ctrl(ref_cctx, EVP_CTRL_AEAD_SET_IVLEN, 12, NULL) != 1
        || EVP_EncryptInit_ex(ref_cctx, NULL, NULL, key, iv) != 1)
    {
        ref_die("seal init");
    }
    if (al && EVP_EncryptUpdate(ref_cctx, NULL, &l, aad, (int) al) != 1)
    {
        ref_die("seal aad");
    }
    if (n && EVP_EncryptUpdate(ref_cctx, ct, &l, pt, (int) n) != 1)
    {
        ref_die("seal update");
    }
    if (EVP_EncryptFinal_ex(ref_cctx, fin, &l) != 1
        || EVP_CIPHER_CTX_ctrl(ref_cctx, EVP_CTRL_AEAD_GET_TAG, 16, tag) != 1)
    {
        ref_die("seal final");
    }
}

/* AEAD open; taglen 1..16; returns 1 accepted (pt filled), 0 rejected */
static int ref_open(int rc, const unsigned char *key, const unsigned char *iv, const unsigned char *aad, size_t al,
    const unsigned char *ct, size_t n, const unsigned char *tag, int taglen, unsigned char *pt)
{
    int l = 0;
    unsigned char fin[32];
    if (EVP_DecryptInit_ex(ref_cctx, ref_ciph[rc], NULL, NULL, NULL) != 1
        || EVP_CIPHER_CTX_ctrl(ref_cctx, EVP_CTRL_AEAD_SET_IVLEN, 12, NULL) != 1
        || EVP_DecryptInit_ex(ref_cctx, NULL, NULL, key, iv) != 1)
    {
        ref_die("open init");
    }
    if (EVP_CIPHER_CTX_ctrl(ref_cctx, EVP_CTRL_AEAD_SET_TAG, taglen, (void *) tag) != 1)
    {
        ref_die("open set tag");
    }
    if (al && EVP_DecryptUpdate(ref_cctx, NULL, &l, aad, (int) al) != 1)
    {
        ref_die("open aad");
    }
    if (n && EVP_DecryptUpdate(ref_cctx, pt, &l, ct, (int) n) != 1)
    {
        ref_die("open update");
    }
    return EVP_DecryptFinal_ex(ref_cctx, fin, &l) == 1;
}

#endif
