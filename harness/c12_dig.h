/* c12_dig.h - digest / HMAC / HKDF / PBKDF2 primitives for drv_c12 (private header) */
#ifndef C12_DIG_H
#define C12_DIG_H
#include "c12_core.h"

/* ------------------------------------------------------------------ hashes */
typedef struct
{
    const char *name;
    int halg, ctxsz, streaming;
    int (*init)(void *);
    void (*upd)(void *, const uch *, uint32_t);
    void (*fin)(void *, uch *);
} hapi_t;

#define HW(nm, T, I, U, F) \
    static int nm ## _i(void *c) { return I((T *) c); } \
    static void nm ## _u(void *c, const uch *p, uint32_t n) { U((T *) c, p, n); } \
    static void nm ## _f(void *c, uch *o) { F((T *) c, o); }

HW(md5, psMd5_t, psMd5Init, psMd5Update, psMd5Final)
HW(sha1, psSha1_t, psSha1Init, psSha1Update, psSha1Final)
HW(sha256, psSha256_t, psSha256Init, psSha256Update, psSha256Final)
HW(sha384, psSha384_t, psSha384Init, psSha384Update, psSha384Final)
HW(sha512, psSha512_t, psSha512Init, psSha512Update, psSha512Final)
HW(md5sha1, psMd5Sha1_t, psMd5Sha1Init, psMd5Sha1Update, psMd5Sha1Final)

static int gen256_i(void *c) { return psHashInit((psDigestContext_t *) c, OID_SHA256_ALG, NULL); }
static int gen384_i(void *c) { return psHashInit((psDigestContext_t *) c, OID_SHA384_ALG, NULL); }
static int gen512_i(void *c) { return psHashInit((psDigestContext_t *) c, OID_SHA512_ALG, NULL); }
static void gen_u(void *c, const uch *p, uint32_t n) { (void) psHashUpdate((psDigestContext_t *) c, p, n); }
static void gen_f(void *c, uch *o) { (void) psHashFinal((psDigestContext_t *) c, o); }
static int s512single_i(void *c) { (void) c; return 0; }

enum { HA_MD5 = 0, HA_SHA1, HA_SHA256, HA_SHA384, HA_SHA512, HA_MD5SHA1, HA_GEN256, HA_GEN384, HA_GEN512, HA_512SINGLE, HA_N };
static const hapi_t HAPI[HA_N] = {
    { "md5", H_MD5, sizeof(psMd5_t), 1, md5_i, md5_u, md5_f },
    { "sha1", H_SHA1, sizeof(psSha1_t), 1, sha1_i, sha1_u, sha1_f },
    { "sha256", H_SHA256, sizeof(psSha256_t), 1, sha256_i, sha256_u, sha256_f },
    { "sha384", H_SHA384, sizeof(psSha384_t), 1, sha384_i, sha384_u, sha384_f },
    { "sha512", H_SHA512, sizeof(psSha512_t), 1, sha512_i, sha512_u, sha512_f },
    { "md5sha1", H_MD5SHA1, sizeof(psMd5Sha1_t), 1, md5sha1_i, md5sha1_u, md5sha1_f },
    { "pshash-sha256", H_SHA256, sizeof(psDigestContext_t), 1, gen256_i, gen_u, gen_f },
    { "pshash-sha384", H_SHA384, sizeof(psDigestContext_t), 1, gen384_i, gen_u, gen_f },
    { "pshash-sha512", H_SHA512, sizeof(psDigestContext_t), 1, gen512_i, gen_u, gen_f },
    { "sha512single", H_SHA512, 8, 0, s512single_i, NULL, NULL },
};

static int cmp_report(const char *label, const uch *exp, const uch *got, size_t n, char *what, const char *human)
{
    if (n == 0 || !memcmp(exp, got, n))
    {
        return 0;
    }
    {
        char e[33], g[33];
        size_t d = 0, w;
        while (d < n && exp[d] == got[d])
        {
            d++;
        }
        w = n - d < 16 ? n - d : 16;
        hexstr(e, exp + d, w);
        hexstr(g, got + d, w);
        snprintf(what, 320, "%s: %s differs from OpenSSL at byte %zu of %zu: expected %s.. got %s..", human, label, d, n, e, g);
        vhex("expected", exp, n);
        vhex("got", got, n);
    }
    return 1;
}

static int prim_hash(const pc_t *pc, char *human, char *what)
{
    const hapi_t *h = &HAPI[pc->g];
    const uch *msg = msg_for(pc);
    uch exp[64];
    int hl = ref_hlen[h->halg], st[MAXSEG], ln[MAXSEG], ns, j, r;
    xb_t in, out;
    void *ctx;

    snprintf(human, 160, "%s len=%d part=%d/%d/%d inoff=%d outoff=%d", h->name, pc->n, pc->m, pc->a, pc->b, pc->i, pc->o);
    {
        /* 1-entry cache of the reference digest */
        static int c_alg = -1, c_n = -1;
        static const uch *c_msg;
        static uch c_exp[64];
        if (c_alg != h->halg || c_n != pc->n || c_msg != msg)
        {
            ref_digest(h->halg, msg, (size_t) pc->n, c_exp);
            c_alg = h->halg; c_n = pc->n; c_msg = msg;
        }
        memcpy(exp, c_exp, 64);
    }
    in = xdup(msg, (size_t) pc->n, pc->i);
    out = xout((size_t) hl, pc->o);
    vhex("message", in.p, (size_t) pc->n);
    if (!h->streaming)
    {
        psSha512Single(in.p, (uint32_t) pc->n, out.p);
    }
    else
    {
        ctx = malloc((size_t) h->ctxsz);
        memset(ctx, 0xEE, (size_t) h->ctxsz);
        if (h->init(ctx) < 0)
        {
            snprintf(what, 320, "%s: init returned an error", human);
            free(ctx); xfree(in); xfree(out);
            return 1;
        }
        ns = segs(pc->n, pc->m, pc->a, pc->b, st, ln);
        for (j = 0; j < ns; j++)
        {
            h->upd(ctx, in.p + st[j], (uint32_t) ln[j]);
        }
        h->fin(ctx, out.p);
        free(ctx);
    }
    r = cmp_report("digest", exp, out.p, (size_t) hl, what, human);
    xfree(in); xfree(out);
    return r;
}

/* ------------------------------------------------------------------- HMAC */
typedef int32_t (*hm_one_fn)(const uch *, psSize_t, const uch *, uint32_t, uch *, uch *, psSize_t *);
typedef struct
{
    const char *name;
    int halg, ctxsz;
    psCipherType_e type;
    hm_one_fn one;
    int (*init)(void *, const uch *, psSize_t);
    void (*upd)(void *, const uch *, uint32_t);
    void (*fin)(void *, uch *);
} mapi_t;

#define MW(nm, T, I, U, F) \
    static int nm ## _hi(void *c, const uch *k, psSize_t kl) { return I((T *) c, k, kl); } \
    static void nm ## _hu(void *c, const uch *p, uint32_t n) { U((T *) c, p, n); } \
    static void nm ## _hf(void *c, uch *o) { F((T *) c, o); }
MW(hmd5, psHmacMd5_t, psHmacMd5Init, psHmacMd5Update, psHmacMd5Final)
MW(hsha1, psHmacSha1_t, psHmacSha1Init, psHmacSha1Update, psHmacSha1Final)
MW(hsha256, psHmacSha256_t, psHmacSha256Init, psHmacSha256Update, psHmacSha256Final)
MW(hsha384, psHmacSha384_t, psHmacSha384Init, psHmacSha384Update, psHmacSha384Final)

enum { MA_MD5 = 0, MA_SHA1, MA_SHA256, MA_SHA384, MA_N };
static const mapi_t MAPI[MA_N] = {
    { "hmac-md5", H_MD5, sizeof(psHmacMd5_t), HMAC_MD5, psHmacMd5, hmd5_hi, hmd5_hu, hmd5_hf },
    { "hmac-sha1", H_SHA1, sizeof(psHmacSha1_t), HMAC_SHA1, psHmacSha1, hsha1_hi, hsha1_hu, hsha1_hf },
    { "hmac-sha256", H_SHA256, sizeof(psHmacSha256_t), HMAC_SHA256, psHmacSha256, hsha256_hi, hsha256_hu, hsha256_hf },
    { "hmac-sha384", H_SHA384, sizeof(psHmacSha384_t), HMAC_SHA384, psHmacSha384, hsha384_hi, hsha384_hu, hsha384_hf },
};
static const char *hm_api[] = { "oneshot", "pshmac", "stream", "pshmac-stream", "pshmacsingle" };

/* y = api 0 one-shot psHmac<X>, 1 generic psHmac, 2 Init/Update/Final, 3 generic psHmacInit/Update/Final, 4 psHmacSingle;
 * k = key length.  Streaming APIs take keys <= block directly; longer keys are first normalised with the
 * one-shot function (which returns the hashed key), as the library's own callers do. */
static int prim_hmac(const pc_t *pc, char *human, char *what)
{
    const mapi_t *h = &MAPI[pc->g];
    const uch *msg = msg_for(pc);
    int hl = ref_hlen[h->halg], blk = ref_hblock[h->halg], st[MAXSEG], ln[MAXSEG], ns, j, r = 0, rc = 0;
    uch exp[64], nk[64];
    psSize_t nkl = 0;
    xb_t in, out, key, hk;
    const uch *ukey;
    psSize_t ukl;

    snprintf(human, 160, "%s api=%s keylen=%d len=%d part=%d/%d/%d off=%d", h->name, hm_api[pc->y], pc->k, pc->n, pc->m, pc->a, pc->b, pc->i);
    key = xdup(KEYM + (pc->g * 7) % 32, (size_t) pc->k, 0);
    in = xdup(msg, (size_t) pc->n, pc->i);
    out = xout((size_t) hl, pc->o);
    hk = xout((size_t) hl, 0);
    {
        /* 1-entry cache of the reference MAC (partitions of one message repeat it) */
        static int c_g = -1, c_k = -1, c_n = -1;
        static const uch *c_msg;
        static uch c_exp[64];
        if (c_g != pc->g || c_k != pc->k || c_n != pc->n || c_msg != msg)
        {
            ref_hmac(h->halg, key.p, (size_t) pc->k, msg, (size_t) pc->n, c_exp);
            c_g = pc->g; c_k = pc->k; c_n = pc->n; c_msg = msg;
        }
        memcpy(exp, c_exp, 64);
    }
    vhex("key", key.p, (size_t) pc->k);
    vhex("message", in.p, (size_t) pc->n);
    ukey = key.p; ukl = (psSize_t) pc->k;
    if (pc->y >= 2 && pc->k > blk)
    {
        uch tmp[64];
        rc = h->one(key.p, (psSize_t) pc->k, in.p, 0, tmp, hk.p, &nkl);
        if (rc < 0 || nkl != hl)
        {
            snprintf(what, 320, "%s: key normalisation returned rc=%d keylen=%d", human, rc, (int) nkl);
            r = 1;
            goto done;
        }
        ref_digest(h->halg, key.p, (size_t) pc->k, nk);
        if ((r = cmp_report("normalised key", nk, hk.p, (size_t) hl, what, human)) != 0)
        {
            goto done;
        }
        ukey = hk.p; ukl = nkl;
    }
    switch (pc->y)
    {
    case 0:
        rc = h->one(key.p, (psSize_t) pc->k, in.p, (uint32_t) pc->n, out.p, hk.p, &nkl);
        if (rc >= 0 && nkl != (pc->k > blk ? hl : pc->k))
        {
            snprintf(what, 320, "%s: returned hmacKeyLen %d", human, (int) nkl);
            r = 1;
            goto done;
        }
        break;
    case 1:
        rc = psHmac(h->type, key.p, (psSize_t) pc->k, in.p, (uint32_t) pc->n, out.p);
        break;
    case 2:
    {
        void *ctx = malloc((size_t) h->ctxsz);
        memset(ctx, 0xEE, (size_t) h->ctxsz);
        rc = h->init(ctx, ukey, ukl);
        if (rc >= 0)
        {
            ns = segs(pc->n, pc->m, pc->a, pc->b, st, ln);
            for (j = 0; j < ns; j++)
            {
                h->upd(ctx, in.p + st[j], (uint32_t) ln[j]);
            }
            h->fin(ctx, out.p);
        }
        free(ctx);
        break;
    }
    case 3:
    {
        psHmac_t *ctx = malloc(sizeof(psHmac_t));
        memset(ctx, 0xEE, sizeof(*ctx));
        rc = psHmacInit(ctx, h->type, ukey, ukl);
        if (rc >= 0)
        {
            ns = segs(pc->n, pc->m, pc->a, pc->b, st, ln);
            for (j = 0; j < ns; j++)
            {
                psHmacUpdate(ctx, in.p + st[j], (uint32_t) ln[j]);
            }
            psHmacFinal(ctx, out.p);
        }
        free(ctx);
        break;
    }
    default:
    {
        psHmac_t *ctx = malloc(sizeof(psHmac_t));
        memset(ctx, 0xEE, sizeof(*ctx));
        rc = psHmacSingle(ctx, h->type, ukey, ukl, in.p, (psSizeL_t) pc->n, out.p);
        free(ctx);
        break;
    }
    }
    if (rc < 0)
    {
        snprintf(what, 320, "%s: returned error %d for a valid input", human, rc);
        r = 1;
        goto done;
    }
    r = cmp_report("MAC", exp, out.p, (size_t) hl, what, human);
done:
    xfree(in); xfree(out); xfree(key); xfree(hk);
    return r;
}

/* ------------------------------------------------------------------- HKDF */
static const char *hk_op[] = { "extract", "expand", "expandlabel" };
/* y = op.  extract: k = salt length, n = ikm length.
 * expand: n = okm length, k = prk length, x = info length.  expandlabel: n = out length, a = label length, b = context length */
static int prim_hkdf(const pc_t *pc, char *human, char *what)
{
    const mapi_t *h = &MAPI[pc->g];
    int hl = ref_hlen[h->halg], r = 0, rc;
    if (pc->y == 0)
    {
        xb_t salt = xdup(KEYM + 64, (size_t) pc->k, 0), ikm = xdup(msg_for(pc), (size_t) pc->n, pc->i), prk = xout((size_t) hl, pc->o);
        uch exp[64];
        psSize_t pl = 0xffff;
        snprintf(human, 160, "hkdf-%s extract saltlen=%d ikmlen=%d", h->name + 5, pc->k, pc->n);
        vhex("salt", salt.p, (size_t) pc->k);
        vhex("ikm", ikm.p, (size_t) pc->n);
        if (ref_hkdf(h->halg, EVP_KDF_HKDF_MODE_EXTRACT_ONLY, ikm.p, (size_t) pc->n, salt.p, (size_t) pc->k, NULL, 0, exp, (size_t) hl) < 0)
        {
            ref_die("hkdf extract");
        }
        rc = psHkdfExtract(h->type, salt.p, (psSize_t) pc->k, ikm.p, (psSize_t) pc->n, prk.p, &pl);
        if (rc < 0 || pl != hl)
        {
            snprintf(what, 320, "%s: rc=%d prkLen=%d", human, rc, (int) pl);
            r = 1;
        }
        else
        {
            r = cmp_report("PRK", exp, prk.p, (size_t) hl, what, human);
        }
        xfree(salt); xfree(ikm); xfree(prk);
        return r;
    }
    if (pc->y == 1)
    {
        xb_t prk = xdup(KEYM + 128, (size_t) pc->k, 0), info = xdup(msg_for(pc), (size_t) pc->x, pc->i), okm = xout((size_t) pc->n, pc->o);
        uch *exp = malloc((size_t) pc->n + 1);
        int refrc = -1;
        snprintf(human, 160, "hkdf-%s expand prklen=%d infolen=%d okmlen=%d", h->name + 5, pc->k, pc->x, pc->n);
        vhex("prk", prk.p, (size_t) pc->k);
        vhex("info", info.p, (size_t) pc->x);
        rc = psHkdfExpand(h->type, prk.p, (psSize_t) pc->k, info.p, (psSize_t) pc->x, okm.p, (psSize_t) pc->n);
        if (pc->n > 255 * hl)
        {
            /* RFC 5869: L <= 255*HashLen; must be refused */
            if (rc >= 0)
            {
                snprintf(what, 320, "%s: output length above 255*HashLen was not refused (rc=%d)", human, rc);
                r = 1;
            }
            else
            {
                r = 2;
            }
        }
        else if (pc->k < hl || pc->x > 80)
        {
            /* documented limits of this API: PRK shorter than HashLen is PS_ARG_FAIL, info longer than 80 is PS_LIMIT_FAIL;
             * a refusal is correct, an answer must still be the right one */
            if (rc < 0)
            {
                r = 2;
            }
            else if (pc->n > 0 && ref_hkdf(h->halg, EVP_KDF_HKDF_MODE_EXPAND_ONLY, prk.p, (size_t) pc->k, NULL, 0, info.p, (size_t) pc->x, exp, (size_t) pc->n) == 0)
            {
                r = cmp_report("OKM", exp, okm.p, (size_t) pc->n, what, human);
            }
        }
        else if (rc < 0)
        {
            if (pc->n == 0)
            {
                r = 2; /* zero-length output: refusing is acceptable */
            }
            else
            {
                snprintf(what, 320, "%s: returned error %d for parameters inside RFC 5869 and the API's documented limits", human, rc);
                r = 1;
            }
        }
        else if (pc->n > 0)
        {
            refrc = ref_hkdf(h->halg, EVP_KDF_HKDF_MODE_EXPAND_ONLY, prk.p, (size_t) pc->k, NULL, 0, info.p, (size_t) pc->x, exp, (size_t) pc->n);
            if (refrc < 0)
            {
                ref_die("hkdf expand");
            }
            r = cmp_report("OKM", exp, okm.p, (size_t) pc->n, what, human);
        }
        free(exp);
        xfree(prk); xfree(info); xfree(okm);
        return r;
    }
    {
        /* TLS 1.3 HkdfLabel */
        uch info[600], *exp = malloc((size_t) pc->n + 1);
        int il = 0;
        xb_t sec = xdup(KEYM + 192, (size_t) hl, 0), lab = xdup((const uch *) "abcdefghijklmnopqrstuvwxyz0123456789", (size_t) pc->a, 0),
             ctxb = xdup(msg_for(pc), (size_t) pc->b, 0), out = xout((size_t) pc->n, pc->o);
        snprintf(human, 160, "hkdf-%s expandlabel labellen=%d ctxlen=%d outlen=%d", h->name + 5, pc->a, pc->b, pc->n);
        info[il++] = (uch) (pc->n >> 8); info[il++] = (uch) pc->n;
        info[il++] = (uch) (6 + pc->a);
        memcpy(info + il, "tls13 ", 6); il += 6;
        memcpy(info + il, lab.p, (size_t) pc->a); il += pc->a;
        info[il++] = (uch) pc->b;
        memcpy(info + il, ctxb.p, (size_t) pc->b); il += pc->b;
        vhex("secret", sec.p, (size_t) hl);
        vhex("hkdflabel", info, (size_t) il);
        rc = psHkdfExpandLabel(NULL, h->type, sec.p, (psSize_t) hl, (const char *) lab.p, (psSize_t) pc->a, ctxb.p, (psSize_t) pc->b,
                (psSize_t) pc->n, out.p);
        if (rc < 0)
        {
            if (il > 80 || pc->n == 0)
            {
                r = 2; /* documented info limit of psHkdfExpand */
            }
            else
            {
                snprintf(what, 320, "%s: returned error %d", human, rc);
                r = 1;
            }
        }
        else if (pc->n > 0)
        {
            if (ref_hkdf(h->halg, EVP_KDF_HKDF_MODE_EXPAND_ONLY, sec.p, (size_t) hl, NULL, 0, info, (size_t) il, exp, (size_t) pc->n) < 0)
            {
                ref_die("hkdf expandlabel");
            }
            r = cmp_report("output", exp, out.p, (size_t) pc->n, what, human);
        }
        free(exp);
        xfree(sec); xfree(lab); xfree(ctxb); xfree(out);
        return r;
    }
}

/* ----------------------------------------------------------------- PBKDF2 */
/* n = key length, k = password length, x = salt length, y = rounds (HMAC-SHA1 only in this API) */
static int prim_pbkdf2(const pc_t *pc, char *human, char *what)
{
    xb_t pw = xdup(KEYM + 300, (size_t) pc->k, 0), salt = xdup(KEYM + 500, (size_t) pc->x, 0), out = xout((size_t) pc->n, pc->o);
    uch *exp = malloc((size_t) pc->n + 1);
    int r;
    snprintf(human, 160, "pbkdf2-hmac-sha1 pwlen=%d saltlen=%d rounds=%d keylen=%d", pc->k, pc->x, pc->y, pc->n);
    vhex("password", pw.p, (size_t) pc->k);
    vhex("salt", salt.p, (size_t) pc->x);
    ref_pbkdf2_sha1(pw.p, (size_t) pc->k, salt.p, (size_t) pc->x, pc->y, exp, (size_t) pc->n);
    psPkcs5Pbkdf2(pw.p, (uint32) pc->k, salt.p, (uint32) pc->x, pc->y, out.p, (uint32) pc->n);
    r = cmp_report("derived key", exp, out.p, (size_t) pc->n, what, human);
    free(exp);
    xfree(pw); xfree(salt); xfree(out);
    return r;
}

#endif
