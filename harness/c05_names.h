/* c05_names.h - private tables of drv_c05.c (C05: expected-name check).
 * The certificate-side name pool (subjectAltName entries, subject CN variants) and the
 * expected-name grammar.  Every entry carries a short STABLE class tag that violation keys are
 * built from (never indices or raw bytes).  Index order is part of the replay descriptor
 * format: append only. */
#ifndef C05_NAMES_H
#define C05_NAMES_H

enum { K_DNS = 0, K_EMAIL, K_IP, K_URI, K_OTHER, K_NKIND };   /* K_OTHER: otherName, content octets = type-id + [0] value */
static const char *kind_name[K_NKIND] = { "dns", "email", "ip", "uri", "othername" };
static const char kind_letter[K_NKIND] = { 'D', 'E', 'I', 'U', 'O' };
static const unsigned char kind_gntag[K_NKIND] = { 0x82, 0x81, 0x87, 0x86, 0xa0 };

typedef struct {
    int         kind;
    const char *b;       /* raw content octets of the GeneralName */
    int         len;
    const char *tag;     /* stable class tag */
    int         core;    /* member of the sub-pool used for length-3 lists */
} sanent_t;

#define SE(k, lit, tag, core) { k, lit, (int) sizeof(lit) - 1, tag, core }

static char dyn_san[64], dyn_cn[64], dyn_exp[64];   /* part S (byte substitutions): the mutable last slot of each table */
static sanent_t POOL[] = {
    /* ---- dNSName */
    /*  0 */ SE(K_DNS, "www.example.com", "dns-exact", 1),
    /*  1 */ SE(K_DNS, "WWW.Example.COM", "dns-case", 1),
    /*  2 */ SE(K_DNS, "*.example.com", "dns-wild", 1),
    /*  3 */ SE(K_DNS, "*.com", "dns-wild-tld", 0),
    /*  4 */ SE(K_DNS, "*", "dns-wild-bare", 0),
    /*  5 */ SE(K_DNS, "w*.example.com", "dns-wild-partial", 1),
    /*  6 */ SE(K_DNS, "*.*.example.com", "dns-wild-multi", 1),
    /*  7 */ SE(K_DNS, "www.*.com", "dns-wild-inner", 0),
    /*  8 */ SE(K_DNS, "*.www.example.com", "dns-wild-child", 0),
    /*  9 */ SE(K_DNS, "www.example.com\0.evil.org", "dns-embedded-nul", 1),
    /* 10 */ SE(K_DNS, "good\0.evil", "dns-embedded-nul", 0),
    /* 11 */ SE(K_DNS, "www.example.com\n", "dns-ctrl", 0),
    /* 12 */ SE(K_DNS, "www.ex\xe4mple.com", "dns-highbit", 0),
    /* 13 */ SE(K_DNS, "www.example.com.", "dns-trailing-dot", 1),
    /* 14 */ SE(K_DNS, "www.example.com\0", "dns-trailing-nul", 1),
    /* 15 */ SE(K_DNS, "x.example.org\0", "dns-trailing-nul", 1),
    /* 16 */ SE(K_DNS, "*.example.com\0", "dns-wild-trailing-nul", 1),
    /* 17 */ SE(K_DNS, "example.com", "dns-parent", 0),
    /* 18 */ SE(K_DNS, "other.example.org", "dns-other", 1),
    /* 19 */ SE(K_DNS, "a.www.example.com", "dns-child", 0),
    /* 20 */ SE(K_DNS, "www.example.com.evil.org", "dns-suffix-ext", 0),
    /* 21 */ SE(K_DNS, " www.example.com", "dns-leading-space", 0),
    /* 22 */ SE(K_DNS, "10.0.0.1", "dns-ip-literal", 0),
    /* 23 */ SE(K_DNS, "", "dns-empty", 1),
    /* ---- rfc822Name */
    /* 24 */ SE(K_EMAIL, "user@example.com", "email", 1),
    /* 25 */ SE(K_EMAIL, "User@Example.COM", "email-case", 1),
    /* 26 */ SE(K_EMAIL, "user@EXAMPLE.com", "email-hostcase", 0),
    /* 27 */ SE(K_EMAIL, "user@example.com\0", "email-trailing-nul", 1),
    /* 28 */ SE(K_EMAIL, "user@example.com\0.evil.org", "email-embedded-nul", 0),
    /* 29 */ SE(K_EMAIL, "www.example.com", "email-without-at", 1),
    /* ---- iPAddress */
    /* 30 */ SE(K_IP, "\xc0\xa8\x64\x64", "ip4-15char", 1),                 /* 192.168.100.100 */
    /* 31 */ SE(K_IP, "\xc0\xa8\x01\x01", "ip4", 1),                        /* 192.168.1.1 */
    /* 32 */ SE(K_IP, "\x0a\x00\x00\x01", "ip4", 0),                        /* 10.0.0.1 */
    /* 33 */ SE(K_IP, "\xff\xff\xff\xff", "ip4-15char", 0),                 /* 255.255.255.255 */
    /* 34 */ SE(K_IP, "\xc0\xa8\x01\x01\x00\x00\x00\x00\x00\x00\x00\x00\x00\x00\x00\x01", "ip16", 1), /* c0a8:101::1 */
    /* 35 */ SE(K_IP, "\xc0\xa8\x01", "ip-3-bytes", 0),
    /* ---- uniformResourceIdentifier */
    /* 36 */ SE(K_URI, "https://www.example.com/", "uri", 1),
    /* 37 */ SE(K_URI, "www.example.com", "uri-bare-host", 0),
    /* 38 */ SE(K_URI, "https://www.example.com/\0", "uri-trailing-nul", 0),
    /* 39 */ SE(K_DNS, "*.0.0.1", "dns-wild-ip-literal", 0),
    /* ---- otherName: opaque to the matcher, whatever its value contains */
    /* 40: type-id 1.3.6.1.4.1.99999.1, value [0] { [APPLICATION 33] (two-octet identifier 5f 21) of 49 octets: 32 filler
           octets followed by the octets 82 0f "www.example.com" - the encoding of a dNSName, inside the opaque value } */
    /* 40 */ SE(K_OTHER, "\x06\x09\x2b\x06\x01\x04\x01\x86\x8d\x1f\x01\xa0\x34\x5f\x21\x31" "AAAAAAAAAAAAAAAAAAAAAAAAAAAAAAAA" "\x82\x0f" "www.example.com", "othername-hiding-a-dnsname", 0),
    /* 41: a userPrincipalName (1.3.6.1.4.1.311.20.2.3), value [0] { UTF8String "user@example.com" } */
    /* 41 */ SE(K_OTHER, "\x06\x0a\x2b\x06\x01\x04\x01\x82\x37\x14\x02\x03\xa0\x12\x0c\x10" "user@example.com", "othername-upn", 0),
    /* dynamic slot (index NPOOL): never enumerated by the table product */
    { K_DNS, dyn_san, 0, "byte-substituted", 0 },
};
#define NPOOL ((int) (sizeof(POOL) / sizeof(POOL[0])) - 1)
#define DYN_SAN NPOOL

/* subject common name variants; index 0 = no CN attribute (the DN is then just O=MXV) */
typedef struct { const char *b; int len; const char *tag; } cnent_t;
#define CE(lit, tag) { lit, (int) sizeof(lit) - 1, tag }
static cnent_t CNS[] = {
    /* 0 */ { NULL, -1, "cn-none" },
    /* 1 */ CE("www.example.com", "cn-exact"),
    /* 2 */ CE("WWW.EXAMPLE.COM", "cn-case"),
    /* 3 */ CE("*.example.com", "cn-wild"),
    /* 4 */ CE("other.example.org", "cn-other"),
    /* 5 */ CE("192.168.1.1", "cn-ip-literal"),
    /* 6 */ CE("user@example.com", "cn-email"),
    /* 7 */ CE("www.example.com\0.evil.org", "cn-embedded-nul"),
    { dyn_cn, 0, "cn-byte-substituted" },
};
#define NCN ((int) (sizeof(CNS) / sizeof(CNS[0])) - 1)
#define DYN_CN NCN

/* expected names (what the application passes as expectedName) */
typedef struct { const char *s; const char *tag; } expent_t;
static expent_t EXP[] = {
    /* host names */
    /*  0 */ { "www.example.com", "host" },
    /*  1 */ { "WWW.EXAMPLE.COM", "host-case" },
    /*  2 */ { "wWw.eXaMpLe.CoM", "host-case" },
    /*  3 */ { "example.com", "host-parent" },
    /*  4 */ { "a.www.example.com", "host-child" },
    /*  5 */ { "mail.example.com", "host-sibling" },
    /*  6 */ { "MAIL.Example.Com", "host-sibling-case" },
    /*  7 */ { "ww.example.com", "host-sibling" },
    /*  8 */ { "a.b.example.com", "host-two-labels" },
    /*  9 */ { "www.example.com.evil.org", "host-suffix-ext" },
    /* 10 */ { "mail.example.com.evil.org", "host-suffix-ext" },
    /* 11 */ { "evilwww.example.com", "host-prefix-ext" },
    /* 12 */ { "www.example.co", "host-truncated" },
    /* 13 */ { "www.example.comm", "host-extended" },
    /* 14 */ { "xexample.com", "host-no-label-boundary" },
    /* 15 */ { "wxyz.example.com", "host-partial-wild-candidate" },
    /* 16 */ { "www.foo.com", "host-inner-wild-candidate" },
    /* 17 */ { "foo.com", "host-under-tld" },
    /* 18 */ { "com", "host-tld" },
    /* 19 */ { "other.example.org", "host-other" },
    /* 20 */ { "x.example.org", "host-of-trailing-nul-entry" },
    /* 21 */ { "good", "host-nul-truncation" },
    /* 22 */ { "www.example.com.", "host-trailing-dot" },
    /* 23 */ { ".example.com", "host-leading-dot" },
    /* 24 */ { ".com", "host-leading-dot" },
    /* 25 */ { "*.example.com", "literal-wildcard" },
    /* 26 */ { "*.com", "literal-wildcard" },
    /* 27 */ { "*", "literal-star" },
    /* 28 */ { "w*.example.com", "literal-partial-wildcard" },
    /* 29 */ { "www.example.com\n", "host-ctrl" },
    /* 30 */ { " www.example.com", "host-leading-space" },
    /* 31 */ { "", "empty" },
    /* 32 */ { "https://www.example.com/", "uri" },
    /* e-mail addresses */
    /* 33 */ { "user@example.com", "email" },
    /* 34 */ { "USER@example.com", "email-localcase" },
    /* 35 */ { "user@EXAMPLE.COM", "email-hostcase" },
    /* 36 */ { "User@Example.COM", "email-bothcase" },
    /* 37 */ { "user@example.co", "email-truncated" },
    /* 38 */ { "ser@example.com", "email-local-suffix" },
    /* 39 */ { "other@example.com", "email-otherlocal" },
    /* 40 */ { "user@www.example.com", "email-otherhost" },
    /* 41 */ { "user@example.com.evil.org", "email-suffix-ext" },
    /* 42 */ { "@example.com", "email-empty-local" },
    /* IPv4 literals */
    /* 43 */ { "192.168.100.100", "ip-15char" },
    /* 44 */ { "192.168.100.10", "ip-14char-prefix" },
    /* 45 */ { "192.168.100.1", "ip-13char-prefix" },
    /* 46 */ { "255.255.255.255", "ip-15char" },
    /* 47 */ { "255.255.255.25", "ip-14char-prefix" },
    /* 48 */ { "192.168.1.1", "ip" },
    /* 49 */ { "10.0.0.1", "ip" },
    /* 50 */ { "192.168.1.10", "ip-extended" },
    /* 51 */ { "192.168.1", "ip-3-octets" },
    /* 52 */ { "192.168.001.001", "ip-noncanonical" },
    /* 53 */ { "3232235777", "ip-decimal" },
    /* 54 */ { "1.1.168.192", "ip-reversed" },
    /* wildcard siblings in other case */
    /* 55 */ { "A.EXAMPLE.COM", "host-sibling-case" },
    { dyn_exp, "byte-substituted" },
};
#define NEXP ((int) (sizeof(EXP) / sizeof(EXP[0])) - 1)
#define DYN_EXP NEXP

/* (nameType, mFlags) combinations that are enumerated */
#define MF_CN  VCERTS_MFLAG_ALWAYS_CHECK_SUBJECT_CN
#define MF_CI  VCERTS_MFLAG_SAN_EMAIL_CASE_INSENSITIVE_LOCAL_PART
typedef struct { int type; unsigned mflags; const char *name; } combo_t;
static const combo_t COMBO[] = {
    { NAME_TYPE_ANY, 0, "ANY" },
    { NAME_TYPE_ANY, MF_CI, "ANY+ci" },
    { NAME_TYPE_ANY, MF_CN, "ANY+cn" },
    { NAME_TYPE_ANY, MF_CN | MF_CI, "ANY+cn+ci" },
    { NAME_TYPE_HOSTNAME, 0, "HOSTNAME" },
    { NAME_TYPE_HOSTNAME, MF_CN, "HOSTNAME+cn" },
    { NAME_TYPE_CN, 0, "CN" },
    { NAME_TYPE_CN, MF_CN, "CN+cn" },
    { NAME_TYPE_SAN_DNS, 0, "SAN_DNS" },
    { NAME_TYPE_SAN_EMAIL, 0, "SAN_EMAIL" },
    { NAME_TYPE_SAN_EMAIL, MF_CI, "SAN_EMAIL+ci" },
    { NAME_TYPE_SAN_IP_ADDRESS, 0, "SAN_IP" },
};
#define NCOMBO ((int) (sizeof(COMBO) / sizeof(COMBO[0])))

#endif
