/* c09_mut.h - deterministic, index-addressable input mutations for drv_c09:
 * small DER TLV walker, DER-structure-aware edits, PEM-aware edits, base64. */
#ifndef C09_MUT_H
#define C09_MUT_H
#include <stdint.h>
#include <stddef.h>
#include <string.h>
#include <stdio.h>

#define C09_OUTMAX (1u << 20)
#define C09_MAXNODES 1500

typedef struct { unsigned char *p; size_t len; } mbuf_t;

static void mb_reset(mbuf_t *b) { b->len = 0; }
static void mb_add(mbuf_t *b, const void *p, size_t n)
{
    if (b->len + n > C09_OUTMAX)
    {
        n = C09_OUTMAX - b->len;
    }
    memcpy(b->p + b->len, p, n);
    b->len += n;
}
static void mb_addc(mbuf_t *b, int c) { unsigned char x = (unsigned char) c; mb_add(b, &x, 1); }
static void mb_adds(mbuf_t *b, const char *s) { mb_add(b, s, strlen(s)); }

/* ------------------------------------------------------------------ base64 */
static int b64val(int c)
{
    if (c >= 'A' && c <= 'Z') return c - 'A';
    if (c >= 'a' && c <= 'z') return c - 'a' + 26;
    if (c >= '0' && c <= '9') return c - '0' + 52;
    if (c == '+') return 62;
    if (c == '/') return 63;
    return -1;
}
/* decode ignoring everything that is not in the alphabet; returns length */
static size_t b64dec(const unsigned char *in, size_t n, unsigned char *out)
{
    size_t i, o = 0;
    unsigned acc = 0;
    int bits = 0;
    for (i = 0; i < n; i++)
    {
        int v = b64val(in[i]);
        if (in[i] == '=')
        {
            break;
        }
        if (v < 0)
        {
            continue;
        }
        acc = (acc << 6) | (unsigned) v;
        bits += 6;
        if (bits >= 8)
        {
            bits -= 8;
            out[o++] = (unsigned char) (acc >> bits);
        }
    }
    return o;
}
static void b64enc(mbuf_t *b, const unsigned char *in, size_t n, int linelen)
{
    static const char A[] = "ABCDEFGHIJKLMNOPQRSTUVWXYZabcdefghijklmnopqrstuvwxyz0123456789+/";
    size_t i;
    int col = 0;
    for (i = 0; i < n; i += 3)
    {
        unsigned v = (unsigned) in[i] << 16;
        char q[4];
        if (i + 1 < n) v |= (unsigned) in[i + 1] << 8;
        if (i + 2 < n) v |= in[i + 2];
        q[0] = A[(v >> 18) & 63];
        q[1] = A[(v >> 12) & 63];
        q[2] = i + 1 < n ? A[(v >> 6) & 63] : '=';
        q[3] = i + 2 < n ? A[v & 63] : '=';
        mb_add(b, q, 4);
        col += 4;
        if (linelen && col >= linelen)
        {
            mb_addc(b, '\n');
            col = 0;
        }
    }
    if (col)
    {
        mb_addc(b, '\n');
    }
}

/* ------------------------------------------------------------- DER walker */
typedef struct {
    uint32_t off;     /* offset of the tag byte */
    uint32_t hl;      /* header length (tag + length octets) */
    uint32_t len;     /* content length */
    int16_t  parent;  /* -1 for top level */
    uint8_t  tag;
    uint8_t  depth;
} dnode_t;

typedef struct { dnode_t n[C09_MAXNODES]; int count; } dtree_t;

/* parse one TLV header at p[0..avail); returns 0 ok */
static int der_hdr(const unsigned char *p, size_t avail, uint32_t *hl, uint32_t *len)
{
    size_t k, nb;
    if (avail < 2 || (p[0] & 0x1f) == 0x1f)
    {
        return -1;
    }
    if (p[1] < 0x80)
    {
        *hl = 2;
        *len = p[1];
    }
    else
    {
        nb = p[1] & 0x7f;
        if (nb == 0 || nb > 3 || avail < 2 + nb)
        {
            return -1;
        }
        *len = 0;
        for (k = 0; k < nb; k++)
        {
            *len = (*len << 8) | p[2 + k];
        }
        *hl = (uint32_t) (2 + nb);
    }
    if ((size_t) *hl + *len > avail)
    {
        return -1;
    }
    return 0;
}

/* does [off,off+len) consist of >= 1 well-formed TLVs exactly filling it? */
static int der_fills(const unsigned char *b, size_t off, size_t len)
{
    size_t pos = off, end = off + len;
    int n = 0;
    while (pos < end)
    {
        uint32_t hl, l;
        if (der_hdr(b + pos, end - pos, &hl, &l) < 0 || b[pos] == 0)
        {
            return 0;
        }
        pos += hl + l;
        n++;
    }
    return n > 0 && pos == end;
}

static void der_walk_range(dtree_t *t, const unsigned char *b, size_t off, size_t len, int parent, int depth)
{
    size_t pos = off, end = off + len;
    while (pos < end && t->count < C09_MAXNODES)
    {
        uint32_t hl, l;
        int me;
        dnode_t *n;
        if (der_hdr(b + pos, end - pos, &hl, &l) < 0)
        {
            return;
        }
        me = t->count++;
        n = &t->n[me];
        n->off = (uint32_t) pos;
        n->hl = hl;
        n->len = l;
        n->parent = (int16_t) parent;
        n->tag = b[pos];
        n->depth = (uint8_t) depth;
        if (depth < 40)
        {
            if (b[pos] & 0x20)
            {
                der_walk_range(t, b, pos + hl, l, me, depth + 1);
            }
            else if (b[pos] == 0x04 && l >= 2 && der_fills(b, pos + hl, l))
            {
                der_walk_range(t, b, pos + hl, l, me, depth + 1);
            }
            else if (b[pos] == 0x03 && l >= 3 && b[pos + hl] == 0 && der_fills(b, pos + hl + 1, l - 1))
            {
                der_walk_range(t, b, pos + hl + 1, l - 1, me, depth + 1);
            }
        }
        pos += hl + l;
    }
}

static void der_walk(dtree_t *t, const unsigned char *b, size_t len)
{
    t->count = 0;
    der_walk_range(t, b, 0, len, -1, 0);
}

static size_t der_enc_len(unsigned char *o, size_t n)
{
    if (n < 0x80)
    {
        o[0] = (unsigned char) n;
        return 1;
    }
    if (n < 0x100)
    {
        o[0] = 0x81; o[1] = (unsigned char) n;
        return 2;
    }
    if (n < 0x10000)
    {
        o[0] = 0x82; o[1] = (unsigned char) (n >> 8); o[2] = (unsigned char) n;
        return 3;
    }
    if (n < 0x1000000)
    {
        o[0] = 0x83; o[1] = (unsigned char) (n >> 16); o[2] = (unsigned char) (n >> 8); o[3] = (unsigned char) n;
        return 4;
    }
    o[0] = 0x84; o[1] = (unsigned char) (n >> 24); o[2] = (unsigned char) (n >> 16); o[3] = (unsigned char) (n >> 8); o[4] = (unsigned char) n;
    return 5;
}

/* Replace the whole TLV of node k by rep[0..replen) and re-encode the length
 * of every ancestor so that the rest of the structure stays well formed. */
static void der_replace_fix(const dtree_t *t, const unsigned char *b, size_t blen, int k,
    const unsigned char *rep, size_t replen, mbuf_t *out, unsigned char *tmpa, unsigned char *tmpb)
{
    const dnode_t *c = &t->n[k];
    unsigned char *cur = tmpa, *nxt = tmpb, *sw;
    size_t curlen = replen;
    size_t child_off = c->off, child_end = (size_t) c->off + c->hl + c->len;
    int a = c->parent;
    if (replen > C09_OUTMAX / 2)
    {
        replen = curlen = C09_OUTMAX / 2;
    }
    memcpy(cur, rep, replen);
    while (a >= 0)
    {
        const dnode_t *an = &t->n[a];
        size_t cs = (size_t) an->off + an->hl, ce = cs + an->len;
        size_t newc = (child_off - cs) + curlen + (ce - child_end);
        size_t o = 0;
        if (newc + 8 > C09_OUTMAX / 2)
        {
            break;
        }
        nxt[o++] = an->tag;
        o += der_enc_len(nxt + o, newc);
        memcpy(nxt + o, b + cs, child_off - cs); o += child_off - cs;
        memcpy(nxt + o, cur, curlen); o += curlen;
        memcpy(nxt + o, b + child_end, ce - child_end); o += ce - child_end;
        sw = cur; cur = nxt; nxt = sw;
        curlen = o;
        child_off = an->off;
        child_end = ce;
        a = an->parent;
    }
    mb_reset(out);
    mb_add(out, b, child_off);
    mb_add(out, cur, curlen);
    mb_add(out, b + child_end, blen - child_end);
}

/* ---- DER ops per node */
enum { DOP_LEN0 = 0, DOP_NLEN = 18, DOP_TAG0 = DOP_NLEN, DOP_NTAG = 16, DOP_DEL = DOP_TAG0 + DOP_NTAG, DOP_DUP, DOP_NEST0,
       DOP_NNEST = 5, DOP_INT0 = DOP_NEST0 + DOP_NNEST, DOP_NINT = 6, DOP_REP0 = DOP_INT0 + DOP_NINT, DOP_NREP = 8,
       /* structure-aware truncation: DOP_CUT_SIBLINGS drops every later sibling of the node inside its parent; DOP_CUT_ALL drops
          everything that follows the node in the whole document (every ancestor then ends with this node); all enclosing lengths
          are re-encoded, so the result is a well-formed encoding in which trailing OPTIONAL parts are simply absent */
       DOP_CUT_SIBLINGS = DOP_REP0 + DOP_NREP, DOP_CUT_ALL, DOP_PER_NODE };
static const int der_rep_count[DOP_NREP] = { 3, 4, 5, 9, 17, 33, 65, 257 };   /* element repeated that many times: fixed-size tables of 2^k (+1) entries in a parser */
static const unsigned char der_tag_alphabet[DOP_NTAG] = { 0x02, 0x03, 0x04, 0x05, 0x06, 0x0c, 0x13, 0x16, 0x17, 0x18, 0x30, 0x31, 0xa0, 0xa3, 0x80, 0x82 };
static const int der_nest_depth[DOP_NNEST] = { 1, 2, 4, 16, 64 };
static const char *der_len_name[DOP_NLEN] = { "0", "1", "n-1", "n+1", "0x7f", "0x80-indef", "0x81-n", "0x82-n", "0x84-n", "0x82-ffff",
    "0x83-010000", "0x84-ffffffff", "0x84-7fffffff", "0x84-80000000", "0x85-5bytes", "0x88-8bytes", "0xff", "0x83-n" };

/* build DER mutation (node k, op) of seed b into out; returns 0 if not applicable; cls/detail filled */
static int der_mutate(const dtree_t *t, const unsigned char *b, size_t blen, int k, int op, mbuf_t *out,
    unsigned char *tmpa, unsigned char *tmpb, unsigned char *tmpc, const char **cls, char *detail, size_t dn)
{
    const dnode_t *c = &t->n[k];
    const unsigned char *content = b + c->off + c->hl;
    size_t n = c->len, o = 0;
    unsigned char *rep = tmpc;
    if (n + 600 > C09_OUTMAX / 2)
    {
        return 0;
    }
    if (op < DOP_NLEN)
    {
        unsigned char lf[10];
        size_t ll = 0;
        *cls = "der-len";
        switch (op)
        {
        case 0: ll = der_enc_len(lf, 0); break;
        case 1: ll = der_enc_len(lf, 1); break;
        case 2: if (n == 0) return 0; ll = der_enc_len(lf, n - 1); break;
        case 3: ll = der_enc_len(lf, n + 1); break;
        case 4: lf[0] = 0x7f; ll = 1; break;
        case 5: lf[0] = 0x80; ll = 1; break;
        case 6: lf[0] = 0x81; lf[1] = (unsigned char) n; ll = 2; break;
        case 7: lf[0] = 0x82; lf[1] = (unsigned char) (n >> 8); lf[2] = (unsigned char) n; ll = 3; break;
        case 8: lf[0] = 0x84; lf[1] = 0; lf[2] = (unsigned char) (n >> 16); lf[3] = (unsigned char) (n >> 8); lf[4] = (unsigned char) n; ll = 5; break;
        case 9: lf[0] = 0x82; lf[1] = 0xff; lf[2] = 0xff; ll = 3; break;
        case 10: lf[0] = 0x83; lf[1] = 1; lf[2] = 0; lf[3] = 0; ll = 4; break;
        case 11: lf[0] = 0x84; lf[1] = lf[2] = lf[3] = lf[4] = 0xff; ll = 5; break;
        case 12: lf[0] = 0x84; lf[1] = 0x7f; lf[2] = lf[3] = lf[4] = 0xff; ll = 5; break;
        case 13: lf[0] = 0x84; lf[1] = 0x80; lf[2] = lf[3] = lf[4] = 0; ll = 5; break;
        case 14: lf[0] = 0x85; lf[1] = 0; lf[2] = 0; lf[3] = 0; lf[4] = (unsigned char) (n >> 8); lf[5] = (unsigned char) n; ll = 6; break;
        case 15: lf[0] = 0x88; memset(lf + 1, 0, 8); lf[7] = (unsigned char) (n >> 8); lf[8] = (unsigned char) n; ll = 9; break;
        case 16: lf[0] = 0xff; ll = 1; break;
        case 17: lf[0] = 0x83; lf[1] = (unsigned char) (n >> 16); lf[2] = (unsigned char) (n >> 8); lf[3] = (unsigned char) n; ll = 4; break;
        }
        rep[o++] = c->tag;
        memcpy(rep + o, lf, ll); o += ll;
        memcpy(rep + o, content, n); o += n;
        snprintf(detail, dn, "node=%d tag=%02x off=%u n=%u len:=%s", k, c->tag, c->off, c->len, der_len_name[op]);
        if (ll == c->hl - 1)
        {
            /* same size: plain in-place replacement, ancestors untouched */
            mb_reset(out);
            mb_add(out, b, c->off);
            mb_add(out, rep, o);
            mb_add(out, b + c->off + c->hl + n, blen - (c->off + c->hl + n));
            return 1;
        }
        der_replace_fix(t, b, blen, k, rep, o, out, tmpa, tmpb);
        return 1;
    }
    if (op < DOP_TAG0 + DOP_NTAG)
    {
        unsigned char nt = der_tag_alphabet[op - DOP_TAG0];
        *cls = "der-tag";
        if (nt == c->tag)
        {
            return 0;
        }
        mb_reset(out);
        mb_add(out, b, blen);
        out->p[c->off] = nt;
        snprintf(detail, dn, "node=%d tag=%02x off=%u n=%u tag:=%02x", k, c->tag, c->off, c->len, nt);
        return 1;
    }
    if (op == DOP_DEL)
    {
        *cls = "der-del";
        der_replace_fix(t, b, blen, k, rep, 0, out, tmpa, tmpb);
        snprintf(detail, dn, "node=%d tag=%02x off=%u n=%u deleted", k, c->tag, c->off, c->len);
        return 1;
    }
    if (op == DOP_DUP)
    {
        *cls = "der-dup";
        memcpy(rep, b + c->off, c->hl + n);
        memcpy(rep + c->hl + n, b + c->off, c->hl + n);
        der_replace_fix(t, b, blen, k, rep, 2 * (c->hl + n), out, tmpa, tmpb);
        snprintf(detail, dn, "node=%d tag=%02x off=%u n=%u duplicated", k, c->tag, c->off, c->len);
        return 1;
    }
    if (op == DOP_CUT_SIBLINGS || op == DOP_CUT_ALL)
    {
        int cur = k, levels = 0;
        size_t curlen = c->hl + n;
        unsigned char *alt = tmpa;      /* ping-pong between tmpc (rep) and tmpa */
        unsigned char *src = rep, *dst = alt;
        *cls = op == DOP_CUT_ALL ? "der-cut-all" : "der-cut-siblings";
        if (c->parent < 0)
        {
            return 0;
        }
        {
            const dnode_t *pp = &t->n[c->parent];
            if (c->off + c->hl + n == pp->off + pp->hl + pp->len && op == DOP_CUT_SIBLINGS)
            {
                return 0;    /* already the last child */
            }
        }
        memcpy(src, b + c->off, curlen);
        while (t->n[cur].parent >= 0)
        {
            const dnode_t *P = &t->n[t->n[cur].parent];
            size_t pre = t->n[cur].off - (P->off + P->hl), o2 = 0;
            if (pre + curlen + 16 > C09_OUTMAX / 2)
            {
                return 0;
            }
            dst[o2++] = P->tag;
            o2 += der_enc_len(dst + o2, pre + curlen);
            memcpy(dst + o2, b + P->off + P->hl, pre); o2 += pre;
            memcpy(dst + o2, src, curlen); o2 += curlen;
            curlen = o2;
            cur = t->n[cur].parent;
            levels++;
            { unsigned char *x = src; src = dst; dst = x; }
            if (op == DOP_CUT_SIBLINGS)
            {
                break;
            }
        }
        snprintf(detail, dn, "node=%d tag=%02x off=%u n=%u %s", k, c->tag, c->off, c->len, op == DOP_CUT_ALL ? "everything behind it dropped" : "later siblings dropped");
        if (op == DOP_CUT_SIBLINGS)
        {
            /* src holds the re-encoded parent: put it in place of the parent, fixing the ancestors above */
            if (src != rep)
            {
                memcpy(rep, src, curlen);
            }
            der_replace_fix(t, b, blen, cur, rep, curlen, out, tmpa, tmpb);
            return 1;
        }
        mb_reset(out);
        mb_add(out, b, t->n[cur].off);
        mb_add(out, src, curlen);
        return 1;
    }
    if (op >= DOP_REP0)
    {
        int cnt = der_rep_count[op - DOP_REP0], i;
        *cls = "der-repeat";
        if ((size_t) cnt * (c->hl + n) + 600 > C09_OUTMAX / 2 || c->parent < 0)
        {
            return 0;
        }
        for (i = 0; i < cnt; i++)
        {
            memcpy(rep + o, b + c->off, c->hl + n);
            o += c->hl + n;
        }
        der_replace_fix(t, b, blen, k, rep, o, out, tmpa, tmpb);
        snprintf(detail, dn, "node=%d tag=%02x off=%u n=%u repeated %d times", k, c->tag, c->off, c->len, cnt);
        return 1;
    }
    if (op < DOP_NEST0 + DOP_NNEST)
    {
        int d = der_nest_depth[op - DOP_NEST0], i;
        size_t inner = c->hl + n, hdrs = 0;
        unsigned char hdr[64][6];
        size_t hlen[64];
        *cls = "der-nest";
        /* wrap the node d times in a header with its own tag (constructed bit forced so that parsers descend) */
        for (i = 0; i < d; i++)
        {
            hdr[i][0] = (c->tag == 0x04 || c->tag == 0x03) ? c->tag : (unsigned char) (c->tag | 0x20);
            hlen[i] = 1 + der_enc_len(hdr[i] + 1, inner);
            inner += hlen[i];
            hdrs += hlen[i];
        }
        for (i = d - 1; i >= 0; i--)
        {
            memcpy(rep + o, hdr[i], hlen[i]);
            o += hlen[i];
        }
        memcpy(rep + o, b + c->off, c->hl + n);
        o += c->hl + n;
        der_replace_fix(t, b, blen, k, rep, o, out, tmpa, tmpb);
        snprintf(detail, dn, "node=%d tag=%02x off=%u n=%u nested depth %d", k, c->tag, c->off, c->len, d);
        return 1;
    }
    {
        static const unsigned char iv[DOP_NINT][6] = { { 1, 0x00 }, { 1, 0xff }, { 4, 0x7f, 0xff, 0xff, 0xff }, { 4, 0x80, 0, 0, 0 },
            { 5, 0x00, 0xff, 0xff, 0xff, 0xff }, { 3, 0x01, 0x00, 0x00 } };
        const unsigned char *v = iv[op - DOP_INT0];
        *cls = "der-int";
        if (c->tag != 0x02 || n > 8)
        {
            return 0;
        }
        rep[o++] = 0x02;
        rep[o++] = v[0];
        memcpy(rep + o, v + 1, v[0]); o += v[0];
        der_replace_fix(t, b, blen, k, rep, o, out, tmpa, tmpb);
        snprintf(detail, dn, "node=%d INTEGER off=%u n=%u value:=%02x%02x%02x%02x%02x (%u bytes)", k, c->off, c->len,
            v[1], v[0] > 1 ? v[2] : 0, v[0] > 2 ? v[3] : 0, v[0] > 3 ? v[4] : 0, v[0] > 4 ? v[5] : 0, v[0]);
        return 1;
    }
}

/* -------------------------------------------------------------- PEM edits */
typedef struct {
    size_t hdr0, hdr1;   /* "-----BEGIN xxx-----" [hdr0,hdr1) of the LAST block (the key / first cert is what parsers look for; for files with
                            a leading EC PARAMETERS block the interesting block is the last one) */
    size_t lab0, lab1;   /* label inside the header */
    size_t body0, body1; /* base64 body (after optional Proc-Type headers) */
    size_t ftr0, ftr1;   /* "-----END xxx-----" */
    size_t flab0, flab1;
    size_t meta0, meta1; /* Proc-Type/DEK-Info lines (may be empty: meta0 == meta1 == body0) */
    int ok;
} pemloc_t;

static size_t find_sub(const unsigned char *b, size_t from, size_t len, const char *s)
{
    size_t n = strlen(s), i;
    for (i = from; i + n <= len; i++)
    {
        if (!memcmp(b + i, s, n))
        {
            return i;
        }
    }
    return (size_t) -1;
}

static void pem_locate(const unsigned char *b, size_t len, pemloc_t *L)
{
    size_t pos = 0, h, last = (size_t) -1, e, x;
    memset(L, 0, sizeof(*L));
    while ((h = find_sub(b, pos, len, "-----BEGIN ")) != (size_t) -1)
    {
        last = h;
        pos = h + 11;
    }
    if (last == (size_t) -1)
    {
        return;
    }
    L->hdr0 = last;
    L->lab0 = last + 11;
    e = find_sub(b, L->lab0, len, "-----");
    if (e == (size_t) -1)
    {
        return;
    }
    L->lab1 = e;
    L->hdr1 = e + 5;
    x = L->hdr1;
    while (x < len && (b[x] == '\r' || b[x] == '\n'))
    {
        x++;
    }
    L->meta0 = x;
    /* header lines "Key: value" up to an empty line */
    if (find_sub(b, x, len, "Proc-Type:") == x)
    {
        size_t bl = find_sub(b, x, len, "\n\n");
        size_t bl2 = find_sub(b, x, len, "\r\n\r\n");
        if (bl2 != (size_t) -1 && (bl == (size_t) -1 || bl2 < bl))
        {
            x = bl2 + 4;
        }
        else if (bl != (size_t) -1)
        {
            x = bl + 2;
        }
    }
    L->meta1 = x;
    L->body0 = x;
    e = find_sub(b, x, len, "-----END ");
    if (e == (size_t) -1)
    {
        return;
    }
    L->body1 = e;
    L->ftr0 = e;
    L->flab0 = e + 9;
    x = find_sub(b, L->flab0, len, "-----");
    if (x == (size_t) -1)
    {
        return;
    }
    L->flab1 = x;
    L->ftr1 = x + 5;
    L->ok = 1;
}

static const char *pem_labels[] = { "CERTIFICATE", "RSA PRIVATE KEY", "EC PRIVATE KEY", "PRIVATE KEY", "ENCRYPTED PRIVATE KEY", "PUBLIC KEY",
    "RSA PUBLIC KEY", "X509 CRL", "DH PARAMETERS", "", "FOO", "PRIVATE KEY-----\n-----BEGIN CERTIFICATE" };
#define PEM_NLABELS 12
static const char *pem_meta[] = {
    "Proc-Type: 4,ENCRYPTED\n\n",
    "Proc-Type: 4,ENCRYPTED\nDEK-Info: DES-EDE3-CBC,0123456789ABCDEF\n\n",
    "Proc-Type: 4,ENCRYPTED\nDEK-Info: DES-EDE3-CBC,0123456789ABCDE\n\n",
    "Proc-Type: 4,ENCRYPTED\nDEK-Info: DES-EDE3-CBC,\n\n",
    "Proc-Type: 4,ENCRYPTED\nDEK-Info: DES-EDE3-CBC,0123456789ABCDEG\n\n",
    "Proc-Type: 4,ENCRYPTED\nDEK-Info: DES-EDE3-CBC,0123456789abcdef\n\n",
    "Proc-Type: 4,ENCRYPTED\nDEK-Info: DES-EDE3-CBC,0123456789ABCDEF0123456789ABCDEF0123456789ABCDEF0123456789ABCDEF\n\n",
    "Proc-Type: 4,ENCRYPTED\nDEK-Info: AES-128-CBC,0123456789ABCDEF0123456789ABCDEF\n\n",
    "Proc-Type: 4,ENCRYPTED\nDEK-Info: AES-128-CBC,0123456789ABCDEF0123456789ABCDE\n\n",
    "Proc-Type: 4,ENCRYPTED\nDEK-Info: AES-128-CBC,0123456789ABCDEF\n\n",
    "Proc-Type: 4,ENCRYPTED\nDEK-Info: AES-128-CBC,\n\n",
    "Proc-Type: 4,ENCRYPTED\nDEK-Info: AES-256-CBC,0123456789ABCDEF0123456789ABCDEF\n\n",
    "Proc-Type: 4,ENCRYPTED\nDEK-Info: DES-CBC,0123456789ABCDEF\n\n",
    "Proc-Type: 4,ENCRYPTED\nDEK-Info: des-ede3-cbc,0123456789ABCDEF\n\n",
    "Proc-Type: 4,MIC-ONLY\nDEK-Info: DES-EDE3-CBC,0123456789ABCDEF\n\n",
    "DEK-Info: DES-EDE3-CBC,0123456789ABCDEF\n\n",
    "Proc-Type: 4,ENCRYPTED\nDEK-Info: DES-EDE3-CBC,0123456789ABCDEF",      /* no blank line: IV runs into the body */
    "Proc-Type: 4,ENCRYPTED\r\nDEK-Info: DES-EDE3-CBC,0123456789ABCDEF\r\n\r\n",
};
#define PEM_NMETA 18
static const unsigned char pem_badchars[] = { '*', 0x01, 0x80, 0xff, ' ', '\t', '=', '-', 0x00 };
#define PEM_NBAD 9
#define PEM_NPOS 5

enum { PE_LABEL0 = 0, PE_NLABEL = PEM_NLABELS * 3, PE_META0 = PE_LABEL0 + PE_NLABEL, PE_NMETA_ALL = PEM_NMETA * 3,
       PE_BAD0 = PE_META0 + PE_NMETA_ALL, PE_NBADALL = PEM_NBAD * PEM_NPOS, PE_MISC0 = PE_BAD0 + PE_NBADALL, PE_NMISC = 40,
       PE_ENCBODY0 = PE_MISC0 + PE_NMISC, PE_NENCBODY = 4 * 12, PEM_NEDITS = PE_ENCBODY0 + PE_NENCBODY };

/* build PEM edit idx of text seed b; returns 0 when not applicable */
static int pem_mutate(const unsigned char *b, size_t len, const pemloc_t *L, int idx, mbuf_t *out, const char **cls, char *detail, size_t dn)
{
    size_t i, bl;
    if (!L->ok)
    {
        return 0;
    }
    bl = L->body1 - L->body0;
    mb_reset(out);
    if (idx < PE_LABEL0 + PE_NLABEL)
    {
        int li = idx % PEM_NLABELS, where = idx / PEM_NLABELS; /* 0 header, 1 footer, 2 both */
        *cls = "pem-label";
        mb_add(out, b, L->lab0);
        if (where != 1) mb_adds(out, pem_labels[li]); else mb_add(out, b + L->lab0, L->lab1 - L->lab0);
        mb_add(out, b + L->lab1, L->flab0 - L->lab1);
        if (where != 0) mb_adds(out, pem_labels[li]); else mb_add(out, b + L->flab0, L->flab1 - L->flab0);
        mb_add(out, b + L->flab1, len - L->flab1);
        snprintf(detail, dn, "label '%s' in %s", li == 11 ? "<two headers>" : pem_labels[li], where == 0 ? "header" : where == 1 ? "footer" : "both");
        return 1;
    }
    if (idx < PE_META0 + PE_NMETA_ALL)
    {
        int mi = (idx - PE_META0) % PEM_NMETA, where = (idx - PE_META0) / PEM_NMETA; /* 0 normal place, 1 after footer, 2 normal place and text ends right after it */
        *cls = "pem-dekinfo";
        if (where == 0)
        {
            mb_add(out, b, L->meta0);
            mb_adds(out, pem_meta[mi]);
            mb_add(out, b + L->body0, len - L->body0);
        }
        else if (where == 1)
        {
            mb_add(out, b, L->meta0);
            mb_add(out, b + L->body0, len - L->body0);
            mb_adds(out, pem_meta[mi]);
        }
        else
        {
            /* whole text, then the encryption header as the very last bytes (the decoder looks for it anywhere with strstr) */
            size_t ml = strlen(pem_meta[mi]);
            mb_add(out, b, len);
            while (ml > 0 && (pem_meta[mi][ml - 1] == '\n' || pem_meta[mi][ml - 1] == '\r'))
            {
                ml--;
            }
            mb_add(out, pem_meta[mi], ml);
        }
        snprintf(detail, dn, "encryption header variant %d %s", mi, where == 0 ? "before body" : where == 1 ? "after footer" : "as last bytes of input");
        return 1;
    }
    if (idx < PE_BAD0 + PE_NBADALL)
    {
        int ci = (idx - PE_BAD0) % PEM_NBAD, pi = (idx - PE_BAD0) / PEM_NBAD;
        size_t at;
        *cls = "pem-b64char";
        if (bl < 8)
        {
            return 0;
        }
        at = pi == 0 ? 0 : pi == 1 ? 1 : pi == 2 ? bl / 2 : pi == 3 ? bl - 3 : bl - 1;
        mb_add(out, b, L->body0 + at);
        mb_addc(out, pem_badchars[ci]);
        mb_add(out, b + L->body0 + at, len - (L->body0 + at));
        snprintf(detail, dn, "byte %02x inserted at body offset %zu of %zu", pem_badchars[ci], at, bl);
        return 1;
    }
    if (idx >= PE_ENCBODY0)
    {
        /* encryption header x ciphertext size: the body is replaced by the base64 of N bytes, N around the block sizes of
           the cipher the header names (a ciphertext that is not a whole number of blocks, shorter than one block, empty) */
        static const char *hd[4] = {
            "Proc-Type: 4,ENCRYPTED\nDEK-Info: DES-EDE3-CBC,0123456789ABCDEF\n\n",
            "Proc-Type: 4,ENCRYPTED\nDEK-Info: AES-128-CBC,0123456789ABCDEF0123456789ABCDEF\n\n",
            "Proc-Type: 4,ENCRYPTED\nDEK-Info: AES-256-CBC,0123456789ABCDEF0123456789ABCDEF\n\n",
            "Proc-Type: 4,ENCRYPTED\nDEK-Info: AES-128-CBC,0123456789ABCDEF0123456789ABCDEF\n",   /* no blank line */
        };
        static const int sizes[12] = { 0, 1, 4, 7, 8, 9, 15, 16, 17, 24, 32, 40 };
        int hi = (idx - PE_ENCBODY0) / 12, n = sizes[(idx - PE_ENCBODY0) % 12];
        unsigned char raw[40];
        *cls = "pem-encrypted-body-size";
        for (i = 0; i < (size_t) n; i++) raw[i] = (unsigned char) (0x11 * (i + 1));
        mb_add(out, b, L->meta0);
        mb_adds(out, hd[hi]);
        if (n > 0) b64enc(out, raw, (size_t) n, 64);
        mb_addc(out, '\n');
        mb_add(out, b + L->ftr0, len - L->ftr0);
        snprintf(detail, dn, "encryption header %d with a body of %d bytes", hi, n);
        return 1;
    }
    *cls = "pem-misc";
    switch (idx - PE_MISC0)
    {
    case 0: /* 4 dashes in header */
        mb_add(out, b, L->hdr0); mb_add(out, b + L->hdr0 + 1, len - L->hdr0 - 1);
        snprintf(detail, dn, "header with 4 leading dashes"); return 1;
    case 1:
        mb_add(out, b, L->hdr0); mb_addc(out, '-'); mb_add(out, b + L->hdr0, len - L->hdr0);
        snprintf(detail, dn, "header with 6 leading dashes"); return 1;
    case 2:
        mb_add(out, b, L->lab1); mb_add(out, b + L->hdr1, len - L->hdr1);
        snprintf(detail, dn, "header without trailing dashes"); return 1;
    case 3:
        mb_add(out, b, L->hdr0 + 5); mb_adds(out, "begin"); mb_add(out, b + L->hdr0 + 10, len - L->hdr0 - 10);
        snprintf(detail, dn, "lower-case begin"); return 1;
    case 4:
        mb_add(out, b, L->hdr1); mb_add(out, b + L->meta0, len - L->meta0);
        snprintf(detail, dn, "no newline after header"); return 1;
    case 5:
        for (i = 0; i < len; i++) { if (b[i] == '\n' && (i == 0 || b[i - 1] != '\r')) mb_addc(out, '\r'); mb_addc(out, b[i]); }
        snprintf(detail, dn, "CRLF line endings"); return 1;
    case 6:
        for (i = 0; i < len; i++) { if (b[i] != '\n' && b[i] != '\r') mb_addc(out, b[i]); }
        snprintf(detail, dn, "all newlines removed"); return 1;
    case 7:
        mb_add(out, b, L->hdr0); mb_add(out, b + L->hdr1, len - L->hdr1);
        snprintf(detail, dn, "header line removed"); return 1;
    case 8:
        mb_add(out, b, L->ftr0); mb_add(out, b + L->ftr1, len - L->ftr1);
        snprintf(detail, dn, "footer line removed"); return 1;
    case 9:
        mb_add(out, b, L->hdr0); mb_add(out, b + L->ftr0, L->ftr1 - L->ftr0); mb_addc(out, '\n');
        mb_add(out, b + L->body0, bl); mb_add(out, b + L->hdr0, L->hdr1 - L->hdr0); mb_addc(out, '\n');
        snprintf(detail, dn, "footer and header swapped"); return 1;
    case 10:
        mb_add(out, b, L->flab0); /* ends right after "-----END " */
        snprintf(detail, dn, "input ends right after -----END"); return 1;
    case 11:
        mb_add(out, b, L->hdr0 + 10);
        snprintf(detail, dn, "input ends right after -----BEGIN"); return 1;
    case 12:
        mb_add(out, b, L->hdr1);
        snprintf(detail, dn, "input ends right after the header line"); return 1;
    case 13:
        mb_add(out, b, L->body0); mb_add(out, b + L->ftr0, len - L->ftr0);
        snprintf(detail, dn, "empty body"); return 1;
    case 14:
        mb_add(out, b, L->body0); mb_adds(out, "=\n"); mb_add(out, b + L->ftr0, len - L->ftr0);
        snprintf(detail, dn, "body is '='"); return 1;
    case 15:
        mb_add(out, b, L->body0); mb_adds(out, "====\n"); mb_add(out, b + L->ftr0, len - L->ftr0);
        snprintf(detail, dn, "body is '===='"); return 1;
    case 16:
        mb_add(out, b, L->body0); mb_adds(out, "A\n"); mb_add(out, b + L->ftr0, len - L->ftr0);
        snprintf(detail, dn, "body is 'A'"); return 1;
    case 17:
        mb_add(out, b, L->body0); mb_adds(out, "A===\n"); mb_add(out, b + L->ftr0, len - L->ftr0);
        snprintf(detail, dn, "body is 'A==='"); return 1;
    case 18:
        mb_add(out, b, L->body0);
        for (i = 0; i < bl; i++) { mb_addc(out, b[L->body0 + i]); mb_addc(out, ' '); }
        mb_add(out, b + L->ftr0, len - L->ftr0);
        snprintf(detail, dn, "space after every body character"); return 1;
    case 19:
        mb_add(out, b, L->body0);
        for (i = 0; i < bl; i++) { if (b[L->body0 + i] != '\n' && b[L->body0 + i] != '\r') mb_addc(out, b[L->body0 + i]); }
        mb_addc(out, '\n');
        mb_add(out, b + L->ftr0, len - L->ftr0);
        snprintf(detail, dn, "body on one very long line"); return 1;
    case 20: case 21:
    {
        /* body repeated until it exceeds 64 KiB (20) / 128 KiB (21): 16-bit length fields */
        size_t target = (idx - PE_MISC0) == 20 ? 66000 : 132000, tot = 0;
        size_t cut = bl;
        if (bl < 16) return 0;
        /* drop base64 padding of the original so that the repetition stays decodable */
        while (cut > 0 && (b[L->body0 + cut - 1] == '=' || b[L->body0 + cut - 1] == '\n' || b[L->body0 + cut - 1] == '\r')) cut--;
        {
            /* keep whole 64-character lines only (multiple of 4 base64 characters) */
            size_t nl = cut;
            while (nl > 0 && b[L->body0 + nl - 1] != '\n') nl--;
            if (nl > 1) cut = nl - 1; else cut -= cut % 4;
        }
        mb_add(out, b, L->body0);
        while (tot < target) { mb_add(out, b + L->body0, cut); mb_addc(out, '\n'); tot += cut + 1; }
        mb_add(out, b + L->ftr0, len - L->ftr0);
        snprintf(detail, dn, "body repeated to %zu bytes", tot); return 1;
    }
    case 22: case 23: case 24:
    {
        size_t drop = (size_t) (idx - PE_MISC0 - 21), e = bl;
        while (e > 0 && (b[L->body0 + e - 1] == '\n' || b[L->body0 + e - 1] == '\r')) e--;
        if (e <= drop) return 0;
        mb_add(out, b, L->body0 + e - drop); mb_addc(out, '\n'); mb_add(out, b + L->ftr0, len - L->ftr0);
        snprintf(detail, dn, "last %zu body characters dropped", drop); return 1;
    }
    case 25:
    {
        size_t e = bl;
        while (e > 0 && (b[L->body0 + e - 1] == '\n' || b[L->body0 + e - 1] == '\r' || b[L->body0 + e - 1] == '=')) e--;
        mb_add(out, b, L->body0 + e); mb_addc(out, '\n'); mb_add(out, b + L->ftr0, len - L->ftr0);
        snprintf(detail, dn, "base64 padding stripped"); return 1;
    }
    case 26:
    {
        size_t e = bl;
        while (e > 0 && (b[L->body0 + e - 1] == '\n' || b[L->body0 + e - 1] == '\r')) e--;
        mb_add(out, b, L->body0 + e); mb_adds(out, "==\n"); mb_add(out, b + L->ftr0, len - L->ftr0);
        snprintf(detail, dn, "two extra '=' appended"); return 1;
    }
    case 27:
        mb_add(out, b, L->body0);
        for (i = 0; i < bl; i++) { if (b[L->body0 + i] != '\n' && b[L->body0 + i] != '\r') { mb_addc(out, b[L->body0 + i]); mb_addc(out, '\n'); } }
        mb_add(out, b + L->ftr0, len - L->ftr0);
        snprintf(detail, dn, "one body character per line"); return 1;
    case 28:
        mb_add(out, b, L->body0); mb_adds(out, "\n\n\n\r\n"); mb_add(out, b + L->body0, len - L->body0);
        snprintf(detail, dn, "blank lines before body"); return 1;
    case 29:
        mb_add(out, b, len); mb_adds(out, "trailing garbage -----BEGIN");
        snprintf(detail, dn, "garbage after footer"); return 1;
    case 30:
        mb_add(out, b, len); mb_add(out, b, len);
        snprintf(detail, dn, "whole text twice"); return 1;
    case 31:
        mb_add(out, b + L->hdr0, len - L->hdr0); mb_add(out, b, L->hdr0);
        snprintf(detail, dn, "text rotated to start at last header"); return 1;
    case 32:
        mb_add(out, b, L->ftr0); mb_adds(out, "-----END"); /* no label, no newline */
        snprintf(detail, dn, "footer is bare -----END at end of input"); return 1;
    case 33:
        mb_add(out, b, L->body0 + bl / 2);
        snprintf(detail, dn, "input ends in the middle of the body"); return 1;
    case 34:
        mb_adds(out, "-----BEGIN -----END ");
        mb_add(out, b + L->lab0, L->lab1 - L->lab0); mb_adds(out, "-----");
        snprintf(detail, dn, "header immediately followed by footer on one line"); return 1;
    case 35:
        mb_add(out, b + L->lab0, L->lab1 - L->lab0); mb_adds(out, "----------BEGIN-----END");
        mb_add(out, b + L->lab0, L->lab1 - L->lab0); mb_adds(out, "-----");
        snprintf(detail, dn, "label before BEGIN marker"); return 1;
    case 36:
        mb_add(out, b, L->body0); mb_add(out, b + L->body0, bl / 2); mb_adds(out, "-----END");
        snprintf(detail, dn, "bare -----END in the middle of the body, nothing after"); return 1;
    case 37:
        mb_add(out, b, L->ftr1);
        snprintf(detail, dn, "no newline after footer"); return 1;
    case 38:
        for (i = 0; i < 200; i++) mb_adds(out, "-----BEGIN CERTIFICATE-----\n-----END CERTIFICATE-----\n");
        snprintf(detail, dn, "200 empty certificate blocks"); return 1;
    case 39:
        mb_add(out, b, L->body0);
        for (i = 0; i < 3000; i++) mb_adds(out, "AAAAAAAAAAAAAAAAAAAAAAAAAAAAAAAAAAAAAAAAAAAAAAAAAAAAAAAAAAAAAAAA\n");
        mb_add(out, b + L->ftr0, len - L->ftr0);
        snprintf(detail, dn, "body of 192000 'A' characters"); return 1;
    }
    return 0;
}

#endif
