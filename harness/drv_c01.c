/* drv_c01 - C01: application data flows only after an authenticated, completed handshake.
 *
 * Enumerates (configuration) x (every record-granular prefix of the honest
 * handshake + post-handshake states) x (victim role) x (attacker record from a
 * finite alphabet), each executed on a fork()ed snapshot of the live sessions,
 * and checks on every execution that nothing is reported as application data
 * unless the victim's handshake is complete and the bytes are what the honest
 * peer application submitted.  Also probes encode-before-complete. */
#include "mxv.h"
#include "wire.h"
#include "tk.h"

#define MAXCFG 96
static wcfg_t cfgs[MAXCFG];
static int ncfg, nsteps[MAXCFG];
static int thorough;

enum { ST_DONE = 1, ST_CLOSED, ST_FATAL, ST_NPOST = 3 };
typedef struct { int ci, p; } grp_t;
static grp_t groups[MAXCFG * 40];
static long ngroups;

enum { I_PLAIN23 = 0, I_RAND23, I_DONOR_SAME, I_DONOR_REFLECT, I_OWN_REFLECT, I_OWN_REPLAY, I_PROBE, I_HSKEY23, I_NKIND };
static const char *ikind[] = { "plain23", "rand23", "donor-samedir", "donor-reflect", "own-reflect", "own-replay", "encode-probe", "appdata-under-handshake-keys" };
typedef struct { int kind, a, b; } inj_t;
static inj_t injs[128];
static int ninj;

static const int plain_lens[] = { 1, 16, 300 };
static const int rand_lens[] = { 24, 32, 48, 64, 80 };
static const int tls_vers[][2] = { { 3, 1 }, { 3, 2 }, { 3, 3 }, { 3, 4 } };
static const int dtls_vers[][2] = { { 0xfe, 0xff }, { 0xfe, 0xfd } };

static void build_injs(void)
{
    int a, b;
    ninj = 0;
    for (a = 0; a < 4; a++)
    {
        for (b = 0; b < 3; b++)
        {
            injs[ninj++] = (inj_t) { I_PLAIN23, a, b };
        }
    }
    for (a = 0; a < 2; a++) /* epoch 0/1 for DTLS, unused for TLS */
    {
        for (b = 0; b < 5; b++)
        {
            injs[ninj++] = (inj_t) { I_RAND23, a, b };
        }
    }
    injs[ninj++] = (inj_t) { I_DONOR_SAME, 0, 0 };
    injs[ninj++] = (inj_t) { I_DONOR_REFLECT, 0, 0 };
    injs[ninj++] = (inj_t) { I_OWN_REFLECT, 0, 0 };
    injs[ninj++] = (inj_t) { I_OWN_REPLAY, 0, 0 };
    injs[ninj++] = (inj_t) { I_PROBE, 0, 0 };
    /* TLS 1.3: application_data sealed under the peer's HANDSHAKE traffic secret with the sequence number the victim
       expects.  These keys come out of the unauthenticated key exchange alone: an active attacker who answers the
       ClientHello himself holds them without any credential (a: payload length 24 / 0) */
    injs[ninj++] = (inj_t) { I_HSKEY23, 0, 0 };
    injs[ninj++] = (inj_t) { I_HSKEY23, 1, 0 };
}

/* state shared between group setup and case */
typedef struct {
    world_t w;
    donor_t donor;
    int ci, p, victim, ii;
    unsigned char own_last[2][2048]; /* last app record emitted by side d in this connection (post states) */
    int own_len[2];
} gctx_t;

static const unsigned char MSG_C[] = "client-app-message-0001";
static const unsigned char MSG_S[] = "server-app-message-0001!!";

/* bring the world to state p of cfg ci; returns 0 ok */
static int reach_state(gctx_t *g)
{
    const wcfg_t *c = &cfgs[g->ci];
    int n = nsteps[g->ci];
    wcfg_t dc = *c;
    if (dc.early_data == 2)
    {
        dc.early_data = 1; /* the donor connection (foreign keys) must complete: take it from the early-data-enabled sibling */
    }
    if (donor_capture(&dc, &g->donor) < 0)
    {
        return -1;
    }
    if (world_init(&g->w, c) < 0)
    {
        return -2;
    }
    if (g->p <= n)
    {
        return world_run_steps(&g->w, g->p) == g->p ? 0 : -3;
    }
    if (world_run_steps(&g->w, 1000) != n)
    {
        return -4;
    }
    /* post states: one app message each way, records captured */
    {
        int d;
        for (d = 0; d < 2; d++)
        {
            rec_t r;
            world_app_send(&g->w, d, d ? MSG_S : MSG_C, d ? (int) sizeof(MSG_S) : (int) sizeof(MSG_C));
            if (g->w.wire[d].n < 1)
            {
                return -5;
            }
            r = g->w.wire[d].r[g->w.wire[d].head];
            if (r.len <= 2048)
            {
                memcpy(g->own_last[d], r.p, (size_t) r.len);
                g->own_len[d] = r.len;
            }
            world_pump(&g->w, 50);
        }
    }
    return 0;
}

static int build_injection(gctx_t *g, const inj_t *in, unsigned char *out)
{
    const wcfg_t *c = &cfgs[g->ci];
    int dtls = ver_is_dtls(c->ver);
    int v = g->victim;
    unsigned char body[512];
    int i, maj, min;
    switch (in->kind)
    {
    case I_PLAIN23:
    {
        int len = plain_lens[in->b];
        for (i = 0; i < len; i++)
        {
            body[i] = (unsigned char) "EVIL!"[i % 5];
        }
        if (dtls)
        {
            /* a: bit0 = version, bit1 = epoch */
            return mk_record(out, 1, 23, dtls_vers[in->a & 1][0], dtls_vers[in->a & 1][1], (in->a >> 1) & 1, 5, body, len);
        }
        return mk_record(out, 0, 23, tls_vers[in->a][0], tls_vers[in->a][1], 0, 0, body, len);
    }
    case I_RAND23:
    {
        int len = rand_lens[in->b];
        uint64_t x = 0x1234567 + (uint64_t) in->b * 977 + (uint64_t) in->a;
        for (i = 0; i < len; i++)
        {
            x = x * 6364136223846793005ULL + 1442695040888963407ULL;
            body[i] = (unsigned char) (x >> 33);
        }
        wire_version_bytes(c->ver, &maj, &min);
        return mk_record(out, dtls, 23, maj, min, in->a, 9, body, len);
    }
    case I_HSKEY23:
    {
        unsigned char sec[64];
        tk13_keys_t fk;
        ssl_t *ssl = g->w.s[v].ssl;
        int sl, hl;
        uint16_t suite;
        if (c->ver != V_TLS13 || !ssl || !ssl->cipher)
        {
            return 0;
        }
        suite = (uint16_t) ssl->cipher->ident;
        if (suite != TLS_AES_128_GCM_SHA256 && suite != TLS_AES_256_GCM_SHA384 && suite != TLS_CHACHA20_POLY1305_SHA256)
        {
            return 0;   /* no TLS 1.3 suite chosen yet: no handshake keys exist */
        }
        hl = suite == TLS_AES_256_GCM_SHA384 ? 48 : 32;
        sl = tk_keylog_find(v == 0 ? "s hs traffic" : "c hs traffic", sec);
        if (sl != hl || tk13_keys_from_secret(&fk, suite, sec, hl) < 0)
        {
            return 0;
        }
        fk.seq = 0;
        for (i = 0; i < 8; i++) fk.seq = (fk.seq << 8) | ssl->sec.remSeq[i];
        return tk13_seal(&fk, 23, (const unsigned char *) "EVIL-UNDER-HANDSHAKE-KEY", in->a ? 0 : 24, out);
    }
    case I_DONOR_SAME:
        memcpy(out, g->donor.rec[1 - v], (size_t) g->donor.len[1 - v]);
        return g->donor.len[1 - v];
    case I_DONOR_REFLECT:
        memcpy(out, g->donor.rec[v], (size_t) g->donor.len[v]);
        return g->donor.len[v];
    case I_OWN_REFLECT:
        if (g->own_len[v] <= 0)
        {
            return 0;
        }
        memcpy(out, g->own_last[v], (size_t) g->own_len[v]);
        return g->own_len[v];
    case I_OWN_REPLAY:
        if (g->own_len[1 - v] <= 0)
        {
            return 0;
        }
        memcpy(out, g->own_last[1 - v], (size_t) g->own_len[1 - v]);
        return g->own_len[1 - v];
    }
    return 0;
}

static int early_ok(const wcfg_t *c, int side)
{
    return (c->kx == KX_13_PSK || c->resume13) && c->early_data == 1 && side == 1; /* only a server SESSION that enabled early data may deliver it */
}

/* the invariant; returns 1 and fills r on violation */
static int oracle(gctx_t *g, mx_result_t *r, const char *when, const inj_t *in, int hs_at_inj)
{
    const wcfg_t *c = &cfgs[g->ci];
    char cd[96];
    int s;
    cfg_desc(c, cd, sizeof(cd));
    for (s = 0; s < 2; s++)
    {
        side_t *me = &g->w.s[s], *peer = &g->w.s[1 - s];
        if (!is_prefix(&me->delivered, &peer->submitted))
        {
            r->violation = 1;
            snprintf(r->key, sizeof(r->key), "%s|v=%c|hs=%d|%s|forged-data", cd, "cs"[g->victim], hs_at_inj, ikind[in->kind]);
            snprintf(r->what, sizeof(r->what), "%s side %d was handed %zu bytes of application data its peer never sent (%s) [%s]",
                cd, s, me->delivered.len, when, r->desc);
            return 1;
        }
        if (me->deliv_incomplete > 0 && !early_ok(c, s))
        {
            r->violation = 1;
            snprintf(r->key, sizeof(r->key), "%s|v=%c|hs=%d|%s|data-before-complete", cd, "cs"[g->victim], hs_at_inj, ikind[in->kind]);
            snprintf(r->what, sizeof(r->what), "%s side %d reported APP_DATA before its handshake completed (%s) [%s]", cd, s, when, r->desc);
            return 1;
        }
    }
    return 0;
}

static void run_case(void *ctx, mx_result_t *r)
{
    gctx_t *g = ctx;
    const wcfg_t *c = &cfgs[g->ci];
    const inj_t *in = &injs[g->ii];
    int v = g->victim;
    unsigned char rec[2600];
    int len, rc, hs, comp_before, ndel_before;
    const char *rcc;

    r->nontrivial = 1;
    hs = g->w.s[v].ssl->hsState;
    comp_before = world_is_complete(&g->w, v);
    ndel_before = g->w.s[v].n_deliveries;

    if (in->kind == I_PROBE)
    {
        char cd[96];
        rc = world_encode_probe(&g->w, v);
        cfg_desc(c, cd, sizeof(cd));
        snprintf(r->outcome, sizeof(r->outcome), "probe:%s:c%d", rc > 0 ? "ok" : "refused", comp_before);
        /* not flagged: a client whose credential allows early data (0-RTT), and a TLS 1.3 server session that enabled and
           accepted early data answering it before the client's Finished (0.5-RTT data under its application traffic keys, RFC 8446 4.4.4) */
        if (rc > 0 && !comp_before && !((c->kx == KX_13_PSK || c->resume13) && c->early_data && v == 0) && !(v == 1 && early_ok(c, 1)))
        {
            r->violation = 1;
            snprintf(r->key, sizeof(r->key), "%s|v=%c|hs=%d|encode-before-complete", cd, "cs"[v], hs);
            snprintf(r->what, sizeof(r->what), "%s side %d encrypted application data before its handshake completed (hsState %d)", cd, v, hs);
        }
        r->transitions = 1;
        r->trace_hash = world_trace_hash(&g->w);
        return;
    }
    len = build_injection(g, in, rec);
    if (len <= 0)
    {
        snprintf(r->outcome, sizeof(r->outcome), "%s:n/a", ikind[in->kind]);
        r->nontrivial = 0;
        return;
    }
    world_tracef(&g->w, "INJECT v%d %s\n", v, ikind[in->kind]);
    rc = world_feed(&g->w, v, rec, len);
    rcc = rc < 0 ? "err" : rc == MATRIXSSL_REQUEST_RECV ? "recv" : rc == MATRIXSSL_REQUEST_SEND ? "send" :
        rc == MATRIXSSL_SUCCESS ? "ok" : rc == MATRIXSSL_REQUEST_CLOSE ? "close" : "other";
    snprintf(r->outcome, sizeof(r->outcome), "%s:%s:c%d:d%d", ikind[in->kind], rcc, comp_before,
        g->w.s[v].n_deliveries - ndel_before);
    if (!oracle(g, r, "at injection", in, hs))
    {
        /* honest continuation to the horizon, then application data both ways */
        world_pump(&g->w, 200);
        if (!oracle(g, r, "after honest continuation", in, hs))
        {
            if (world_is_complete(&g->w, 0) && world_is_complete(&g->w, 1) && !g->w.s[0].closed && !g->w.s[1].closed)
            {
                world_app_send(&g->w, 0, (const unsigned char *) "post-c", 6);
                world_app_send(&g->w, 1, (const unsigned char *) "post-s", 6);
                world_pump(&g->w, 50);
                oracle(g, r, "after post-injection data", in, hs);
            }
        }
    }
    r->transitions = g->w.actions;
    r->trace_hash = world_trace_hash(&g->w);
    r->state_hash = fnv1a(&hs, sizeof(hs), fnv1a(r->desc, strlen(r->desc), FNV0));
}

static int enter_post_state(gctx_t *g, int post, int victim)
{
    unsigned char rec[64];
    int maj, min;
    const wcfg_t *c = &cfgs[g->ci];
    if (post == ST_CLOSED)
    {
        world_close(&g->w, 1 - victim);
        world_pump(&g->w, 20);
    }
    else if (post == ST_FATAL)
    {
        unsigned char junk[40];
        int len;
        memset(junk, 0xA5, sizeof(junk));
        wire_version_bytes(c->ver, &maj, &min);
        len = mk_record(rec, ver_is_dtls(c->ver), 22, maj, min, 1, 99, junk, 40);
        world_feed(&g->w, victim, rec, len);
        if (ver_is_dtls(c->ver))
        {
            /* DTLS discards bad records silently: use a fatal alert from the peer instead */
            world_close(&g->w, 1 - victim);
            world_pump(&g->w, 20);
        }
    }
    return 0;
}

/* closed / fatal post states are victim-specific: wrap run_case */
static int no_post[MAXCFG];
/* number of honest steps of a configuration whose honest run legitimately ends without completion */
static int count_steps_any(const wcfg_t *cfg)
{
    world_t w;
    int n;
    if (world_init(&w, cfg) < 0)
    {
        return -1;
    }
    n = world_run_steps(&w, 1000);
    world_free(&w);
    return n;
}

static void run_case_post(void *ctx, mx_result_t *r)
{
    gctx_t *g = ctx;
    int n = nsteps[g->ci];
    int post = g->p > n ? g->p - n : 0;
    if (post > ST_DONE)
    {
        enter_post_state(g, post, g->victim);
    }
    run_case(ctx, r);
}

#include "c01_keyless.h"

static void run_group(long gi, void *unused)
{
    if (gi == ngroups)
    {
        k_run_group();
        return;
    }
    static gctx_t g;
    int v, ii, n;
    (void) unused;
    memset(&g, 0, sizeof(g));
    g.ci = groups[gi].ci;
    g.p = groups[gi].p;
    n = nsteps[g.ci];
    if (reach_state(&g) != 0)
    {
        mx_result_t r;
        memset(&r, 0, sizeof(r));
        r.violation = 2;
        snprintf(r.key, sizeof(r.key), "cannot-reach-state|cfg=%d|p=%d", g.ci, g.p);
        snprintf(r.what, sizeof(r.what), "harness could not reach state p=%d of cfg %d", g.p, g.ci);
        snprintf(r.desc, sizeof(r.desc), "cfg=%d;p=%d", g.ci, g.p);
        mx_record(&r);
        return;
    }
    for (v = 0; v < 2; v++)
    {
        for (ii = 0; ii < ninj; ii++)
        {
            char desc[220], cd[96];
            const inj_t *in = &injs[ii];
            int post = g.p > n ? g.p - n : 0;
            if (mx_deadline_hit())
            {
                break;
            }
            if (!thorough && in->kind == I_PLAIN23 && in->b == 2 && in->a != 2)
            {
                continue;
            }
            if ((in->kind == I_OWN_REFLECT || in->kind == I_OWN_REPLAY) && post == 0)
            {
                continue;
            }
            g.victim = v;
            g.ii = ii;
            cfg_desc(&cfgs[g.ci], cd, sizeof(cd));
            snprintf(desc, sizeof(desc), "cfg=%d;p=%d;v=%d;inj=%d (%s state=%d/%d victim=%s %s a=%d b=%d)", g.ci, g.p, v, ii, cd,
                g.p, n, v ? "server" : "client", ikind[in->kind], in->a, in->b);
            mx_fork_case(desc, run_case_post, &g);
        }
    }
    world_free(&g.w);
}

int main(int argc, char **argv)
{
    mx_cfg_t cfg;
    const char *replay;
    int i, p;

    memset(&cfg, 0, sizeof(cfg));
    cfg.property = "C01";
    cfg.sanitizer_is_oracle = 1; /* a crashing case child is a violation (memory fault in the library) */
    cfg.level = "model_checking";
    cfg.engine = "fork-dfs over live sessions (snapshot = fork of the process holding both ssl_t)";
    cfg.rule = "case = (configuration, honest-handshake prefix or post-handshake state, victim role, injected attacker record or encode probe); "
               "every case is distinct by construction; non-trivial = an injection/probe was actually applied to a live session in that state";
    cfg.assumptions[0] = "entropy and clock pinned through link-time seams; fork() is a faithful snapshot of all library state";
    cfg.assumptions[1] = "attacker alphabet: plaintext/random type-23 records, records protected under another connection's keys, reflected and replayed records of this connection";
    cfg.assumptions[2] = "one injection per execution (quick), followed by honest continuation to quiescence";
    replay = mx_parse_args(argc, argv, &cfg);
    thorough = !strcmp(cfg.tier, "thorough");
    cfg.bound = "every (config, state, role, injection) case of the alphabet with 1 injection + honest continuation";
    build_injs();
    ncfg = std_configs(cfgs, MAXCFG, thorough);
    /* a server SESSION that disabled early data, offered 0-RTT data under a ticket issued by an earlier early-data-enabled
       session of the same key set: the honest run ends with the server's alert; nothing may reach its application */
    if (ncfg < MAXCFG)
    {
        wcfg_t c;
        memset(&c, 0, sizeof(c));
        c.ver = V_TLS13; c.kx = KX_13_RSA; c.tickets = 1; c.resume13 = 1; c.early_data = 2; c.early_send = 1;
        cfgs[ncfg++] = c;
    }

    if (replay)
    {
        static gctx_t g;
        mx_result_t r;
        int ci, pp, v, ii;
        if (!strncmp(replay, "K13;", 4))
        {
            k13case_t k3;
            if (sscanf(replay, "K13;c=%d;a=%d", &k3.csuite, &k3.asuite) != 2)
            {
                return 2;
            }
            memset(&r, 0, sizeof(r));
            snprintf(r.desc, sizeof(r.desc), "%s", replay);
            k13_run_case(&k3, &r);
            mx_replay_print(&r);
            return 0;
        }
        if (replay[0] == 'K')
        {
            kcase_t k;
            if (sscanf(replay, "K;s=%d;i=%d;e=%d;m=%d", &k.ks, &k.ki, &k.ke, &k.ems) != 4 || k.ks >= KS_N || k.ki >= KI_N || k.ke >= KE_N)
            {
                return 2;
            }
            memset(&r, 0, sizeof(r));
            snprintf(r.desc, sizeof(r.desc), "%s", replay);
            k_run_case(&k, &r);
            mx_replay_print(&r);
            return 0;
        }
        if (sscanf(replay, "cfg=%d;p=%d;v=%d;inj=%d", &ci, &pp, &v, &ii) != 4 || ci >= ncfg || ii >= ninj)
        {
            fprintf(stderr, "bad replay descriptor: %s\n", replay);
            return 2;
        }
        nsteps[ci] = world_count_steps(&cfgs[ci]);
        if (nsteps[ci] == -2 && cfgs[ci].early_data == 2)
        {
            nsteps[ci] = count_steps_any(&cfgs[ci]);
        }
        memset(&g, 0, sizeof(g));
        g.ci = ci; g.p = pp; g.victim = v; g.ii = ii;
        if (reach_state(&g) != 0)
        {
            fprintf(stderr, "cannot reach state\n");
            return 2;
        }
        memset(&r, 0, sizeof(r));
        snprintf(r.desc, sizeof(r.desc), "%s", replay);
        run_case_post(&g, &r);
        fprintf(stderr, "%s", (char *) g.w.trace.p);
        mx_replay_print(&r);
        return 0;
    }

    mx_init(&cfg);
    for (i = 0; i < ncfg; i++)
    {
        nsteps[i] = world_count_steps(&cfgs[i]);
        if (nsteps[i] == -2 && cfgs[i].early_data == 2)
        {
            nsteps[i] = count_steps_any(&cfgs[i]);
            no_post[i] = 1;
        }
        if (nsteps[i] < 0)
        {
            char cd[96];
            cfg_desc(&cfgs[i], cd, sizeof(cd));
            fprintf(stderr, "config %s: honest handshake does not complete (%d)\n", cd, nsteps[i]);
            printf("INTERNAL property=C01 key=honest-handshake-failed what=%s\n", cd);
            return 2;
        }
        for (p = 0; p <= nsteps[i] + (no_post[i] ? 0 : ST_NPOST); p++)
        {
            groups[ngroups].ci = i;
            groups[ngroups].p = p;
            ngroups++;
        }
    }
    mx_parallel(ngroups + 1, run_group, NULL);
    return mx_finish(NULL);
}
