/* drv_c07 - C07: negotiated parameters are ones both sides enabled; downgrades refused.
 *
 * (A) configuration products (exhaustive): version lists x version lists (all ordered non-empty lists of
 *     {1.1,1.2,1.3} + "library default", DTLS flag sets), version x suite cross, cipher-suite subsets, key-exchange
 *     group subsets (TLS 1.3 and ECDHE 1.2), signature-algorithm subsets, extended-master-secret flags, fallback SCSV.
 * (B) man in the middle: on representative configuration pairs EVERY single-field rewrite of ClientHello /
 *     ServerHello / HelloRetryRequest produced by the structural parser in c07_hello.h.
 * Every case runs two real MatrixSSL sessions in a forked child; the oracle is a reference negotiation function
 * plus membership checks against the configuration and against what the ClientHello on the wire offered. */
#include "mxv.h"
#include "wire.h"
#include "c07_hello.h"
#include <sys/mman.h>
#include <sys/wait.h>
#include <unistd.h>

#include "testkeys/RSA/2048_RSA.h"
#include "testkeys/RSA/2048_RSA_KEY.h"
#include "testkeys/RSA/2048_RSA_CA.h"
#include "testkeys/EC/256_EC.h"
#include "testkeys/EC/256_EC_KEY.h"
#include "testkeys/EC/256_EC_CA.h"
#include "testkeys/PSK/psk.h"
#include "testkeys/PSK/tls13_psk.h"

static int thorough;

/* ------------------------------------------------------------------------------ parameter tables */
static const struct { const char *name; psProtocolVersion_t v; int enc; int rank; } VT[] = {
    { "1.1", v_tls_1_1, 0x0302, 1 }, { "1.2", v_tls_1_2, 0x0303, 2 }, { "1.3", v_tls_1_3, 0x0304, 3 },
    { "d1.0", v_dtls_1_0, 0xfeff, 1 }, { "d1.2", v_dtls_1_2, 0xfefd, 2 } };
enum { T11 = 0, T12, T13, D10, D12 };

/* ordered TLS version lists: 0..6 default (descending) order, 7..14 every other order, 15 = library default (no list) */
#define NVL 16
static const struct { int n; int v[3]; } VL[NVL] = {
    { 1, { T13 } }, { 1, { T12 } }, { 1, { T11 } }, { 2, { T13, T12 } }, { 2, { T13, T11 } }, { 2, { T12, T11 } }, { 3, { T13, T12, T11 } },
    { 2, { T12, T13 } }, { 2, { T11, T13 } }, { 2, { T11, T12 } },
    { 3, { T13, T11, T12 } }, { 3, { T12, T13, T11 } }, { 3, { T12, T11, T13 } }, { 3, { T11, T13, T12 } }, { 3, { T11, T12, T13 } },
    { 0, { 0 } } };
/* DTLS: the version-list setters refuse DTLS versions; the only sets expressible are the versionFlag ones */
static const struct { int n; int v[2]; } DL[2] = { { 1, { D10 } }, { 2, { D12, D10 } } };

enum { K_PSK = 0, K_RSA, K_EC, K_ALL };
static const char *kname[] = { "psk", "rsa", "ecdsa", "rsa+ecdsa+psk" };

#define S_13A   0x1301
#define S_13B   0x1302
#define S_PSK   0x008c   /* TLS_PSK_WITH_AES_128_CBC_SHA: every version <= 1.2 */
#define S_PSK2  0x00ae   /* TLS_PSK_WITH_AES_128_CBC_SHA256: 1.2 only */
#define S_RSA   0x002f
#define S_RSAG  0x009c
#define S_ERSA  0xc02f
#define S_ERSA2 0xc030
#define S_ERSAC 0xc013
#define S_ERSA3 0xc027
#define S_EEC   0xc009
#define S_EECG  0xc02b

typedef struct {
    int dtls, keys;
    int cver[3], ncver;             /* VT indexes in priority order; n = 0: library default (versionFlag 0, no list) */
    int sver[3], nsver;
    uint16_t csuite[6]; int ncsuite;
    uint16_t sdis[6]; int nsdis;    /* suites disabled on the server session */
    uint16_t cgrp[4], sgrp[4]; int ncgrp, nsgrp, nshares;
    int cec, sec;                   /* ecFlags (TLS <= 1.2 curves); 0 = default */
    uint16_t csig[4], ssig[4]; int ncsig, nssig;
    int cems, sems, fallback, client_auth, tickets;
    char label[48];
} ncfg_t;

/* --------------------------------------------------------------------------- suite knowledge */
static int suite_is13(int s) { return (s & 0xff00) == 0x1300; }
static int suite_is_ecdhe(int s) { return s == 0xc013 || s == 0xc014 || s == 0xc027 || s == 0xc028 || s == 0xc02f || s == 0xc030 || s == 0xc009 || s == 0xc00a || s == 0xc023 || s == 0xc024 || s == 0xc02b || s == 0xc02c; }
static int suite_is_ecdsa(int s) { return s == 0xc009 || s == 0xc00a || s == 0xc023 || s == 0xc024 || s == 0xc02b || s == 0xc02c; }
static int suite_is_psk(int s) { return s == 0x008c || s == 0x008d || s == 0x00ae || s == 0x00af; }
static int suite_needs12(int s) { return s == 0x00ae || s == 0x00af || s == 0x009c || s == 0x009d || s == 0x003c || s == 0x003d || s == 0xc027 || s == 0xc028 || s == 0xc02f || s == 0xc030 || s == 0xc023 || s == 0xc024 || s == 0xc02b || s == 0xc02c; }
static int suite_ok_for_rank(int s, int rank) { return suite_is13(s) ? rank == 3 : (rank < 3 && (rank == 2 || !suite_needs12(s))); }
static int suite_creds_ok(int s, int keys)
{
    if (suite_is13(s)) return 1;
    if (suite_is_psk(s)) return keys == K_PSK || keys == K_ALL;
    if (suite_is_ecdsa(s)) return keys == K_EC || keys == K_ALL;
    return keys == K_RSA || keys == K_ALL;
}

/* ----------------------------------------------------------------------- one execution ("run") */
typedef struct {
    const ncfg_t *c;
    world_t w;
    int target, k;                  /* rewrite target (-1 none): 0 CH#0, 1 CH#1, 2 both CHs, 3 SH#0, 4 SH#1;  k = rewrite index */
    rw_ctx_t cx;
    rw_info_t info;
    int applied, noop, nrw[5];      /* nrw: number of rewrites available per target (counted while running) */
    /* wire observations */
    unsigned char raw[4][1600]; int rawlen[4];   /* 0,1: ClientHello occurrences; 2,3: ServerHello/HRR occurrences (as sent) */
    hello_t ch[2], sh[2]; int nch, nsh, nhvr;
    int is13, ccs[2];
    int alert[2];                   /* description of a plaintext alert emitted by side, 0 none */
    int after[2];                   /* non-alert records emitted by side after the (last) injection */
    int ske_group, ske_sigalg, cv_sigalg;
    int roundtrip_bad, setup_rc;
    char setup_what[80];
    /* end state */
    int complete[2], ver_enc[2], suite[2], group[2], sigalg[2], ems[2];
    int keys_equal, ping_ok;
    uint32_t supp[2];               /* ssl->supportedVersions after session creation */
} run_t;

static int32 c07_cert_cb(ssl_t *ssl, psX509Cert_t *cert, int32 alert)
{
    (void) ssl; (void) cert;
    return alert;
}

static int load_keys(const ncfg_t *c, int side, sslKeys_t **out)
{
    sslKeys_t *k = NULL;
    int rc = 0, want_id = side == 1 || c->client_auth;
    size_t i;
    if (matrixSslNewKeys(&k, NULL) < 0) return -1;
    *out = k;
    if (c->keys == K_PSK || c->keys == K_ALL)
    {
        for (i = 0; i < PSK_HEADER_TABLE_COUNT; i++)
        {
            rc = matrixSslLoadPsk(k, PSK_HEADER_TABLE[i].key, sizeof(PSK_HEADER_TABLE[i].key), PSK_HEADER_TABLE[i].id, sizeof(PSK_HEADER_TABLE[i].id));
            if (rc < 0) return rc;
        }
    }
    if (c->keys == K_PSK)
    {
        psTls13SessionParams_t sp;
        memset(&sp, 0, sizeof(sp));
        rc = matrixSslLoadTls13Psk(k, g_tls13_test_psk_256, 32, g_tls13_test_psk_id_sha256, sizeof(g_tls13_test_psk_id_sha256), &sp);
        if (rc < 0) return rc;
    }
    if (c->keys == K_RSA || c->keys == K_ALL)
    {
        rc = matrixSslLoadRsaKeysMem(k, want_id ? RSA2048 : NULL, want_id ? sizeof(RSA2048) : 0, want_id ? RSA2048KEY : NULL, want_id ? sizeof(RSA2048KEY) : 0, RSA2048CA, sizeof(RSA2048CA));
        if (rc < 0) return rc;
    }
    if (c->keys == K_EC || c->keys == K_ALL)
    {
        rc = matrixSslLoadEcKeysMem(k, want_id ? EC256 : NULL, want_id ? sizeof(EC256) : 0, want_id ? EC256KEY : NULL, want_id ? sizeof(EC256KEY) : 0, EC256CA, sizeof(EC256CA));
        if (rc < 0) return rc;
    }
    if (side == 1 && c->tickets)
    {
        static const unsigned char name[16] = "mxv-ticket-key-1";
        static const unsigned char sk[32] = { 1, 2, 3, 4, 5, 6, 7, 8, 9, 10, 11, 12, 13, 14, 15, 16, 17, 18, 19, 20, 21, 22, 23, 24, 25, 26, 27, 28, 29, 30, 31, 32 };
        rc = matrixSslLoadSessionTicketKeys(k, name, sk, 32, sk, 32);
        if (rc < 0) return rc;
    }
    return 0;
}

static int set_versions(sslSessOpts_t *o, int dtls, const int *v, int n, int server)
{
    psProtocolVersion_t list[3];
    int i;
    if (dtls)
    {
        int has12 = 0;
        for (i = 0; i < n; i++) if (v[i] == D12) has12 = 1;
        o->versionFlag = SSL_FLAGS_DTLS | (has12 ? SSL_FLAGS_TLS_1_2 : SSL_FLAGS_TLS_1_1);
        return 0;
    }
    if (n == 0)
    {
        o->versionFlag = 0;    /* library default */
        return 0;
    }
    for (i = 0; i < n; i++) list[i] = VT[v[i]].v;
    return server ? matrixSslSessOptsSetServerTlsVersions(o, list, n) : matrixSslSessOptsSetClientTlsVersions(o, list, n);
}

static int run_setup(run_t *R)
{
    const ncfg_t *c = R->c;
    world_t *w = &R->w;
    sslSessOpts_t so, co;
    psCipher16_t suites[8];
    uint16_t tmp[4];
    int rc, i;
#define SETUP_FAIL(what, code) do { snprintf(R->setup_what, sizeof(R->setup_what), "%s rc %d", what, (int) (code)); R->setup_rc = (int) (code) ? (int) (code) : -1; return -1; } while (0)

    memset(w, 0, sizeof(*w));
    w->s[1].is_server = 1;
    w->cfg.ver = c->dtls ? V_DTLS12 : V_TLS12;
    buf_init(&w->trace);
    buf_init(&w->s[0].delivered); buf_init(&w->s[1].delivered);
    buf_init(&w->s[0].submitted); buf_init(&w->s[1].submitted);
    env_reset(7);
    if (world_open() < 0) SETUP_FAIL("matrixSslOpen", -1);
    if ((rc = load_keys(c, 0, &w->s[0].keys)) < 0) SETUP_FAIL("client keys", rc);
    if ((rc = load_keys(c, 1, &w->s[1].keys)) < 0) SETUP_FAIL("server keys", rc);
    if (matrixSslNewSessionId(&w->sid, NULL) < 0) SETUP_FAIL("session id", -1);

    memset(&so, 0, sizeof(so));
    memset(&co, 0, sizeof(co));
    if ((rc = set_versions(&co, c->dtls, c->cver, c->ncver, 0)) < 0) SETUP_FAIL("client version list", rc);
    if ((rc = set_versions(&so, c->dtls, c->sver, c->nsver, 1)) < 0) SETUP_FAIL("server version list", rc);
    so.userPtr = &w->s[1];
    co.userPtr = &w->s[0];
    if (c->ncgrp)
    {
        memcpy(tmp, c->cgrp, sizeof(tmp));
        if ((rc = matrixSslSessOptsSetKeyExGroups(&co, tmp, (psSize_t) c->ncgrp, (psSize_t) (c->nshares ? c->nshares : 1))) < 0) SETUP_FAIL("client groups", rc);
    }
    if (c->nsgrp)
    {
        memcpy(tmp, c->sgrp, sizeof(tmp));
        if ((rc = matrixSslSessOptsSetKeyExGroups(&so, tmp, (psSize_t) c->nsgrp, 1)) < 0) SETUP_FAIL("server groups", rc);
    }
    co.ecFlags = c->cec;
    so.ecFlags = c->sec;
    if (c->ncsig)
    {
        memcpy(tmp, c->csig, sizeof(tmp));
        if ((rc = matrixSslSessOptsSetSigAlgs(&co, tmp, (psSize_t) c->ncsig)) < 0) SETUP_FAIL("client sigalgs", rc);
    }
    if (c->nssig)
    {
        memcpy(tmp, c->ssig, sizeof(tmp));
        if ((rc = matrixSslSessOptsSetSigAlgs(&so, tmp, (psSize_t) c->nssig)) < 0) SETUP_FAIL("server sigalgs", rc);
    }
    co.extendedMasterSecret = (short) c->cems;
    so.extendedMasterSecret = (short) c->sems;
    co.fallbackScsv = (short) c->fallback;
    if (c->tickets) co.ticketResumption = 1;
    if (c->dtls) matrixDtlsSetPmtu(-1);
    rc = matrixSslNewServerSession(&w->s[1].ssl, w->s[1].keys, c->client_auth ? c07_cert_cb : NULL, &so);
    if (rc < 0) SETUP_FAIL("NewServerSession", rc);
    for (i = 0; i < c->nsdis; i++)
    {
        if ((rc = matrixSslSetCipherSuiteEnabledStatus(w->s[1].ssl, c->sdis[i], PS_FALSE)) < 0) SETUP_FAIL("SetCipherSuiteEnabledStatus", rc);
    }
    for (i = 0; i < c->ncsuite; i++) suites[i] = c->csuite[i];
    rc = matrixSslNewClientSession(&w->s[0].ssl, w->s[0].keys, w->sid, suites, (uint8_t) c->ncsuite, c07_cert_cb, NULL, NULL, NULL, &co);
    if (rc < 0) SETUP_FAIL("NewClientSession", rc);
    R->supp[0] = w->s[0].ssl->supportedVersions & 0xffffff;
    R->supp[1] = w->s[1].ssl->supportedVersions & 0xffffff;
    return 0;
}

/* ------------------------------------------------------------------- wire inspection + rewriting */
static void put24(unsigned char *p, int v) { p[0] = (unsigned char) (v >> 16); p[1] = (unsigned char) (v >> 8); p[2] = (unsigned char) v; }

static void fill_ctx(run_t *R)
{
    static uint16_t repl[16], cenc[4];
    const ncfg_t *c = R->c;
    int n = 0, i, j, m = 0, smax = 0, cmax = 0;
    static const uint16_t extra[] = { S_RSA, S_PSK, S_13B, S_ERSA2 };
    memset(&R->cx, 0, sizeof(R->cx));
    for (i = 0; i < c->ncsuite; i++) repl[n++] = c->csuite[i];
    for (j = 0; j < 4; j++)
    {
        int dup = 0;
        for (i = 0; i < n; i++) if (repl[i] == extra[j]) dup = 1;
        if (!dup) repl[n++] = extra[j];
    }
    R->cx.dtls = c->dtls;
    R->cx.repl_suites = repl; R->cx.nrepl = n;
    for (i = 0; i < (c->ncver ? c->ncver : 3); i++)
    {
        int vi = c->ncver ? c->cver[i] : i;
        cenc[m++] = (uint16_t) VT[vi].enc;
        if (VT[vi].rank > cmax) cmax = VT[vi].rank;
        if (vi == T13) R->cx.client_has_13 = 1;
    }
    for (i = 0; i < (c->nsver ? c->nsver : 3); i++)
    {
        int vi = c->nsver ? c->sver[i] : i;
        if (VT[vi].rank > smax) smax = VT[vi].rank;
    }
    R->cx.client_enabled_enc = cenc; R->cx.nclient_enabled = m;
    R->cx.server_max_rank = smax; R->cx.client_legacy_rank = cmax;
}

/* one plaintext handshake message inside unit *pp at [ms, ms+mh+ml); may replace the unit buffer; returns length delta */
static int on_message(run_t *R, int d, unsigned char **pp, int *plen, int rec_off, int hl, int ms, int mh, int mt, int ml)
{
    unsigned char *p = *pp;
    const unsigned char *body = p + ms + mh;
    int dt = R->c->dtls;
    if (d == 1 && mt == 3) R->nhvr++;
    if ((d == 0 && mt == 1) || (d == 1 && mt == 2))
    {
        int is_sh = d == 1, occ = is_sh ? R->nsh : R->nch, tgt_here = 0;
        hello_t *h = is_sh ? &R->sh[occ > 1 ? 1 : occ] : &R->ch[occ > 1 ? 1 : occ];
        static unsigned char enc[2048];
        int el, slot = (is_sh ? 2 : 0) + (occ > 1 ? 1 : occ);
        if (hello_parse(h, is_sh, dt, body, ml) < 0) { R->roundtrip_bad = 1; return 0; }
        el = hello_encode(h, enc, sizeof(enc));
        if (el != ml || memcmp(enc, body, (size_t) ml)) R->roundtrip_bad = 2;
        if (mh + ml <= (int) sizeof(R->raw[0])) { memcpy(R->raw[slot], p + ms, (size_t) (mh + ml)); R->rawlen[slot] = mh + ml; }
        if (is_sh)
        {
            int xi = hello_find(h, X_SUPPORTED_VERSIONS);
            R->nsh++;
            if (xi >= 0 && h->ext[xi].len == 2 && h->arena[h->ext[xi].off] == 3 && h->arena[h->ext[xi].off + 1] == 4) R->is13 = 1;
            R->cx.offered = R->ch[R->nch > 1 ? 1 : 0].suites; R->cx.noffered = R->ch[R->nch > 1 ? 1 : 0].nsuites;
            R->cx.honest_version_enc = R->is13 ? 0x0304 : ((h->legacy[0] << 8) | h->legacy[1]);
            R->cx.ems_required_by_peer = R->c->cems > 0;
            tgt_here = (R->target == 3 && occ == 0) || (R->target == 4 && occ == 1);
            if (occ < 2) { hello_t t = *h; R->nrw[3 + occ] = hello_rewrites(&t, &R->cx, -1, NULL); }
        }
        else
        {
            R->nch++;
            R->cx.ems_required_by_peer = R->c->sems > 0;
            tgt_here = (R->target == 0 && occ == 0) || (R->target == 1 && occ == 1) || (R->target == 2 && occ < 2);
            if (occ < 2) { hello_t t = *h; R->nrw[occ] = hello_rewrites(&t, &R->cx, -1, NULL); if (occ == 1) R->nrw[2] = R->nrw[0] < R->nrw[1] ? R->nrw[0] : R->nrw[1]; }
        }
        if (tgt_here)
        {
            hello_t t = *h;
            int total = hello_rewrites(&t, &R->cx, R->k, &R->info), nl, delta, len = *plen;
            unsigned char *np;
            if (R->k >= total) { R->noop = 1; return 0; }
            nl = hello_encode(&t, enc, sizeof(enc));
            if (nl == ml && !memcmp(enc, body, (size_t) ml)) { R->noop = 1; return 0; }
            delta = nl - ml;
            np = h_malloc((size_t) (len + delta + 1));
            memcpy(np, p, (size_t) (ms + mh));
            memcpy(np + ms + mh, enc, (size_t) nl);
            memcpy(np + ms + mh + nl, p + ms + mh + ml, (size_t) (len - (ms + mh + ml)));
            put24(np + ms + 1, nl);
            if (dt) put24(np + ms + 9, nl);
            {
                int rl = ((np[rec_off + hl - 2] << 8) | np[rec_off + hl - 1]) + delta;
                np[rec_off + hl - 2] = (unsigned char) (rl >> 8); np[rec_off + hl - 1] = (unsigned char) rl;
            }
            free(p);
            *pp = np; *plen = len + delta;
            R->applied++;
            R->after[0] = R->after[1] = 0;
            R->alert[0] = R->alert[1] = 0;
            return delta;
        }
        return 0;
    }
    if (d == 1 && mt == 12 && R->nsh > 0)
    {
        int s = R->sh[R->nsh > 1 ? 1 : 0].suites[0];
        if (suite_is_ecdhe(s) && ml >= 4 && body[0] == 3)
        {
            int pl = body[3], lv = (R->sh[R->nsh > 1 ? 1 : 0].legacy[0] << 8) | R->sh[R->nsh > 1 ? 1 : 0].legacy[1];
            R->ske_group = (body[1] << 8) | body[2];
            if ((lv == 0x0303 || lv == 0xfefd) && 4 + pl + 2 <= ml) R->ske_sigalg = (body[4 + pl] << 8) | body[4 + pl + 1];
        }
    }
    if (d == 0 && mt == 15 && R->nsh > 0 && ml >= 2)
    {
        int lv = (R->sh[R->nsh > 1 ? 1 : 0].legacy[0] << 8) | R->sh[R->nsh > 1 ? 1 : 0].legacy[1];
        if (lv == 0x0303 || lv == 0xfefd) R->cv_sigalg = (body[0] << 8) | body[1];
    }
    return 0;
}

static void inspect_unit(run_t *R, int d, unsigned char **pp, int *plen)
{
    int dt = R->c->dtls, hl = dt ? 13 : 5, mh = dt ? 12 : 4, off = 0;
    while (off + hl <= *plen)
    {
        unsigned char *p = *pp;
        int type = p[off], rlen = (p[off + hl - 2] << 8) | p[off + hl - 1], epoch = dt ? ((p[off + 3] << 8) | p[off + 4]) : 0;
        int enc = dt ? epoch > 0 : (R->ccs[d] && !R->is13);
        if (off + hl + rlen > *plen) break;
        if (type == 21)
        {
            if (rlen == 2 && !enc) R->alert[d] = p[off + hl + 1];
        }
        else
        {
            R->after[d]++;
        }
        if (type == 20) R->ccs[d] = 1;
        if (type == 22 && !enc)
        {
            int o = off + hl, end = off + hl + rlen;
            while (o + mh <= end)
            {
                int mt, ml, delta;
                p = *pp;
                mt = p[o]; ml = (p[o + 1] << 16) | (p[o + 2] << 8) | p[o + 3];
                if (dt && (((p[o + 6] << 16) | (p[o + 7] << 8) | p[o + 8]) != 0 || ((p[o + 9] << 16) | (p[o + 10] << 8) | p[o + 11]) != ml)) break; /* fragmented */
                if (o + mh + ml > end) break;
                delta = on_message(R, d, pp, plen, off, hl, o, mh, mt, ml);
                ml += delta; end += delta; rlen += delta;
                o += mh + ml;
            }
        }
        off += hl + rlen;
    }
}

static void run_pump(run_t *R, int max_units)
{
    world_t *w = &R->w;
    int n = 0, progress = 1, d;
    world_collect(w, 0);
    world_collect(w, 1);
    while (progress && n < max_units)
    {
        progress = 0;
        for (d = 0; d < 2; d++)
        {
            while (w->wire[d].n > 0 && n < max_units)
            {
                rec_t r = world_wire_pop(w, d);
                inspect_unit(R, d, &r.p, &r.len);
                world_feed(w, 1 - d, r.p, r.len);
                free(r.p);
                n++;
                progress = 1;
            }
        }
    }
}

static int nonzero(const unsigned char *p, int n) { int i, a = 0; for (i = 0; i < n; i++) a |= p[i]; return a != 0; }

static void run_exec(run_t *R)
{
    world_t *w = &R->w;
    int i;
    fill_ctx(R);
    if (run_setup(R) < 0) return;
    run_pump(R, 300);
    for (i = 0; i < 2; i++)
    {
        ssl_t *s = w->s[i].ssl;
        psCipher16_t cid = 0;
        R->complete[i] = world_is_complete(w, i);
        R->ver_enc[i] = psEncodeVersion(matrixSslGetNegotiatedVersion(s));
        if (matrixSslGetNegotiatedCiphersuite(s, &cid) >= 0) R->suite[i] = cid;
        R->ems[i] = s->extFlags.extended_master_secret;
        R->group[i] = s->tls13NegotiatedGroup;
        R->sigalg[i] = i ? s->sec.tls13CvSigAlg : s->sec.tls13PeerCvSigAlg;
    }
    if (R->complete[0] && R->complete[1])
    {
        ssl_t *c = w->s[0].ssl, *s = w->s[1].ssl;
        if (R->ver_enc[0] == 0x0304)
        {
            R->keys_equal = !memcmp(c->sec.tls13AppWriteKey, s->sec.tls13AppReadKey, SSL_MAX_SYM_KEY_SIZE) && !memcmp(c->sec.tls13AppReadKey, s->sec.tls13AppWriteKey, SSL_MAX_SYM_KEY_SIZE)
                && nonzero(c->sec.tls13AppWriteKey, 16) && nonzero(c->sec.tls13AppReadKey, 16);
        }
        else
        {
            R->keys_equal = !memcmp(c->sec.masterSecret, s->sec.masterSecret, SSL_HS_MASTER_SIZE) && nonzero(c->sec.masterSecret, SSL_HS_MASTER_SIZE);
        }
        world_app_send(w, 0, (const unsigned char *) "ping", 4);
        run_pump(R, 40);
        world_app_send(w, 1, (const unsigned char *) "pong!", 5);
        run_pump(R, 40);
        R->ping_ok = w->s[1].delivered.len == 4 && !memcmp(w->s[1].delivered.p, "ping", 4) && w->s[0].delivered.len == 5 && !memcmp(w->s[0].delivered.p, "pong!", 5);
    }
}
