/* drv_c07 - C07: negotiated parameters are ones both sides enabled; downgrades refused.
 *
 * (A) configuration products (exhaustive): version lists x version lists (all ordered non-empty lists of
 *     {1.1,1.2,1.3} + "library default", DTLS flag sets), version x suite cross, cipher-suite subsets, key-exchange
 *     group subsets (TLS 1.3 and ECDHE 1.2), signature-algorithm subsets, extended-master-secret flags, fallback SCSV.
 * (B) man in the middle: on representative configuration pairs EVERY single-field rewrite of ClientHello /
 *     ServerHello / HelloRetryRequest produced by the structural parser in c07_hello.h.
 * Every case runs two real MatrixSSL sessions in a forked child; the oracle is a reference negotiation function
 * plus membership checks against the configuration and against what the ClientHello on the wire offered. */
#include "mxv.h"
#include "wire.h"
#include "c07_hello.h"
#include <sys/mman.h>
#include <sys/wait.h>
#include <unistd.h>

#include "testkeys/RSA/2048_RSA.h"
#include "testkeys/RSA/2048_RSA_KEY.h"
#include "testkeys/RSA/2048_RSA_CA.h"
#include "testkeys/EC/256_EC.h"
#include "testkeys/EC/256_EC_KEY.h"
#include "testkeys/EC/256_EC_CA.h"
#include "testkeys/PSK/psk.h"
#include "testkeys/PSK/tls13_psk.h"

static int thorough;

/* ------------------------------------------------------------------------------ parameter tables */
static const struct { const char *name; psProtocolVersion_t v; int enc; int rank; } VT[] = {
    { "1.1", v_tls_1_1, 0x0302, 1 }, { "1.2", v_tls_1_2, 0x0303, 2 }, { "1.3", v_tls_1_3, 0x0304, 3 },
    { "d1.0", v_dtls_1_0, 0xfeff, 1 }, { "d1.2", v_dtls_1_2, 0xfefd, 2 } };
enum { T11 = 0, T12, T13, D10, D12 };

/* ordered TLS version lists: 0..6 default (descending) order, 7..14 every other order, 15 = library default (no list) */
#define NVL 16
static const struct { int n; int v[3]; } VL[NVL] = {
    { 1, { T13 } }, { 1, { T12 } }, { 1, { T11 } }, { 2, { T13, T12 } }, { 2, { T13, T11 } }, { 2, { T12, T11 } }, { 3, { T13, T12, T11 } },
    { 2, { T12, T13 } }, { 2, { T11, T13 } }, { 2, { T11, T12 } },
    { 3, { T13, T11, T12 } }, { 3, { T12, T13, T11 } }, { 3, { T12, T11, T13 } }, { 3, { T11, T13, T12 } }, { 3, { T11, T12, T13 } },
    { 0, { 0 } } };
/* DTLS: the version-list setters refuse DTLS versions; the only sets expressible are the versionFlag ones */
static const struct { int n; int v[2]; } DL[2] = { { 1, { D10 } }, { 2, { D12, D10 } } };

enum { K_PSK = 0, K_RSA, K_EC, K_ALL };
static const char *kname[] = { "psk", "rsa", "ecdsa", "rsa+ecdsa+psk" };

#define S_13A   0x1301
#define S_13B   0x1302
#define S_PSK   0x008c   /* TLS_PSK_WITH_AES_128_CBC_SHA: every version <= 1.2 */
#define S_PSK2  0x00ae   /* TLS_PSK_WITH_AES_128_CBC_SHA256: 1.2 only */
#define S_RSA   0x002f
#define S_RSAG  0x009c
#define S_ERSA  0xc02f
#define S_ERSA2 0xc030
#define S_ERSAC 0xc013
#define S_ERSA3 0xc027
#define S_EEC   0xc009
#define S_EECG  0xc02b

typedef struct {
    int dtls, keys;
    int cver[3], ncver;             /* VT indexes in priority order; n = 0: library default (versionFlag 0, no list) */
    int sver[3], nsver;
    uint16_t csuite[6]; int ncsuite;
    uint16_t sdis[6]; int nsdis;    /* suites disabled on the server session */
    struct { uint16_t s; int enable; } shist[4]; int nshist;  /* enable-status history applied instead of sdis (sdis = its net effect) */
    uint16_t cgrp[4], sgrp[4]; int ncgrp, nsgrp, nshares;
    int cec, sec;                   /* ecFlags (TLS <= 1.2 curves); 0 = default */
    uint16_t csig[4], ssig[4]; int ncsig, nssig;
    int cems, sems, fallback, client_auth, tickets;
    int prelude, pre_sems;           /* a first, complete connection with the server's EMS option pre_sems; its session id / ticket is then offered to the judged server session (option sems) */
    char label[48];
} ncfg_t;

/* --------------------------------------------------------------------------- suite knowledge */
static int suite_is13(int s) { return (s & 0xff00) == 0x1300; }
static int suite_is_ecdhe(int s) { return s == 0xc013 || s == 0xc014 || s == 0xc027 || s == 0xc028 || s == 0xc02f || s == 0xc030 || s == 0xc009 || s == 0xc00a || s == 0xc023 || s == 0xc024 || s == 0xc02b || s == 0xc02c; }
static int suite_is_ecdsa(int s) { return s == 0xc009 || s == 0xc00a || s == 0xc023 || s == 0xc024 || s == 0xc02b || s == 0xc02c; }
static int suite_is_psk(int s) { return s == 0x008c || s == 0x008d || s == 0x00ae || s == 0x00af; }
static int suite_needs12(int s) { return s == 0x00ae || s == 0x00af || s == 0x009c || s == 0x009d || s == 0x003c || s == 0x003d || s == 0xc027 || s == 0xc028 || s == 0xc02f || s == 0xc030 || s == 0xc023 || s == 0xc024 || s == 0xc02b || s == 0xc02c; }
static int suite_ok_for_rank(int s, int rank) { return suite_is13(s) ? rank == 3 : (rank < 3 && (rank == 2 || !suite_needs12(s))); }
static int suite_creds_ok(int s, int keys)
{
    if (suite_is13(s)) return 1;
    if (suite_is_psk(s)) return keys == K_PSK || keys == K_ALL;
    if (suite_is_ecdsa(s)) return keys == K_EC || keys == K_ALL;
    return keys == K_RSA || keys == K_ALL;
}

/* ----------------------------------------------------------------------- one execution ("run") */
typedef struct {
    const ncfg_t *c;
    world_t w;
    int target, k;                  /* rewrite target (-1 none): 0 CH#0, 1 CH#1, 2 both CHs, 3 SH#0, 4 SH#1;  k = rewrite index */
    rw_ctx_t cx;
    rw_info_t info;
    int applied, noop, nrw[5];      /* nrw: number of rewrites available per target (counted while running) */
    /* wire observations */
    unsigned char rewritten[1700]; int rewrittenlen;
    unsigned char raw[4][1600]; int rawlen[4];   /* 0,1: ClientHello occurrences; 2,3: ServerHello/HRR occurrences (as sent) */
    hello_t ch[2], sh[2]; int nch, nsh, nhvr;
    int is13, ccs[2];
    int alert[2];                   /* description of a plaintext alert emitted by side, 0 none */
    int after[2];                   /* non-alert records emitted by side after the (last) injection */
    int c_after_sh;                 /* non-alert records emitted by the client after the first ServerHello was delivered */
    int ske_group, ske_sigalg, cv_sigalg;
    int roundtrip_bad, setup_rc;
    char setup_what[80];
    /* end state */
    int complete[2], ver_enc[2], suite[2], group[2], sigalg[2], ems[2];
    int keys_equal, ping_ok;
    uint32_t supp[2];               /* ssl->supportedVersions after session creation */
} run_t;

static int32 c07_cert_cb(ssl_t *ssl, psX509Cert_t *cert, int32 alert)
{
    (void) ssl; (void) cert;
    return alert;
}

static int load_keys(const ncfg_t *c, int side, sslKeys_t **out)
{
    sslKeys_t *k = NULL;
    int rc = 0, want_id = side == 1 || c->client_auth;
    size_t i;
    if (matrixSslNewKeys(&k, NULL) < 0) return -1;
    *out = k;
    if (c->keys == K_PSK || c->keys == K_ALL)
    {
        for (i = 0; i < PSK_HEADER_TABLE_COUNT; i++)
        {
            rc = matrixSslLoadPsk(k, PSK_HEADER_TABLE[i].key, sizeof(PSK_HEADER_TABLE[i].key), PSK_HEADER_TABLE[i].id, sizeof(PSK_HEADER_TABLE[i].id));
            if (rc < 0) return rc;
        }
    }
    if (c->keys == K_PSK)
    {
        psTls13SessionParams_t sp;
        memset(&sp, 0, sizeof(sp));
        rc = matrixSslLoadTls13Psk(k, g_tls13_test_psk_256, 32, g_tls13_test_psk_id_sha256, sizeof(g_tls13_test_psk_id_sha256), &sp);
        if (rc < 0) return rc;
    }
    if (c->keys == K_RSA || c->keys == K_ALL)
    {
        rc = matrixSslLoadRsaKeysMem(k, want_id ? RSA2048 : NULL, want_id ? sizeof(RSA2048) : 0, want_id ? RSA2048KEY : NULL, want_id ? sizeof(RSA2048KEY) : 0, RSA2048CA, sizeof(RSA2048CA));
        if (rc < 0) return rc;
    }
    if (c->keys == K_EC || c->keys == K_ALL)
    {
        rc = matrixSslLoadEcKeysMem(k, want_id ? EC256 : NULL, want_id ? sizeof(EC256) : 0, want_id ? EC256KEY : NULL, want_id ? sizeof(EC256KEY) : 0, EC256CA, sizeof(EC256CA));
        if (rc < 0) return rc;
    }
    if (side == 1 && c->tickets)
    {
        static const unsigned char name[16] = "mxv-ticket-key-1";
        static const unsigned char sk[32] = { 1, 2, 3, 4, 5, 6, 7, 8, 9, 10, 11, 12, 13, 14, 15, 16, 17, 18, 19, 20, 21, 22, 23, 24, 25, 26, 27, 28, 29, 30, 31, 32 };
        rc = matrixSslLoadSessionTicketKeys(k, name, sk, 32, sk, 32);
        if (rc < 0) return rc;
    }
    return 0;
}

static int set_versions(sslSessOpts_t *o, int dtls, const int *v, int n, int server)
{
    psProtocolVersion_t list[3];
    int i;
    if (dtls)
    {
        int has12 = 0;
        for (i = 0; i < n; i++) if (v[i] == D12) has12 = 1;
        o->versionFlag = SSL_FLAGS_DTLS | (has12 ? SSL_FLAGS_TLS_1_2 : SSL_FLAGS_TLS_1_1);
        return 0;
    }
    if (n == 0)
    {
        o->versionFlag = 0;    /* library default */
        return 0;
    }
    for (i = 0; i < n; i++) list[i] = VT[v[i]].v;
    return server ? matrixSslSessOptsSetServerTlsVersions(o, list, n) : matrixSslSessOptsSetClientTlsVersions(o, list, n);
}

static int run_setup(run_t *R)
{
    const ncfg_t *c = R->c;
    world_t *w = &R->w;
    sslSessOpts_t so, co;
    psCipher16_t suites[8];
    uint16_t tmp[4];
    int rc, i;
#define SETUP_FAIL(what, code) do { snprintf(R->setup_what, sizeof(R->setup_what), "%s rc %d", what, (int) (code)); R->setup_rc = (int) (code) ? (int) (code) : -1; return -1; } while (0)

    memset(w, 0, sizeof(*w));
    w->s[1].is_server = 1;
    w->cfg.ver = c->dtls ? V_DTLS12 : V_TLS12;
    buf_init(&w->trace);
    buf_init(&w->s[0].delivered); buf_init(&w->s[1].delivered);
    buf_init(&w->s[0].submitted); buf_init(&w->s[1].submitted);
    env_reset(7);
    if (world_open() < 0) SETUP_FAIL("matrixSslOpen", -1);
    if ((rc = load_keys(c, 0, &w->s[0].keys)) < 0) SETUP_FAIL("client keys", rc);
    if ((rc = load_keys(c, 1, &w->s[1].keys)) < 0) SETUP_FAIL("server keys", rc);
    if (matrixSslNewSessionId(&w->sid, NULL) < 0) SETUP_FAIL("session id", -1);

    memset(&so, 0, sizeof(so));
    memset(&co, 0, sizeof(co));
    if ((rc = set_versions(&co, c->dtls, c->cver, c->ncver, 0)) < 0) SETUP_FAIL("client version list", rc);
    if ((rc = set_versions(&so, c->dtls, c->sver, c->nsver, 1)) < 0) SETUP_FAIL("server version list", rc);
    so.userPtr = &w->s[1];
    co.userPtr = &w->s[0];
    if (c->ncgrp)
    {
        memcpy(tmp, c->cgrp, sizeof(tmp));
        if ((rc = matrixSslSessOptsSetKeyExGroups(&co, tmp, (psSize_t) c->ncgrp, (psSize_t) (c->nshares ? c->nshares : 1))) < 0) SETUP_FAIL("client groups", rc);
    }
    if (c->nsgrp)
    {
        memcpy(tmp, c->sgrp, sizeof(tmp));
        if ((rc = matrixSslSessOptsSetKeyExGroups(&so, tmp, (psSize_t) c->nsgrp, 1)) < 0) SETUP_FAIL("server groups", rc);
    }
    co.ecFlags = c->cec;
    so.ecFlags = c->sec;
    if (c->ncsig)
    {
        memcpy(tmp, c->csig, sizeof(tmp));
        if ((rc = matrixSslSessOptsSetSigAlgs(&co, tmp, (psSize_t) c->ncsig)) < 0) SETUP_FAIL("client sigalgs", rc);
    }
    if (c->nssig)
    {
        memcpy(tmp, c->ssig, sizeof(tmp));
        if ((rc = matrixSslSessOptsSetSigAlgs(&so, tmp, (psSize_t) c->nssig)) < 0) SETUP_FAIL("server sigalgs", rc);
    }
    co.extendedMasterSecret = (short) c->cems;
    so.extendedMasterSecret = (short) c->sems;
    co.fallbackScsv = (short) c->fallback;
    if (c->tickets) co.ticketResumption = 1;
    if (c->dtls) matrixDtlsSetPmtu(-1);
    if (c->prelude)
    {
        sslSessOpts_t so1 = so;
        so1.extendedMasterSecret = (short) c->pre_sems;
        for (i = 0; i < c->ncsuite; i++) suites[i] = c->csuite[i];
        if (matrixSslNewServerSession(&w->s[1].ssl, w->s[1].keys, NULL, &so1) >= 0 &&
            matrixSslNewClientSession(&w->s[0].ssl, w->s[0].keys, w->sid, suites, (uint8_t) c->ncsuite, c07_cert_cb, NULL, NULL, NULL, &co) >= 0)
        {
            world_pump(w, 200);
            if (world_is_complete(w, 0) && world_is_complete(w, 1))
            {
                world_app_send(w, 0, (const unsigned char *) "prelude", 7);
                world_pump(w, 50);
                world_close(w, 0);
                world_pump(w, 20);
            }
        }
        world_free_sessions(w);
        world_wire_clear(w, 0);
        world_wire_clear(w, 1);
        buf_clear(&w->trace);
    }
    rc = matrixSslNewServerSession(&w->s[1].ssl, w->s[1].keys, c->client_auth ? c07_cert_cb : NULL, &so);
    if (rc < 0) SETUP_FAIL("NewServerSession", rc);
    for (i = 0; i < c->nshist; i++)
    {
        if ((rc = matrixSslSetCipherSuiteEnabledStatus(w->s[1].ssl, c->shist[i].s, c->shist[i].enable ? PS_TRUE : PS_FALSE)) < 0) SETUP_FAIL("SetCipherSuiteEnabledStatus(history)", rc);
    }
    for (i = 0; i < c->nsdis && !c->nshist; i++)
    {
        if ((rc = matrixSslSetCipherSuiteEnabledStatus(w->s[1].ssl, c->sdis[i], PS_FALSE)) < 0) SETUP_FAIL("SetCipherSuiteEnabledStatus", rc);
    }
    for (i = 0; i < c->ncsuite; i++) suites[i] = c->csuite[i];
    rc = matrixSslNewClientSession(&w->s[0].ssl, w->s[0].keys, w->sid, suites, (uint8_t) c->ncsuite, c07_cert_cb, NULL, NULL, NULL, &co);
    if (rc < 0) SETUP_FAIL("NewClientSession", rc);
    R->supp[0] = w->s[0].ssl->supportedVersions & 0xffffff;
    R->supp[1] = w->s[1].ssl->supportedVersions & 0xffffff;
    return 0;
}

/* ------------------------------------------------------------------- wire inspection + rewriting */
static void put24(unsigned char *p, int v) { p[0] = (unsigned char) (v >> 16); p[1] = (unsigned char) (v >> 8); p[2] = (unsigned char) v; }

static void fill_ctx(run_t *R)
{
    static uint16_t repl[16], cenc[4];
    const ncfg_t *c = R->c;
    int n = 0, i, j, m = 0, smax = 0, cmax = 0;
    static const uint16_t extra[] = { S_RSA, S_PSK, S_13B, S_ERSA2 };
    memset(&R->cx, 0, sizeof(R->cx));
    for (i = 0; i < c->ncsuite; i++) repl[n++] = c->csuite[i];
    for (j = 0; j < 4; j++)
    {
        int dup = 0;
        for (i = 0; i < n; i++) if (repl[i] == extra[j]) dup = 1;
        if (!dup) repl[n++] = extra[j];
    }
    R->cx.dtls = c->dtls;
    R->cx.repl_suites = repl; R->cx.nrepl = n;
    for (i = 0; i < (c->ncver ? c->ncver : 3); i++)
    {
        int vi = c->ncver ? c->cver[i] : i;
        cenc[m++] = (uint16_t) VT[vi].enc;
        if (VT[vi].rank > cmax) cmax = VT[vi].rank;
        if (vi == T13) R->cx.client_has_13 = 1;
    }
    for (i = 0; i < (c->nsver ? c->nsver : 3); i++)
    {
        int vi = c->nsver ? c->sver[i] : i;
        if (VT[vi].rank > smax) smax = VT[vi].rank;
    }
    R->cx.client_enabled_enc = cenc; R->cx.nclient_enabled = m;
    R->cx.server_max_rank = smax; R->cx.client_legacy_rank = cmax;
}

/* one plaintext handshake message inside unit *pp at [ms, ms+mh+ml); may replace the unit buffer; returns length delta */
static int on_message(run_t *R, int d, unsigned char **pp, int *plen, int rec_off, int hl, int ms, int mh, int mt, int ml)
{
    unsigned char *p = *pp;
    const unsigned char *body = p + ms + mh;
    int dt = R->c->dtls;
    if (d == 1 && mt == 3) R->nhvr++;
    if ((d == 0 && mt == 1) || (d == 1 && mt == 2))
    {
        int is_sh = d == 1, occ = is_sh ? R->nsh : R->nch, tgt_here = 0;
        hello_t *h = is_sh ? &R->sh[occ > 1 ? 1 : occ] : &R->ch[occ > 1 ? 1 : occ];
        static unsigned char enc[2048];
        int el, slot = (is_sh ? 2 : 0) + (occ > 1 ? 1 : occ);
        if (hello_parse(h, is_sh, dt, body, ml) < 0) { R->roundtrip_bad = 1; return 0; }
        el = hello_encode(h, enc, sizeof(enc));
        if (el != ml || memcmp(enc, body, (size_t) ml)) R->roundtrip_bad = 2;
        if (mh + ml <= (int) sizeof(R->raw[0])) { memcpy(R->raw[slot], p + ms, (size_t) (mh + ml)); R->rawlen[slot] = mh + ml; }
        if (is_sh)
        {
            int xi = hello_find(h, X_SUPPORTED_VERSIONS);
            R->nsh++;
            if (xi >= 0 && h->ext[xi].len == 2 && h->arena[h->ext[xi].off] == 3 && h->arena[h->ext[xi].off + 1] == 4) R->is13 = 1;
            R->cx.offered = R->ch[R->nch > 1 ? 1 : 0].suites; R->cx.noffered = R->ch[R->nch > 1 ? 1 : 0].nsuites;
            R->cx.honest_version_enc = R->is13 ? 0x0304 : ((h->legacy[0] << 8) | h->legacy[1]);
            R->cx.ems_required_by_peer = R->c->cems > 0;
            tgt_here = (R->target == 3 && occ == 0) || (R->target == 4 && occ == 1);
            if (occ < 2) { hello_t t = *h; R->nrw[3 + occ] = hello_rewrites(&t, &R->cx, -1, NULL); }
        }
        else
        {
            R->nch++;
            R->cx.ems_required_by_peer = R->c->sems > 0;
            tgt_here = (R->target == 0 && occ == 0) || (R->target == 1 && occ == 1) || (R->target == 2 && occ < 2);
            if (occ < 2) { hello_t t = *h; R->nrw[occ] = hello_rewrites(&t, &R->cx, -1, NULL); if (occ == 1) R->nrw[2] = R->nrw[0] < R->nrw[1] ? R->nrw[0] : R->nrw[1]; }
        }
        if (tgt_here)
        {
            hello_t t = *h;
            int total = hello_rewrites(&t, &R->cx, R->k, &R->info), nl, delta, len = *plen;
            unsigned char *np;
            if (R->k >= total) { R->noop = 1; return 0; }
            nl = hello_encode(&t, enc, sizeof(enc));
            if (nl == ml && !memcmp(enc, body, (size_t) ml)) { R->noop = 1; return 0; }
            delta = nl - ml;
            np = h_malloc((size_t) (len + delta + 1));
            memcpy(np, p, (size_t) (ms + mh));
            memcpy(np + ms + mh, enc, (size_t) nl);
            memcpy(np + ms + mh + nl, p + ms + mh + ml, (size_t) (len - (ms + mh + ml)));
            put24(np + ms + 1, nl);
            if (dt) put24(np + ms + 9, nl);
            {
                int rl = ((np[rec_off + hl - 2] << 8) | np[rec_off + hl - 1]) + delta;
                np[rec_off + hl - 2] = (unsigned char) (rl >> 8); np[rec_off + hl - 1] = (unsigned char) rl;
            }
            free(p);
            *pp = np; *plen = len + delta;
            if (mh + nl <= (int) sizeof(R->rewritten)) { memcpy(R->rewritten, np + ms, (size_t) (mh + nl)); R->rewrittenlen = mh + nl; }
            R->applied++;
            R->after[0] = R->after[1] = 0;
            R->alert[0] = R->alert[1] = 0;
            return delta;
        }
        return 0;
    }
    if (d == 1 && mt == 12 && R->nsh > 0)
    {
        int s = R->sh[R->nsh > 1 ? 1 : 0].suites[0];
        if (suite_is_ecdhe(s) && ml >= 4 && body[0] == 3)
        {
            int pl = body[3], lv = (R->sh[R->nsh > 1 ? 1 : 0].legacy[0] << 8) | R->sh[R->nsh > 1 ? 1 : 0].legacy[1];
            R->ske_group = (body[1] << 8) | body[2];
            if ((lv == 0x0303 || lv == 0xfefd) && 4 + pl + 2 <= ml) R->ske_sigalg = (body[4 + pl] << 8) | body[4 + pl + 1];
        }
    }
    if (d == 0 && mt == 15 && R->nsh > 0 && ml >= 2)
    {
        int lv = (R->sh[R->nsh > 1 ? 1 : 0].legacy[0] << 8) | R->sh[R->nsh > 1 ? 1 : 0].legacy[1];
        if (lv == 0x0303 || lv == 0xfefd) R->cv_sigalg = (body[0] << 8) | body[1];
    }
    return 0;
}

static void inspect_unit(run_t *R, int d, unsigned char **pp, int *plen)
{
    int dt = R->c->dtls, hl = dt ? 13 : 5, mh = dt ? 12 : 4, off = 0;
    while (off + hl <= *plen)
    {
        unsigned char *p = *pp;
        int type = p[off], rlen = (p[off + hl - 2] << 8) | p[off + hl - 1], epoch = dt ? ((p[off + 3] << 8) | p[off + 4]) : 0;
        int enc = dt ? epoch > 0 : (R->ccs[d] && !R->is13);
        if (off + hl + rlen > *plen) break;
        if (type == 21)
        {
            if (rlen == 2 && !enc) R->alert[d] = p[off + hl + 1];
        }
        else
        {
            R->after[d]++;
            if (d == 0 && R->nsh > 0) R->c_after_sh++;
        }
        if (type == 20) R->ccs[d] = 1;
        if (type == 22 && !enc)
        {
            int o = off + hl, end = off + hl + rlen;
            while (o + mh <= end)
            {
                int mt, ml, delta;
                p = *pp;
                mt = p[o]; ml = (p[o + 1] << 16) | (p[o + 2] << 8) | p[o + 3];
                if (dt && (((p[o + 6] << 16) | (p[o + 7] << 8) | p[o + 8]) != 0 || ((p[o + 9] << 16) | (p[o + 10] << 8) | p[o + 11]) != ml)) break; /* fragmented */
                if (o + mh + ml > end) break;
                delta = on_message(R, d, pp, plen, off, hl, o, mh, mt, ml);
                ml += delta; end += delta; rlen += delta;
                o += mh + ml;
            }
        }
        off += hl + rlen;
    }
}

static void run_pump(run_t *R, int max_units)
{
    world_t *w = &R->w;
    int n = 0, progress = 1, d;
    world_collect(w, 0);
    world_collect(w, 1);
    while (progress && n < max_units)
    {
        progress = 0;
        for (d = 0; d < 2; d++)
        {
            while (w->wire[d].n > 0 && n < max_units)
            {
                rec_t r = world_wire_pop(w, d);
                inspect_unit(R, d, &r.p, &r.len);
                world_feed(w, 1 - d, r.p, r.len);
                free(r.p);
                n++;
                progress = 1;
            }
        }
    }
}

static int nonzero(const unsigned char *p, int n) { int i, a = 0; for (i = 0; i < n; i++) a |= p[i]; return a != 0; }

static void run_exec(run_t *R)
{
    world_t *w = &R->w;
    int i;
    fill_ctx(R);
    if (run_setup(R) < 0) return;
    run_pump(R, 300);
    for (i = 0; i < 2; i++)
    {
        ssl_t *s = w->s[i].ssl;
        psCipher16_t cid = 0;
        R->complete[i] = world_is_complete(w, i);
        R->ver_enc[i] = psEncodeVersion(matrixSslGetNegotiatedVersion(s));
        if (matrixSslGetNegotiatedCiphersuite(s, &cid) >= 0) R->suite[i] = cid;
        R->ems[i] = s->extFlags.extended_master_secret;
        R->group[i] = s->tls13NegotiatedGroup;
        R->sigalg[i] = i ? s->sec.tls13CvSigAlg : s->sec.tls13PeerCvSigAlg;
    }
    if (R->complete[0] && R->complete[1])
    {
        ssl_t *c = w->s[0].ssl, *s = w->s[1].ssl;
        if (R->ver_enc[0] == 0x0304)
        {
            R->keys_equal = !memcmp(c->sec.tls13AppWriteKey, s->sec.tls13AppReadKey, SSL_MAX_SYM_KEY_SIZE) && !memcmp(c->sec.tls13AppReadKey, s->sec.tls13AppWriteKey, SSL_MAX_SYM_KEY_SIZE)
                && nonzero(c->sec.tls13AppWriteKey, 16) && nonzero(c->sec.tls13AppReadKey, 16);
        }
        else
        {
            R->keys_equal = !memcmp(c->sec.masterSecret, s->sec.masterSecret, SSL_HS_MASTER_SIZE) && nonzero(c->sec.masterSecret, SSL_HS_MASTER_SIZE);
        }
        world_app_send(w, 0, (const unsigned char *) "ping", 4);
        run_pump(R, 40);
        world_app_send(w, 1, (const unsigned char *) "pong!", 5);
        run_pump(R, 40);
        R->ping_ok = w->s[1].delivered.len == 4 && !memcmp(w->s[1].delivered.p, "ping", 4) && w->s[0].delivered.len == 5 && !memcmp(w->s[0].delivered.p, "pong!", 5);
    }
}

/* ----------------------------------------------------------------------------- products -> config */
enum { P_VER = 0, P_VERC, P_VERD, P_VXS, P_SUITE, P_SUITE12, P_GRP13, P_GRP12, P_SIG13, P_SIG12, P_SIG13CA, P_EMS, P_FB, P_RW, P_SHIST, P_EMSRES, P_DISRES, P_NPROD };
static const char *pname[] = { "ver", "verc", "verd", "vxs", "suite", "suite12", "grp13", "grp12", "sig13", "sig12", "sig13ca", "ems", "fb", "rw", "shist", "emsres", "disres" };
static long psize(int p)
{
    static const long n[] = { NVL * NVL, 2 * NVL * NVL, 4, NVL * NVL * 49, 225, 225, 450, 49, 225, 225, 225, 36, 25, 18, 258 * 9, 54, 16 };
    return n[p];
}

static void set_vl(int *dst, int *n, int li) { int i; *n = VL[li].n; for (i = 0; i < VL[li].n; i++) dst[i] = VL[li].v[i]; }
static void set_dl(int *dst, int *n, int li) { int i; *n = DL[li].n; for (i = 0; i < DL[li].n; i++) dst[i] = DL[li].v[i]; }
static int subset16(const uint16_t *pool, int npool, int mask, uint16_t *out) { int i, n = 0; for (i = 0; i < npool; i++) if (mask & (1 << i)) out[n++] = pool[i]; return n; }
static int is_default_order(const int *v, int n) { int i; for (i = 0; i + 1 < n; i++) if (VT[v[i]].rank < VT[v[i + 1]].rank) return 0; return 1; }

static const uint16_t POOL_VXS[3] = { S_13A, S_PSK2, S_PSK };
static const uint16_t POOL_SUITE[4] = { S_13A, S_ERSA, S_EEC, S_PSK };
static const uint16_t POOL_SUITE12[4] = { S_ERSA, S_ERSA2, S_ERSA3, S_ERSAC };
static const uint16_t POOL_GRP[4] = { 0x0017, 0x0018, 0x0019, 0x001d };
static const int POOL_EC[3] = { IS_SECP256R1, IS_SECP384R1, IS_SECP521R1 };
static const uint16_t POOL_SIG13[4] = { 0x0804, 0x0805, 0x0806, 0x0403 };
static const uint16_t POOL_SIG12[4] = { 0x0401, 0x0501, 0x0601, 0x0201 };

static void rw_base(int b, ncfg_t *c);

static int build_cfg(int prod, long idx, ncfg_t *c)
{
    int i;
    memset(c, 0, sizeof(*c));
    if (idx < 0 || idx >= psize(prod)) return -1;
    switch (prod)
    {
    case P_VER:
        c->keys = K_PSK;
        set_vl(c->cver, &c->ncver, (int) (idx / NVL));
        set_vl(c->sver, &c->nsver, (int) (idx % NVL));
        /* a client list may only contain suites usable with one of its versions (the API refuses the session otherwise) */
        for (i = 0; i < c->ncver; i++) if (c->cver[i] == T13) c->csuite[0] = S_13A;
        if (!c->ncver) c->csuite[0] = S_13A;
        c->ncsuite = c->csuite[0] ? 1 : 0;
        c->csuite[c->ncsuite++] = S_PSK;
        break;
    case P_VERC:
    {
        /* the same ordered-list product with certificate suites: RSA (idx < 256) and ECDSA credentials */
        int ec = idx >= NVL * NVL, has13 = 0, has12 = 0;
        long j = idx % (NVL * NVL);
        c->keys = ec ? K_EC : K_RSA;
        set_vl(c->cver, &c->ncver, (int) (j / NVL));
        set_vl(c->sver, &c->nsver, (int) (j % NVL));
        for (i = 0; i < c->ncver; i++) { if (c->cver[i] == T13) has13 = 1; if (c->cver[i] == T12) has12 = 1; }
        if (!c->ncver) has13 = has12 = 1;
        if (has13) c->csuite[c->ncsuite++] = S_13A;
        if (has12) c->csuite[c->ncsuite++] = ec ? S_EECG : S_ERSA;
        c->csuite[c->ncsuite++] = ec ? S_EEC : S_ERSAC;
        break;
    }
    case P_VERD:
        c->keys = K_PSK; c->dtls = 1;
        set_dl(c->cver, &c->ncver, (int) (idx / 2));
        set_dl(c->sver, &c->nsver, (int) (idx % 2));
        c->csuite[0] = S_PSK; c->ncsuite = 1;
        break;
    case P_VXS:
    {
        int cv = (int) (idx % NVL), sv = (int) (idx / NVL % NVL), cs = (int) (idx / (NVL * NVL) % 7) + 1, ss = (int) (idx / (NVL * NVL * 7)) + 1;
        c->keys = K_PSK;
        set_vl(c->cver, &c->ncver, cv);
        set_vl(c->sver, &c->nsver, sv);
        c->ncsuite = subset16(POOL_VXS, 3, cs, c->csuite);
        c->nsdis = subset16(POOL_VXS, 3, ~ss & 7, c->sdis);
        break;
    }
    case P_SUITE:
    case P_SUITE12:
    {
        const uint16_t *pool = prod == P_SUITE ? POOL_SUITE : POOL_SUITE12;
        int cs = (int) (idx % 15) + 1, ss = (int) (idx / 15) + 1;
        c->keys = prod == P_SUITE ? K_ALL : K_RSA;
        set_vl(c->cver, &c->ncver, prod == P_SUITE ? 6 : 1);
        set_vl(c->sver, &c->nsver, prod == P_SUITE ? 6 : 1);
        c->ncsuite = subset16(pool, 4, cs, c->csuite);
        c->nsdis = subset16(pool, 4, ~ss & 15, c->sdis);
        break;
    }
    case P_GRP13:
    {
        int cs = (int) (idx % 15) + 1, ss = (int) (idx / 15 % 15) + 1;
        c->keys = K_RSA;
        set_vl(c->cver, &c->ncver, 0);
        set_vl(c->sver, &c->nsver, 0);
        c->csuite[0] = S_13A; c->ncsuite = 1;
        c->ncgrp = subset16(POOL_GRP, 4, cs, c->cgrp);
        c->nsgrp = subset16(POOL_GRP, 4, ss, c->sgrp);
        c->nshares = idx >= 225 ? 2 : 1;
        if (c->nshares > c->ncgrp) return -1;
        break;
    }
    case P_GRP12:
    {
        int cs = (int) (idx % 7) + 1, ss = (int) (idx / 7) + 1;
        c->keys = K_RSA;
        set_vl(c->cver, &c->ncver, 1);
        set_vl(c->sver, &c->nsver, 1);
        c->csuite[0] = S_ERSA; c->ncsuite = 1;
        for (i = 0; i < 3; i++) { if (cs & (1 << i)) c->cec |= POOL_EC[i]; if (ss & (1 << i)) c->sec |= POOL_EC[i]; }
        break;
    }
    case P_SIG13:
    case P_SIG13CA:
    case P_SIG12:
    {
        const uint16_t *pool = prod == P_SIG12 ? POOL_SIG12 : POOL_SIG13;
        int cs = (int) (idx % 15) + 1, ss = (int) (idx / 15) + 1, li = prod == P_SIG12 ? 1 : 0;
        c->keys = K_RSA;
        set_vl(c->cver, &c->ncver, li);
        set_vl(c->sver, &c->nsver, li);
        c->csuite[0] = prod == P_SIG12 ? S_ERSA : S_13A; c->ncsuite = 1;
        c->ncsig = subset16(pool, 4, cs, c->csig);
        c->nssig = subset16(pool, 4, ss, c->ssig);
        c->client_auth = prod == P_SIG13CA;
        break;
    }
    case P_EMS:
    {
        static const int ev[3] = { 0, -1, 1 };
        int mode = (int) (idx / 9);
        c->cems = ev[idx % 3]; c->sems = ev[idx / 3 % 3];
        c->keys = mode == 1 ? K_RSA : K_PSK;
        c->dtls = mode == 3;
        if (c->dtls) { set_dl(c->cver, &c->ncver, 1); set_dl(c->sver, &c->nsver, 1); }
        else { set_vl(c->cver, &c->ncver, mode == 2 ? 2 : 1); set_vl(c->sver, &c->nsver, mode == 2 ? 2 : 1); }
        c->csuite[0] = mode == 1 ? S_RSA : S_PSK; c->ncsuite = 1;
        break;
    }
    case P_DISRES:
    {
        /* resumption of a session whose suite the server has switched off since: a first connection (all suites enabled),
           then the judged server session disables one of the two suites the client offers; {session id, ticket} x which
           suite x client order x {TLS 1.2, TLS 1.1} */
        static const uint16_t pair[2] = { S_RSA, S_ERSAC };
        int which = (int) (idx & 1), order = (int) (idx >> 1 & 1), tick = (int) (idx >> 2 & 1), v11 = (int) (idx >> 3 & 1);
        c->prelude = 1; c->tickets = tick;
        c->keys = K_RSA;
        set_vl(c->cver, &c->ncver, v11 ? 2 : 1); set_vl(c->sver, &c->nsver, v11 ? 2 : 1);
        c->csuite[0] = pair[order]; c->csuite[1] = pair[1 - order]; c->ncsuite = 2;
        c->sdis[0] = pair[which]; c->nsdis = 1;
        break;
    }
    case P_EMSRES:
    {
        /* resumption across a changed server requirement: client option x server option of the first connection x server
           option of the judged connection x {session id, ticket} */
        static const int ev[3] = { 0, -1, 1 };
        c->cems = ev[idx % 3]; c->pre_sems = ev[idx / 3 % 3]; c->sems = ev[idx / 9 % 3];
        c->tickets = (int) (idx / 27);
        c->prelude = 1;
        c->keys = K_RSA;
        set_vl(c->cver, &c->ncver, 1); set_vl(c->sver, &c->nsver, 1);
        c->csuite[0] = S_RSA; c->ncsuite = 1;
        break;
    }
    case P_SHIST:
    {
        /* every history of <= 3 enable/disable calls over 3 suites on the server session x every client list of 1 or 2 of them */
        static const int cl[9][2] = { {0,-1}, {1,-1}, {2,-1}, {0,1}, {1,0}, {0,2}, {2,0}, {1,2}, {2,1} };
        long h = idx / 9;
        int k = (int) (idx % 9), len, j, dis[3] = { 0, 0, 0 };
        c->keys = K_RSA;
        set_vl(c->cver, &c->ncver, 1);
        set_vl(c->sver, &c->nsver, 1);
        if (h < 6) { len = 1; } else if (h < 42) { len = 2; h -= 6; } else { len = 3; h -= 42; }
        c->nshist = len;
        for (j = len - 1; j >= 0; j--)
        {
            int op = (int) (h % 6);
            h /= 6;
            c->shist[j].s = POOL_SUITE12[op % 3];
            c->shist[j].enable = op / 3;
        }
        for (j = 0; j < len; j++) dis[c->shist[j].s == POOL_SUITE12[0] ? 0 : c->shist[j].s == POOL_SUITE12[1] ? 1 : 2] = !c->shist[j].enable;
        for (j = 0; j < 3; j++) if (dis[j]) c->sdis[c->nsdis++] = POOL_SUITE12[j];
        c->csuite[c->ncsuite++] = POOL_SUITE12[cl[k][0]];
        if (cl[k][1] >= 0) c->csuite[c->ncsuite++] = POOL_SUITE12[cl[k][1]];
        break;
    }
    case P_FB:
        c->keys = K_PSK; c->fallback = 1;
        if (idx < 21)
        {
            static const int cl[3] = { 1, 2, 5 };
            set_vl(c->cver, &c->ncver, cl[idx / 7]);
            set_vl(c->sver, &c->nsver, (int) (idx % 7));
            c->csuite[0] = S_PSK; c->ncsuite = 1;
        }
        else
        {
            c->dtls = 1;
            set_dl(c->cver, &c->ncver, (int) ((idx - 21) / 2));
            set_dl(c->sver, &c->nsver, (int) ((idx - 21) % 2));
            c->csuite[0] = S_PSK; c->ncsuite = 1;
        }
        break;
    case P_RW:
        rw_base((int) idx, c);
        break;
    default:
        return -1;
    }
    return 0;
}

/* representative configuration pairs for the man-in-the-middle rewrites */
static void rw_base(int b, ncfg_t *c)
{
    static const uint16_t s3[3] = { S_13A, S_ERSA, S_RSA };
    memset(c, 0, sizeof(*c));
    c->keys = K_RSA;
    memcpy(c->csuite, s3, sizeof(s3)); c->ncsuite = 3;
    switch (b)
    {
    case 0: set_vl(c->cver, &c->ncver, 6); set_vl(c->sver, &c->nsver, 6); snprintf(c->label, sizeof(c->label), "tls13-rsa(c=s={1.3,1.2,1.1})"); break;
    case 1: set_vl(c->cver, &c->ncver, 6); set_vl(c->sver, &c->nsver, 5); snprintf(c->label, sizeof(c->label), "tls12-ecdhe-rsa(c={1.3,1.2,1.1},s={1.2,1.1})"); break;
    case 2: set_vl(c->cver, &c->ncver, 5); set_vl(c->sver, &c->nsver, 6); snprintf(c->label, sizeof(c->label), "tls12-ecdhe-rsa(c={1.2,1.1},s={1.3,1.2,1.1})"); break;
    case 3: c->dtls = 1; c->keys = K_PSK; set_dl(c->cver, &c->ncver, 1); set_dl(c->sver, &c->nsver, 1); c->csuite[0] = S_PSK; c->csuite[1] = S_PSK2; c->ncsuite = 2; snprintf(c->label, sizeof(c->label), "dtls12-psk(c=s={d1.2,d1.0})"); break;
    case 4: c->keys = K_PSK; set_vl(c->cver, &c->ncver, 1); set_vl(c->sver, &c->nsver, 1); c->csuite[0] = S_PSK; c->csuite[1] = S_PSK2; c->ncsuite = 2; snprintf(c->label, sizeof(c->label), "tls12-psk(c=s={1.2})"); break;
    case 5: set_vl(c->cver, &c->ncver, 2); set_vl(c->sver, &c->nsver, 5); c->csuite[0] = S_RSA; c->csuite[1] = S_ERSAC; c->ncsuite = 2; snprintf(c->label, sizeof(c->label), "tls11-rsa(c={1.1},s={1.2,1.1})"); break;
    case 6: c->dtls = 1; set_dl(c->cver, &c->ncver, 0); set_dl(c->sver, &c->nsver, 1); c->csuite[0] = S_RSA; c->csuite[1] = S_ERSAC; c->ncsuite = 2; snprintf(c->label, sizeof(c->label), "dtls10-rsa(c={d1.0},s={d1.2,d1.0})"); break;
    case 7: c->keys = K_PSK; set_vl(c->cver, &c->ncver, 0); set_vl(c->sver, &c->nsver, 0); c->csuite[0] = S_13A; c->csuite[1] = S_13B; c->ncsuite = 2; snprintf(c->label, sizeof(c->label), "tls13-psk(c=s={1.3})"); break;
    case 8: set_vl(c->cver, &c->ncver, 3); set_vl(c->sver, &c->nsver, 3); c->cgrp[0] = 0x0017; c->cgrp[1] = 0x0018; c->ncgrp = 2; c->nshares = 1; c->sgrp[0] = 0x0018; c->nsgrp = 1; snprintf(c->label, sizeof(c->label), "tls13-rsa-hrr(c=s={1.3,1.2})"); break;
    case 9: c->keys = K_EC; c->tickets = 1; set_vl(c->cver, &c->ncver, 1); set_vl(c->sver, &c->nsver, 1); c->csuite[0] = S_EEC; c->csuite[1] = S_EECG; c->ncsuite = 2; snprintf(c->label, sizeof(c->label), "tls12-ecdhe-ecdsa-ticket(c=s={1.2})"); break;
    case 10: c->keys = K_EC; set_vl(c->cver, &c->ncver, 3); set_vl(c->sver, &c->nsver, 3); c->csuite[0] = S_13A; c->csuite[1] = S_EECG; c->ncsuite = 2; snprintf(c->label, sizeof(c->label), "tls13-ecdsa(c=s={1.3,1.2})"); break;
    case 12: set_vl(c->cver, &c->ncver, 3); set_vl(c->sver, &c->nsver, 3); c->cgrp[0] = 0x001d; c->cgrp[1] = 0x0017; c->ncgrp = 2; c->nshares = 2; snprintf(c->label, sizeof(c->label), "tls13-rsa-2shares(c=s={1.3,1.2})"); break;
    case 13: c->dtls = 1; c->keys = K_EC; set_dl(c->cver, &c->ncver, 1); set_dl(c->sver, &c->nsver, 1); c->csuite[0] = S_EECG; c->csuite[1] = S_EEC; c->ncsuite = 2; snprintf(c->label, sizeof(c->label), "dtls12-ecdhe-ecdsa(c=s={d1.2,d1.0})"); break;
    case 14: c->tickets = 1; c->cems = -1; set_vl(c->cver, &c->ncver, 5); set_vl(c->sver, &c->nsver, 5); c->csuite[0] = S_RSAG; c->csuite[1] = S_RSA; c->ncsuite = 2; snprintf(c->label, sizeof(c->label), "tls12-rsa-noems-ticket(c=s={1.2,1.1})"); break;
    case 15: c->keys = K_PSK; set_vl(c->cver, &c->ncver, 3); set_vl(c->sver, &c->nsver, 1); c->csuite[0] = S_13A; c->csuite[1] = S_PSK2; c->csuite[2] = S_PSK; c->ncsuite = 3; snprintf(c->label, sizeof(c->label), "tls12-psk(c={1.3,1.2},s={1.2})"); break;
    case 16: set_vl(c->cver, &c->ncver, 2); set_vl(c->sver, &c->nsver, 2); c->csuite[0] = S_ERSAC; c->csuite[1] = S_RSA; c->ncsuite = 2; snprintf(c->label, sizeof(c->label), "tls11-ecdhe-rsa(c=s={1.1})"); break;
    case 17: c->keys = K_EC; set_vl(c->cver, &c->ncver, 0); set_vl(c->sver, &c->nsver, 6); c->csuite[0] = 0x1303; c->csuite[1] = S_13A; c->ncsuite = 2; snprintf(c->label, sizeof(c->label), "tls13-ecdsa-chacha(c={1.3},s={1.3,1.2,1.1})"); break;
    default: set_vl(c->cver, &c->ncver, 1); set_vl(c->sver, &c->nsver, 1); c->cems = 1; c->sems = 1; c->csuite[0] = S_RSAG; c->csuite[1] = S_RSA; c->ncsuite = 2; snprintf(c->label, sizeof(c->label), "tls12-rsa-ems-required(c=s={1.2})"); break;
    }
}

static void cfg_text(const ncfg_t *c, char *out, size_t n)
{
    size_t l = 0;
    int i;
#define ADD(...) do { if (l < n) l += (size_t) snprintf(out + l, n - l, __VA_ARGS__); if (l >= n) l = n - 1; } while (0)
    ADD("%s c=", kname[c->keys]);
    if (!c->ncver) ADD("default"); else for (i = 0; i < c->ncver; i++) ADD("%s%s", i ? "," : "{", VT[c->cver[i]].name);
    ADD("%s s=", c->ncver ? "}" : "");
    if (!c->nsver) ADD("default"); else for (i = 0; i < c->nsver; i++) ADD("%s%s", i ? "," : "{", VT[c->sver[i]].name);
    ADD("%s cs=", c->nsver ? "}" : "");
    for (i = 0; i < c->ncsuite; i++) ADD("%s%04x", i ? "," : "", c->csuite[i]);
    if (c->nsdis) { ADD(" sdis="); for (i = 0; i < c->nsdis; i++) ADD("%s%04x", i ? "," : "", c->sdis[i]); }
    if (c->nshist) { ADD(" shist="); for (i = 0; i < c->nshist; i++) ADD("%s%c%04x", i ? "," : "", c->shist[i].enable ? '+' : '-', c->shist[i].s); }
    if (c->ncgrp) { ADD(" cg="); for (i = 0; i < c->ncgrp; i++) ADD("%s%04x", i ? "," : "", c->cgrp[i]); ADD("/%d", c->nshares); }
    if (c->nsgrp) { ADD(" sg="); for (i = 0; i < c->nsgrp; i++) ADD("%s%04x", i ? "," : "", c->sgrp[i]); }
    if (c->cec || c->sec) ADD(" cec=%x sec=%x", c->cec, c->sec);
    if (c->ncsig) { ADD(" csig="); for (i = 0; i < c->ncsig; i++) ADD("%s%04x", i ? "," : "", c->csig[i]); }
    if (c->nssig) { ADD(" ssig="); for (i = 0; i < c->nssig; i++) ADD("%s%04x", i ? "," : "", c->ssig[i]); }
    if (c->cems || c->sems) ADD(" ems=%d/%d", c->cems, c->sems);
    if (c->prelude) ADD(" after-a-first-connection(server-ems=%d,%s)", c->pre_sems, c->tickets ? "ticket" : "session-id");
    if (c->fallback) ADD(" fallback-scsv");
    if (c->client_auth) ADD(" cauth");
#undef ADD
}

/* -------------------------------------------------------------------------- reference negotiation */
typedef struct {
    int cset, ceff, sset, common;   /* rank bit masks (bit r = rank r) */
    int ref_rank;                   /* highest rank in common for which a usable suite (+group) exists; 0 = not negotiable */
    int top_rank;                   /* highest rank in common */
    int default_order;
} ref_t;

static int in16(const uint16_t *l, int n, int v) { int i; for (i = 0; i < n; i++) if (l[i] == v) return 1; return 0; }

static int sig_feasible(const ncfg_t *c, int rank)
{
    int i;
    if (!c->ncsig && !c->nssig) return 1;
    /* TLS 1.2 (observed + documented as a verification list): the server does not apply its own list to its
       ServerKeyExchange signature; the client's list must cover the chain (sha256WithRSA = 0401) and the SKE signature.
       TLS 1.3: the server signs CertificateVerify with an algorithm from client list ^ own list usable with its RSA key
       (rsa_pss_rsae_*); chain signatures are governed by signature_algorithms_cert (default: everything). */
    if (rank < 3) return !c->ncsig || in16(c->csig, c->ncsig, 0x0401);
    for (i = 0; i < c->ncsig; i++)
    {
        int a = c->csig[i];
        if (c->nssig && !in16(c->ssig, c->nssig, a)) continue;
        if (a >= 0x0804 && a <= 0x0806) return 1;
    }
    return 0;
}

static int rank_feasible(const ncfg_t *c, int rank)
{
    int i, j;
    for (i = 0; i < c->ncsuite; i++)
    {
        int s = c->csuite[i];
        if (in16(c->sdis, c->nsdis, s) || !suite_ok_for_rank(s, rank) || !suite_creds_ok(s, c->keys)) continue;
        if (suite_is13(s) && c->ncgrp && c->nsgrp)
        {
            int common = 0;
            for (j = 0; j < c->ncgrp; j++) if (in16(c->sgrp, c->nsgrp, c->cgrp[j])) common = 1;
            if (!common) continue;
        }
        if (suite_is_ecdhe(s) && c->cec && c->sec && !(c->cec & c->sec)) continue;
        if ((suite_is13(s) ? c->keys != K_PSK : suite_is_ecdhe(s)) && !sig_feasible(c, rank)) continue;
        return 1;
    }
    return 0;
}

static void reference(const ncfg_t *c, ref_t *r)
{
    int i, has13suite = 0;
    memset(r, 0, sizeof(*r));
    for (i = 0; i < c->ncsuite; i++) if (suite_is13(c->csuite[i])) has13suite = 1;
    if (!c->ncver) r->cset = 2 | 4 | 8; else for (i = 0; i < c->ncver; i++) r->cset |= 1 << VT[c->cver[i]].rank;
    if (!c->nsver) r->sset = 2 | 4 | 8; else for (i = 0; i < c->nsver; i++) r->sset |= 1 << VT[c->sver[i]].rank;
    r->ceff = has13suite ? r->cset : (r->cset & ~8);   /* documented: a client without TLS 1.3 suites does not advertise TLS 1.3 */
    r->common = r->ceff & r->sset;
    for (i = 3; i >= 1; i--)
    {
        if (!(r->common & (1 << i))) continue;
        if (!r->top_rank) r->top_rank = i;
        if (i < 3 && c->sems > 0 && c->cems < 0) continue;   /* server requires EMS, client switched it off */
        if (!r->ref_rank && rank_feasible(c, i)) r->ref_rank = i;
    }
    r->default_order = is_default_order(c->cver, c->ncver) && is_default_order(c->sver, c->nsver);
}

/* ------------------------------------------------------------------------------------- the oracle */
typedef struct { int viol; char key[160], what[320], outcome[64]; } verdict_t;
#define VIOL(K, ...) do { if (!v->viol) { v->viol = 1; snprintf(v->key, sizeof(v->key), "%s", K); snprintf(v->what, sizeof(v->what), __VA_ARGS__); } } while (0)

static int enc_to_rank(int e) { return enc_rank(e); }
static const char *enc_name(int e)
{
    switch (e) { case 0x0302: return "1.1"; case 0x0303: return "1.2"; case 0x0304: return "1.3"; case 0xfeff: return "d1.0"; case 0xfefd: return "d1.2"; case 0: return "none"; default: return "?"; }
}

static int any_alert(run_t *R)
{
    if (R->alert[0]) return R->alert[0];
    if (R->alert[1]) return R->alert[1];
    if (R->w.s[0].got_alert_lvl == 2) return R->w.s[0].got_alert_desc;
    if (R->w.s[1].got_alert_lvl == 2) return R->w.s[1].got_alert_desc;
    return 0;
}

/* server-side downgrade sentinel obligation (RFC 8446 4.1.3), checked on the ServerHello as the server sent it */
static void check_sentinel(run_t *R, const ref_t *ref, verdict_t *v)
{
    const hello_t *sh;
    int rank;
    if (R->c->dtls || R->nsh == 0) return;
    sh = &R->sh[R->nsh > 1 ? 1 : 0];
    if (hello_is_hrr(sh) || hello_find(sh, X_SUPPORTED_VERSIONS) >= 0) return;
    rank = enc_rank((sh->legacy[0] << 8) | sh->legacy[1]);
    if ((ref->sset & 8) && rank >= 0 && rank < 3)
    {
        uint8_t want[8] = { 'D', 'O', 'W', 'N', 'G', 'R', 'D', (uint8_t) (rank == 2 ? 1 : 0) };
        if (memcmp(sh->random + 24, want, 8))
        {
            VIOL("server-omits-downgrade-sentinel", "server with TLS 1.3 enabled negotiated %s but ServerHello.random does not end in DOWNGRD\\x%02x", enc_name((sh->legacy[0] << 8) | sh->legacy[1]), want[7]);
        }
    }
    else if (!(ref->sset & 8) && (!memcmp(sh->random + 24, "DOWNGRD\x01", 8) || !memcmp(sh->random + 24, "DOWNGRD\x00", 8)) && R->c->nsver)
    {
        VIOL("server-sets-downgrade-sentinel-without-tls13", "server without TLS 1.3 put the downgrade sentinel into ServerHello.random");
    }
}

/* client-side obligation (RFC 8446 4.1.3): a client that enabled TLS 1.3 and receives a <= 1.2 ServerHello carrying the
   sentinel MUST abort with illegal_parameter (checked when the ServerHello was delivered as the server sent it) */
static void check_client_sentinel(run_t *R, const ref_t *ref, verdict_t *v)
{
    const hello_t *sh;
    if (R->c->dtls || R->nsh == 0 || R->target >= 3 || !(ref->ceff & 8)) return;
    sh = &R->sh[R->nsh > 1 ? 1 : 0];
    if (hello_is_hrr(sh) || hello_find(sh, X_SUPPORTED_VERSIONS) >= 0) return;
    if (memcmp(sh->random + 24, "DOWNGRD\x01", 8) && memcmp(sh->random + 24, "DOWNGRD\x00", 8)) return;
    if (R->complete[0] || R->c_after_sh > 0 || R->alert[0] != 47)
    {
        VIOL("client-ignores-downgrade-sentinel", "TLS 1.3 capable client received a %s ServerHello with the downgrade sentinel and did not abort with illegal_parameter (complete %d, %d more records, alert %d)",
            enc_name((sh->legacy[0] << 8) | sh->legacy[1]), R->complete[0], R->c_after_sh, R->alert[0]);
    }
}

/* membership / equality checks for a run in which both endpoints report completion */
static void check_completed(run_t *R, const ref_t *ref, int assert_reference, verdict_t *v)
{
    const ncfg_t *c = R->c;
    const hello_t *ch = &R->ch[R->nch > 1 ? 1 : 0];
    int rank = enc_to_rank(R->ver_enc[0]), suite = R->suite[0], xi, n, i;
    uint16_t l[64];
    if (R->ver_enc[0] != R->ver_enc[1]) { VIOL("endpoints-disagree|version", "client %s, server %s", enc_name(R->ver_enc[0]), enc_name(R->ver_enc[1])); return; }
    if (R->suite[0] != R->suite[1]) { VIOL("endpoints-disagree|suite", "client %04x, server %04x", R->suite[0], R->suite[1]); return; }
    if (!R->keys_equal) VIOL("endpoints-disagree|keys", "both complete but the %s differ", rank == 3 ? "application traffic keys" : "master secrets");
    if (!R->ping_ok) VIOL("endpoints-disagree|application-data", "both complete but application data does not pass in both directions");
    if (rank < 1 || (c->dtls != (R->ver_enc[0] >= 0xfe00))) { VIOL("version-not-enabled|unknown", "negotiated version %04x", R->ver_enc[0]); return; }
    if (!(ref->cset & (1 << rank))) VIOL("version-not-enabled|client", "negotiated %s which the client did not enable", enc_name(R->ver_enc[0]));
    if (!(ref->sset & (1 << rank))) VIOL("version-not-enabled|server", "negotiated %s which the server did not enable", enc_name(R->ver_enc[0]));
    xi = hello_find(ch, X_SUPPORTED_VERSIONS);
    if (xi >= 0)
    {
        n = xlist_get(ch, xi, 1, l, 64);
        if (!in16(l, n, R->ver_enc[0])) VIOL("version-not-offered", "negotiated %s is not in ClientHello.supported_versions", enc_name(R->ver_enc[0]));
    }
    else if (rank > enc_rank((ch->legacy[0] << 8) | ch->legacy[1]))
    {
        VIOL("version-not-offered", "negotiated %s is above ClientHello.client_version %02x%02x", enc_name(R->ver_enc[0]), ch->legacy[0], ch->legacy[1]);
    }
    if (assert_reference)
    {
        if (ref->default_order && ref->ref_rank == ref->top_rank && rank != ref->top_rank)
        {
            VIOL("version-not-highest-common", "default priority order: negotiated %s although both enabled rank %d", enc_name(R->ver_enc[0]), ref->top_rank);
        }
        if (!ref->default_order && ref->ref_rank == 3 && rank != 3)
        {
            VIOL("version-not-tls13-although-common", "both enabled TLS 1.3 (custom priority order) but %s was negotiated", enc_name(R->ver_enc[0]));
        }
    }
    /* suite */
    if (!in16(c->csuite, c->ncsuite, suite)) VIOL("suite-not-enabled|client", "suite %04x is not in the client's list", suite);
    if (in16(c->sdis, c->nsdis, suite)) VIOL("suite-not-enabled|server", "suite %04x was disabled on the server session", suite);
    if (!in16(ch->suites, ch->nsuites, suite)) VIOL("suite-not-offered", "suite %04x is not in ClientHello.cipher_suites", suite);
    if (!suite_ok_for_rank(suite, rank)) VIOL("suite-not-valid-for-version", "suite %04x with version %s", suite, enc_name(R->ver_enc[0]));
    /* key-exchange group */
    {
        int g = 0, used = 0;
        if (rank == 3)
        {
            const hello_t *sh = &R->sh[R->nsh > 1 ? 1 : 0];
            int ki = R->nsh ? hello_find(sh, X_KEY_SHARE) : -1;
            if (ki >= 0 && sh->ext[ki].len >= 2) { g = (sh->arena[sh->ext[ki].off] << 8) | sh->arena[sh->ext[ki].off + 1]; used = 1; }
            if (used && (R->group[0] != g || R->group[1] != g)) VIOL("endpoints-disagree|group", "ServerHello key_share %04x, client state %04x, server state %04x", g, R->group[0], R->group[1]);
        }
        else if (suite_is_ecdhe(suite) && R->ske_group != 0)
        {
            g = R->ske_group; used = 1;   /* (an abbreviated handshake has no ServerKeyExchange: no group is negotiated) */
        }
        if (used)
        {
            static const int ecbit[] = { IS_SECP256R1, IS_SECP384R1, IS_SECP521R1 };
            xi = hello_find(ch, X_SUPPORTED_GROUPS);
            n = xi >= 0 ? xlist_get(ch, xi, 2, l, 64) : 0;
            if (!in16(l, n, g)) VIOL("group-not-offered", "group %04x is not in ClientHello.supported_groups", g);
            if (rank == 3 && c->ncgrp && !in16(c->cgrp, c->ncgrp, g)) VIOL("group-not-enabled|client", "group %04x not in the client's key-exchange group list", g);
            if (rank == 3 && c->nsgrp && !in16(c->sgrp, c->nsgrp, g)) VIOL("group-not-enabled|server", "group %04x not in the server's key-exchange group list", g);
            if (rank < 3 && g >= 0x17 && g <= 0x19)
            {
                if (c->cec && !(c->cec & ecbit[g - 0x17])) VIOL("group-not-enabled|client", "curve %04x not in the client's ecFlags", g);
                if (c->sec && !(c->sec & ecbit[g - 0x17])) VIOL("group-not-enabled|server", "curve %04x not in the server's ecFlags", g);
            }
        }
    }
    /* signature algorithm of the server's signature */
    {
        int a = 0;
        if (rank == 3 && c->keys != K_PSK)
        {
            a = R->sigalg[1] ? R->sigalg[1] : R->sigalg[0];
            if (R->sigalg[0] && R->sigalg[1] && R->sigalg[0] != R->sigalg[1]) VIOL("endpoints-disagree|sigalg", "client saw %04x, server used %04x", R->sigalg[0], R->sigalg[1]);
        }
        else if (rank == 2 && suite_is_ecdhe(suite))
        {
            a = R->ske_sigalg;
        }
        if (a)
        {
            xi = hello_find(ch, X_SIGALGS);
            n = xi >= 0 ? xlist_get(ch, xi, 2, l, 64) : 0;
            if (xi >= 0 && !in16(l, n, a)) VIOL("sigalg-not-offered", "server signed with %04x which is not in ClientHello.signature_algorithms", a);
            if (c->ncsig && !in16(c->csig, c->ncsig, a)) VIOL("sigalg-not-enabled|client", "server signed with %04x which the client did not enable", a);
        }
        if (c->client_auth && rank == 2 && R->cv_sigalg && c->nssig && !in16(c->ssig, c->nssig, R->cv_sigalg)) VIOL("sigalg-not-enabled|server", "client CertificateVerify uses %04x which the server did not enable", R->cv_sigalg);
    }
    /* extended master secret */
    if (rank < 3)
    {
        if (R->ems[0] != R->ems[1]) VIOL("endpoints-disagree|extended-master-secret", "client %d server %d", R->ems[0], R->ems[1]);
        if ((c->cems > 0 || c->sems > 0) && !R->ems[0]) VIOL("ems-required-but-not-used", "cems %d sems %d", c->cems, c->sems);
        if (c->cems < 0 && R->ems[0]) VIOL("ems-used-although-client-disabled", "cems %d", c->cems);
    }
}

static void judge(run_t *R, int prod, verdict_t *v)
{
    const ncfg_t *c = R->c;
    ref_t ref;
    int both = R->complete[0] && R->complete[1], none = !R->complete[0] && !R->complete[1], al = any_alert(R);
    int hvr_ch1_only = c->dtls && R->target == 0 && R->nch >= 2;
    memset(v, 0, sizeof(*v));
    reference(c, &ref);
    if (R->setup_rc)
    {
        snprintf(v->outcome, sizeof(v->outcome), "%s:setup-refused", pname[prod]);
        /* the API refusing to create a client whose suite list contains a suite unusable with its versions is a safe outcome */
        if ((prod == P_VXS || prod == P_FB) && !strncmp(R->setup_what, "NewClientSession", 16)) return;
        v->viol = 2; snprintf(v->key, sizeof(v->key), "INTERNAL:setup"); snprintf(v->what, sizeof(v->what), "%s", R->setup_what);
        return;
    }
    if (R->roundtrip_bad) { v->viol = 2; snprintf(v->key, sizeof(v->key), "INTERNAL:hello-roundtrip"); snprintf(v->what, sizeof(v->what), "parser/encoder does not reproduce a hello (%d)", R->roundtrip_bad); return; }
    check_sentinel(R, &ref, v);
    check_client_sentinel(R, &ref, v);
    if (R->target >= 0)
    {
        const char *tn = R->target >= 3 ? (R->sh[R->target - 3].random[0] == 0xCF && hello_is_hrr(&R->sh[R->target - 3]) ? "HRR" : "SH") : "CH";
        int rcv = R->target >= 3 ? 0 : 1;
        if (!R->applied || R->noop) { snprintf(v->outcome, sizeof(v->outcome), "rw:not-applicable"); return; }
        if (both && hvr_ch1_only)
        {
            /* DTLS: the first ClientHello and the HelloVerifyRequest are not part of the transcript; the authentic second
               ClientHello decides.  Completion is legitimate iff the outcome passes the honest-run checks. */
            check_completed(R, &ref, 1, v);
            snprintf(v->outcome, sizeof(v->outcome), "rw:%s:%s:ch1-only-completed-on-authentic-ch2", tn, R->info.klass);
            return;
        }
        if (both) VIOL((snprintf(v->outcome, sizeof(v->outcome), "rewrite-undetected|%s|%s", tn, R->info.klass), v->outcome), "%s: both endpoints completed (%s/%04x) after in-transit rewrite %s", c->label, enc_name(R->ver_enc[0]), R->suite[0], R->info.name);
        else if (!none) VIOL((snprintf(v->outcome, sizeof(v->outcome), "rewrite-accepted-by-one-endpoint|%s|%s", tn, R->info.klass), v->outcome), "%s: %s completed after in-transit rewrite %s", c->label, R->complete[0] ? "client" : "server", R->info.name);
        else if (R->info.expect == EXP_PEER_ABORTS_AT_HELLO && !hvr_ch1_only)
        {
            int a = R->alert[rcv];
            if (R->after[rcv] > 0 || (R->info.alert > 0 && a != R->info.alert) || (R->info.alert < 0 && a != 47 && a != 40 && a != 70))
            {
                VIOL((snprintf(v->outcome, sizeof(v->outcome), "hello-check-missing|%s|%s", tn, R->info.klass), v->outcome),
                    "%s: %s did not abort on the hello itself after rewrite %s (sent %d more records, alert %d, expected alert %d)", c->label, rcv ? "server" : "client", R->info.name, R->after[rcv], R->alert[rcv], R->info.alert);
            }
        }
        snprintf(v->outcome, sizeof(v->outcome), "rw:%s:%s:%s", tn, R->info.klass, both ? "BOTH-COMPLETE" : !none ? "ONE-COMPLETE" : R->after[rcv] == 0 ? "aborted-at-hello" : "failed-later");
        return;
    }
    /* honest run */
    if (prod == P_FB && ref.common)
    {
        int smax = 0, cmax = 0, i;
        for (i = 1; i <= 3; i++) { if (ref.sset & (1 << i)) smax = i; if (ref.cset & (1 << i)) cmax = i; }
        if (c->dtls && R->alert[0] == 80 && R->nch < 2)
        {
            /* observation (availability only): a DTLS client created with fallbackScsv cannot encode its second ClientHello
               (sslEncode.c: the re-encode after HelloVerifyRequest uses zeroed options but extFlags.req_fallback_scsv stays
               set, so the length computed for the message is 2 short) and aborts with internal_error; the server-side
               SCSV check for DTLS is exercised by the rewrite cases instead */
            snprintf(v->outcome, sizeof(v->outcome), "fb:dtls-client-aborts-itself-a80");
            return;
        }
        if (smax > cmax)
        {
            if (!none) VIOL("fallback-scsv-ignored", "client max rank %d sent TLS_FALLBACK_SCSV to a server with max rank %d and the handshake completed", cmax, smax);
            else if (R->alert[1] != 86 || R->after[1] > (c->dtls ? 1 : 0)) VIOL(c->dtls ? "fallback-scsv-ignored|dtls" : "fallback-scsv-ignored", "server (max rank %d) did not answer inappropriate_fallback to client_version rank %d + TLS_FALLBACK_SCSV (alert %d, %d records)", smax, cmax, R->alert[1], R->after[1]);
            snprintf(v->outcome, sizeof(v->outcome), "fb:fallback-refused-a%d", R->alert[1]);
            return;
        }
    }
    if (both)
    {
        check_completed(R, &ref, 1, v);
        if (!ref.ref_rank) VIOL("completed-without-common-parameters", "reference says not negotiable but both completed (%s/%04x)", enc_name(R->ver_enc[0]), R->suite[0]);
        snprintf(v->outcome, sizeof(v->outcome), "%s:ok:%s%s%s", pname[prod], enc_name(R->ver_enc[0]), ref.ref_rank && enc_rank(R->ver_enc[0]) != ref.ref_rank ? ":below-reference" : "",
            R->ske_sigalg && c->nssig && !in16(c->ssig, c->nssig, R->ske_sigalg) ? ":server-signs-outside-own-verify-list" : "");
        return;
    }
    if (!none) VIOL("endpoints-disagree|completion", "honest run: client complete %d, server complete %d", R->complete[0], R->complete[1]);
    if (!al) VIOL("refused-without-alert", "handshake failed (client rc %d, server rc %d) but no fatal alert was sent", R->w.s[0].err_rc, R->w.s[1].err_rc);
    if (ref.ref_rank)
    {
        snprintf(v->outcome, sizeof(v->outcome), "%s:%s:a%d", pname[prod], ref.ref_rank == ref.top_rank ? "NEGOTIABLE-BUT-REFUSED" : "refused-at-higher-common-version", al);
        if ((prod == P_VER || prod == P_VERC || prod == P_VERD) && ref.default_order)
        {
            VIOL(!c->ncver || !c->nsver ? "negotiable-but-refused|library-default-versions" : "negotiable-but-refused|explicit-version-lists",
                "both endpoints enable %s (default priority order) but the handshake fails with alert %d; session version masks client %x server %x", ref.ref_rank == 3 ? "1.3" : ref.ref_rank == 2 ? "1.2" : "1.1", al, R->supp[0], R->supp[1]);
        }
    }
    else
    {
        snprintf(v->outcome, sizeof(v->outcome), "%s:refused:a%d", pname[prod], al);
    }
}

/* --------------------------------------------------------------------------------------- cases */
typedef struct { int prod; long idx; int target, k; } case_t;
static const char *tname[] = { "CH#0", "CH#1", "CH#0+CH#1", "SH#0", "SH#1" };

static run_t g_run;
static ncfg_t g_cfg;
static int verbose;

static void hexdump(const char *tag, const unsigned char *p, int n)
{
    int i;
    fprintf(stderr, "%s (%d bytes): ", tag, n);
    for (i = 0; i < n; i++) fprintf(stderr, "%02x", p[i]);
    fprintf(stderr, "\n");
}

static void run_case(void *ctx, mx_result_t *r)
{
    case_t *cs = ctx;
    run_t *R = &g_run;
    verdict_t v;
    memset(R, 0, sizeof(*R));
    if (build_cfg(cs->prod, cs->idx, &g_cfg) < 0)
    {
        snprintf(r->outcome, sizeof(r->outcome), "%s:n/a", pname[cs->prod]);
        return;
    }
    R->c = &g_cfg;
    R->target = cs->target; R->k = cs->k;
    run_exec(R);
    judge(R, cs->prod, &v);
    r->violation = v.viol;
    snprintf(r->key, sizeof(r->key), "%s", v.key);
    snprintf(r->outcome, sizeof(r->outcome), "%s", v.outcome);
    if (v.viol)
    {
        char ct[200];
        cfg_text(&g_cfg, ct, sizeof(ct));
        snprintf(r->what, sizeof(r->what), "%s [%s]", v.what, ct);
    }
    r->trace_hash = world_trace_hash(&R->w);
    r->transitions = R->w.actions;
    r->nontrivial = !(cs->target >= 0 && (!R->applied || R->noop));
    if (verbose)
    {
        char ct[240];
        int i;
        cfg_text(&g_cfg, ct, sizeof(ct));
        fprintf(stderr, "config: %s %s\n", g_cfg.label, ct);
        if (cs->target >= 0) fprintf(stderr, "rewrite: %s #%d = %s (class %s, expect %s alert %d) applied %d noop %d\n", tname[cs->target], cs->k, R->info.name, R->info.klass, R->info.expect ? "abort-at-hello" : "fail", R->info.alert, R->applied, R->noop);
        for (i = 0; i < 4; i++) if (R->rawlen[i]) hexdump(i < 2 ? (i ? "ClientHello#1 (as sent)" : "ClientHello#0 (as sent)") : (i == 2 ? "ServerHello#0 (as sent)" : "ServerHello#1 (as sent)"), R->raw[i], R->rawlen[i]);
        if (R->rewrittenlen) hexdump("rewritten hello (as delivered)", R->rewritten, R->rewrittenlen);
        fprintf(stderr, "session version masks: client %x server %x; HelloVerifyRequests %d\n", R->supp[0], R->supp[1], R->nhvr);
        for (i = 0; i < 2; i++)
        {
            fprintf(stderr, "%s: complete %d version %s suite %04x group %04x sigalg %04x ems %d err_rc %d sent-alert %d got-alert %d/%d records-after-injection %d\n", i ? "server" : "client",
                R->complete[i], enc_name(R->ver_enc[i]), R->suite[i], R->group[i], R->sigalg[i], R->ems[i], R->w.s[i].err_rc, R->alert[i], R->w.s[i].got_alert_lvl, R->w.s[i].got_alert_desc, R->after[i]);
        }
        fprintf(stderr, "wire: SKE group %04x SKE sigalg %04x CV sigalg %04x; keys_equal %d ping_ok %d\n", R->ske_group, R->ske_sigalg, R->cv_sigalg, R->keys_equal, R->ping_ok);
        fprintf(stderr, "trace:\n%.*s", (int) R->w.trace.len, (const char *) R->w.trace.p);
        fprintf(stderr, "verdict: %s %s %s\n", v.outcome, v.key, v.what);
    }
}

static case_t *cases;
static long ncases, capcases;
static void add_case(int prod, long idx, int target, int k)
{
    if (ncases >= capcases)
    {
        capcases = capcases ? capcases * 2 : 8192;
        cases = realloc(cases, (size_t) capcases * sizeof(case_t));
    }
    cases[ncases].prod = prod; cases[ncases].idx = idx; cases[ncases].target = target; cases[ncases].k = k;
    ncases++;
}

#define GROUP 8
static void run_group(long gi, void *unused)
{
    long k, lo = gi * GROUP, hi = lo + GROUP;
    (void) unused;
    if (hi > ncases) hi = ncases;
    for (k = lo; k < hi; k++)
    {
        char desc[240], ct[150];
        case_t *c = &cases[k];
        ncfg_t cfg;
        if (mx_deadline_hit()) return;
        if (build_cfg(c->prod, c->idx, &cfg) < 0) continue;
        cfg_text(&cfg, ct, sizeof(ct));
        if (c->target >= 0) snprintf(desc, sizeof(desc), "p=%s;i=%ld;t=%d;k=%d (%s rewrite %s #%d)", pname[c->prod], c->idx, c->target, c->k, cfg.label, tname[c->target], c->k);
        else snprintf(desc, sizeof(desc), "p=%s;i=%ld;t=-1;k=-1 (%s)", pname[c->prod], c->idx, ct);
        mx_fork_case(desc, run_case, c);
    }
}

/* run base pair b honestly in a throw-away child and report how many hellos / rewrites exist */
typedef struct { int nch, nsh, nrw[5], complete; } probe_t;
static void probe_base(int b, probe_t *out)
{
    probe_t *sh = mmap(NULL, sizeof(probe_t), PROT_READ | PROT_WRITE, MAP_SHARED | MAP_ANONYMOUS, -1, 0);
    pid_t pid;
    memset(sh, 0, sizeof(*sh));
    fflush(NULL);
    pid = fork();
    if (pid == 0)
    {
        run_t *R = &g_run;
        memset(R, 0, sizeof(*R));
        build_cfg(P_RW, b, &g_cfg);
        R->c = &g_cfg; R->target = -1; R->k = -1;
        run_exec(R);
        sh->nch = R->nch; sh->nsh = R->nsh; sh->complete = R->complete[0] && R->complete[1];
        memcpy(sh->nrw, R->nrw, sizeof(sh->nrw));
        _exit(0);
    }
    waitpid(pid, NULL, 0);
    *out = *sh;
    munmap(sh, sizeof(probe_t));
}

static int prod_by_name(const char *s, size_t n)
{
    int p;
    for (p = 0; p < P_NPROD; p++) if (strlen(pname[p]) == n && !strncmp(pname[p], s, n)) return p;
    return -1;
}

int main(int argc, char **argv)
{
    mx_cfg_t cfg;
    const char *replay;
    long i;
    int b, nrw_total = 0;
    static char extra[512];

    memset(&cfg, 0, sizeof(cfg));
    cfg.property = "C07";
    cfg.sanitizer_is_oracle = 1;
    cfg.level = "exploration";
    cfg.engine = "exhaustive configuration products and exhaustive single-field hello rewrites (structural parser/re-encoder), each case = two real MatrixSSL sessions in a forked child, judged by a reference negotiation function + membership checks against configuration and ClientHello";
    cfg.rule = "case = (product, index) honest handshake, or (base pair, target hello occurrence, rewrite index); every index of every product in the tier is run (no sampling). "
               "Rewrite alphabet = single-field edits of hello body fields; excluded as unauthenticated by the protocol: record-header version/sequence bytes, DTLS message_seq/fragment fields, DTLS cookie; "
               "a DTLS rewrite of only the first (pre-HelloVerifyRequest) ClientHello is outside the transcript and may complete if the outcome passes the honest-run checks; rewrites whose encoding equals the original are skipped (not-applicable)";
    cfg.assumptions[0] = "entropy and clock pinned; build configuration configs/default (TLS 1.1-1.3, DTLS 1.0/1.2, X25519, PSK, no renegotiation)";
    cfg.assumptions[1] = "enabled(version) = list given to matrixSslSessOptsSet{Client,Server}TlsVersions (library default = every compiled-in TLS version), minus TLS 1.3 on a client without TLS 1.3 suites (documented); DTLS version sets only via versionFlag ({1.0} or {1.2,1.0}): the list setters refuse DTLS versions";
    cfg.assumptions[2] = "enabled(suite): client = cipherSpec[]; server = build minus matrixSslSetCipherSuiteEnabledStatus(PS_FALSE); enabled(group) = matrixSslSessOptsSetKeyExGroups (TLS 1.3) / ecFlags (<=1.2); enabled(sigalg) = matrixSslSessOptsSetSigAlgs";
    cfg.assumptions[3] = "negotiable-but-refused is a violation only for default-order version lists (incl. library default) with PSK suites usable at every version; elsewhere it is an outcome class";
    replay = mx_parse_args(argc, argv, &cfg);
    thorough = !strcmp(cfg.tier, "thorough");
    cfg.bound = thorough ? "all 256 ordered TLS version-list pairs (15 lists + library default per side), 4 DTLS flag pairs, version x suite cross over all ordered lists 12544, suite subsets 2x225, the same 256 pairs with RSA and with ECDSA certificate suites, groups 450+49, sigalgs 3x225, EMS 36, fallback 25; every hello rewrite on 18 base pairs"
                         : "all 256 ordered TLS version-list pairs, 4 DTLS flag pairs, version x suite cross slice 343, suite subsets 225, 49 default-order pairs with RSA certificate suites, groups 75+49, sigalgs 75+75, EMS 36, fallback 25; every hello rewrite on 6 base pairs";

    if (replay)
    {
        case_t c;
        mx_result_t r;
        const char *semi = strchr(replay, ';');
        memset(&c, 0, sizeof(c));
        if (strncmp(replay, "p=", 2) || !semi || (c.prod = prod_by_name(replay + 2, (size_t) (semi - replay - 2))) < 0 || sscanf(semi, ";i=%ld;t=%d;k=%d", &c.idx, &c.target, &c.k) != 3)
        {
            fprintf(stderr, "bad descriptor\n");
            return 2;
        }
        memset(&r, 0, sizeof(r));
        snprintf(r.desc, sizeof(r.desc), "%s", replay);
        verbose = 1;
        run_case(&c, &r);
        mx_replay_print(&r);
        return 0;
    }
    mx_init(&cfg);
    for (i = 0; i < psize(P_VER); i++) add_case(P_VER, i, -1, -1);
    for (i = 0; i < psize(P_VERD); i++) add_case(P_VERD, i, -1, -1);
    for (i = 0; i < psize(P_VERC); i++) if (thorough || (i < NVL * NVL && i / NVL < 7 && i % NVL < 7)) add_case(P_VERC, i, -1, -1);
    for (i = 0; i < psize(P_EMS); i++) add_case(P_EMS, i, -1, -1);
    for (i = 0; i < psize(P_EMSRES); i++) add_case(P_EMSRES, i, -1, -1);
    for (i = 0; i < psize(P_DISRES); i++) add_case(P_DISRES, i, -1, -1);
    for (i = 0; i < psize(P_FB); i++) add_case(P_FB, i, -1, -1);
    for (i = 0; i < psize(P_VXS); i++) if (thorough || (i % NVL < 7 && i / NVL % NVL < 7 && i / (NVL * NVL * 7) == 6)) add_case(P_VXS, i, -1, -1);
    for (i = 0; i < psize(P_SUITE); i++) add_case(P_SUITE, i, -1, -1);
    for (i = 0; i < psize(P_SHIST); i++) add_case(P_SHIST, i, -1, -1);
    for (i = 0; i < psize(P_GRP12); i++) add_case(P_GRP12, i, -1, -1);
#define SLICE(i) (thorough || (i) / 15 == 14 || (i) / 15 == 0 || (i) / 15 == 1 || (i) / 15 == 3 || (i) / 15 == 7)
    for (i = 0; i < psize(P_GRP13); i++) { ncfg_t t; if ((thorough || (i < 225 && SLICE(i))) && build_cfg(P_GRP13, i, &t) == 0) add_case(P_GRP13, i, -1, -1); }
    for (i = 0; i < psize(P_SIG13); i++) if (SLICE(i)) add_case(P_SIG13, i, -1, -1);
    for (i = 0; i < psize(P_SIG12); i++) if (SLICE(i)) add_case(P_SIG12, i, -1, -1);
    if (thorough)
    {
        for (i = 0; i < psize(P_SUITE12); i++) add_case(P_SUITE12, i, -1, -1);
        for (i = 0; i < psize(P_SIG13CA); i++) add_case(P_SIG13CA, i, -1, -1);
    }
    for (b = 0; b < psize(P_RW); b++)
    {
        probe_t pr;
        int t;
        if (!thorough && !(b <= 3 || b == 6 || b == 7)) continue;
        probe_base(b, &pr);
        add_case(P_RW, b, -1, -1);
        fprintf(stderr, "base %d: complete %d, %d ClientHello, %d ServerHello, rewrites %d/%d/%d/%d/%d\n", b, pr.complete, pr.nch, pr.nsh, pr.nrw[0], pr.nrw[1], pr.nrw[2], pr.nrw[3], pr.nrw[4]);
        if (!pr.complete) mx_note_skipped("a rewrite base pair does not complete honestly");
        for (t = 0; t < 5; t++)
        {
            int k;
            for (k = 0; k < pr.nrw[t]; k++) { add_case(P_RW, b, t, k); nrw_total++; }
        }
    }
    fprintf(stderr, "drv_c07: %ld cases (%d rewrites)\n", ncases, nrw_total);
    mx_parallel((ncases + GROUP - 1) / GROUP, run_group, NULL);
    snprintf(extra, sizeof(extra), "\"cases_enumerated\":%ld,\"rewrite_cases\":%d", ncases, nrw_total);
    return mx_finish(extra);
}
