/* c08_peer12.h - part V of drv_c08: post-handshake records of a malicious (D)TLS <= 1.2 peer.
 * After an honest handshake the attacker takes the place of one endpoint and, holding that endpoint's keys (read from the
 * victim instance: its read key / MAC key / IV salt ARE the peer's write keys), sends ONE correctly protected record (or
 * a short script of them) that an honest peer would never send: handshake messages of every type after the handshake,
 * a replayed ClientHello / ServerHello (renegotiation attempt), fragments of handshake messages interleaved with
 * application data, every (level, description) alert, ChangeCipherSpec variants, application records of boundary sizes,
 * every record type, every record version, CBC padding variants, and - DTLS - handshake fragments with every shape of
 * (message_seq, fragment_offset, fragment_length).  A follow-up application record under the next sequence number shows
 * whether the session is still alive.  Oracle = that of drv_c08 (sanitizers, hang, buffer bound, leak after teardown) plus:
 * the untouched follow-up alone must be delivered (positive validation of the toolkit). */
typedef struct { const char *name; int ver, kx; uint16_t suite; int keylen, maclen, cauth; } v_cfg_t;
static const v_cfg_t vcfgs[] = {
    { "tls12-rsa-aes128gcm", V_TLS12, KX_RSA, TLS_RSA_WITH_AES_128_GCM_SHA256, 16, 0, 0 },
    { "tls12-ecdhe-rsa-aes128cbc-sha-clientauth", V_TLS12, KX_ECDHE_RSA, TLS_ECDHE_RSA_WITH_AES_128_CBC_SHA, 16, 20, 1 },
    { "dtls12-rsa-aes128gcm", V_DTLS12, KX_RSA, TLS_RSA_WITH_AES_128_GCM_SHA256, 16, 0, 0 },
    { "dtls12-ecdhe-rsa-aes128cbc-sha", V_DTLS12, KX_ECDHE_RSA, TLS_ECDHE_RSA_WITH_AES_128_CBC_SHA, 16, 20, 0 },
    { "tls11-rsa-aes256cbc-sha", V_TLS11, KX_RSA, TLS_RSA_WITH_AES_256_CBC_SHA, 32, 20, 0 },
    { "tls12-ecdhe-rsa-aes256gcm", V_TLS12, KX_ECDHE_RSA, TLS_ECDHE_RSA_WITH_AES_256_GCM_SHA384, 32, 0, 0 },
};
#define NVCFG ((int) (sizeof(vcfgs) / sizeof(vcfgs[0])))
enum { V_NONE = 0, V_HSEMPTY, V_HSHELLO, V_ALERT, V_ALERTLEN, V_CCS, V_APPLEN, V_TYPE, V_VERSION, V_SEQ, V_HSFRAG, V_TWOMSG, V_PAD, V_DFRAG, V_DEPOCH, V_RAWCBC, V_NK };
static const char *vname[] = { "follow-up-only", "empty-handshake-message-of-type", "replayed-hello", "alert", "alert-of-length", "change-cipher-spec", "application-record-of-length",
    "record-type", "record-version", "wrong-sequence", "fragmented-handshake-message", "two-messages-one-record", "cbc-padding", "dtls-fragment-shape", "dtls-epoch", "cbc-raw-blocks" };
typedef struct {
    world_t w;
    int ci, victim, dtls;
    unsigned char key[32], mackey[64], salt[4];
    uint64_t seq;                      /* TLS: next implicit sequence number the victim expects; DTLS: next record sequence in epoch 1 */
    unsigned char hello[2048]; int hello_len;   /* the honest hello the victim once received from this peer (handshake message bytes) */
    int lastmsn;
    int kind, a, b;
} v_ctx_t;

static int v_seal(v_ctx_t *g, int type, int vmaj, int vmin, int epoch, uint64_t seq, const unsigned char *pt, int ptlen, int padmode, unsigned char *rec)
{
    const v_cfg_t *vc = &vcfgs[g->ci];
    unsigned char hdr[13], s8[8];
    int i, hl;
    hdr[0] = (unsigned char) type; hdr[1] = (unsigned char) vmaj; hdr[2] = (unsigned char) vmin;
    if (g->dtls)
    {
        s8[0] = (unsigned char) (epoch >> 8); s8[1] = (unsigned char) epoch;
        for (i = 0; i < 6; i++) s8[2 + i] = (unsigned char) (seq >> (8 * (5 - i)));
        memcpy(hdr + 3, s8, 8);
        hl = 13;
    }
    else
    {
        for (i = 0; i < 8; i++) s8[i] = (unsigned char) (seq >> (8 * (7 - i)));
        hl = 5;
    }
    hdr[hl - 2] = hdr[hl - 1] = 0;
    if (vc->maclen == 0)
    {
        return tk12_gcm_seal_ex(g->key, vc->keylen, g->salt, s8, hdr, hl, pt, ptlen, rec);
    }
    return tk12_cbc_seal_ex(g->key, vc->keylen, g->mackey, vc->maclen, s8, hdr, hl, pt, ptlen, padmode, rec);
}

static int v_setup(v_ctx_t *g)
{
    const v_cfg_t *vc = &vcfgs[g->ci];
    wcfg_t c;
    ssl_t *ssl;
    rec_t *r0;
    int i, hh, turn = 0, guard = 0;
    env_live_reset();
    env_track(1);
    memset(&c, 0, sizeof(c));
    c.ver = vc->ver; c.kx = vc->kx; c.suite = vc->suite; c.client_auth = vc->cauth;
    g->dtls = ver_is_dtls(vc->ver);
    if (world_init(&g->w, &c) < 0)
    {
        return -1;
    }
    /* the hello this peer sends to the victim: ClientHello (victim server) is on the wire now; ServerHello is the first
     * handshake message of the server's first flight */
    world_collect(&g->w, 0);
    hh = g->dtls ? 13 : 5;
    g->hello_len = 0;
    if (g->victim == 1)
    {
        r0 = &g->w.wire[0].r[g->w.wire[0].head];
        if (g->w.wire[0].n < 1 || r0->p[0] != 22 || r0->len - hh > (int) sizeof(g->hello))
        {
            return -2;
        }
        memcpy(g->hello, r0->p + hh, (size_t) (r0->len - hh));
        g->hello_len = r0->len - hh;
    }
    while (guard++ < 80 && !(world_is_complete(&g->w, 0) && world_is_complete(&g->w, 1)) && world_step(&g->w, &turn))
    {
        if (g->victim == 0 && g->hello_len == 0 && g->w.wire[1].n > 0)
        {
            int ml;
            r0 = &g->w.wire[1].r[g->w.wire[1].head];
            if (r0->p[0] == 22 && r0->len - hh >= 4)
            {
                ml = (g->dtls ? 12 : 4) + ((r0->p[hh + 1] << 16) | (r0->p[hh + 2] << 8) | r0->p[hh + 3]);
                if (ml <= r0->len - hh && ml <= (int) sizeof(g->hello))
                {
                    memcpy(g->hello, r0->p + hh, (size_t) ml);
                    g->hello_len = ml;
                }
            }
        }
    }
    if (!world_is_complete(&g->w, 0) || !world_is_complete(&g->w, 1))
    {
        return -3;
    }
    world_pump(&g->w, 20);
    if (g->hello_len == 0)
    {
        return -4;
    }
    ssl = g->w.s[g->victim].ssl;
    memcpy(g->key, ssl->sec.readKey, 32);
    memcpy(g->mackey, ssl->sec.readMAC, SSL_MAX_MAC_SIZE < 64 ? SSL_MAX_MAC_SIZE : 64);
    memcpy(g->salt, ssl->sec.readIV, 4);
    if (g->dtls)
    {
        g->seq = 40;       /* epoch 1, above everything the honest peer used, inside the window */
        g->lastmsn = ssl->lastMsn;
    }
    else
    {
        g->seq = 0;
        for (i = 0; i < 8; i++) g->seq = (g->seq << 8) | ssl->sec.remSeq[i];
    }
    world_wire_clear(&g->w, 0);
    world_wire_clear(&g->w, 1);
    return 0;
}

/* (D)TLS handshake message header in front of a body */
static int v_hs(v_ctx_t *g, unsigned char *out, int type, int msglen, int msn, int fragoff, int fraglen, const unsigned char *body, int bodylen)
{
    int n = 0;
    out[n++] = (unsigned char) type;
    out[n++] = (unsigned char) (msglen >> 16); out[n++] = (unsigned char) (msglen >> 8); out[n++] = (unsigned char) msglen;
    if (g->dtls)
    {
        out[n++] = (unsigned char) (msn >> 8); out[n++] = (unsigned char) msn;
        out[n++] = (unsigned char) (fragoff >> 16); out[n++] = (unsigned char) (fragoff >> 8); out[n++] = (unsigned char) fragoff;
        out[n++] = (unsigned char) (fraglen >> 16); out[n++] = (unsigned char) (fraglen >> 8); out[n++] = (unsigned char) fraglen;
    }
    if (bodylen > 0)
    {
        memcpy(out + n, body, (size_t) bodylen);
        n += bodylen;
    }
    return n;
}

static void v_run_case(void *ctx, mx_result_t *r)
{
    v_ctx_t *g = ctx;
    const v_cfg_t *vc = &vcfgs[g->ci];
    static unsigned char pt[20000], rec[21000];
    int v = g->victim, vmaj, vmin, n = 0, rl, s, before, delivered;
    uint64_t seq = g->seq;
    long live;
    ssl_t *ssl = g->w.s[v].ssl;
    static const unsigned char ping[5] = { 'p', 'i', 'n', 'g', '!' };

    r->nontrivial = g->kind != V_NONE;
    vmaj = g->dtls ? 0xfe : 3;
    vmin = vc->ver == V_TLS11 ? 2 : g->dtls ? 0xfd : 3;
#define SEND(T, P, L, PM) do { rl = v_seal(g, (T), vmaj, vmin, 1, seq, (P), (L), (PM), rec); seq++; \
        if (rl > 0 && g->w.s[v].err_rc >= 0 && g->w.s[v].ssl->err == SSL_ALERT_NONE) world_feed(&g->w, v, rec, rl); } while (0)
    switch (g->kind)
    {
    case V_NONE:
        break;
    case V_HSEMPTY:
    {
        static const int msns[4] = { 0, 1, -1, 0xffff };   /* -1: the next expected */
        int msn = msns[g->b & 3] < 0 ? g->lastmsn + 1 : msns[g->b & 3];
        n = v_hs(g, pt, g->a, 0, msn, 0, 0, NULL, 0);
        SEND(22, pt, n, 0);
        break;
    }
    case V_HSHELLO:
    {
        /* a: 0 whole, 1 first half (header announces the whole), 2 only 3 header bytes, 3 header announcing 0xffffff, 4 whole twice;
         * DTLS b: message_seq 0 (as first sent) or the next expected */
        int hl = g->dtls ? 12 : 4;
        memcpy(pt, g->hello, (size_t) g->hello_len);
        n = g->hello_len;
        if (g->dtls && g->b)
        {
            pt[4] = (unsigned char) ((g->lastmsn + 1) >> 8); pt[5] = (unsigned char) (g->lastmsn + 1);
        }
        if (g->a == 1) n = hl + (n - hl) / 2;
        if (g->a == 2) n = 3;
        if (g->a == 3) { pt[1] = pt[2] = pt[3] = 0xff; n = hl + 8 < n ? hl + 8 : n; }
        SEND(22, pt, n, 0);
        if (g->a == 4) SEND(22, pt, n, 0);
        break;
    }
    case V_ALERT:
        pt[0] = (unsigned char) g->a; pt[1] = (unsigned char) g->b;
        SEND(21, pt, 2, 0);
        break;
    case V_ALERTLEN:
        memset(pt, 1, 8);
        SEND(21, pt, g->a, 0);
        break;
    case V_CCS:
    {
        static const unsigned char bodies[5][2] = { { 1, 0 }, { 0, 0 }, { 0, 0 }, { 1, 1 }, { 2, 0 } };
        static const int lens[5] = { 1, 0, 1, 2, 1 };
        SEND(20, bodies[g->a], lens[g->a], 0);
        break;
    }
    case V_APPLEN:
        memset(pt, 0x61, (size_t) g->a);
        SEND(23, pt, g->a, 0);
        break;
    case V_TYPE:
        memset(pt, 0, 8);
        SEND(g->a, pt, g->b, 0);
        break;
    case V_VERSION:
        rl = v_seal(g, 23, g->a, g->b, 1, seq, ping, 5, 0, rec); seq++;
        if (rl > 0) world_feed(&g->w, v, rec, rl);
        break;
    case V_SEQ:
        /* a: 0 = one ahead, 1 = the previous number (replay position), 2 = far ahead; TLS must refuse, DTLS may accept ahead */
        rl = v_seal(g, 23, vmaj, vmin, 1, g->a == 0 ? seq + 1 : g->a == 1 ? seq - 1 : seq + 1000, ping, 5, 0, rec);
        if (rl > 0) world_feed(&g->w, v, rec, rl);
        break;
    case V_HSFRAG:
    {
        /* TLS: handshake message of type a (empty body, or the replayed hello for a == 1/2) cut after b bytes into two records;
         * b >= 100: an application record between the two halves */
        int cut = g->b % 100, between = g->b >= 100;
        if (g->a == g->hello[0]) { memcpy(pt, g->hello, (size_t) g->hello_len); n = g->hello_len; }
        else { pt[0] = (unsigned char) g->a; pt[1] = pt[2] = 0; pt[3] = 4; memset(pt + 4, 0, 4); n = 8; }
        if (cut > n) cut = n;
        SEND(22, pt, cut, 0);
        if (between) SEND(23, ping, 5, 0);
        memmove(pt, pt + cut, (size_t) (n - cut));
        SEND(22, pt, n - cut, 0);
        break;
    }
    case V_TWOMSG:
    {
        /* two handshake messages (type a then type b, empty) in one record */
        n = v_hs(g, pt, g->a, 0, g->lastmsn + 1, 0, 0, NULL, 0);
        n += v_hs(g, pt + n, g->b, 0, g->lastmsn + 2, 0, 0, NULL, 0);
        SEND(22, pt, n, 0);
        break;
    }
    case V_PAD:
        /* CBC: a = padding mode, b = plaintext length (padding length sweeps with it) */
        memset(pt, 0x62, (size_t) g->b);
        SEND(23, pt, g->b, g->a);
        break;
    case V_RAWCBC:
    {
        /* CBC: a blocks of plaintext that consist ONLY of the byte b - a record without room for a MAC whose last byte claims
           b + 1 bytes of (consistent) padding: padding longer than the record, padding + MAC filling the record exactly,
           padding + MAC leaving no room for the explicit IV, ... */
        unsigned char hdr[13];
        int i, hl = g->dtls ? 13 : 5;
        hdr[0] = 23; hdr[1] = (unsigned char) vmaj; hdr[2] = (unsigned char) vmin;
        if (g->dtls)
        {
            hdr[3] = 0; hdr[4] = 1;
            for (i = 0; i < 6; i++) hdr[5 + i] = (unsigned char) (seq >> (8 * (5 - i)));
        }
        memset(pt, g->b, (size_t) (16 * g->a));
        rl = tk12_cbc_raw_seal(g->key, vc->keylen, hdr, hl, pt, 16 * g->a, rec); seq++;
        if (rl > 0) world_feed(&g->w, v, rec, rl);
        break;
    }
    case V_DFRAG:
    {
        /* DTLS fragment shapes of a message of type (hello type) with announced length L = 64:
         * a = shape, b = message_seq choice */
        static const int shapes[12][3] = {   /* msglen, fragoff, fraglen (body bytes sent = min(fraglen, 64)) */
            { 64, 0, 32 }, { 64, 32, 32 }, { 64, 48, 32 }, { 64, 64, 0 }, { 64, 65, 1 }, { 64, 0, 65 }, { 0xffffff, 0, 16 }, { 64, 0xffffff, 16 },
            { 64, 16, 0xffffff }, { 0, 0, 16 }, { 16000, 15990, 16 }, { 64, 0, 0 } };
        static const int msns[4] = { 0, 1, -1, 0xffff };
        int msn = msns[g->b & 3] < 0 ? g->lastmsn + 1 : msns[g->b & 3], bl = shapes[g->a][2] > 64 ? 64 : shapes[g->a][2];
        static unsigned char body[64];
        memset(body, 0x5a, sizeof(body));
        n = v_hs(g, pt, g->hello[0], shapes[g->a][0], msn, shapes[g->a][1], shapes[g->a][2], body, bl);
        SEND(22, pt, n, 0);
        /* then the complementary first half, so that a reassembly (if any was started) continues */
        n = v_hs(g, pt, g->hello[0], 64, msn, 0, 32, body, 32);
        SEND(22, pt, n, 0);
        break;
    }
    case V_DEPOCH:
        /* DTLS: application record under epoch a (0, 2, 0xffff) with the epoch-1 keys */
        rl = v_seal(g, 23, vmaj, vmin, g->a, seq, ping, 5, 0, rec); seq++;
        if (rl > 0) world_feed(&g->w, v, rec, rl);
        break;
    }
    before = g->w.s[v].n_deliveries;
    if (g->w.s[v].err_rc >= 0 && g->w.s[v].ssl->err == SSL_ALERT_NONE && !g->w.s[v].closed)
    {
        rl = v_seal(g, 23, vmaj, vmin, 1, seq, ping, 5, 0, rec);
        if (rl > 0)
        {
            world_feed(&g->w, v, rec, rl);
        }
    }
    delivered = g->w.s[v].n_deliveries - before;
    world_pump(&g->w, 60);
#undef SEND
    for (s = 0; s < 2; s++)
    {
        ssl_t *x = g->w.s[s].ssl;
        if (x && (x->insize > SSL_MAX_BUF_SIZE || x->outsize > SSL_MAX_BUF_SIZE))
        {
            r->violation = 1;
            snprintf(r->key, sizeof(r->key), "buffer-exceeds-SSL_MAX_BUF_SIZE|peer12|%s", vname[g->kind]);
            snprintf(r->what, sizeof(r->what), "%s: side %d buffers grew to in %d / out %d bytes after %s a=%d b=%d", vc->name, s, x->insize, x->outsize, vname[g->kind], g->a, g->b);
        }
    }
    if (g->w.corrupt && !r->violation)
    {
        r->violation = 1;
        snprintf(r->key, sizeof(r->key), "readbuf-out-of-bounds|peer12|%s", v ? "server" : "client");
        snprintf(r->what, sizeof(r->what), "%s: after %s a=%d b=%d matrixSslGetReadbuf returned a region outside the input buffer", vc->name, vname[g->kind], g->a, g->b);
    }
    if (g->kind == V_NONE && delivered != 1 && !r->violation)
    {
        r->violation = 1;
        snprintf(r->key, sizeof(r->key), "toolkit-validation|peer12|%s|%s", vc->name, v ? "server" : "client");
        snprintf(r->what, sizeof(r->what), "%s: an application record sealed by the toolkit under the peer's keys was not delivered to the %s (deliveries %d, err_rc %d, alert %d): toolkit or library mismatch",
            vc->name, v ? "server" : "client", delivered, g->w.s[v].err_rc, ssl->err);
    }
    snprintf(r->outcome, sizeof(r->outcome), "p12:c%d%c:k%d:d%d:a%d:e%d:c%d", g->ci, v ? 's' : 'c', g->kind, delivered, g->w.s[v].ssl ? g->w.s[v].ssl->err : -1, g->w.s[v].err_rc < 0 ? 1 : 0,
        g->w.s[v].closed);
    r->transitions = g->w.actions;
    r->trace_hash = world_trace_hash(&g->w);
    world_free(&g->w);
    env_track(0);
    live = env_live();
    if (live != 0 && !r->violation)
    {
        void *sites[2];
        char site[128] = "?";
        if (env_live_sites(sites, 2) > 0)
        {
            mx_addr_func(sites[0], site, sizeof(site));
        }
        env_live_dump();
        r->violation = 1;
        snprintf(r->key, sizeof(r->key), "leak-after-delete|peer12|%s|alloc-in=%s", v ? "server" : "client", site);
        snprintf(r->what, sizeof(r->what), "%s: %ld tracked allocations still live after teardown, first allocated in %s (malicious peer record %s a=%d b=%d fed to %s) [%s]",
            vc->name, live, site, vname[g->kind], g->a, g->b, v ? "server" : "client", r->desc);
    }
}

static void v_fork(v_ctx_t *g, int kind, int a, int b)
{
    char desc[220];
    g->kind = kind; g->a = a; g->b = b;
    snprintf(desc, sizeof(desc), "V;c=%d;v=%d;k=%d;a=%d;b=%d (%s malicious peer to=%s %s a=%d b=%d)", g->ci, g->victim, kind, a, b, vcfgs[g->ci].name, g->victim ? "server" : "client", vname[kind], a, b);
    mx_fork_case(desc, v_run_case, g);
}

static void v_run_group(int ci, int victim)
{
    static v_ctx_t g;
    const v_cfg_t *vc = &vcfgs[ci];
    int rc, a, b, t;
    static const int alens[] = { 0, 1, 3, 4, 8 };
    static const int applens[] = { 0, 1, 15, 16, 17, 16383, 16384, 16385, 16400, 17000, 18432 };
    static const int lvls[] = { 0, 1, 2, 3, 255 };
    static const int qdesc[] = { 0, 10, 20, 21, 22, 30, 40, 41, 42, 43, 44, 45, 46, 47, 48, 49, 50, 51, 60, 70, 71, 80, 86, 90, 100, 110, 111, 112, 113, 114, 115, 120, 255 };
    static const int vers[][2] = { { 3, 0 }, { 3, 1 }, { 3, 2 }, { 3, 3 }, { 3, 4 }, { 2, 0 }, { 0, 0 }, { 255, 255 }, { 0xfe, 0xfd }, { 0xfe, 0xff }, { 0xfe, 0xfc }, { 1, 0 } };
    memset(&g, 0, sizeof(g));
    g.ci = ci; g.victim = victim;
    if ((rc = v_setup(&g)) != 0)
    {
        mx_result_t r;
        memset(&r, 0, sizeof(r));
        r.violation = 2;
        snprintf(r.key, sizeof(r.key), "toolkit-setup-failed|peer12|%s|v=%d|rc=%d", vc->name, victim, rc);
        snprintf(r.what, sizeof(r.what), "toolkit could not take over the %s of %s after the handshake (rc %d)", victim ? "client" : "server", vc->name, rc);
        snprintf(r.desc, sizeof(r.desc), "V;c=%d;v=%d", ci, victim);
        mx_record(&r);
        return;
    }
    v_fork(&g, V_NONE, 0, 0);
    for (t = 0; t < 256; t++)
    {
        for (b = 0; b < (g.dtls ? 4 : 1); b++) v_fork(&g, V_HSEMPTY, t, b);
    }
    for (a = 0; a < 5; a++)
    {
        for (b = 0; b < (g.dtls ? 2 : 1); b++) v_fork(&g, V_HSHELLO, a, b);
    }
    for (a = 0; a < (int) (sizeof(lvls) / sizeof(lvls[0])); a++)
    {
        if (thorough)
        {
            for (b = 0; b < 256; b++) v_fork(&g, V_ALERT, lvls[a], b);
        }
        else
        {
            for (b = 0; b < (int) (sizeof(qdesc) / sizeof(qdesc[0])); b++) v_fork(&g, V_ALERT, lvls[a], qdesc[b]);
        }
    }
    for (a = 0; a < 5; a++) v_fork(&g, V_ALERTLEN, alens[a], 0);
    for (a = 0; a < 5; a++) v_fork(&g, V_CCS, a, 0);
    for (a = 0; a < (int) (sizeof(applens) / sizeof(applens[0])); a++) v_fork(&g, V_APPLEN, applens[a], 0);
    for (t = 0; t < 256; t++)
    {
        if (!thorough && t > 30 && t < 250)
        {
            continue;
        }
        v_fork(&g, V_TYPE, t, 0);
        v_fork(&g, V_TYPE, t, 1);
        v_fork(&g, V_TYPE, t, 4);
    }
    for (a = 0; a < (int) (sizeof(vers) / sizeof(vers[0])); a++) v_fork(&g, V_VERSION, vers[a][0], vers[a][1]);
    for (a = 0; a < 3; a++) v_fork(&g, V_SEQ, a, 0);
    if (!g.dtls)
    {
        static const int ftypes[] = { 0, 1, 2, 4, 11, 12, 13, 14, 15, 16, 20, 255 };
        for (t = 0; t < (int) (sizeof(ftypes) / sizeof(ftypes[0])); t++)
        {
            for (b = 1; b <= 5; b++)
            {
                v_fork(&g, V_HSFRAG, ftypes[t], b);
                v_fork(&g, V_HSFRAG, ftypes[t], 100 + b);
            }
        }
    }
    {
        static const int mt[] = { 0, 1, 2, 11, 14, 16, 20 };
        for (a = 0; a < 7; a++) for (b = 0; b < 7; b++) v_fork(&g, V_TWOMSG, mt[a], mt[b]);
    }
    if (vc->maclen)
    {
        for (a = 0; a < 3; a++) for (b = 0; b <= 48; b++) v_fork(&g, V_PAD, a, b);
        for (a = 0; a <= 5; a++)
        {
            for (b = 0; b < 256; b++)
            {
                if (b <= 16 * a + 17 || b == 255 || (thorough && (b % 16) == 15)) v_fork(&g, V_RAWCBC, a, b);
            }
        }
    }
    if (g.dtls)
    {
        for (a = 0; a < 12; a++) for (b = 0; b < 4; b++) v_fork(&g, V_DFRAG, a, b);
        v_fork(&g, V_DEPOCH, 0, 0);
        v_fork(&g, V_DEPOCH, 2, 0);
        v_fork(&g, V_DEPOCH, 0xffff, 0);
    }
    world_free(&g.w);
    env_track(0);
}
