/* c08_vec.h - structure-aware resize edits for drv_c08.
 * Byte and window edits almost always make a handshake message malformed at the first length check.  The edits here keep
 * the message WELL FORMED while one length-prefixed vector changes its size: the vector's own length field, the length
 * fields of every enclosing vector, the handshake header (and DTLS fragment length) and the record length are all fixed
 * up.  The vectors are located by a small grammar of the plaintext handshake messages (ClientHello, ServerHello /
 * HelloRetryRequest, HelloVerifyRequest, Certificate, ServerKeyExchange, CertificateRequest, ClientKeyExchange,
 * CertificateVerify, NewSessionTicket, and the common inner list of an extension). */
#ifndef C08_VEC_H
#define C08_VEC_H

typedef struct { int hoff, boff, blen, type; } hmsg_t;     /* handshake header offset, body offset, body length (in the record) */
typedef struct { int off, w; } vecf_t;                     /* length field at absolute record offset, width 1..3 */

static int be_get(const unsigned char *p, int w) { return w == 1 ? p[0] : w == 2 ? (p[0] << 8) | p[1] : (p[0] << 16) | (p[1] << 8) | p[2]; }
static void be_put(unsigned char *p, int w, int v)
{
    if (w == 3) { p[0] = (unsigned char) (v >> 16); p[1] = (unsigned char) (v >> 8); p[2] = (unsigned char) v; }
    else if (w == 2) { p[0] = (unsigned char) (v >> 8); p[1] = (unsigned char) v; }
    else p[0] = (unsigned char) v;
}

/* unfragmented plaintext handshake messages of one record; 0 if the body does not parse consistently (encrypted, fragment) */
static int hs_msgs(const unsigned char *rec, int len, int dtls, hmsg_t *m, int max)
{
    int hdr = dtls ? 13 : 5, mh = dtls ? 12 : 4, o = hdr, n = 0;
    if (len < hdr + mh || rec[0] != 22 || (dtls && (rec[3] || rec[4])))
    {
        return 0;
    }
    if (be_get(rec + hdr - 2, 2) != len - hdr)
    {
        return 0;
    }
    while (o < len)
    {
        int ml;
        if (o + mh > len || n >= max)
        {
            return 0;
        }
        ml = be_get(rec + o + 1, 3);
        if (dtls && (be_get(rec + o + 6, 3) != 0 || be_get(rec + o + 9, 3) != ml))
        {
            return 0;
        }
        if (o + mh + ml > len || rec[o] > 24)
        {
            return 0;
        }
        m[n].hoff = o; m[n].boff = o + mh; m[n].blen = ml; m[n].type = rec[o];
        n++;
        o += mh + ml;
    }
    return n;
}

#define VADD(O, W) do { if (nv < max) { v[nv].off = (O); v[nv].w = (W); nv++; } } while (0)
/* a vector of width w at o that fits into [o, end): returns its end or -1 */
static int vfit(const unsigned char *r, int o, int w, int end)
{
    int l;
    if (o + w > end) return -1;
    l = be_get(r + o, w);
    return o + w + l <= end ? o + w + l : -1;
}
static int vec_extensions(const unsigned char *r, int o, int end, vecf_t *v, int nv, int max)
{
    int e = vfit(r, o, 2, end);
    if (e < 0) return nv;
    VADD(o, 2);
    o += 2;
    while (o + 4 <= e)
    {
        int de = vfit(r, o + 2, 2, e), dl;
        if (de < 0) break;
        VADD(o + 2, 2);
        dl = de - (o + 4);
        /* the common inner list of an extension body */
        if (dl >= 2 && be_get(r + o + 4, 2) == dl - 2) VADD(o + 4, 2);
        else if (dl >= 1 && r[o + 4] == dl - 1) VADD(o + 4, 1);
        o = de;
    }
    return nv;
}
static int vec_tls13;   /* 1: the message is a TLS 1.3 message from a protected flight (part T): types 4, 11, 13 have the TLS 1.3 layout, 8 exists */
static int vec_find(const unsigned char *r, const hmsg_t *m, int dtls, vecf_t *v, int max)
{
    int nv = 0, o = m->boff, end = m->boff + m->blen, e;
    if (vec_tls13)
    {
        switch (m->type)
        {
        case 8: /* EncryptedExtensions */
            return vec_extensions(r, o, end, v, nv, max);
        case 13: /* CertificateRequest: context<1> extensions<2> */
            if ((e = vfit(r, o, 1, end)) < 0) return nv;
            VADD(o, 1);
            return vec_extensions(r, e, end, v, nv, max);
        case 11: /* Certificate: context<1> list<3>{ cert<3> extensions<2> } */
            if ((e = vfit(r, o, 1, end)) < 0) return nv;
            VADD(o, 1); o = e;
            if ((e = vfit(r, o, 3, end)) < 0) return nv;
            VADD(o, 3); o += 3;
            while (o + 3 <= e)
            {
                int ce = vfit(r, o, 3, e), xe;
                if (ce < 0) break;
                VADD(o, 3);
                if ((xe = vfit(r, ce, 2, e)) < 0) break;
                VADD(ce, 2);
                o = xe;
            }
            return nv;
        case 4: /* NewSessionTicket: lifetime(4) age_add(4) nonce<1> ticket<2> extensions<2> */
            if ((e = vfit(r, o + 8, 1, end)) < 0) return nv;
            VADD(o + 8, 1); o = e;
            if ((e = vfit(r, o, 2, end)) < 0) return nv;
            VADD(o, 2);
            return vec_extensions(r, e, end, v, nv, max);
        case 15: /* CertificateVerify: algorithm(2) signature<2> */
            if (vfit(r, o + 2, 2, end) == end) VADD(o + 2, 2);
            return nv;
        default:
            return nv;
        }
    }
    switch (m->type)
    {
    case 1: /* ClientHello */
        o += 34;
        if ((e = vfit(r, o, 1, end)) < 0) break;
        VADD(o, 1); o = e;
        if (dtls)
        {
            if ((e = vfit(r, o, 1, end)) < 0) break;
            VADD(o, 1); o = e;
        }
        if ((e = vfit(r, o, 2, end)) < 0) break;
        VADD(o, 2); o = e;
        if ((e = vfit(r, o, 1, end)) < 0) break;
        VADD(o, 1); o = e;
        nv = vec_extensions(r, o, end, v, nv, max);
        break;
    case 2: /* ServerHello / HelloRetryRequest */
        o += 34;
        if ((e = vfit(r, o, 1, end)) < 0) break;
        VADD(o, 1); o = e + 3;
        nv = vec_extensions(r, o, end, v, nv, max);
        break;
    case 3: /* HelloVerifyRequest */
        if (vfit(r, o + 2, 1, end) >= 0) VADD(o + 2, 1);
        break;
    case 4: /* NewSessionTicket (<= 1.2) */
        if (vfit(r, o + 4, 2, end) >= 0) VADD(o + 4, 2);
        break;
    case 11: /* Certificate (<= 1.2) */
        if ((e = vfit(r, o, 3, end)) < 0) break;
        VADD(o, 3); o += 3;
        while (o + 3 <= e)
        {
            int ce = vfit(r, o, 3, e);
            if (ce < 0) break;
            VADD(o, 3);
            o = ce;
        }
        break;
    case 12: /* ServerKeyExchange: ECDHE named curve, or PSK identity hint */
        if (m->blen >= 4 && r[o] == 3)
        {
            if ((e = vfit(r, o + 3, 1, end)) < 0) break;
            VADD(o + 3, 1); o = e;
            if (vfit(r, o, 2, end) == end) VADD(o, 2);               /* signature (TLS 1.1) */
            else if (vfit(r, o + 2, 2, end) == end) VADD(o + 2, 2);  /* algorithm + signature */
        }
        else if (vfit(r, o, 2, end) == end) VADD(o, 2);
        break;
    case 13: /* CertificateRequest (<= 1.2) */
        if ((e = vfit(r, o, 1, end)) < 0) break;
        VADD(o, 1); o = e;
        if (vfit(r, o, 2, end) != end)
        {
            if ((e = vfit(r, o, 2, end)) < 0) break;
            VADD(o, 2); o = e;                                      /* supported_signature_algorithms */
        }
        if ((e = vfit(r, o, 2, end)) < 0) break;
        VADD(o, 2); o += 2;
        while (o + 2 <= e)
        {
            int de = vfit(r, o, 2, e);
            if (de < 0) break;
            VADD(o, 2);
            o = de;
        }
        break;
    case 15: /* CertificateVerify */
        if (vfit(r, o, 2, end) == end) VADD(o, 2);
        else if (vfit(r, o + 2, 2, end) == end) VADD(o + 2, 2);
        break;
    case 16: /* ClientKeyExchange */
        if (vfit(r, o, 1, end) == end) VADD(o, 1);
        else if (vfit(r, o, 2, end) == end) VADD(o, 2);
        else if ((e = vfit(r, o, 2, end)) >= 0)
        {
            VADD(o, 2);                                              /* PSK identity, then possibly a key share */
            if (vfit(r, e, 1, end) == end) VADD(e, 1);
            else if (vfit(r, e, 2, end) == end) VADD(e, 2);
        }
        break;
    }
    return nv;
}
#undef VADD

enum { VR_GROW1 = 0, VR_GROW16, VR_GROW200, VR_SHRINK1, VR_EMPTY, VR_DOUBLE, VR_X8, VR_GROW8000, VR_N };
static const char *vrname[VR_N] = { "grow+1", "grow+16", "grow+200", "shrink-1", "empty", "doubled", "content-x8", "grow+8000" };

/* resize vector k of message mi of the record in buf (length *len, capacity cap); all enclosing lengths are fixed up.
 * returns 1 if applied */
static int vec_resize(unsigned char *buf, int *len, int cap, int dtls, int mi, int k, int var)
{
    hmsg_t m[12];
    vecf_t v[96];
    int nm = hs_msgs(buf, *len, dtls, m, 12), nv, i, vo, vw, vl, ve, delta, hdr = dtls ? 13 : 5, maxv;
    if (mi >= nm)
    {
        return 0;
    }
    nv = vec_find(buf, &m[mi], dtls, v, 96);
    if (k >= nv)
    {
        return 0;
    }
    vo = v[k].off; vw = v[k].w; vl = be_get(buf + vo, vw); ve = vo + vw + vl;
    switch (var)
    {
    case VR_GROW1: delta = 1; break;
    case VR_GROW16: delta = 16; break;
    case VR_GROW200: delta = 200; break;
    case VR_GROW8000: delta = 8000; break;   /* larger than ssl_t: a list copied into a fixed array INSIDE the session leaves the heap block */
    case VR_SHRINK1: delta = -1; break;
    case VR_EMPTY: delta = -vl; break;
    case VR_X8: delta = 7 * vl; break;
    default: delta = vl; break;
    }
    maxv = vw == 1 ? 0xff : vw == 2 ? 0xffff : 0xffffff;
    if (delta == 0 || vl + delta < 0 || vl + delta > maxv || *len + delta > cap || *len - hdr + delta > 16384 + 2048)
    {
        return 0;
    }
    /* enclosing vectors first (their fields lie before vo and are not moved) */
    for (i = 0; i < nv; i++)
    {
        int eo = v[i].off, ew = v[i].w, el = be_get(buf + eo, ew);
        if (i != k && eo + ew <= vo && eo + ew + el >= ve)
        {
            int em = ew == 1 ? 0xff : ew == 2 ? 0xffff : 0xffffff;
            if (el + delta < 0 || el + delta > em)
            {
                return 0;
            }
            be_put(buf + eo, ew, el + delta);
        }
    }
    be_put(buf + vo, vw, vl + delta);
    if (delta > 0)
    {
        memmove(buf + ve + delta, buf + ve, (size_t) (*len - ve));
        if (var == VR_DOUBLE || var == VR_X8)
        {
            int q;
            for (q = 0; q < delta; q += vl) memcpy(buf + ve + q, buf + vo + vw, (size_t) vl);   /* whole copies of the content: every element, every extension repeated */
        }
        else memset(buf + ve, 0x41, (size_t) delta);
    }
    else
    {
        memmove(buf + ve + delta, buf + ve, (size_t) (*len - ve));
    }
    *len += delta;
    be_put(buf + m[mi].hoff + 1, 3, m[mi].blen + delta);
    if (dtls)
    {
        be_put(buf + m[mi].hoff + 9, 3, m[mi].blen + delta);
    }
    be_put(buf + hdr - 2, 2, *len - hdr);
    return 1;
}

/* number of (message, vector) pairs of a record; fills the flat index -> (mi, k) maps */
static int vec_count(const unsigned char *rec, int len, int dtls, int *mis, int *ks, int max)
{
    hmsg_t m[12];
    vecf_t v[96];
    int nm = hs_msgs(rec, len, dtls, m, 12), i, j, n = 0;
    for (i = 0; i < nm; i++)
    {
        int nv = vec_find(rec, &m[i], dtls, v, 96);
        for (j = 0; j < nv && n < max; j++)
        {
            mis[n] = i; ks[n] = j; n++;
        }
    }
    return n;
}
#endif
