/* c07_hello.h - structural parser / re-encoder for (D)TLS ClientHello and ServerHello
 * (HelloRetryRequest has the ServerHello format) and the single-field rewrite alphabet
 * of the C07 man-in-the-middle.  Private to drv_c07.c. */
#ifndef C07_HELLO_H
#define C07_HELLO_H
#include <stdint.h>
#include <string.h>
#include <stdio.h>

#define X_SUPPORTED_GROUPS   10
#define X_EC_POINT_FORMATS   11
#define X_SIGALGS            13
#define X_EMS                23
#define X_TICKET             35
#define X_PRE_SHARED_KEY     41
#define X_SUPPORTED_VERSIONS 43
#define X_PSK_MODES          45
#define X_SIGALGS_CERT       50
#define X_KEY_SHARE          51
#define X_RENEG_INFO         0xff01

#define H_MAXEXT   24
#define H_MAXSUITE 80
#define H_ARENA    4096

typedef struct { uint16_t type; int off, len; } hext_t;   /* body = arena[off .. off+len) */

typedef struct {
    int      is_sh, dtls;
    uint8_t  legacy[2];
    uint8_t  random[32];
    uint8_t  sid[32]; int sidlen;
    uint8_t  cookie[255]; int cookielen;          /* DTLS ClientHello only */
    uint16_t suites[H_MAXSUITE]; int nsuites;     /* ServerHello: exactly one */
    uint8_t  comp[8]; int ncomp;                  /* ServerHello: exactly one */
    int      has_ext;                             /* extensions block present */
    hext_t   ext[H_MAXEXT]; int next;
    uint8_t  arena[H_ARENA]; int used;
} hello_t;

static const uint8_t HRR_RANDOM[32] = {
    0xCF, 0x21, 0xAD, 0x74, 0xE5, 0x9A, 0x61, 0x11, 0xBE, 0x1D, 0x8C, 0x02, 0x1E, 0x65, 0xB8, 0x91,
    0xC2, 0xA2, 0x11, 0x16, 0x7A, 0xBB, 0x8C, 0x5E, 0x07, 0x9E, 0x09, 0xE2, 0xC8, 0xA8, 0x33, 0x9C };

static int hello_is_hrr(const hello_t *h) { return h->is_sh && !memcmp(h->random, HRR_RANDOM, 32); }

/* parse the BODY of a hello handshake message; 0 ok, <0 malformed */
static int hello_parse(hello_t *h, int is_sh, int dtls, const uint8_t *p, int n)
{
    int o = 0, i, l;
    memset(h, 0, sizeof(*h));
    h->is_sh = is_sh; h->dtls = dtls;
    if (n < 2 + 32 + 1) return -1;
    h->legacy[0] = p[0]; h->legacy[1] = p[1]; o = 2;
    memcpy(h->random, p + o, 32); o += 32;
    h->sidlen = p[o++];
    if (h->sidlen > 32 || o + h->sidlen > n) return -2;
    memcpy(h->sid, p + o, (size_t) h->sidlen); o += h->sidlen;
    if (!is_sh && dtls)
    {
        if (o + 1 > n) return -3;
        h->cookielen = p[o++];
        if (o + h->cookielen > n) return -3;
        memcpy(h->cookie, p + o, (size_t) h->cookielen); o += h->cookielen;
    }
    if (is_sh)
    {
        if (o + 3 > n) return -4;
        h->suites[0] = (uint16_t) ((p[o] << 8) | p[o + 1]); h->nsuites = 1; o += 2;
        h->comp[0] = p[o++]; h->ncomp = 1;
    }
    else
    {
        if (o + 2 > n) return -4;
        l = (p[o] << 8) | p[o + 1]; o += 2;
        if ((l & 1) || o + l > n || l / 2 > H_MAXSUITE) return -5;
        for (i = 0; i < l / 2; i++) h->suites[i] = (uint16_t) ((p[o + 2 * i] << 8) | p[o + 2 * i + 1]);
        h->nsuites = l / 2; o += l;
        if (o + 1 > n) return -6;
        l = p[o++];
        if (l > 8 || o + l > n) return -6;
        memcpy(h->comp, p + o, (size_t) l); h->ncomp = l; o += l;
    }
    if (o == n) return 0;
    if (o + 2 > n) return -7;
    l = (p[o] << 8) | p[o + 1]; o += 2;
    if (o + l != n) return -8;
    h->has_ext = 1;
    while (o < n)
    {
        int t, el;
        if (o + 4 > n || h->next >= H_MAXEXT) return -9;
        t = (p[o] << 8) | p[o + 1]; el = (p[o + 2] << 8) | p[o + 3]; o += 4;
        if (o + el > n || h->used + el > H_ARENA) return -10;
        h->ext[h->next].type = (uint16_t) t; h->ext[h->next].off = h->used; h->ext[h->next].len = el;
        memcpy(h->arena + h->used, p + o, (size_t) el); h->used += el; h->next++; o += el;
    }
    return 0;
}

/* encode the body; returns length */
static int hello_encode(const hello_t *h, uint8_t *out, int cap)
{
    int o = 0, i, lp;
    (void) cap;
    out[o++] = h->legacy[0]; out[o++] = h->legacy[1];
    memcpy(out + o, h->random, 32); o += 32;
    out[o++] = (uint8_t) h->sidlen; memcpy(out + o, h->sid, (size_t) h->sidlen); o += h->sidlen;
    if (!h->is_sh && h->dtls)
    {
        out[o++] = (uint8_t) h->cookielen; memcpy(out + o, h->cookie, (size_t) h->cookielen); o += h->cookielen;
    }
    if (h->is_sh)
    {
        out[o++] = (uint8_t) (h->suites[0] >> 8); out[o++] = (uint8_t) h->suites[0];
        out[o++] = h->comp[0];
    }
    else
    {
        out[o++] = (uint8_t) ((2 * h->nsuites) >> 8); out[o++] = (uint8_t) (2 * h->nsuites);
        for (i = 0; i < h->nsuites; i++) { out[o++] = (uint8_t) (h->suites[i] >> 8); out[o++] = (uint8_t) h->suites[i]; }
        out[o++] = (uint8_t) h->ncomp; memcpy(out + o, h->comp, (size_t) h->ncomp); o += h->ncomp;
    }
    if (!h->has_ext) return o;
    lp = o; o += 2;
    for (i = 0; i < h->next; i++)
    {
        out[o++] = (uint8_t) (h->ext[i].type >> 8); out[o++] = (uint8_t) h->ext[i].type;
        out[o++] = (uint8_t) (h->ext[i].len >> 8); out[o++] = (uint8_t) h->ext[i].len;
        memcpy(out + o, h->arena + h->ext[i].off, (size_t) h->ext[i].len); o += h->ext[i].len;
    }
    out[lp] = (uint8_t) ((o - lp - 2) >> 8); out[lp + 1] = (uint8_t) (o - lp - 2);
    return o;
}

static int hello_find(const hello_t *h, int type)
{
    int i;
    for (i = 0; i < h->next; i++) if (h->ext[i].type == type) return i;
    return -1;
}
static void hello_del_ext(hello_t *h, int idx)
{
    int i;
    for (i = idx; i + 1 < h->next; i++) h->ext[i] = h->ext[i + 1];
    h->next--;
}
/* (re)place the body of extension idx (idx == -1: append a new extension of that type; pre_shared_key must stay last) */
static int hello_set_ext(hello_t *h, int idx, int type, const uint8_t *body, int len)
{
    if (h->used + len > H_ARENA) return -1;
    if (idx < 0)
    {
        int last = h->next;
        if (h->next >= H_MAXEXT) return -1;
        h->has_ext = 1;
        if (h->next > 0 && h->ext[h->next - 1].type == X_PRE_SHARED_KEY && !h->is_sh)
        {
            h->ext[h->next] = h->ext[h->next - 1];
            last = h->next - 1;
        }
        idx = last; h->next++;
    }
    h->ext[idx].type = (uint16_t) type; h->ext[idx].off = h->used; h->ext[idx].len = len;
    if (len) memcpy(h->arena + h->used, body, (size_t) len);
    h->used += len;
    return idx;
}

/* ---- u16-list extension bodies: hdr = number of length-prefix bytes (1: supported_versions, 2: groups / sigalgs) */
static int xlist_get(const hello_t *h, int idx, int hdr, uint16_t *out, int max)
{
    const uint8_t *b = h->arena + h->ext[idx].off;
    int len = h->ext[idx].len, l, i;
    if (len < hdr) return -1;
    l = hdr == 1 ? b[0] : ((b[0] << 8) | b[1]);
    if (l + hdr != len || (l & 1) || l / 2 > max) return -1;
    for (i = 0; i < l / 2; i++) out[i] = (uint16_t) ((b[hdr + 2 * i] << 8) | b[hdr + 2 * i + 1]);
    return l / 2;
}
static void xlist_set(hello_t *h, int idx, int hdr, const uint16_t *v, int n)
{
    uint8_t b[2 + 2 * 64];
    int o = 0, i;
    if (hdr == 1) b[o++] = (uint8_t) (2 * n); else { b[o++] = (uint8_t) ((2 * n) >> 8); b[o++] = (uint8_t) (2 * n); }
    for (i = 0; i < n; i++) { b[o++] = (uint8_t) (v[i] >> 8); b[o++] = (uint8_t) v[i]; }
    hello_set_ext(h, idx, h->ext[idx].type, b, o);
}

/* ---- key_share (ClientHello): list of (group, key) */
typedef struct { uint16_t group; int koff, klen; } kshare_t;   /* key = ext body[koff .. koff+klen) */
static int kshare_get(const hello_t *h, int idx, kshare_t *out, int max)
{
    const uint8_t *b = h->arena + h->ext[idx].off;
    int len = h->ext[idx].len, l, o, n = 0;
    if (len < 2) return -1;
    l = (b[0] << 8) | b[1];
    if (l + 2 != len) return -1;
    o = 2;
    while (o < len)
    {
        int kl;
        if (o + 4 > len || n >= max) return -1;
        kl = (b[o + 2] << 8) | b[o + 3];
        if (o + 4 + kl > len) return -1;
        out[n].group = (uint16_t) ((b[o] << 8) | b[o + 1]); out[n].koff = o + 4; out[n].klen = kl; n++;
        o += 4 + kl;
    }
    return n;
}

/* --------------------------------------------------------------------------------- rewrites */
/* expectation attached to a rewrite beyond "no endpoint completes" */
enum { EXP_FAIL = 0,           /* the handshake must fail somewhere */
       EXP_PEER_ABORTS_AT_HELLO /* the receiver of the rewritten hello must abort before sending another handshake message */ };

typedef struct {
    char     name[96];
    int      expect;
    int      alert;             /* expect == EXP_PEER_ABORTS_AT_HELLO: > 0 this alert description; -1: an alert of hello validation
                                   (illegal_parameter / handshake_failure / protocol_version), not a later decrypt/MAC failure; 0 any */
    char     klass[40];         /* class of the rewrite (stable, low-cardinality: used in outcome / violation keys) */
} rw_info_t;

typedef struct {
    /* context for building the alphabet */
    int      dtls;
    const uint16_t *repl_suites; int nrepl;      /* replacement suite values to try */
    const uint16_t *offered;     int noffered;   /* suites of the ClientHello (ServerHello rewrites) */
    const uint16_t *client_enabled_enc; int nclient_enabled; /* encodings of versions the client enabled */
    int      client_has_13;      /* client enabled TLS 1.3 */
    int      server_max_rank, client_legacy_rank; /* for the SCSV expectation (ranks: 1.1 = 1, 1.2 = 2, 1.3 = 3; DTLS 1.0 = 1, 1.2 = 2) */
    int      honest_version_enc; /* version negotiated by the honest run */
    int      ems_required_by_peer; /* receiver of the hello requires EMS */
} rw_ctx_t;

static int enc_rank(int enc)
{
    switch (enc)
    {
    case 0x0301: return 0; case 0x0302: return 1; case 0x0303: return 2; case 0x0304: return 3;
    case 0xfeff: return 1; case 0xfefd: return 2;
    default: return -1;
    }
}

/* Enumerate the rewrites of hello h in a fixed order.  When k == want the rewrite is applied to *h and described
 * in *info; returns the total number of rewrites (so callers count with want = -1). */
#define RW_BEGIN(nm_fmt, ...) do { if (k == want) { snprintf(info->name, sizeof(info->name), nm_fmt, __VA_ARGS__); info->expect = EXP_FAIL; info->alert = 0;
#define RW_END(kl) snprintf(info->klass, sizeof(info->klass), "%s", kl); } k++; } while (0)

static int hello_rewrites(hello_t *h, const rw_ctx_t *cx, int want, rw_info_t *info)
{
    int k = 0, i, j, idx;
    static const uint16_t tls_vers[] = { 0x0300, 0x0301, 0x0302, 0x0303, 0x0304 };
    static const uint16_t dtls_vers[] = { 0xfeff, 0xfefd, 0x0303 };
    const uint16_t *vers = cx->dtls ? dtls_vers : tls_vers;
    int nvers = cx->dtls ? 3 : 5;
    const char *who = h->is_sh ? (hello_is_hrr(h) ? "HRR" : "SH") : "CH";
    int legacy = (h->legacy[0] << 8) | h->legacy[1];
    hello_t orig = *h;   /* enumeration is over the ORIGINAL structure */

#define H (&orig)
    /* 1. legacy_version */
    for (i = 0; i < nvers; i++)
    {
        if (vers[i] == legacy) continue;
        RW_BEGIN("%s.legacy_version %04x->%04x", who, legacy, vers[i])
            h->legacy[0] = (uint8_t) (vers[i] >> 8); h->legacy[1] = (uint8_t) vers[i];
        RW_END("legacy-version");
    }
    /* 2. random: one byte; ServerHello: downgrade sentinels */
    RW_BEGIN("%s.random[0]^=1", who) h->random[0] ^= 1; RW_END("random");
    if (h->is_sh && !hello_is_hrr(h))
    {
        static const uint8_t s12[8] = { 'D', 'O', 'W', 'N', 'G', 'R', 'D', 1 }, s11[8] = { 'D', 'O', 'W', 'N', 'G', 'R', 'D', 0 }, z[8] = { 0 };
        const uint8_t *vals[3] = { s12, s11, z };
        const char *nm[3] = { "DOWNGRD\\x01", "DOWNGRD\\x00", "zero" };
        for (i = 0; i < 3; i++)
        {
            if (!memcmp(H->random + 24, vals[i], 8)) continue;
            RW_BEGIN("SH.random[24..31]:=%s", nm[i])
                memcpy(h->random + 24, vals[i], 8);
                if (i < 2 && cx->client_has_13 && enc_rank(cx->honest_version_enc) < 3 && !cx->dtls)
                {
                    /* RFC 8446 4.1.3: a TLS 1.3 capable client seeing the sentinel in a <= 1.2 ServerHello MUST abort with illegal_parameter */
                    info->expect = EXP_PEER_ABORTS_AT_HELLO; info->alert = 47;
                }
            RW_END(i < 2 ? "sentinel-set" : "sentinel-cleared");
        }
    }
    /* 3. session id */
    if (H->sidlen > 0)
    {
        RW_BEGIN("%s.session_id[0]^=1", who) h->sid[0] ^= 1; RW_END("session-id");
        RW_BEGIN("%s.session_id:=empty", who) h->sidlen = 0; RW_END("session-id");
    }
    else
    {
        RW_BEGIN("%s.session_id:=32x0x5a", who) memset(h->sid, 0x5a, 32); h->sidlen = 32; RW_END("session-id");
    }
    /* 4. cipher suites */
    if (!h->is_sh)
    {
        for (i = 0; i < H->nsuites; i++)
        {
            RW_BEGIN("CH.suites[%d] %04x deleted", i, H->suites[i])
                for (j = i; j + 1 < h->nsuites; j++) h->suites[j] = h->suites[j + 1];
                h->nsuites--;
            RW_END("suite-deleted");
            for (j = 0; j < cx->nrepl; j++)
            {
                if (cx->repl_suites[j] == H->suites[i]) continue;
                RW_BEGIN("CH.suites[%d] %04x->%04x", i, H->suites[i], cx->repl_suites[j])
                    h->suites[i] = cx->repl_suites[j];
                RW_END("suite-replaced");
            }
        }
        for (i = 0; i < 2; i++)
        {
            int present = 0;
            for (j = 0; j < H->nsuites; j++) if (H->suites[j] == 0x5600) present = 1;
            if (present) break;
            RW_BEGIN("CH.suites: TLS_FALLBACK_SCSV inserted at %s", i ? "front" : "end")
                if (i) { for (j = h->nsuites; j > 0; j--) h->suites[j] = h->suites[j - 1]; h->suites[0] = 0x5600; }
                else h->suites[h->nsuites] = 0x5600;
                h->nsuites++;
                if (cx->server_max_rank > cx->client_legacy_rank)
                {
                    /* RFC 7507 3: server supporting a higher version than client_version MUST answer inappropriate_fallback */
                    info->expect = EXP_PEER_ABORTS_AT_HELLO; info->alert = 86;
                }
            RW_END("fallback-scsv-inserted");
        }
        {
            int present = 0;
            for (j = 0; j < H->nsuites; j++) if (H->suites[j] == 0x00ff) present = 1;
            if (!present)
            {
                RW_BEGIN("CH.suites: %s", "TLS_EMPTY_RENEGOTIATION_INFO_SCSV appended") h->suites[h->nsuites++] = 0x00ff; RW_END("reneg-scsv-added");
            }
            else
            {
                RW_BEGIN("CH.suites: %s", "TLS_EMPTY_RENEGOTIATION_INFO_SCSV removed")
                    for (i = 0, j = 0; i < h->nsuites; i++) if (h->suites[i] != 0x00ff) h->suites[j++] = h->suites[i];
                    h->nsuites = j;
                RW_END("reneg-scsv-removed");
            }
        }
        RW_BEGIN("CH.compression: %s", "method 1 appended") h->comp[h->ncomp++] = 1; RW_END("compression");
    }
    else
    {
        for (j = 0; j < cx->noffered; j++)
        {
            if (cx->offered[j] == H->suites[0] || cx->offered[j] == 0x5600 || cx->offered[j] == 0x00ff) continue;
            RW_BEGIN("%s.suite %04x->%04x (offered)", who, H->suites[0], cx->offered[j]) h->suites[0] = cx->offered[j]; RW_END("selected-suite-other-offered");
        }
        for (j = 0; j < cx->nrepl; j++)
        {
            int off = 0;
            for (i = 0; i < cx->noffered; i++) if (cx->offered[i] == cx->repl_suites[j]) off = 1;
            if (off || cx->repl_suites[j] == H->suites[0]) continue;
            RW_BEGIN("%s.suite %04x->%04x (NOT offered)", who, H->suites[0], cx->repl_suites[j])
                h->suites[0] = cx->repl_suites[j];
                /* RFC 5246 7.4.1.3 / RFC 8446 4.1.3: must be one of the offered suites.  (For a HelloRetryRequest the final
                   ServerHello is what selects the suite, so only failure is required there.) */
                if (!hello_is_hrr(h)) { info->expect = EXP_PEER_ABORTS_AT_HELLO; info->alert = -1; }
            RW_END("selected-suite-not-offered");
        }
        RW_BEGIN("%s.compression:=1", who) h->comp[0] = 1; RW_END("compression");
    }
    /* 5. supported_versions */
    idx = hello_find(H, X_SUPPORTED_VERSIONS);
    if (idx >= 0 && !h->is_sh)
    {
        uint16_t v[16];
        int n = xlist_get(H, idx, 1, v, 16);
        for (i = 0; i < n; i++)
        {
            RW_BEGIN("CH.supported_versions[%d] %04x deleted", i, v[i])
                uint16_t w2[16]; int m = 0;
                for (j = 0; j < n; j++) if (j != i) w2[m++] = v[j];
                xlist_set(h, idx, 1, w2, m);
            RW_END("supported-versions-entry-deleted");
            for (j = 0; j < 4; j++)
            {
                static const uint16_t lower[] = { 0x0303, 0x0302, 0x0301, 0x0300 };
                if (lower[j] >= v[i]) continue;
                RW_BEGIN("CH.supported_versions[%d] %04x->%04x", i, v[i], lower[j])
                    uint16_t w2[16]; memcpy(w2, v, sizeof(w2)); w2[i] = lower[j];
                    xlist_set(h, idx, 1, w2, n);
                RW_END("supported-versions-entry-downgraded");
            }
        }
        RW_BEGIN("CH.supported_versions %s", "extension removed") hello_del_ext(h, idx); RW_END("supported-versions-removed");
    }
    else if (idx >= 0)
    {
        const uint8_t *b = H->arena + H->ext[idx].off;
        int sel = H->ext[idx].len == 2 ? ((b[0] << 8) | b[1]) : -1;
        for (i = 0; i < 5; i++)
        {
            if (tls_vers[i] == sel) continue;
            RW_BEGIN("%s.supported_versions.selected %04x->%04x", who, sel, tls_vers[i])
                uint8_t nb[2] = { (uint8_t) (tls_vers[i] >> 8), (uint8_t) tls_vers[i] };
                int en = 0;
                hello_set_ext(h, idx, X_SUPPORTED_VERSIONS, nb, 2);
                for (j = 0; j < cx->nclient_enabled; j++) if (cx->client_enabled_enc[j] == tls_vers[i]) en = 1;
                if (!en) { info->expect = EXP_PEER_ABORTS_AT_HELLO; }
            RW_END("selected-version");
        }
        RW_BEGIN("%s.supported_versions %s", who, "extension removed") hello_del_ext(h, idx); RW_END("selected-version-ext-removed");
    }
    else if (h->is_sh && !cx->dtls)
    {
        for (i = 2; i < 5; i++)
        {
            RW_BEGIN("SH.supported_versions added, selected %04x", tls_vers[i])
                uint8_t nb[2] = { (uint8_t) (tls_vers[i] >> 8), (uint8_t) tls_vers[i] };
                hello_set_ext(h, -1, X_SUPPORTED_VERSIONS, nb, 2);
            RW_END("selected-version-ext-added");
        }
    }
    /* 6. supported_groups (ClientHello) */
    idx = hello_find(H, X_SUPPORTED_GROUPS);
    if (idx >= 0 && !h->is_sh)
    {
        uint16_t v[32];
        int n = xlist_get(H, idx, 2, v, 32);
        for (i = 0; i < n; i++)
        {
            RW_BEGIN("CH.supported_groups[%d] %04x deleted", i, v[i])
                uint16_t w2[32]; int m = 0;
                for (j = 0; j < n; j++) if (j != i) w2[m++] = v[j];
                xlist_set(h, idx, 2, w2, m);
            RW_END("group-deleted");
        }
        if (n > 0)
        {
            RW_BEGIN("CH.supported_groups[0] %04x->%04x", v[0], v[0] == 0x0017 ? 0x0018 : 0x0017)
                uint16_t w2[32]; memcpy(w2, v, sizeof(w2)); w2[0] = (uint16_t) (v[0] == 0x0017 ? 0x0018 : 0x0017);
                xlist_set(h, idx, 2, w2, n);
            RW_END("group-replaced");
        }
        RW_BEGIN("CH.supported_groups %s", "extension removed") hello_del_ext(h, idx); RW_END("groups-removed");
    }
    /* 7. key_share */
    idx = hello_find(H, X_KEY_SHARE);
    if (idx >= 0)
    {
        static const uint16_t grp[] = { 0x0017, 0x0018, 0x0019, 0x001d };
        if (!h->is_sh)
        {
            kshare_t ks[8];
            int n = kshare_get(H, idx, ks, 8);
            for (i = 0; i < n; i++)
            {
                for (j = 0; j < 4; j++)
                {
                    if (grp[j] == ks[i].group) continue;
                    RW_BEGIN("CH.key_share[%d].group %04x->%04x", i, ks[i].group, grp[j])
                        uint8_t nb[1024]; int l = H->ext[idx].len;
                        memcpy(nb, H->arena + H->ext[idx].off, (size_t) l);
                        nb[ks[i].koff - 4] = (uint8_t) (grp[j] >> 8); nb[ks[i].koff - 3] = (uint8_t) grp[j];
                        hello_set_ext(h, idx, X_KEY_SHARE, nb, l);
                    RW_END("key-share-group");
                }
                RW_BEGIN("CH.key_share[%d] (group %04x) deleted", i, ks[i].group)
                    uint8_t nb[1024]; int l = 2, m;
                    for (m = 0; m < n; m++)
                    {
                        if (m == i) continue;
                        memcpy(nb + l, H->arena + H->ext[idx].off + ks[m].koff - 4, (size_t) ks[m].klen + 4); l += ks[m].klen + 4;
                    }
                    nb[0] = (uint8_t) ((l - 2) >> 8); nb[1] = (uint8_t) (l - 2);
                    hello_set_ext(h, idx, X_KEY_SHARE, nb, l);
                RW_END("key-share-deleted");
            }
        }
        else if (H->ext[idx].len >= 2)
        {
            const uint8_t *b = H->arena + H->ext[idx].off;
            int g = (b[0] << 8) | b[1];
            for (j = 0; j < 4; j++)
            {
                if (grp[j] == g) continue;
                RW_BEGIN("%s.key_share.group %04x->%04x", who, g, grp[j])
                    uint8_t nb[1024]; int l = H->ext[idx].len;
                    memcpy(nb, b, (size_t) l); nb[0] = (uint8_t) (grp[j] >> 8); nb[1] = (uint8_t) grp[j];
                    hello_set_ext(h, idx, X_KEY_SHARE, nb, l);
                RW_END("key-share-group");
            }
        }
        RW_BEGIN("%s.key_share extension removed", who) hello_del_ext(h, idx); RW_END("key-share-removed");
    }
    /* 8. signature_algorithms (+ _cert) */
    for (j = 0; j < 2 && !h->is_sh; j++)
    {
        int xt = j ? X_SIGALGS_CERT : X_SIGALGS;
        idx = hello_find(H, xt);
        if (idx >= 0)
        {
            uint16_t v[64];
            int n = xlist_get(H, idx, 2, v, 64), m;
            for (i = 0; i < n; i++)
            {
                RW_BEGIN("CH.%s[%d] %04x deleted", j ? "signature_algorithms_cert" : "signature_algorithms", i, v[i])
                    uint16_t w2[64]; int q = 0;
                    for (m = 0; m < n; m++) if (m != i) w2[q++] = v[m];
                    xlist_set(h, idx, 2, w2, q);
                RW_END(j ? "sigalg-cert-deleted" : "sigalg-deleted");
            }
            RW_BEGIN("CH.%s extension removed", j ? "signature_algorithms_cert" : "signature_algorithms") hello_del_ext(h, idx); RW_END(j ? "sigalgs-cert-removed" : "sigalgs-removed");
        }
    }
    /* 9. flag-like extensions: removed when present, added when absent */
    {
        static const struct { int type; const char *nm; uint8_t body[2]; int blen; } fx[] = {
            { X_EMS, "extended_master_secret", { 0 }, 0 },
            { X_RENEG_INFO, "renegotiation_info", { 0 }, 1 },
            { X_TICKET, "session_ticket", { 0 }, 0 },
            { X_EC_POINT_FORMATS, "ec_point_formats", { 1, 0 }, 2 } };
        for (j = 0; j < 4; j++)
        {
            idx = hello_find(H, fx[j].type);
            if (idx >= 0)
            {
                RW_BEGIN("%s.%s extension removed", who, fx[j].nm)
                    hello_del_ext(h, idx);
                    if (fx[j].type == X_EMS && cx->ems_required_by_peer) info->expect = EXP_PEER_ABORTS_AT_HELLO;
                RW_END(fx[j].type == X_EMS ? "ems-removed" : fx[j].type == X_RENEG_INFO ? "reneg-info-removed" : fx[j].type == X_TICKET ? "ticket-ext-removed" : "point-formats-removed");
            }
            else
            {
                RW_BEGIN("%s.%s extension added", who, fx[j].nm)
                    hello_set_ext(h, -1, fx[j].type, fx[j].body, fx[j].blen);
                RW_END(fx[j].type == X_EMS ? "ems-added" : fx[j].type == X_RENEG_INFO ? "reneg-info-added" : fx[j].type == X_TICKET ? "ticket-ext-added" : "point-formats-added");
            }
        }
    }
    /* 10. PSK extensions */
    idx = hello_find(H, X_PSK_MODES);
    if (idx >= 0 && !h->is_sh)
    {
        const uint8_t *b = H->arena + H->ext[idx].off;
        int n = H->ext[idx].len >= 1 ? b[0] : 0;
        for (i = 0; i < n && i < 4; i++)
        {
            RW_BEGIN("CH.psk_key_exchange_modes[%d] %d->%d", i, b[1 + i], b[1 + i] ^ 1)
                uint8_t nb[8]; memcpy(nb, b, (size_t) n + 1); nb[1 + i] ^= 1;
                hello_set_ext(h, idx, X_PSK_MODES, nb, n + 1);
            RW_END("psk-mode-changed");
            RW_BEGIN("CH.psk_key_exchange_modes[%d] %d deleted", i, b[1 + i])
                uint8_t nb[8]; int m, q = 1;
                for (m = 0; m < n; m++) if (m != i) nb[q++] = b[1 + m];
                nb[0] = (uint8_t) (q - 1);
                hello_set_ext(h, idx, X_PSK_MODES, nb, q);
            RW_END("psk-mode-deleted");
        }
        RW_BEGIN("CH.psk_key_exchange_modes %s", "extension removed") hello_del_ext(h, idx); RW_END("psk-modes-removed");
    }
    idx = hello_find(H, X_PRE_SHARED_KEY);
    if (idx >= 0)
    {
        if (h->is_sh)
        {
            RW_BEGIN("%s.pre_shared_key.selected_identity 0->1", who)
                uint8_t nb[2] = { 0, 1 }; hello_set_ext(h, idx, X_PRE_SHARED_KEY, nb, 2);
            RW_END("psk-selected-identity");
        }
        else
        {
            RW_BEGIN("CH.pre_shared_key %s", "last binder byte ^=1")
                uint8_t nb[1024]; int l = H->ext[idx].len;
                memcpy(nb, H->arena + H->ext[idx].off, (size_t) l); nb[l - 1] ^= 1;
                hello_set_ext(h, idx, X_PRE_SHARED_KEY, nb, l);
            RW_END("psk-binder");
        }
        RW_BEGIN("%s.pre_shared_key extension removed", who) hello_del_ext(h, idx); RW_END("psk-ext-removed");
    }
#undef H
    return k;
}

#endif
