/* c13_univ.h - operand universes, pstm_int construction and result comparison for drv_c13 (private header) */
#ifndef C13_UNIV_H
#define C13_UNIV_H

#include "mxv.h"
#include "crypto/cryptoApi.h"
#include "crypto/math/pstm.h"
#include <openssl/bn.h>
#include <sys/mman.h>

typedef uint64_t dig_t;
#define ALLONES (~(dig_t) 0)
#define TOPBIT ((dig_t) 1 << 63)

typedef struct { BIGNUM *bn; dig_t *dg; int nd; char cls[20]; } uel_t;
typedef struct { int d, n; uel_t *e; } univ_t;

static BN_CTX *bnctx;
static long g_seed13;
static int g_verbose13;

static BIGNUM *bn_from_digits(const dig_t *dg, int nd)
{
    BIGNUM *b = BN_new();
    if (!b || !BN_lebin2bn((const unsigned char *) dg, nd * 8, b))
    {
        fprintf(stderr, "drv_c13: BN failure\n");
        abort();
    }
    return b;
}

static void uni_add(univ_t *u, const dig_t *dg, int d, const char *cls)
{
    int nd = d, i;
    while (nd > 0 && dg[nd - 1] == 0)
    {
        nd--;
    }
    for (i = 0; i < u->n; i++)
    {
        if (u->e[i].nd == nd && (nd == 0 || !memcmp(u->e[i].dg, dg, (size_t) nd * 8)))
        {
            return; /* same value already present */
        }
    }
    u->e = realloc(u->e, sizeof(uel_t) * (size_t) (u->n + 1));
    u->e[u->n].dg = malloc((size_t) (d + 1) * 8);
    memcpy(u->e[u->n].dg, dg, (size_t) d * 8);
    u->e[u->n].nd = nd;
    u->e[u->n].bn = bn_from_digits(dg, nd);
    snprintf(u->e[u->n].cls, sizeof(u->e[u->n].cls), "%s", cls);
    u->n++;
}

/* digit boundaries used for 2^k / zero-digit families: all of them up to 17 digits, a fixed structural subset above */
static int boundaries(int d, int *out)
{
    static const int fix[] = { 1, 2, 3, 7, 8, 9, 15, 16, 17, 31, 32, 33, 47, 48, 49, 63, 64, 65 };
    int n = 0, j, k;
    if (d <= 17)
    {
        for (j = 1; j < d; j++)
        {
            out[n++] = j;
        }
        return n;
    }
    for (j = 0; j < (int) (sizeof(fix) / sizeof(fix[0])); j++)
    {
        if (fix[j] < d)
        {
            out[n++] = fix[j];
        }
    }
    {
        int extra[4];
        extra[0] = d / 2; extra[1] = d - 3; extra[2] = d - 2; extra[3] = d - 1;
        for (j = 0; j < 4; j++)
        {
            int dup = 0;
            for (k = 0; k < n; k++)
            {
                dup |= out[k] == extra[j];
            }
            if (!dup && extra[j] >= 1 && extra[j] < d)
            {
                out[n++] = extra[j];
            }
        }
    }
    return n;
}

static uint64_t sm64(uint64_t *s)
{
    uint64_t z = (*s += 0x9E3779B97F4A7C15ULL);
    z = (z ^ (z >> 30)) * 0xBF58476D1CE4E5B9ULL;
    z = (z ^ (z >> 27)) * 0x94D049BB133111EBULL;
    return z ^ (z >> 31);
}

/* full = 1: the pair universe U(d); full = 0: the reduced universe R(d) used for triples */
static void build_universe(univ_t *u, int d, int full)
{
    dig_t *t = calloc((size_t) d + 2, 8);
    int bj[64], nb = boundaries(d, bj), i, j;
    uint64_t s;
    memset(u, 0, sizeof(*u));
    u->d = d;
#define Z() memset(t, 0, (size_t) (d + 1) * 8)
#define ONES() do { for (i = 0; i < d; i++) t[i] = ALLONES; t[d] = 0; } while (0)
    if (d == 1)
    {
        Z(); uni_add(u, t, d, "zero");
        t[0] = 1; uni_add(u, t, d, "one");
        t[0] = 2; uni_add(u, t, d, "two");
        t[0] = 3; uni_add(u, t, d, "three");
    }
    ONES(); uni_add(u, t, d, "allones");                      /* B^d - 1 */
    ONES(); t[0] = ALLONES - 1; uni_add(u, t, d, "allones-1"); /* B^d - 2 */
    Z(); t[d - 1] = 1; uni_add(u, t, d, "powtop");             /* B^(d-1) */
    Z(); t[d - 1] = 1; t[0] += 1; uni_add(u, t, d, "powtop+1");
    if (d > 1)
    {
        Z(); for (i = 0; i < d - 1; i++) t[i] = ALLONES; uni_add(u, t, d, "powtop-1");
    }
    Z(); t[d - 1] = TOPBIT; uni_add(u, t, d, "topbit");       /* 2^(64d-1) */
    Z(); t[d - 1] = TOPBIT; t[0] |= 1; uni_add(u, t, d, "topbit+1");
    Z(); for (i = 0; i < d; i++) t[i] = ALLONES; t[d - 1] = TOPBIT - 1; uni_add(u, t, d, "topbit-1");
    for (i = 0; i < d; i++) t[i] = 0xAAAAAAAAAAAAAAAAULL;
    uni_add(u, t, d, "altA");
    for (i = 0; i < d; i++) t[i] = 0x5555555555555555ULL;
    uni_add(u, t, d, "alt5");
    Z(); t[d - 1] = ALLONES; uni_add(u, t, d, "toponly");
    Z(); t[d - 1] = 1; t[0] = ALLONES; if (d == 1) t[0] = ALLONES - 2; uni_add(u, t, d, "top+bottom");
    ONES(); t[0] = 0; uni_add(u, t, d, "zerodigit");
    if (d > 2)
    {
        ONES(); t[d / 2] = 0; uni_add(u, t, d, "zerodigit");
    }
    /* two seed-dependent unstructured values (count fixed, bytes perturbed by the seed) */
    s = 0xC13ULL * 1000003ULL + (uint64_t) g_seed13 * 7919ULL + (uint64_t) d;
    for (i = 0; i < d; i++) t[i] = sm64(&s);
    t[d - 1] |= TOPBIT; uni_add(u, t, d, "seeded");
    for (i = 0; i < d; i++) t[i] = sm64(&s);
    t[d - 1] = (t[d - 1] >> 17) | 1; uni_add(u, t, d, "seeded");
    if (full)
    {
        for (j = 0; j < nb; j++)
        {
            int k = bj[j];
            Z(); t[k] = 1; uni_add(u, t, d, "pow2");                               /* 2^(64k) */
            Z(); t[k] = 1; t[0] = 1; uni_add(u, t, d, "pow2+1");
            Z(); for (i = 0; i < k; i++) t[i] = ALLONES; uni_add(u, t, d, "pow2-1");   /* 2^(64k) - 1 */
            Z(); t[k - 1] = TOPBIT; uni_add(u, t, d, "pow2");                        /* 2^(64k-1) */
            Z(); t[k - 1] = TOPBIT; t[0] |= 1; uni_add(u, t, d, "pow2+1");
            Z(); for (i = 0; i < k; i++) t[i] = ALLONES; t[k - 1] = TOPBIT - 1; uni_add(u, t, d, "pow2-1");
            ONES(); t[k] = 0; uni_add(u, t, d, "zerodigit");
            ONES(); t[k - 1] = 0; uni_add(u, t, d, "zerodigit");
        }
    }
#undef Z
#undef ONES
    free(t);
}

/* ------------------------------------------------------------- pstm_int helpers */
static void mk(pstm_int *x, const uel_t *e, int neg, int extra)
{
    int alloc = e->nd + extra;
    if (alloc < 1)
    {
        alloc = 1;
    }
    if (alloc > PSTM_MAX_SIZE)
    {
        alloc = PSTM_MAX_SIZE;
    }
    if (pstm_init_size(NULL, x, (psSize_t) alloc) != PSTM_OKAY)
    {
        fprintf(stderr, "drv_c13: pstm_init_size(%d) failed\n", alloc);
        abort();
    }
    if (e->nd)
    {
        memcpy(x->dp, e->dg, (size_t) e->nd * 8);
    }
    x->used = (uint16_t) e->nd;
    x->sign = (e->nd && neg) ? PSTM_NEG : PSTM_ZPOS;
}

/* an output operand that already holds an unrelated value of `used` digits (stale digits must not leak into the result) */
static void mk_junk(pstm_int *x, int alloc, int used, int neg)
{
    int i;
    if (alloc < 1)
    {
        alloc = 1;
    }
    if (alloc > PSTM_MAX_SIZE)
    {
        alloc = PSTM_MAX_SIZE;
    }
    if (used > alloc)
    {
        used = alloc;
    }
    if (pstm_init_size(NULL, x, (psSize_t) alloc) != PSTM_OKAY)
    {
        abort();
    }
    for (i = 0; i < used; i++)
    {
        x->dp[i] = 0xDEADBEEFCAFEF00DULL ^ ((dig_t) i * 0x0101010101010101ULL);
    }
    x->used = (uint16_t) used;
    x->sign = (used && neg) ? PSTM_NEG : PSTM_ZPOS;
}

static void bn_signed(BIGNUM *out, const uel_t *e, int neg)
{
    BN_copy(out, e->bn);
    BN_set_negative(out, neg && !BN_is_zero(out));
}

static void hex_bn(const char *label, const BIGNUM *b)
{
    char *h;
    if (!g_verbose13)
    {
        return;
    }
    h = BN_bn2hex(b);
    fprintf(stderr, "  %-9s = %s0x%s\n", label, "", h);
    OPENSSL_free(h);
}

static void hex_pstm(const char *label, const pstm_int *x)
{
    int i;
    if (!g_verbose13)
    {
        return;
    }
    fprintf(stderr, "  %-9s = %s0x", label, x->sign == PSTM_NEG ? "-" : "");
    if (x->used == 0)
    {
        fprintf(stderr, "0");
    }
    for (i = x->used - 1; i >= 0; i--)
    {
        fprintf(stderr, i == x->used - 1 ? "%llX" : "%016llX", (unsigned long long) x->dp[i]);
    }
    fprintf(stderr, "  (used=%d alloc=%d)\n", x->used, x->alloc);
}

/* 0 equal; 1 value/sign mismatch; 4 value equal but not clamped or a negative zero (later comparisons would be wrong);
 * 6 value equal and clamped but digits above 'used' hold stale data (counted, not a violation: no pstm function reads them) */
static int cmp_res(const pstm_int *got, const BIGNUM *exp, char *what, const char *human, const char *label)
{
    int nd = (BN_num_bits(exp) + 63) / 64, used = got->used, i, bad = 0;
    static dig_t buf[600];
    hex_bn("expected", exp);
    hex_pstm("got", got);
    while (used > 0 && got->dp[used - 1] == 0)
    {
        used--;
    }
    if (nd > 590)
    {
        abort();
    }
    if (nd)
    {
        BN_bn2lebinpad(exp, (unsigned char *) buf, nd * 8);
    }
    if (used != nd || (nd && memcmp(buf, got->dp, (size_t) nd * 8)))
    {
        bad = 1;
    }
    else if (nd && (BN_is_negative(exp) != (got->sign == PSTM_NEG)))
    {
        bad = 2;
    }
    if (bad)
    {
        char *h = BN_bn2hex(exp);
        char g[80] = "";
        int k = 0;
        for (i = used - 1; i >= 0 && i >= used - 2; i--)
        {
            k += snprintf(g + k, sizeof(g) - (size_t) k, "%016llX", (unsigned long long) got->dp[i]);
        }
        snprintf(what, 320, "%s: %s %s: expected %.40s%s (%d digits), got %s0x%s.. (%d digits)", human, label, bad == 2 ? "has the wrong sign" : "is wrong",
            h, strlen(h) > 40 ? ".." : "", nd, got->sign == PSTM_NEG ? "-" : "", g, used);
        OPENSSL_free(h);
        return 1;
    }
    if (got->used != used)
    {
        snprintf(what, 320, "%s: %s has the right value but is not clamped (used=%d, significant=%d)", human, label, got->used, used);
        return 4;
    }
    if (nd == 0 && got->sign == PSTM_NEG)
    {
        snprintf(what, 320, "%s: %s is a negative zero", human, label);
        return 4;
    }
    for (i = got->used; i < got->alloc; i++)
    {
        if (got->dp[i] != 0)
        {
            snprintf(what, 320, "%s: %s has the right value but digit %d above used=%d is non-zero (stale data)", human, label, i, got->used);
            return 6;
        }
    }
    return 0;
}

#endif
