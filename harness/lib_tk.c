/* lib_tk.c - attacker toolkit: an independent TLS 1.3 record layer and Finished computation built on
 * OpenSSL (HKDF-Expand-Label, AES-GCM / ChaCha20-Poly1305, HMAC), fed with the traffic secrets a peer
 * legitimately knows (key-log seam in env.c).  It models a malicious peer that did the key exchange itself
 * but lacks the certificate's private key: it can open the honest flight, delete / duplicate / reorder /
 * inject handshake messages, recompute Finished over the modified transcript and re-seal. */
#include "mxv.h"
#include "tk.h"
#include <openssl/evp.h>
#include <openssl/hmac.h>

static const EVP_MD *md_of(int hashlen) { return hashlen == 48 ? EVP_sha384() : EVP_sha256(); }

int tk_hkdf_expand_label(int hashlen, const unsigned char *secret, const char *label, const unsigned char *ctx, int ctxlen,
    unsigned char *out, int outlen)
{
    unsigned char info[300], t[64], in[400];
    int il = 0, ll = (int) strlen(label), done = 0, n = 1;
    unsigned int tl = 0;
    info[il++] = (unsigned char) (outlen >> 8);
    info[il++] = (unsigned char) outlen;
    info[il++] = (unsigned char) (6 + ll);
    memcpy(info + il, "tls13 ", 6); il += 6;
    memcpy(info + il, label, (size_t) ll); il += ll;
    info[il++] = (unsigned char) ctxlen;
    if (ctxlen)
    {
        memcpy(info + il, ctx, (size_t) ctxlen); il += ctxlen;
    }
    while (done < outlen)
    {
        int l = 0;
        if (tl)
        {
            memcpy(in, t, tl); l = (int) tl;
        }
        memcpy(in + l, info, (size_t) il); l += il;
        in[l++] = (unsigned char) n++;
        if (!HMAC(md_of(hashlen), secret, hashlen, in, (size_t) l, t, &tl))
        {
            return -1;
        }
        memcpy(out + done, t, (size_t) ((outlen - done) < (int) tl ? (outlen - done) : (int) tl));
        done += (int) tl;
    }
    return 0;
}

/* most recent key-log entry with this label; returns length or 0 */
int tk_keylog_find(const char *label, unsigned char *out)
{
    int i, best = -1;
    for (i = 0; i < ENV_KEYLOG_N; i++)
    {
        if (env_keylog[i].outlen > 0 && !strcmp(env_keylog[i].label, label) && (best < 0 || env_keylog[i].seq > env_keylog[best].seq))
        {
            best = i;
        }
    }
    if (best < 0)
    {
        return 0;
    }
    memcpy(out, env_keylog[best].out, (size_t) env_keylog[best].outlen);
    return env_keylog[best].outlen;
}

int tk13_keys_from_secret(tk13_keys_t *k, uint16_t suite, const unsigned char *secret, int hashlen)
{
    memset(k, 0, sizeof(*k));
    k->suite = suite;
    k->hashlen = hashlen;
    k->keylen = (suite == TLS_AES_128_GCM_SHA256) ? 16 : 32;
    memcpy(k->secret, secret, (size_t) hashlen);
    if (tk_hkdf_expand_label(hashlen, secret, "key", NULL, 0, k->key, k->keylen) < 0 ||
        tk_hkdf_expand_label(hashlen, secret, "iv", NULL, 0, k->iv, 12) < 0)
    {
        return -1;
    }
    k->seq = 0;
    return 0;
}

static const EVP_CIPHER *cipher_of(const tk13_keys_t *k)
{
    if (k->suite == TLS_CHACHA20_POLY1305_SHA256) return EVP_chacha20_poly1305();
    return k->keylen == 16 ? EVP_aes_128_gcm() : EVP_aes_256_gcm();
}

static void nonce_of(const tk13_keys_t *k, unsigned char n[12])
{
    int i;
    memcpy(n, k->iv, 12);
    for (i = 0; i < 8; i++)
    {
        n[11 - i] ^= (unsigned char) (k->seq >> (8 * i));
    }
}

/* open one TLSCiphertext record (5-byte header + body); returns plaintext length (without inner type), sets *itype */
int tk13_open(tk13_keys_t *k, const unsigned char *rec, int reclen, unsigned char *pt, int *itype)
{
    EVP_CIPHER_CTX *c = EVP_CIPHER_CTX_new();
    unsigned char n[12];
    int bl = reclen - 5, ol = 0, fl = 0, ok;
    if (bl < 17)
    {
        EVP_CIPHER_CTX_free(c);
        return -1;
    }
    nonce_of(k, n);
    ok = EVP_DecryptInit_ex(c, cipher_of(k), NULL, NULL, NULL) &&
         EVP_CIPHER_CTX_ctrl(c, EVP_CTRL_AEAD_SET_IVLEN, 12, NULL) &&
         EVP_DecryptInit_ex(c, NULL, NULL, k->key, n) &&
         EVP_DecryptUpdate(c, NULL, &ol, rec, 5) &&
         EVP_DecryptUpdate(c, pt, &ol, rec + 5, bl - 16) &&
         EVP_CIPHER_CTX_ctrl(c, EVP_CTRL_AEAD_SET_TAG, 16, (void *) (rec + 5 + bl - 16)) &&
         EVP_DecryptFinal_ex(c, pt + ol, &fl) > 0;
    EVP_CIPHER_CTX_free(c);
    if (!ok)
    {
        return -1;
    }
    k->seq++;
    ol += fl;
    while (ol > 0 && pt[ol - 1] == 0)
    {
        ol--;
    }
    if (ol == 0)
    {
        return -1;
    }
    *itype = pt[ol - 1];
    return ol - 1;
}

/* seal plaintext with inner type into a record; returns record length */
int tk13_seal(tk13_keys_t *k, int itype, const unsigned char *pt, int ptlen, unsigned char *rec)
{
    EVP_CIPHER_CTX *c = EVP_CIPHER_CTX_new();
    unsigned char n[12], t = (unsigned char) itype;
    int bl = ptlen + 1 + 16, ol = 0, ol2 = 0, fl = 0, ok;
    rec[0] = 23; rec[1] = 3; rec[2] = 3; rec[3] = (unsigned char) (bl >> 8); rec[4] = (unsigned char) bl;
    nonce_of(k, n);
    ok = EVP_EncryptInit_ex(c, cipher_of(k), NULL, NULL, NULL) &&
         EVP_CIPHER_CTX_ctrl(c, EVP_CTRL_AEAD_SET_IVLEN, 12, NULL) &&
         EVP_EncryptInit_ex(c, NULL, NULL, k->key, n) &&
         EVP_EncryptUpdate(c, NULL, &ol, rec, 5) &&
         EVP_EncryptUpdate(c, rec + 5, &ol, pt, ptlen) &&
         EVP_EncryptUpdate(c, rec + 5 + ol, &ol2, &t, 1) &&
         EVP_EncryptFinal_ex(c, rec + 5 + ol + ol2, &fl) &&
         EVP_CIPHER_CTX_ctrl(c, EVP_CTRL_AEAD_GET_TAG, 16, rec + 5 + ptlen + 1);
    EVP_CIPHER_CTX_free(c);
    if (!ok)
    {
        return -1;
    }
    k->seq++;
    return 5 + bl;
}

/* seals innerlen bytes exactly as given: no content type is appended, so an empty or all-padding TLSInnerPlaintext can be made */
int tk13_seal_raw(tk13_keys_t *k, const unsigned char *inner, int innerlen, unsigned char *rec)
{
    EVP_CIPHER_CTX *c = EVP_CIPHER_CTX_new();
    unsigned char n[12], dummy = 0;
    int bl = innerlen + 16, ol = 0, fl = 0, ok;
    rec[0] = 23; rec[1] = 3; rec[2] = 3; rec[3] = (unsigned char) (bl >> 8); rec[4] = (unsigned char) bl;
    nonce_of(k, n);
    ok = EVP_EncryptInit_ex(c, cipher_of(k), NULL, NULL, NULL) &&
         EVP_CIPHER_CTX_ctrl(c, EVP_CTRL_AEAD_SET_IVLEN, 12, NULL) &&
         EVP_EncryptInit_ex(c, NULL, NULL, k->key, n) &&
         EVP_EncryptUpdate(c, NULL, &ol, rec, 5) &&
         EVP_EncryptUpdate(c, rec + 5, &ol, innerlen ? inner : &dummy, innerlen) &&
         EVP_EncryptFinal_ex(c, rec + 5 + ol, &fl) &&
         EVP_CIPHER_CTX_ctrl(c, EVP_CTRL_AEAD_GET_TAG, 16, rec + 5 + innerlen);
    EVP_CIPHER_CTX_free(c);
    if (!ok)
    {
        return -1;
    }
    k->seq++;
    return 5 + bl;
}

/* verify_data = HMAC(finished_key, transcript_hash), finished_key = HKDF-Expand-Label(secret, "finished", "", Hash.length) */
int tk13_finished(const tk13_keys_t *k, const unsigned char *thash, unsigned char *vd)
{
    unsigned char fk[64];
    unsigned int l = 0;
    if (tk_hkdf_expand_label(k->hashlen, k->secret, "finished", NULL, 0, fk, k->hashlen) < 0)
    {
        return -1;
    }
    if (!HMAC(md_of(k->hashlen), fk, k->hashlen, thash, (size_t) k->hashlen, vd, &l))
    {
        return -1;
    }
    return (int) l;
}

/* transcript = running buffer of handshake messages; hash on demand */
void tk_transcript_hash(int hashlen, const buf_t *msgs, unsigned char *out)
{
    unsigned int l = 0;
    EVP_Digest(msgs->p ? msgs->p : (const unsigned char *) "", msgs->len, out, &l, md_of(hashlen), NULL);
}

/* split a buffer of concatenated handshake messages */
int tk_split_msgs(const unsigned char *p, int len, tk_msg_t *out, int max)
{
    int n = 0, off = 0;
    while (off + 4 <= len && n < max)
    {
        int l = (p[off + 1] << 16) | (p[off + 2] << 8) | p[off + 3];
        if (off + 4 + l > len)
        {
            return -1;
        }
        out[n].type = p[off];
        out[n].p = p + off;
        out[n].len = 4 + l;
        n++;
        off += 4 + l;
    }
    return off == len ? n : -1;
}

/* ------------------------------------------------------------------ TLS 1.2 */
void tk12_prf_sha256(const unsigned char *secret, int slen, const char *label, const unsigned char *seed, int seedlen, unsigned char *out, int outlen)
{
    unsigned char ls[256], a[32], buf[32 + 256], t[32];
    int ll = (int) strlen(label), l = ll + seedlen, done = 0;
    unsigned int n = 0;
    memcpy(ls, label, (size_t) ll);
    memcpy(ls + ll, seed, (size_t) seedlen);
    HMAC(EVP_sha256(), secret, slen, ls, (size_t) l, a, &n);          /* A(1) */
    while (done < outlen)
    {
        memcpy(buf, a, 32);
        memcpy(buf + 32, ls, (size_t) l);
        HMAC(EVP_sha256(), secret, slen, buf, (size_t) (32 + l), t, &n);
        memcpy(out + done, t, (size_t) ((outlen - done) < 32 ? (outlen - done) : 32));
        done += 32;
        HMAC(EVP_sha256(), secret, slen, a, 32, a, &n);               /* A(i+1) */
    }
}

void tk12_finished(const unsigned char ms[48], int is_client, const buf_t *msgs, unsigned char vd[12])
{
    unsigned char h[32];
    unsigned int l = 0;
    EVP_Digest(msgs->p ? msgs->p : (const unsigned char *) "", msgs->len, h, &l, EVP_sha256(), NULL);
    tk12_prf_sha256(ms, 48, is_client ? "client finished" : "server finished", h, 32, vd, 12);
}

/* GenericAEADCipher (RFC 5288): record = header || explicit_nonce(8) || ciphertext || tag(16) */
int tk12_gcm_seal(const unsigned char *key, int keylen, const unsigned char salt[4], uint64_t seq, int type, const unsigned char *pt, int ptlen, unsigned char *rec)
{
    EVP_CIPHER_CTX *c = EVP_CIPHER_CTX_new();
    unsigned char nonce[12], aad[13];
    int i, ol = 0, fl = 0, bl = 8 + ptlen + 16, ok;
    memcpy(nonce, salt, 4);
    for (i = 0; i < 8; i++)
    {
        nonce[4 + i] = (unsigned char) (seq >> (8 * (7 - i)));
        aad[i] = nonce[4 + i];
    }
    aad[8] = (unsigned char) type; aad[9] = 3; aad[10] = 3; aad[11] = (unsigned char) (ptlen >> 8); aad[12] = (unsigned char) ptlen;
    rec[0] = (unsigned char) type; rec[1] = 3; rec[2] = 3; rec[3] = (unsigned char) (bl >> 8); rec[4] = (unsigned char) bl;
    memcpy(rec + 5, nonce + 4, 8);
    ok = EVP_EncryptInit_ex(c, keylen == 16 ? EVP_aes_128_gcm() : EVP_aes_256_gcm(), NULL, NULL, NULL) &&
         EVP_CIPHER_CTX_ctrl(c, EVP_CTRL_AEAD_SET_IVLEN, 12, NULL) &&
         EVP_EncryptInit_ex(c, NULL, NULL, key, nonce) &&
         EVP_EncryptUpdate(c, NULL, &ol, aad, 13) &&
         EVP_EncryptUpdate(c, rec + 13, &ol, pt, ptlen) &&
         EVP_EncryptFinal_ex(c, rec + 13 + ol, &fl) &&
         EVP_CIPHER_CTX_ctrl(c, EVP_CTRL_AEAD_GET_TAG, 16, rec + 13 + ptlen);
    EVP_CIPHER_CTX_free(c);
    return ok ? 5 + bl : -1;
}

/* general (D)TLS <= 1.2 record sealing for a peer that holds the keys: hdr = the complete record header as it shall appear on
 * the wire (5 bytes TLS, 13 bytes DTLS, length field is filled in here); seq8 = the 8 bytes bound into MAC / AAD (TLS: implicit
 * sequence number; DTLS: epoch || sequence of the header). */
int tk12_gcm_seal_ex(const unsigned char *key, int keylen, const unsigned char salt[4], const unsigned char seq8[8], const unsigned char *hdr, int hdrlen,
    const unsigned char *pt, int ptlen, unsigned char *rec)
{
    EVP_CIPHER_CTX *c = EVP_CIPHER_CTX_new();
    unsigned char nonce[12], aad[13];
    int ol = 0, fl = 0, bl = 8 + ptlen + 16, ok;
    memcpy(nonce, salt, 4);
    memcpy(nonce + 4, seq8, 8);
    memcpy(aad, seq8, 8);
    aad[8] = hdr[0]; aad[9] = hdr[1]; aad[10] = hdr[2]; aad[11] = (unsigned char) (ptlen >> 8); aad[12] = (unsigned char) ptlen;
    memcpy(rec, hdr, (size_t) hdrlen);
    rec[hdrlen - 2] = (unsigned char) (bl >> 8); rec[hdrlen - 1] = (unsigned char) bl;
    memcpy(rec + hdrlen, nonce + 4, 8);
    ok = EVP_EncryptInit_ex(c, keylen == 16 ? EVP_aes_128_gcm() : EVP_aes_256_gcm(), NULL, NULL, NULL) &&
         EVP_CIPHER_CTX_ctrl(c, EVP_CTRL_AEAD_SET_IVLEN, 12, NULL) &&
         EVP_EncryptInit_ex(c, NULL, NULL, key, nonce) &&
         EVP_EncryptUpdate(c, NULL, &ol, aad, 13) &&
         (ptlen == 0 || EVP_EncryptUpdate(c, rec + hdrlen + 8, &ol, pt, ptlen)) &&
         EVP_EncryptFinal_ex(c, rec + hdrlen + 8 + ptlen, &fl) &&
         EVP_CIPHER_CTX_ctrl(c, EVP_CTRL_AEAD_GET_TAG, 16, rec + hdrlen + 8 + ptlen);
    EVP_CIPHER_CTX_free(c);
    return ok ? hdrlen + bl : -1;
}

/* GenericBlockCipher, MAC-then-encrypt, explicit IV (TLS 1.1+ / DTLS): AES-CBC with HMAC-SHA1 (maclen 20) or HMAC-SHA256 (32).
 * padmode 0 = correct padding; 1 = one padding byte wrong (the MAC is right); 2 = a full extra block of padding (legal) */
int tk12_cbc_seal_ex(const unsigned char *key, int keylen, const unsigned char *mackey, int maclen, const unsigned char seq8[8], const unsigned char *hdr, int hdrlen,
    const unsigned char *pt, int ptlen, int padmode, unsigned char *rec)
{
    static unsigned char body[20000];
    unsigned char mh[13], mac[64], iv[16];
    unsigned int ml = 0;
    int n, pad, i, ol = 0, fl = 0, ok;
    HMAC_CTX *h = HMAC_CTX_new();
    EVP_CIPHER_CTX *c = EVP_CIPHER_CTX_new();
    if (ptlen + 64 + 16 + 256 > (int) sizeof(body))
    {
        return -1;
    }
    memcpy(mh, seq8, 8);
    mh[8] = hdr[0]; mh[9] = hdr[1]; mh[10] = hdr[2]; mh[11] = (unsigned char) (ptlen >> 8); mh[12] = (unsigned char) ptlen;
    HMAC_Init_ex(h, mackey, maclen, maclen == 20 ? EVP_sha1() : maclen == 32 ? EVP_sha256() : EVP_sha384(), NULL);
    HMAC_Update(h, mh, 13);
    HMAC_Update(h, pt, (size_t) ptlen);
    HMAC_Final(h, mac, &ml);
    HMAC_CTX_free(h);
    memcpy(body, pt, (size_t) ptlen);
    memcpy(body + ptlen, mac, (size_t) maclen);
    n = ptlen + maclen;
    pad = 16 - ((n + 1) % 16);
    if (pad == 16) pad = 0;
    if (padmode == 2) pad += 16;
    for (i = 0; i <= pad; i++) body[n + i] = (unsigned char) pad;
    if (padmode == 1 && pad > 0) body[n] ^= 0x01;
    n += pad + 1;
    for (i = 0; i < 16; i++) iv[i] = (unsigned char) (0xa0 + i + seq8[7]);
    memcpy(rec, hdr, (size_t) hdrlen);
    rec[hdrlen - 2] = (unsigned char) ((16 + n) >> 8); rec[hdrlen - 1] = (unsigned char) (16 + n);
    memcpy(rec + hdrlen, iv, 16);
    ok = EVP_EncryptInit_ex(c, keylen == 16 ? EVP_aes_128_cbc() : EVP_aes_256_cbc(), NULL, key, iv) &&
         EVP_CIPHER_CTX_set_padding(c, 0) &&
         EVP_EncryptUpdate(c, rec + hdrlen + 16, &ol, body, n) &&
         EVP_EncryptFinal_ex(c, rec + hdrlen + 16 + ol, &fl);
    EVP_CIPHER_CTX_free(c);
    return ok ? hdrlen + 16 + n : -1;
}

/* raw CBC record: the given plaintext blocks (any content - no MAC, any "padding") encrypted under the key with an explicit IV */
int tk12_cbc_raw_seal(const unsigned char *key, int keylen, const unsigned char *hdr, int hdrlen, const unsigned char *pt, int ptlen, unsigned char *rec)
{
    EVP_CIPHER_CTX *c = EVP_CIPHER_CTX_new();
    unsigned char iv[16];
    int i, ol = 0, fl = 0, ok;
    if (ptlen % 16)
    {
        EVP_CIPHER_CTX_free(c);
        return -1;
    }
    for (i = 0; i < 16; i++) iv[i] = (unsigned char) (0x3c + i);
    memcpy(rec, hdr, (size_t) hdrlen);
    rec[hdrlen - 2] = (unsigned char) ((16 + ptlen) >> 8); rec[hdrlen - 1] = (unsigned char) (16 + ptlen);
    memcpy(rec + hdrlen, iv, 16);
    ok = EVP_EncryptInit_ex(c, keylen == 16 ? EVP_aes_128_cbc() : EVP_aes_256_cbc(), NULL, key, iv) &&
         EVP_CIPHER_CTX_set_padding(c, 0) &&
         (ptlen == 0 || EVP_EncryptUpdate(c, rec + hdrlen + 16, &ol, pt, ptlen)) &&
         EVP_EncryptFinal_ex(c, rec + hdrlen + 16 + ol, &fl);
    EVP_CIPHER_CTX_free(c);
    return ok ? hdrlen + 16 + ptlen : -1;
}
