/* drv_c19 - C19: allocation failure yields a clean error, never a crash or a skipped check.
 *
 * For each scenario a counting run determines the number N of library allocations
 * (malloc/calloc/realloc through the link-time allocator seam); then, for EVERY k <= N, the
 * scenario is run with the k-th allocation failing: the run forks at allocation k, the child
 * fails it and carries on to the end of the scenario (teardown included), the parent lets it
 * succeed and continues to k+1.  Thorough adds every pair (k, k+d), d <= 4, and "fail every
 * allocation from k on".  Built with ASan+UBSan: memory errors, double frees and undefined
 * behaviour abort the child. */
#include "mxv.h"
#include "wire.h"
#include "san.h"
#include <unistd.h>
#include <errno.h>
#include <signal.h>
#include <fcntl.h>
#include <sys/wait.h>

#include "testkeys/RSA/2048_RSA.h"
#include "testkeys/RSA/2048_RSA_KEY.h"
#include "testkeys/RSA/2048_RSA_CA.h"
#include "testkeys/EC/256_EC.h"
#include "testkeys/EC/256_EC_KEY.h"
#include "testkeys/EC/256_EC_CA.h"
#include "c09_seeds.h"

static int thorough;

typedef struct { const char *name; int kind; wcfg_t cfg; int resumed; int expect_complete; } scen_t;
enum { K_LOADKEYS_RSA = 0, K_LOADKEYS_EC, K_SESSION, K_LOADKEYS_PEMCAS, K_PARSE_OBJECTS, K_LOADKEYS_PSK13 };
static scen_t scens[32];
static int nscen;

static void add_scen(const char *name, int kind, int ver, int kx, uint16_t suite, int cauth, int bad, int tickets, int resumed, int expect_complete, int in_quick)
{
    scen_t *s;
    if (!in_quick && !thorough)
    {
        return;
    }
    s = &scens[nscen++];
    memset(s, 0, sizeof(*s));
    s->name = name; s->kind = kind; s->resumed = resumed; s->expect_complete = expect_complete;
    s->cfg.ver = ver; s->cfg.kx = kx; s->cfg.suite = suite; s->cfg.client_auth = cauth; s->cfg.bad_server_cert = bad == 1; s->cfg.bad_server_sig = bad == 2; s->cfg.tickets = tickets;
}

/* -------------------------------------------------------------- fault plan */
static long fork_lo, fork_hi;      /* fork at allocations k in [fork_lo, fork_hi) */
static int  in_child;
static long fail_k, fail_k2, fail_from;
static int  child_wfd = -1;
static int  cur_scen;
static int  mode;                  /* 0 single, 1 pair (second = k + d), 2 fail-from */
static int  pair_d;
static char errpath[256];

typedef struct { int complete[2]; int any_api_error; long live_after; int crashed; int anchors, certs, unparsed; } sres_t;

static void record_child(pid_t pid, int rfd, long k);

static int alloc_hook(long k)
{
    if (in_child)
    {
        if (k == fail_k || (fail_k2 && k == fail_k2) || (fail_from && k >= fail_from))
        {
            return 1;
        }
        return 0;
    }
    if (k >= fork_lo && k < fork_hi && !mx_deadline_hit())
    {
        int pfd[2];
        pid_t pid;
        if (pipe(pfd) < 0)
        {
            return 0;
        }
        fflush(NULL);
        pid = fork();
        if (pid == 0)
        {
            int fd;
            close(pfd[0]);
            child_wfd = pfd[1];
            in_child = 1;
            fail_k = mode == 2 ? 0 : k;
            fail_k2 = mode == 1 ? k + pair_d : 0;
            fail_from = mode == 2 ? k : 0;
            fd = open(errpath, O_WRONLY | O_CREAT | O_TRUNC, 0644);
            if (fd >= 0)
            {
                dup2(fd, 2);
                close(fd);
            }
            alarm(60);
            env_failed++;
            return 1; /* fail this allocation, continue the scenario in the child */
        }
        close(pfd[1]);
        record_child(pid, pfd[0], k);
    }
    return 0;
}

/* a PEM bundle of three trust anchors, built from the DER arrays of testkeys (static storage: no allocation) */
static char pem_cas[12000];
static int pem_cas_len;
static void pem_add(const unsigned char *der, size_t n)
{
    static const char b64[] = "ABCDEFGHIJKLMNOPQRSTUVWXYZabcdefghijklmnopqrstuvwxyz0123456789+/";
    size_t i;
    int col = 0, o = pem_cas_len;
    o += sprintf(pem_cas + o, "-----BEGIN CERTIFICATE-----\n");
    for (i = 0; i < n; i += 3)
    {
        unsigned v = (unsigned) der[i] << 16 | (i + 1 < n ? (unsigned) der[i + 1] << 8 : 0) | (i + 2 < n ? der[i + 2] : 0);
        pem_cas[o++] = b64[(v >> 18) & 63];
        pem_cas[o++] = b64[(v >> 12) & 63];
        pem_cas[o++] = i + 1 < n ? b64[(v >> 6) & 63] : '=';
        pem_cas[o++] = i + 2 < n ? b64[v & 63] : '=';
        col += 4;
        if (col >= 64)
        {
            pem_cas[o++] = '\n';
            col = 0;
        }
    }
    if (col)
    {
        pem_cas[o++] = '\n';
    }
    o += sprintf(pem_cas + o, "-----END CERTIFICATE-----\n");
    pem_cas_len = o;
}

/* --------------------------------------------------------------- scenarios */
static void run_scenario(int si, sres_t *out)
{
    const scen_t *S = &scens[si];
    memset(out, 0, sizeof(*out));
    env_live_reset();
    if (S->kind == K_LOADKEYS_PSK13)
    {
        /* a key set that receives two TLS 1.3 PSKs carrying session parameters (server name, ALPN protocol) */
        sslKeys_t *k = NULL;
        int rc;
        static const unsigned char key[32] = { 1, 2, 3, 4, 5, 6, 7, 8, 9, 10, 11, 12, 13, 14, 15, 16, 17, 18, 19, 20, 21, 22, 23, 24, 25, 26, 27, 28, 29, 30, 31, 32 };
        static const unsigned char id1[6] = "psk-01", id2[6] = "psk-02";
        psTls13SessionParams_t prm;
        world_open();
        env_track(1);
        rc = matrixSslNewKeys(&k, NULL);
        if (rc >= 0 && k)
        {
            memset(&prm, 0, sizeof(prm));
            prm.sni = (unsigned char *) "localhost"; prm.sniLen = 9;
            prm.alpn = (unsigned char *) "http/1.1"; prm.alpnLen = 8;
            prm.majVer = 3; prm.minVer = 4; prm.cipherId = TLS_AES_128_GCM_SHA256;
            rc = matrixSslLoadTls13Psk(k, key, 32, id1, 6, &prm);
            if (rc >= 0)
            {
                out->certs++;
                rc = matrixSslLoadTls13Psk(k, key, 32, id2, 6, &prm);
            }
            if (rc < 0) out->any_api_error = 1;
            else out->certs++;
            matrixSslDeleteKeys(k);
        }
        else
        {
            out->any_api_error = 1;
        }
        env_track(0);
        out->live_after = env_live();
        return;
    }
    if (S->kind == K_PARSE_OBJECTS)
    {
        /* the credential parsers on objects the handshake scenarios do not carry: an extension-rich certificate (multi-valued
           RDNs, domainComponent, policies, name constraints, AIA, CRL distribution points), a CRL with entries and
           extensions, PKCS#8 keys plain and encrypted */
        psX509Cert_t *cert = NULL;
        psPubKey_t key;
        int rc;
        world_open();
        env_track(1);
        rc = psX509ParseCert(NULL, c09s_rich_ec256_der, sizeof(c09s_rich_ec256_der), &cert, 0);
        if (rc < 0) out->any_api_error = 1;
        else { out->certs++; if (cert && cert->parseStatus != PS_X509_PARSE_SUCCESS) out->unparsed++; }
        psX509FreeCert(cert);
#ifdef USE_CRL
        {
            psX509Crl_t *crl = NULL;
            rc = psX509ParseCRL(NULL, &crl, (unsigned char *) c09s_crl_rsa2048_der, sizeof(c09s_crl_rsa2048_der));
            if (rc < 0) out->any_api_error = 1;
            else out->anchors++;
            if (crl) psX509FreeCRL(crl);
        }
#endif
#ifdef USE_PKCS8
        memset(&key, 0, sizeof(key));
        rc = psPkcs8ParsePrivBin(NULL, c09s_p8_rsa1024_der, sizeof(c09s_p8_rsa1024_der), NULL, &key);
        if (rc < 0) out->any_api_error = 1;
        psClearPubKey(&key);
        memset(&key, 0, sizeof(key));
        rc = psPkcs8ParsePrivBin(NULL, c09s_p8e_ec256_der, sizeof(c09s_p8e_ec256_der), (char *) C09_PASSWORD, &key);
        if (rc < 0) out->any_api_error = 1;
        psClearPubKey(&key);
#endif
        env_track(0);
        out->live_after = env_live();
        return;
    }
    if (S->kind == K_LOADKEYS_RSA || S->kind == K_LOADKEYS_EC || S->kind == K_LOADKEYS_PEMCAS)
    {
        sslKeys_t *k = NULL;
        int rc;
        if (S->kind == K_LOADKEYS_PEMCAS && pem_cas_len == 0)
        {
            pem_add(RSA2048CA, sizeof(RSA2048CA));
            pem_add(EC256CA, sizeof(EC256CA));
            pem_add(RSA2048CA, sizeof(RSA2048CA));
        }
        world_open();
        env_track(1);
        rc = matrixSslNewKeys(&k, NULL);
        if (rc >= 0 && k)
        {
            if (S->kind == K_LOADKEYS_PEMCAS)
            {
                rc = matrixSslLoadKeysMem(k, NULL, 0, NULL, 0, (const unsigned char *) pem_cas, pem_cas_len, NULL);
            }
            else if (S->kind == K_LOADKEYS_RSA)
            {
                rc = matrixSslLoadRsaKeysMem(k, RSA2048, sizeof(RSA2048), RSA2048KEY, sizeof(RSA2048KEY), RSA2048CA, sizeof(RSA2048CA));
            }
            else
            {
                rc = matrixSslLoadEcKeysMem(k, EC256, sizeof(EC256), EC256KEY, sizeof(EC256KEY), EC256CA, sizeof(EC256CA));
            }
            if (rc < 0)
            {
                out->any_api_error = 1;
            }
            else
            {
                /* what a load that reported success left in the key set: trust anchors, identity certificates, and how many
                   of them the parser did not finish */
                psX509Cert_t *x;
                for (x = k->CAcerts; x; x = x->next)
                {
                    out->anchors++;
                    if (x->parseStatus != PS_X509_PARSE_SUCCESS) out->unparsed++;
                }
                for (x = k->identity ? k->identity->cert : NULL; x; x = x->next)
                {
                    out->certs++;
                    if (x->parseStatus != PS_X509_PARSE_SUCCESS) out->unparsed++;
                }
            }
            matrixSslDeleteKeys(k);
        }
        else
        {
            out->any_api_error = 1;
        }
        env_track(0);
        out->live_after = env_live();
        return;
    }
    {
        static world_t w;
        int rc;
        world_open();
        if (S->resumed)
        {
            /* the session to be resumed is established fault-free, before tracking starts */
            if (world_init(&w, &S->cfg) < 0 || world_handshake(&w) != 0)
            {
                out->any_api_error = 2;
                return;
            }
            world_pump(&w, 50);
            world_free_sessions(&w);
            if (S->resumed == 2)
            {
                /* rotate the server's ticket key: the ticket the client holds is refused, a full handshake follows and the
                   NewSessionTicket REPLACES the one stored in the client's session id object */
                static const unsigned char name2[16] = "mxv-ticket-key-2", old[16] = "mxv-ticket-key-1";
                static const unsigned char sk2[32] = { 9, 9, 9, 4, 5, 6, 7, 8, 9, 10, 11, 12, 13, 14, 15, 16, 17, 18, 19, 20, 21, 22, 23, 24, 25, 26, 27, 28, 29, 30, 31, 32 };
                static const unsigned char hk2[32] = { 7, 7, 7, 29, 28, 27, 26, 25, 24, 23, 22, 21, 20, 19, 18, 17, 16, 15, 14, 13, 12, 11, 10, 9, 8, 7, 6, 5, 4, 3, 2, 1 };
                if (matrixSslLoadSessionTicketKeys(w.s[1].keys, name2, sk2, 32, hk2, 32) < 0 ||
                    matrixSslDeleteSessionTicketKey(w.s[1].keys, (unsigned char *) old) < 0)
                {
                    out->any_api_error = 2;
                    return;
                }
            }
            env_live_reset();
            env_track(1);
            rc = world_new_sessions(&w);
        }
        else
        {
            env_track(1);
            rc = world_init(&w, &S->cfg);
        }
        if (rc < 0)
        {
            out->any_api_error = 1;
        }
        else
        {
            world_pump(&w, 200);
            out->complete[0] = world_is_complete(&w, 0);
            out->complete[1] = world_is_complete(&w, 1);
            if (out->complete[0] && out->complete[1])
            {
                static unsigned char big[5000];
                memset(big, 0x61, sizeof(big));
                if (world_app_send(&w, 0, big, ver_is_dtls(S->cfg.ver) ? 900 : (int) sizeof(big)) <= 0) out->any_api_error = 1;
                world_pump(&w, 50);
                if (world_app_send(&w, 1, (const unsigned char *) "reply", 5) <= 0) out->any_api_error = 1;
                world_pump(&w, 50);
                world_close(&w, 0);
                world_pump(&w, 50);
            }
            if (w.s[0].err_rc < 0 || w.s[1].err_rc < 0)
            {
                out->any_api_error = 1;
            }
        }
        if (S->resumed)
        {
            /* keys and the client's session id were allocated before tracking: free only what the tracked phase made */
            world_free_sessions(&w);
            env_track(0);
            out->live_after = env_live();
            /* the client's sid may legitimately have been refreshed (ticket / new id) inside the tracked phase */
            if (w.sid)
            {
                env_track(1);
                matrixSslDeleteSessionId(w.sid);
                w.sid = NULL;
                env_track(0);
                out->live_after = env_live();
            }
            return;
        }
        world_free(&w);
        env_track(0);
        out->live_after = env_live();
    }
}

/* ------------------------------------------------------------------ oracle */
static sres_t baseline[32];
static long   nalloc[32];

static const char *addr_func(void *addr, char *buf, size_t n)
{
    /* resolve the allocation site to a function name with addr2line (PIE: subtract the load base) */
    unsigned long base = 0; /* drivers are linked -no-pie: addresses are absolute */
    char cmd[400], exe[256];
    FILE *p;
    ssize_t l;
    l = readlink("/proc/self/exe", exe, sizeof(exe) - 1);
    if (l <= 0)
    {
        snprintf(buf, n, "?");
        return buf;
    }
    exe[l] = 0;
    snprintf(cmd, sizeof(cmd), "addr2line -f -i -e %s 0x%lx 2>/dev/null", exe, (unsigned long) addr - base - 1);
    p = popen(cmd, "r");
    snprintf(buf, n, "?");
    if (p)
    {
        char line[256];
        /* with -i the innermost frame comes first; skip allocator shims */
        while (fgets(line, sizeof(line), p))
        {
            line[strcspn(line, "\n")] = 0;
            if (line[0] && line[0] != '/' && line[0] != '?' && !strstr(line, "psMalloc") && !strstr(line, "__wrap"))
            {
                snprintf(buf, n, "%s", line);
                break;
            }
        }
        pclose(p);
    }
    return buf;
}

static void child_finish(const sres_t *o)
{
    mx_result_t r;
    const scen_t *S = &scens[cur_scen];
    const char *sym = NULL;
    char site[128] = "";
    memset(&r, 0, sizeof(r));
    r.nontrivial = 1;
    r.transitions = 1;
    if (S->kind == K_SESSION && !S->expect_complete && (o->complete[0]))
    {
        sym = "handshake-completed-with-invalid-peer-credential";
    }
    else if (S->kind != K_SESSION && !o->any_api_error && (o->anchors != baseline[cur_scen].anchors || o->certs != baseline[cur_scen].certs || o->unparsed != baseline[cur_scen].unparsed))
    {
        sym = "key-load-reported-success-without-everything-loaded";
    }
    else if (o->live_after != 0)
    {
        void *sites[4];
        int n = env_live_sites(sites, 4);
        env_live_dump();
        sym = "leak-after-teardown";
        if (n > 0)
        {
            addr_func(sites[0], site, sizeof(site));
        }
    }
    snprintf(r.outcome, sizeof(r.outcome), "%s:c%d%d:%s:%s", S->name, o->complete[0], o->complete[1], o->any_api_error ? "api-error" : "no-error", sym ? sym : "clean");
    if (sym)
    {
        r.violation = 1;
        snprintf(r.key, sizeof(r.key), "%s|%s%s%s", S->name, sym, site[0] ? "|alloc-in=" : "", site);
        snprintf(r.what, sizeof(r.what), "%s: failing allocation #%ld%s => %s (%ld tracked blocks still live after teardown%s%s)", S->name,
            mode == 2 ? fail_from : fail_k, mode == 1 ? " and a second one" : mode == 2 ? " and all later ones" : "", sym, o->live_after,
            site[0] ? ", first allocated in " : "", site);
    }
    if (write(child_wfd, &r, sizeof(r)) != (ssize_t) sizeof(r))
    {
        _exit(3);
    }
    _exit(0);
}

static void record_child(pid_t pid, int rfd, long k)
{
    mx_result_t r;
    ssize_t got = 0;
    int status = 0;
    const scen_t *S = &scens[cur_scen];
    while (got < (ssize_t) sizeof(r))
    {
        ssize_t n = read(rfd, (char *) &r + got, sizeof(r) - (size_t) got);
        if (n < 0 && errno == EINTR) continue;
        if (n <= 0) break;
        got += n;
    }
    close(rfd);
    while (waitpid(pid, &status, 0) < 0 && errno == EINTR)
    {
    }
    if (got != (ssize_t) sizeof(r))
    {
        /* abnormal end: classify from the sanitizer report */
        char kind[160] = "";
        memset(&r, 0, sizeof(r));
        san_classify_file(errpath, kind, sizeof(kind));
        if (!kind[0])
        {
            if (WIFSIGNALED(status))
            {
                snprintf(kind, sizeof(kind), WTERMSIG(status) == SIGALRM ? "hang" : "crash-sig%d", WTERMSIG(status));
            }
            else
            {
                snprintf(kind, sizeof(kind), "abnormal-exit-%d", WEXITSTATUS(status));
            }
        }
        r.violation = 1;
        r.nontrivial = 1;
        r.transitions = 1;
        snprintf(r.outcome, sizeof(r.outcome), "%s:CRASH", S->name);
        snprintf(r.key, sizeof(r.key), "%s|%s", S->name, kind);
        snprintf(r.what, sizeof(r.what), "%s: failing allocation #%ld => the process died: %s", S->name, k, kind);
    }
    snprintf(r.desc, sizeof(r.desc), "s=%d;m=%d;k=%ld;d=%d (%s fail allocation %ld%s)", cur_scen, mode, k, pair_d, S->name, k,
        mode == 1 ? " + a later one" : mode == 2 ? " and all after" : "");
    r.state_hash = fnv1a(r.desc, strlen(r.desc), FNV0);
    mx_record(&r);
}

typedef struct { int si, mode, d; long lo, hi; } grp_t;
static grp_t *groups;
static long ngroups;

static void run_group(long gi, void *unused)
{
    grp_t *g = &groups[gi];
    sres_t o;
    (void) unused;
    cur_scen = g->si;
    mode = g->mode;
    pair_d = g->d;
    fork_lo = g->lo;
    fork_hi = g->hi;
    snprintf(errpath, sizeof(errpath), "build/tmp-c19-%d.err", (int) getpid());
    env_reset(scens[g->si].cfg.seed);
    env_alloc_hook = alloc_hook;
    run_scenario(g->si, &o);
    if (in_child)
    {
        child_finish(&o);
    }
    env_alloc_hook = NULL;
    unlink(errpath);
}

int main(int argc, char **argv)
{
    mx_cfg_t cfg;
    const char *replay;
    int si;
    long cap = 0;

    memset(&cfg, 0, sizeof(cfg));
    cfg.property = "C19";
    cfg.sanitizer_is_oracle = 1;
    cfg.level = "fault_enumeration";
    cfg.engine = "fork-at-fault: the scenario runs once per window and forks at every allocation; the child fails that allocation and runs to the end (ASan+UBSan build)";
    cfg.rule = "case = (scenario, index k of the failed allocation[, second failed allocation k+d | all allocations >= k]); every k from 1 to the scenario's allocation count is enumerated; "
               "non-trivial = the failed allocation was actually reached (always, by construction)";
    cfg.assumptions[0] = "all library allocations go through malloc/calloc/realloc (psMalloc == malloc in this configuration), intercepted at link time; harness allocations are exempt";
    cfg.assumptions[1] = "oracle: no sanitizer report / crash / hang; a scenario with an invalid peer credential never completes on the verifying side; after deleting every object the tracked live-allocation count is 0";
    replay = mx_parse_args(argc, argv, &cfg);
    thorough = !strcmp(cfg.tier, "thorough");
    cfg.bound = thorough ? "single fault at every allocation; pairs (k, k+d) d<=4; fail-all-from-k, all scenarios" : "single fault at every allocation of every quick scenario";

    add_scen("load-rsa-keys", K_LOADKEYS_RSA, 0, 0, 0, 0, 0, 0, 0, 0, 1);
    add_scen("load-ec-keys", K_LOADKEYS_EC, 0, 0, 0, 0, 0, 0, 0, 0, 1);
    add_scen("tls12-psk", K_SESSION, V_TLS12, KX_PSK, 0, 0, 0, 0, 0, 1, 1);
    add_scen("dtls12-psk", K_SESSION, V_DTLS12, KX_PSK, 0, 0, 0, 0, 0, 1, 1);
    add_scen("tls12-rsa-resumed", K_SESSION, V_TLS12, KX_RSA, 0, 0, 0, 0, 1, 1, 1);
    add_scen("tls12-rsa-badcert", K_SESSION, V_TLS12, KX_RSA, 0, 0, 1, 0, 0, 0, 1);
    add_scen("tls13-rsa-badcert", K_SESSION, V_TLS13, KX_13_RSA, 0, 0, 1, 0, 0, 0, 1);
    /* the issuer IS trusted, the signature on the server certificate does not verify: the verdict must survive a failed
       allocation inside the signature check itself */
    add_scen("tls12-rsa-badsig", K_SESSION, V_TLS12, KX_RSA, 0, 0, 2, 0, 0, 0, 1);
    add_scen("tls13-rsa-badsig", K_SESSION, V_TLS13, KX_13_RSA, 0, 0, 2, 0, 0, 0, 1);
    add_scen("tls12-ecdhe-ecdsa-badsig", K_SESSION, V_TLS12, KX_ECDHE_ECDSA, 0, 0, 2, 0, 0, 0, 0);
    add_scen("tls12-rsa-clientauth-tickets", K_SESSION, V_TLS12, KX_RSA, 0, 1, 0, 1, 0, 1, 1);
    add_scen("tls12-rsa-tickets-rotated", K_SESSION, V_TLS12, KX_RSA, 0, 0, 0, 1, 2, 1, 1);
    add_scen("tls13-psk", K_SESSION, V_TLS13, KX_13_PSK, 0, 0, 0, 0, 0, 1, 1);
    add_scen("tls12-ecdhe-rsa", K_SESSION, V_TLS12, KX_ECDHE_RSA, TLS_ECDHE_RSA_WITH_AES_128_GCM_SHA256, 0, 0, 0, 0, 1, 0);
    add_scen("tls13-rsa-tickets", K_SESSION, V_TLS13, KX_13_RSA, 0, 0, 0, 1, 0, 1, 0);
    add_scen("tls13-ecdsa-clientauth", K_SESSION, V_TLS13, KX_13_ECDSA, 0, 1, 0, 0, 0, 1, 0);
    add_scen("tls13-rsa-resumed", K_SESSION, V_TLS13, KX_13_RSA, 0, 0, 0, 1, 1, 1, 0);
    add_scen("tls11-ecdhe-ecdsa", K_SESSION, V_TLS11, KX_ECDHE_ECDSA, 0, 0, 0, 0, 0, 1, 0);
    /* (appended: scenario indices are part of replay descriptors) */
    add_scen("load-pem-bundle-of-3-trust-anchors", K_LOADKEYS_PEMCAS, 0, 0, 0, 0, 0, 0, 0, 0, 1);
    add_scen("parse-rich-certificate-crl-pkcs8", K_PARSE_OBJECTS, 0, 0, 0, 0, 0, 0, 0, 0, 1);
    /* the client names the server it expects and sends a server_name extension built with the hello-extension API */
    add_scen("tls12-rsa-expected-name-and-sni-extension", K_SESSION, V_TLS12, KX_RSA, 0, 0, 0, 0, 0, 1, 1);
    scens[nscen - 1].cfg.expected_name = "localhost"; scens[nscen - 1].cfg.sni_ext = 1;
    add_scen("tls13-rsa-expected-name-and-sni-extension", K_SESSION, V_TLS13, KX_13_RSA, 0, 0, 0, 0, 0, 1, 1);
    scens[nscen - 1].cfg.expected_name = "localhost"; scens[nscen - 1].cfg.sni_ext = 1;
    /* client authentication with an ECDSA key under TLS 1.2 (CertificateVerify signed through the PKA queue) */
    add_scen("tls12-ecdhe-ecdsa-clientauth", K_SESSION, V_TLS12, KX_ECDHE_ECDSA, 0, 1, 0, 0, 0, 1, 1);
    /* an application that reads a record in two parts and asks for a larger read buffer for the second */
    add_scen("tls12-psk-two-part-receive-readbuf-of-size", K_SESSION, V_TLS12, KX_PSK, 0, 0, 0, 0, 0, 1, 1);
    scens[nscen - 1].cfg.feed_of_size = 1;
    add_scen("load-two-tls13-psks-with-sni-and-alpn", K_LOADKEYS_PSK13, 0, 0, 0, 0, 0, 0, 0, 0, 1);

    if (replay)
    {
        int m, d;
        long k;
        sres_t o;
        mx_result_t r;
        if (sscanf(replay, "s=%d;m=%d;k=%ld;d=%d", &si, &m, &k, &d) != 4 || si >= nscen)
        {
            fprintf(stderr, "bad descriptor\n");
            return 2;
        }
        if (scens[si].kind != K_SESSION)
        {
            /* the fault-free content of the key set, as in the enumeration */
            env_reset(0);
            env_alloc_hook = NULL;
            run_scenario(si, &baseline[si]);
        }
        /* in-process: fail directly, no fork */
        cur_scen = si; mode = m; pair_d = d;
        env_reset(0);
        in_child = 1;
        fail_k = m == 2 ? 0 : k;
        fail_k2 = m == 1 ? k + d : 0;
        fail_from = m == 2 ? k : 0;
        env_alloc_hook = alloc_hook;
        run_scenario(si, &o);
        env_alloc_hook = NULL;
        memset(&r, 0, sizeof(r));
        /* reuse the child's judgement without the pipe */
        {
            const scen_t *S = &scens[si];
            if (S->kind == K_SESSION && !S->expect_complete && o.complete[0])
            {
                r.violation = 1;
                snprintf(r.key, sizeof(r.key), "%s|handshake-completed-with-invalid-peer-credential", S->name);
            }
            else if (S->kind != K_SESSION && !o.any_api_error && (o.anchors != baseline[si].anchors || o.certs != baseline[si].certs || o.unparsed != baseline[si].unparsed))
            {
                r.violation = 1;
                snprintf(r.key, sizeof(r.key), "%s|key-load-reported-success-without-everything-loaded", S->name);
            }
            else if (o.live_after != 0)
            {
                void *sites[4];
                char site[128] = "";
                int n = env_live_sites(sites, 4);
                env_live_dump();
                if (n > 0) addr_func(sites[0], site, sizeof(site));
                r.violation = 1;
                snprintf(r.key, sizeof(r.key), "%s|leak-after-teardown%s%s", S->name, site[0] ? "|alloc-in=" : "", site);
            }
            snprintf(r.what, sizeof(r.what), "complete %d%d api_error %d live_after %ld", o.complete[0], o.complete[1], o.any_api_error, o.live_after);
        }
        mx_replay_print(&r);
        return 0;
    }

    mx_init(&cfg);
    mx_case_timeout_s = 120;
    /* counting runs (fault-free) */
    for (si = 0; si < nscen; si++)
    {
        env_reset(0);
        env_alloc_hook = NULL;
        run_scenario(si, &baseline[si]);
        nalloc[si] = env_alloc_count;
        fprintf(stderr, "%-30s allocations %6ld complete %d%d api_error %d live_after %ld\n", scens[si].name, nalloc[si], baseline[si].complete[0],
            baseline[si].complete[1], baseline[si].any_api_error, baseline[si].live_after);
        if (baseline[si].live_after != 0 || (scens[si].kind == K_SESSION && scens[si].expect_complete != (baseline[si].complete[0] && baseline[si].complete[1])))
        {
            printf("INTERNAL property=C19 key=baseline|%s what=fault-free run of %s: live_after %ld complete %d%d\n", scens[si].name, scens[si].name,
                baseline[si].live_after, baseline[si].complete[0], baseline[si].complete[1]);
            return 2;
        }
    }
    for (si = 0; si < nscen; si++)
    {
        long lo, W = 200;
        int m, d;
        for (m = 0; m < (thorough ? 3 : 1); m++)
        {
            for (d = 1; d <= (m == 1 ? 4 : 1); d++)
            {
                for (lo = 1; lo <= nalloc[si]; lo += W)
                {
                    if (ngroups >= cap)
                    {
                        cap = cap ? cap * 2 : 1024;
                        groups = realloc(groups, (size_t) cap * sizeof(grp_t));
                    }
                    groups[ngroups++] = (grp_t) { si, m, d, lo, lo + W };
                }
            }
        }
    }
    mx_parallel(ngroups, run_group, NULL);
    return mx_finish(NULL);
}
