/* tk_flight.h - shared by drv_c06 and drv_c08: bring a TLS 1.3 world to the point where the protected flight towards the
 * victim is on the wire, open it with the flight sender's handshake traffic secret (key-log seam) and split it into handshake
 * messages.  The caller deviates / edits the messages, recomputes Finished and re-seals them with the toolkit (tk.h). */
#ifndef MXV_TK_FLIGHT_H
#define MXV_TK_FLIGHT_H
#include "mxv.h"
#include "wire.h"
#include "tk.h"

/* ------------------------------------------------------------------ part A */
typedef struct { int kx; uint16_t suite; int cauth; const char *name; int bogus_psk; } a_cfg_t;
static const a_cfg_t acfgs[] = {
    { KX_13_RSA, 0, 0, "tls13-rsa", 0 },
    { KX_13_PSK, 0, 0, "tls13-psk", 0 },
    { KX_13_ECDSA, 0, 1, "tls13-ecdsa-clientauth", 0 },
    { KX_13_RSA, TLS_AES_256_GCM_SHA384, 0, "tls13-rsa-aes256-sha384", 0 },
    /* certificate handshakes whose ClientHello also carried a pre_shared_key the server could not use */
    { KX_13_ECDSA, 0, 1, "tls13-ecdsa-clientauth-unknown-psk-offered", 1 },
    { KX_13_RSA, 0, 0, "tls13-rsa-unknown-psk-offered", 1 },
};
#define NACFG ((int) (sizeof(acfgs) / sizeof(acfgs[0])))

/* D_INJECT_NST: a WELL-FORMED NewSessionTicket at position i (legal only after the handshake); D_PLAINFLIGHT (victim
 * client): the whole protected flight travels unprotected, in the same plaintext record as the ServerHello */
enum { D_NONE = 0, D_DELETE, D_DUP, D_SWAP, D_INJECT, D_APPDATA, D_NOFINRECOMP, D_DELETE2, D_CVSCHEME, D_CVSTALE, D_CVFLIP, D_INJECT_NST, D_PLAINFLIGHT, D_NK };
static const char *dname[] = { "none", "delete", "duplicate", "swap", "inject", "appdata-under-hs-keys", "delete-without-finished-recompute", "delete-two-consecutive", "certificateverify-scheme-rewritten", "certificateverify-of-another-handshake", "certificateverify-signature-bit-flipped", "inject-well-formed-new-session-ticket", "flight-in-plaintext-behind-server-hello" };
static const int inj_types[] = { 0, 1, 2, 4, 5, 8, 11, 13, 15, 20, 24, 254 };
#define NINJ ((int) (sizeof(inj_types) / sizeof(inj_types[0])))
typedef struct { int kind, i, t; } dev_t2;

typedef struct {
    world_t w;
    int ci, victim;
    tk13_keys_t fk;                 /* flight sender's handshake keys */
    buf_t tr;                       /* transcript before the flight */
    unsigned char hs[24000]; int hl;
    tk_msg_t m[16]; int nm;
    unsigned char first_units[4][400]; int first_len[4]; int nfirst; /* plaintext units preceding the protected flight (SH, CCS) */
    dev_t2 d;
    int hashlen;
    unsigned char donor_cv[1200]; int donor_cv_len;   /* CertificateVerify of the same flight in ANOTHER handshake (other randoms) */
    int seed;
} a_ctx_t;

static int hs_type_name(int t) { return t; }

/* bring the world to the point where the flight to the victim is on the wire, open it */
static int a_setup(a_ctx_t *g)
{
    const a_cfg_t *ac = &acfgs[g->ci];
    wcfg_t c;
    unsigned char sec[64], pt[20000];
    int i, n, sl, it, k, sender = 1 - g->victim;
    uint16_t suite = ac->suite ? ac->suite : TLS_AES_128_GCM_SHA256;
    memset(&c, 0, sizeof(c));
    c.ver = V_TLS13; c.kx = ac->kx; c.suite = ac->suite; c.client_auth = ac->cauth; c.bogus_psk = ac->bogus_psk; c.seed = g->seed;
    g->hashlen = suite == TLS_AES_256_GCM_SHA384 ? 48 : 32;
    if (world_init(&g->w, &c) < 0)
    {
        return -1;
    }
    buf_init(&g->tr);
    world_collect(&g->w, 0);
    if (g->w.wire[0].n != 1)
    {
        return -2;
    }
    buf_add(&g->tr, g->w.wire[0].r[g->w.wire[0].head].p + 5, (size_t) g->w.wire[0].r[g->w.wire[0].head].len - 5);
    world_deliver(&g->w, 0);      /* CH -> server; server flight now on wire[1] */
    {
        /* the server flight always has to be opened: it is part of the transcript for the client flight too */
        tk13_keys_t sk;
        unsigned char shs[24000];
        int shl = 0;
        tk_msg_t sm[16];
        int snm;
        sl = tk_keylog_find("s hs traffic", sec);
        if (sl != g->hashlen || tk13_keys_from_secret(&sk, suite, sec, g->hashlen) < 0)
        {
            return -3;
        }
        n = g->w.wire[1].n;
        g->nfirst = 0;
        for (i = 0; i < n; i++)
        {
            rec_t *r = &g->w.wire[1].r[(g->w.wire[1].head + i) % W_MAXREC];
            if (r->p[0] == 22)
            {
                buf_add(&g->tr, r->p + 5, (size_t) r->len - 5);
            }
            if (r->p[0] == 22 || r->p[0] == 20)
            {
                if (g->nfirst < 4 && r->len <= 400)
                {
                    memcpy(g->first_units[g->nfirst], r->p, (size_t) r->len);
                    g->first_len[g->nfirst++] = r->len;
                }
                continue;
            }
            k = tk13_open(&sk, r->p, r->len, pt, &it);
            if (k < 0 || it != 22)
            {
                return -4;
            }
            memcpy(shs + shl, pt, (size_t) k);
            shl += k;
        }
        snm = tk_split_msgs(shs, shl, sm, 16);
        if (snm < 2)
        {
            return -5;
        }
        if (g->victim == 0)
        {
            /* deviate the server flight */
            memcpy(g->hs, shs, (size_t) shl);
            g->hl = shl;
            g->nm = tk_split_msgs(g->hs, g->hl, g->m, 16);
            g->fk = sk;
            world_wire_clear(&g->w, 1);
            return 0;
        }
        /* victim = server: deliver the honest server flight, open the client's flight */
        for (i = 0; i < snm; i++)
        {
            buf_add(&g->tr, sm[i].p, (size_t) sm[i].len);
        }
        world_pump(&g->w, n);     /* deliver exactly the server flight (n units) */
    }
    {
        tk13_keys_t ck;
        sl = tk_keylog_find("c hs traffic", sec);
        if (sl != g->hashlen || tk13_keys_from_secret(&ck, suite, sec, g->hashlen) < 0)
        {
            return -6;
        }
        n = g->w.wire[0].n;
        g->hl = 0;
        g->nfirst = 0;
        for (i = 0; i < n; i++)
        {
            rec_t *r = &g->w.wire[0].r[(g->w.wire[0].head + i) % W_MAXREC];
            if (r->p[0] == 20)
            {
                if (g->nfirst < 4 && r->len <= 400)
                {
                    memcpy(g->first_units[g->nfirst], r->p, (size_t) r->len);
                    g->first_len[g->nfirst++] = r->len;
                }
                continue;
            }
            k = tk13_open(&ck, r->p, r->len, pt, &it);
            if (k < 0 || it != 22)
            {
                return -7;
            }
            memcpy(g->hs + g->hl, pt, (size_t) k);
            g->hl += k;
        }
        g->nm = tk_split_msgs(g->hs, g->hl, g->m, 16);
        if (g->nm < 1)
        {
            return -8;
        }
        g->fk = ck;
        world_wire_clear(&g->w, 0);
        (void) sender;
    }
    return 0;
}

/* a_setup plus the CertificateVerify of the same flight in another handshake (other entropy seed => other randoms, same keys) */
static int a_setup_full(a_ctx_t *g)
{
    static a_ctx_t dn;
    int i;
    memset(&dn, 0, sizeof(dn));
    dn.ci = g->ci; dn.victim = g->victim; dn.seed = 4242;
    g->donor_cv_len = 0;
    if (a_setup(&dn) == 0)
    {
        for (i = 0; i < dn.nm; i++)
        {
            if (dn.m[i].type == 15 && dn.m[i].len <= (int) sizeof(g->donor_cv))
            {
                memcpy(g->donor_cv, dn.m[i].p, (size_t) dn.m[i].len);
                g->donor_cv_len = dn.m[i].len;
            }
        }
    }
    world_free(&dn.w);
    buf_free(&dn.tr);
    g->seed = 0;
    return a_setup(g);
}


#endif
