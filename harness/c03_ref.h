/* c03_ref.h - private to drv_c03.c: the reference validators.
 *
 * ref_lax()    = exactly the rules of the property statement (necessary conditions for success):
 *                a path leaf -> ... -> trust anchor through the supplied certificates in ANY order,
 *                per-edge signature check (OpenSSL X509_verify on that one edge) with an algorithm /
 *                key size enabled in this build, every issuer a CA (basicConstraints cA, keyCertSign
 *                if keyUsage present, pathLenConstraint), every certificate below the anchor inside its
 *                validity period at MXV_T0 and free of unrecognised critical extensions.
 * ref_strict() = sufficient conditions under which MatrixSSL is REQUIRED to accept (completeness):
 *                the lax rules for the chain exactly as ordered (leaf first, every supplied certificate
 *                used), plus the documented extra strictness of the library (v3 only, issuer/subject DN
 *                chaining, authorityKeyIdentifier <-> subjectKeyIdentifier both present and equal or both
 *                absent, CA certificates carry keyUsage, SHA-2/Ed25519 signatures, a critical EKU on the
 *                leaf names TLS client or server authentication).
 * Inputs between the two are "don't care". */
#ifndef C03_REF_H
#define C03_REF_H
#include "c03_univ.h"

static signed char edge_cache[MAXU][MAXU];   /* 0 unknown, 1 verifies, -1 does not */

static int sigalg_enabled(X509 *x, int sha2_only)
{
    switch (X509_get_signature_nid(x))
    {
    case NID_sha256WithRSAEncryption: case NID_sha384WithRSAEncryption: case NID_sha512WithRSAEncryption:
    case NID_ecdsa_with_SHA256: case NID_ecdsa_with_SHA384: case NID_ecdsa_with_SHA512:
    case NID_ED25519:
        return 1;
# ifdef USE_PKCS1_PSS
    case NID_rsassaPss:
    {
        int mdnid = NID_undef, pknid = NID_undef;
        if (!X509_get_signature_info(x, &mdnid, &pknid, NULL, NULL))
        {
            return 0;
        }
        return mdnid == NID_sha256 || mdnid == NID_sha384 || mdnid == NID_sha512;
    }
# endif
    case NID_sha224WithRSAEncryption: case NID_ecdsa_with_SHA224:
# ifdef USE_SHA224
        return 1;
# else
        return 0;
# endif
    case NID_sha1WithRSAEncryption: case NID_ecdsa_with_SHA1:
# ifdef ENABLE_SHA1_SIGNED_CERTS
        return !sha2_only;
# else
        return 0;
# endif
    case NID_md5WithRSAEncryption:
# ifdef ENABLE_MD5_SIGNED_CERTS
        return !sha2_only;
# else
        return 0;
# endif
    default:
        return 0;
    }
}

static int key_supported(X509 *x)
{
    EVP_PKEY *k = X509_get0_pubkey(x);
    if (!k)
    {
        return 0;
    }
    switch (EVP_PKEY_base_id(k))
    {
    case EVP_PKEY_RSA: return EVP_PKEY_bits(k) >= MIN_RSA_BITS;
    case EVP_PKEY_EC: return EVP_PKEY_bits(k) >= MIN_ECC_BITS;
    case EVP_PKEY_ED25519: return 1;
    default: return 0;
    }
}

/* signature of x verifies under the public key of y, algorithm and key enabled in this build */
static int edge_ok(int xi, int yi)
{
    if (!edge_cache[xi][yi])
    {
        int ok = sigalg_enabled(U[xi].x, 0) && key_supported(U[yi].x) &&
                 X509_verify(U[xi].x, X509_get0_pubkey(U[yi].x)) == 1;
        ERR_clear_error();
        edge_cache[xi][yi] = ok ? 1 : -1;
    }
    return edge_cache[xi][yi] > 0;
}

static int time_ok(int xi)
{
    time_t t = (time_t) MXV_T0;
    return X509_cmp_time(X509_get0_notBefore(U[xi].x), &t) == -1 && X509_cmp_time(X509_get0_notAfter(U[xi].x), &t) == 1;
}
static int crit_ok(int xi)
{
    return !(X509_get_extension_flags(U[xi].x) & (EXFLAG_CRITICAL | EXFLAG_INVALID));
}
static int self_issued(int xi)
{
    return X509_NAME_cmp(X509_get_subject_name(U[xi].x), X509_get_issuer_name(U[xi].x)) == 0;
}
static int same_der(int a, int b)
{
    return U[a].derlen == U[b].derlen && !memcmp(U[a].der, U[b].der, (size_t) U[a].derlen);
}
/* y may issue certificates with nbelow (non-self-issued) intermediates under it */
static int ca_ok(int yi, int nbelow, int strict, int ignore_pathlen, const char **why)
{
    X509 *y = U[yi].x;
    uint32_t fl = X509_get_extension_flags(y);
    long pl;
    if (X509_get_version(y) < 2) { *why = "issuer is not v3 (no basicConstraints)"; return 0; }
    if (!(fl & EXFLAG_BCONS) || !(fl & EXFLAG_CA)) { *why = "issuer lacks basicConstraints cA"; return 0; }
    if ((fl & EXFLAG_KUSAGE) && !(X509_get_key_usage(y) & KU_KEY_CERT_SIGN)) { *why = "issuer keyUsage lacks keyCertSign"; return 0; }
    if (strict && !(fl & EXFLAG_KUSAGE)) { *why = "issuer has no keyUsage (library insists on it: don't care)"; return 0; }
    pl = X509_get_pathlen(y);
    if (!ignore_pathlen && pl >= 0 && nbelow > pl) { *why = "pathLenConstraint exceeded"; return 0; }
    return 1;
}

typedef struct { int ok; int path[8]; int plen; int anchor; char why[120]; } ref_t;

typedef struct {
    const int *chain; int n; const int *anch; int na; int noanchor_mode;
    int path[8];
} lax_ctx_t;

static int lax_dfs(lax_ctx_t *c, int plen, unsigned used, int nbelow, ref_t *out)
{
    int x = c->path[plen - 1], i;
    const char *why = "";
    for (i = 0; i < c->na; i++)
    {
        if (same_der(x, c->anch[i]))
        {
            out->anchor = c->anch[i];
            out->plen = plen;
            memcpy(out->path, c->path, sizeof(out->path));
            return 1;                     /* x itself is a trust anchor */
        }
    }
    for (i = 0; i < c->na; i++)
    {
        if (edge_ok(x, c->anch[i]) && ca_ok(c->anch[i], nbelow, 0, c->noanchor_mode, &why))
        {
            out->anchor = c->anch[i];
            out->plen = plen;
            memcpy(out->path, c->path, sizeof(out->path));
            return 1;
        }
    }
    if (plen >= 7)
    {
        return 0;
    }
    for (i = 1; i < c->n; i++)
    {
        int y = c->chain[i];
        if (used & (1u << i))
        {
            continue;
        }
        if (!time_ok(y) || !crit_ok(y) || !edge_ok(x, y) || !ca_ok(y, nbelow, 0, c->noanchor_mode, &why))
        {
            continue;
        }
        c->path[plen] = y;
        if (lax_dfs(c, plen + 1, used | (1u << i), nbelow + (self_issued(y) ? 0 : 1), out))
        {
            return 1;
        }
    }
    return 0;
}

/* anchor set empty: documented self-consistency mode of the API - the last supplied certificate, if
 * self-signed, plays the anchor; pathLenConstraint is not evaluated by the library in this mode */
static void ref_lax(const int *chain, int n, const int *anch, int na, ref_t *out)
{
    lax_ctx_t c;
    int self_anchor[1];
    memset(out, 0, sizeof(*out));
    out->anchor = -1;
    memset(&c, 0, sizeof(c));
    c.chain = chain; c.n = n; c.anch = anch; c.na = na;
    if (na == 0)
    {
        int last = chain[n - 1];
        if (!(self_issued(last) && edge_ok(last, last)))
        {
            snprintf(out->why, sizeof(out->why), "no trust anchor and the last certificate is not self-signed");
            return;
        }
        self_anchor[0] = last;
        c.anch = self_anchor; c.na = 1; c.noanchor_mode = 1;
    }
    if (!time_ok(chain[0]) && !(c.noanchor_mode && n == 1))
    {
        snprintf(out->why, sizeof(out->why), "leaf outside its validity period");
        return;
    }
    if (!crit_ok(chain[0]))
    {
        snprintf(out->why, sizeof(out->why), "leaf has an unrecognised critical extension");
        return;
    }
    c.path[0] = chain[0];
    out->ok = lax_dfs(&c, 1, 1u, 0, out);
    if (!out->ok)
    {
        snprintf(out->why, sizeof(out->why), "no path leaf->anchor satisfies signature/CA/validity/critical-extension rules");
    }
}

static int keyid_conformant(int xi, int yi)
{
    const ASN1_OCTET_STRING *aki = X509_get0_authority_key_id(U[xi].x);
    const ASN1_OCTET_STRING *ski = X509_get0_subject_key_id(U[yi].x);
    int al = aki ? ASN1_STRING_length(aki) : 0, sl = ski ? ASN1_STRING_length(ski) : 0;
    if (al != sl)
    {
        return 0;
    }
    return al == 0 || !memcmp(ASN1_STRING_get0_data(aki), ASN1_STRING_get0_data(ski), (size_t) al);
}
static int link_strict(int xi, int yi, int nbelow, const char **why)
{
    if (!edge_ok(xi, yi)) { *why = "signature does not verify under the issuer key (or its algorithm / the key size is not enabled in this build)"; return 0; }
    if (!sigalg_enabled(U[xi].x, 1)) { *why = "not a SHA-2/Ed25519 signature"; return 0; }
    if (X509_NAME_cmp(X509_get_issuer_name(U[xi].x), X509_get_subject_name(U[yi].x))) { *why = "issuer DN != subject DN of issuer"; return 0; }
    if (!keyid_conformant(xi, yi)) { *why = "AKI/SKI not both present and equal (or both absent)"; return 0; }
    return ca_ok(yi, nbelow, 1, 0, why);
}

static void ref_strict(const int *chain, int n, const int *anch, int na, ref_t *out)
{
    int i, last = chain[n - 1];
    const char *why = "";
    memset(out, 0, sizeof(*out));
    out->anchor = -1;
    if (na == 0)
    {
        snprintf(out->why, sizeof(out->why), "no anchors: completeness not claimed");
        return;
    }
    for (i = 0; i < n; i++)
    {
        int x = chain[i];
        uint32_t fl = X509_get_extension_flags(U[x].x);
        if (X509_get_version(U[x].x) != 2 || !key_supported(U[x].x) || !time_ok(x) || !crit_ok(x))
        {
            snprintf(out->why, sizeof(out->why), "certificate %d: not v3 / weak key / outside validity / unknown critical extension", i);
            return;
        }
        if (i == 0 && (fl & EXFLAG_XKUSAGE))
        {
            int idx = X509_get_ext_by_NID(U[x].x, NID_ext_key_usage, -1);
            if (idx >= 0 && X509_EXTENSION_get_critical(X509_get_ext(U[x].x, idx)) &&
                !(X509_get_extended_key_usage(U[x].x) & (XKU_SSL_SERVER | XKU_SSL_CLIENT)))
            {
                snprintf(out->why, sizeof(out->why), "leaf has a critical EKU without TLS usage (don't care)");
                return;
            }
        }
    }
    for (i = 0; i + 1 < n; i++)
    {
        if (!link_strict(chain[i], chain[i + 1], i, &why))
        {
            snprintf(out->why, sizeof(out->why), "link %d->%d: %s", i, i + 1, why);
            return;
        }
    }
    for (i = 0; i < na; i++)
    {
        if (same_der(last, anch[i]))
        {
            out->ok = 1;
            out->anchor = anch[i];
            return;
        }
    }
    if (self_issued(last))
    {
        snprintf(out->why, sizeof(out->why), "last supplied certificate is self-issued but not an anchor (don't care)");
        return;
    }
    for (i = 0; i < na; i++)
    {
        if (link_strict(last, anch[i], n - 1, &why))
        {
            out->ok = 1;
            out->anchor = anch[i];
            return;
        }
    }
    snprintf(out->why, sizeof(out->why), "no anchor issues the last certificate: %s", why);
}

#endif
