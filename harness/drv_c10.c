/* drv_c10 - C10: wire behaviour conforms to the RFCs: MatrixSSL interoperates with an independent stack.
 *
 * The independent implementation is OpenSSL 3 libssl, in-process, over memory BIOs.  One CELL is one
 * point of the configuration matrix
 *     role (MatrixSSL client / OpenSSL server, MatrixSSL server / OpenSSL client)
 *   x protocol version (TLS 1.1, 1.2, 1.3, DTLS 1.0, 1.2)
 *   x cipher suite (every suite compiled into MatrixSSL that OpenSSL also offers)
 *   x key-exchange group (unconstrained, P-256, P-384, P-521, X25519[, forced HelloRetryRequest])
 *   x credential + signature scheme (RSA-2048, ECDSA P-256/384/521, Ed25519; rsa_pkcs1, rsa_pss_rsae, ecdsa, ed25519)
 *   x client authentication (no / yes)
 *   x resumption (none / session id / RFC 5077 ticket / TLS 1.3 PSK ticket)
 *   x extended master secret (negotiated / not negotiated, TLS <= 1.2)
 *   [x OpenSSL client with defaults / with SSL_OP_LEGACY_SERVER_CONNECT, for MatrixSSL-server cells <= 1.2]
 * and inside every cell application payloads of all sizes {1, 16383, 16384, 16385, 40000} (DTLS: {1, 16, 999, 1000})
 * are sent in both directions, on the first AND on the resumed connection.  Each cell runs in a forked child
 * (the MatrixSSL session cache is process-global). */
#define OPENSSL_SUPPRESS_DEPRECATED     /* RAND_set_rand_method: pin OpenSSL's randomness per cell */
#include "mxv.h"
#include "c10_creds.h"
#include <unistd.h>
#include <stdarg.h>
#include <openssl/ssl.h>
#include <openssl/err.h>
#include <openssl/x509.h>
#include <openssl/x509_vfy.h>
#include <openssl/evp.h>
#include <openssl/bio.h>
#include <openssl/rand.h>

/* ------------------------------------------------------------------------------------------ tables */
enum { R_MCLI = 0, R_MSRV = 1 };
static const char *rname[] = { "matrix-client", "matrix-server" };

enum { G_DEF = 0, G_P256, G_P384, G_P521, G_X25519, G_N };
static const char *gname[] = { "-", "P-256", "P-384", "P-521", "X25519" };
static const int   gnid[]  = { 0, NID_X9_62_prime256v1, NID_secp384r1, NID_secp521r1, NID_X25519 };
static const uint16_t gid[] = { 0, namedgroup_secp256r1, namedgroup_secp384r1, namedgroup_secp521r1, namedgroup_x25519 };

enum { S_DEF = 0, S_RSA_SHA1, S_RSA_SHA256, S_RSA_SHA384, S_RSA_SHA512, S_PSS_SHA256, S_PSS_SHA384, S_PSS_SHA512,
       S_ECDSA_SHA1, S_ECDSA_SHA256, S_ECDSA_SHA384, S_ECDSA_SHA512, S_ED25519, S_N };
typedef struct { const char *name, *ossl; uint16_t id; int pk_nid, md_nid; int is_rsa, is_ec, is_ed; int min12only; } sig_t;
static const sig_t sigs[S_N] = {
    { "-", NULL, 0, 0, 0, 0, 0, 0, 0 },
    { "rsa_pkcs1_sha1", "RSA+SHA1", sigalg_rsa_pkcs1_sha1, EVP_PKEY_RSA, NID_sha1, 1, 0, 0, 1 },
    { "rsa_pkcs1_sha256", "RSA+SHA256", sigalg_rsa_pkcs1_sha256, EVP_PKEY_RSA, NID_sha256, 1, 0, 0, 1 },
    { "rsa_pkcs1_sha384", "RSA+SHA384", sigalg_rsa_pkcs1_sha384, EVP_PKEY_RSA, NID_sha384, 1, 0, 0, 1 },
    { "rsa_pkcs1_sha512", "RSA+SHA512", sigalg_rsa_pkcs1_sha512, EVP_PKEY_RSA, NID_sha512, 1, 0, 0, 1 },
    { "rsa_pss_rsae_sha256", "rsa_pss_rsae_sha256", sigalg_rsa_pss_rsae_sha256, EVP_PKEY_RSA_PSS, NID_sha256, 1, 0, 0, 0 },
    { "rsa_pss_rsae_sha384", "rsa_pss_rsae_sha384", sigalg_rsa_pss_rsae_sha384, EVP_PKEY_RSA_PSS, NID_sha384, 1, 0, 0, 0 },
    { "rsa_pss_rsae_sha512", "rsa_pss_rsae_sha512", sigalg_rsa_pss_rsae_sha512, EVP_PKEY_RSA_PSS, NID_sha512, 1, 0, 0, 0 },
    { "ecdsa_sha1", "ECDSA+SHA1", sigalg_ecdsa_sha1, EVP_PKEY_EC, NID_sha1, 0, 1, 0, 1 },
    { "ecdsa_sha256", "ECDSA+SHA256", sigalg_ecdsa_secp256r1_sha256, EVP_PKEY_EC, NID_sha256, 0, 1, 0, 0 },
    { "ecdsa_sha384", "ECDSA+SHA384", sigalg_ecdsa_secp384r1_sha384, EVP_PKEY_EC, NID_sha384, 0, 1, 0, 0 },
    { "ecdsa_sha512", "ECDSA+SHA512", sigalg_ecdsa_secp521r1_sha512, EVP_PKEY_EC, NID_sha512, 0, 1, 0, 0 },
    { "ed25519", "ed25519", sigalg_ed25519, NID_ED25519, NID_undef, 0, 0, 1, 0 },
};

/* per credential: curve of an EC key, signature algorithm of its certificate chain, the scheme its key signs with in TLS 1.3 */
static const int cred_curve[CR_N]  = { 0, 0, G_P256, G_P384, G_P521, 0, G_P384, G_P521 };
static const int cred_chain[CR_N]  = { S_DEF, S_RSA_SHA256, S_ECDSA_SHA256, S_ECDSA_SHA256, S_ECDSA_SHA256, S_RSA_SHA256, S_ECDSA_SHA384, S_ECDSA_SHA512 };
static const int cred_sig13[CR_N]  = { S_DEF, S_DEF, S_ECDSA_SHA256, S_ECDSA_SHA384, S_ECDSA_SHA512, S_ED25519, S_ECDSA_SHA384, S_ECDSA_SHA512 };

enum { M_NONE = 0, M_ID, M_TICKET, M_PSK13, M_N };
static const char *mname[] = { "full", "session-id", "ticket", "tls13-psk" };

static const int tls_sizes[]  = { 1, 16383, 16384, 16385, 40000 };
static const int dtls_sizes[] = { 1, 16, 999, 1000 };

typedef struct {
    int role, ver;
    uint16_t suite;
    int group, hrr, cred, sig, cauth, resm, legacy;
    int cookie;     /* DTLS, MatrixSSL client: the OpenSSL server demands a HelloVerifyRequest cookie round trip */
    int noems;      /* TLS <= 1.2: OpenSSL does not negotiate extended_master_secret (RFC 7627) => plain RFC 5246 master secret */
    int declined;   /* resumption cells: before the second connection the SERVER loses what it needs to resume (ticket key replaced,
                       session cache flushed): it must decline the ticket / id and both must complete a FULL handshake */
} cell_t;

/* suites compiled into MatrixSSL, with the name OpenSSL knows them by (NULL: OpenSSL does not have it) */
typedef struct { uint16_t id; int type; uint32_t flags; char oname[64]; int macsize; } suite_t;
static suite_t suites[128];
static int nsuites;

static int thorough, verbose;

static const suite_t *suite_by_id(uint16_t id)
{
    int i;
    for (i = 0; i < nsuites; i++)
    {
        if (suites[i].id == id) return &suites[i];
    }
    return NULL;
}
static const char *suite_name(uint16_t id)
{
    const suite_t *s = suite_by_id(id);
    static char tmp[16];
    if (s && s->oname[0]) return s->oname;
    snprintf(tmp, sizeof(tmp), "0x%04x", id);
    return tmp;
}
static const char *kx_label(int type)
{
    switch (type)
    {
    case CS_RSA: return "RSA";
    case CS_PSK: return "PSK";
    case CS_ECDHE_RSA: return "ECDHE_RSA";
    case CS_ECDHE_ECDSA: return "ECDHE_ECDSA";
    case CS_ECDH_ECDSA: return "ECDH_ECDSA";
    case CS_ECDH_RSA: return "ECDH_RSA";
    case CS_DHE_RSA: return "DHE_RSA";
    case CS_DHE_PSK: return "DHE_PSK";
    case CS_TLS13: return "TLS13";
    default: return "other";
    }
}
static int ossl_version(int ver)
{
    switch (ver)
    {
    case V_TLS11: return TLS1_1_VERSION;
    case V_TLS12: return TLS1_2_VERSION;
    case V_TLS13: return TLS1_3_VERSION;
    case V_DTLS10: return DTLS1_VERSION;
    default: return DTLS1_2_VERSION;
    }
}
static const char *alert_name(int d)
{
    static char tmp[16];
    switch (d)
    {
    case 0: return "close_notify"; case 10: return "unexpected_message"; case 20: return "bad_record_mac";
    case 21: return "decryption_failed"; case 22: return "record_overflow"; case 40: return "handshake_failure";
    case 42: return "bad_certificate"; case 43: return "unsupported_certificate"; case 44: return "certificate_revoked";
    case 45: return "certificate_expired"; case 46: return "certificate_unknown"; case 47: return "illegal_parameter";
    case 48: return "unknown_ca"; case 49: return "access_denied"; case 50: return "decode_error"; case 51: return "decrypt_error";
    case 70: return "protocol_version"; case 71: return "insufficient_security"; case 80: return "internal_error";
    case 86: return "inappropriate_fallback"; case 90: return "user_canceled"; case 100: return "no_renegotiation";
    case 109: return "missing_extension"; case 110: return "unsupported_extension"; case 112: return "unrecognized_name";
    case 115: return "unknown_psk_identity"; case 116: return "certificate_required"; case 120: return "no_application_protocol";
    }
    snprintf(tmp, sizeof(tmp), "alert_%d", d);
    return tmp;
}

/* ------------------------------------------------------------------------ OpenSSL randomness, pinned per cell */
static uint64_t orng[2];
static long g_seed;
static uint64_t orng_next(void)
{
    uint64_t a = orng[0], b = orng[1];
    orng[0] = b;
    a ^= a << 23;
    orng[1] = a ^ b ^ (a >> 17) ^ (b >> 26);
    return orng[1] + b;
}
static int orng_bytes(unsigned char *buf, int num)
{
    int i;
    for (i = 0; i < num; i++)
    {
        buf[i] = (unsigned char) (orng_next() >> 32);
    }
    return 1;
}
static int orng_seed(const void *buf, int num) { (void) buf; (void) num; return 1; }
static int orng_add(const void *buf, int num, double r) { (void) buf; (void) num; (void) r; return 1; }
static int orng_status(void) { return 1; }
static const RAND_METHOD orng_meth = { orng_seed, orng_bytes, NULL, orng_add, orng_bytes, orng_status };
static void orng_reset(uint64_t seed)
{
    orng[0] = seed * 0x9E3779B97F4A7C15ULL + 1;
    orng[1] = (seed ^ 0xC10C10C10ULL) * 0xD1342543DE82EF95ULL + 7;
    RAND_set_rand_method(&orng_meth);
}

/* ---------------------------------------------------------------------------- OpenSSL output queue BIO */
typedef struct { unsigned char *p; int len; } unit_t;
typedef struct { unit_t u[512]; int head, n; long bytes; } outq_t;

static BIO_METHOD *q_meth;
static int q_write(BIO *b, const char *p, int len)
{
    outq_t *q = BIO_get_data(b);
    unit_t *u;
    if (len <= 0) return 0;
    if (q->n >= 512) return -1;
    u = &q->u[(q->head + q->n) % 512];
    u->p = h_malloc((size_t) len);
    memcpy(u->p, p, (size_t) len);
    u->len = len;
    q->n++;
    q->bytes += len;
    BIO_clear_retry_flags(b);
    return len;
}
static long q_ctrl(BIO *b, int cmd, long num, void *ptr)
{
    (void) b; (void) ptr;
    switch (cmd)
    {
    case BIO_CTRL_FLUSH: return 1;
    case BIO_CTRL_DUP: return 1;
    case BIO_CTRL_PUSH: case BIO_CTRL_POP: return 0;
    case BIO_CTRL_DGRAM_QUERY_MTU: return 1400;
    case BIO_CTRL_DGRAM_GET_FALLBACK_MTU: return 1400;
    case BIO_CTRL_DGRAM_SET_MTU: return num;
    case BIO_CTRL_DGRAM_GET_MTU_OVERHEAD: return 28;
    case BIO_CTRL_WPENDING: case BIO_CTRL_PENDING: return 0;
    default: return 0;
    }
}
static int q_create(BIO *b) { BIO_set_init(b, 1); return 1; }
static int q_destroy(BIO *b) { (void) b; return 1; }
static int q_read(BIO *b, char *p, int len) { (void) p; (void) len; BIO_set_retry_read(b); return -1; }
static void q_setup(void)
{
    if (q_meth) return;
    q_meth = BIO_meth_new(BIO_get_new_index() | BIO_TYPE_SOURCE_SINK, "mxv-outq");
    BIO_meth_set_write(q_meth, q_write);
    BIO_meth_set_read(q_meth, q_read);
    BIO_meth_set_ctrl(q_meth, q_ctrl);
    BIO_meth_set_create(q_meth, q_create);
    BIO_meth_set_destroy(q_meth, q_destroy);
}

/* ------------------------------------------------------------------------------------- one connection */
typedef struct {
    cell_t c;
    int is_dtls;
    /* OpenSSL endpoint */
    SSL_CTX *octx;
    SSL *o;
    BIO *rbio, *wbio;
    outq_t q;
    int o_done, o_fatal, o_closed;
    unsigned long o_err;
    char o_errstr[200];
    int o_alert_sent, o_alert_recv;        /* (level << 8 | desc) or -1 */
    buf_t o_app;
    SSL_SESSION *osess;                    /* role matrix-server: the OpenSSL client's saved session */
    /* MatrixSSL endpoint */
    sslKeys_t *keys;
    sslSessionId_t *sid;
    ssl_t *m;
    int m_complete, m_err, m_closed;
    int m_alert_recv_lvl, m_alert_recv_desc;
    int m_alert_sent_lvl, m_alert_sent_desc; /* plaintext alerts only; encrypted ones show as o_alert_recv */
    int m_cert_cb_calls, m_cert_cb_alert;
    buf_t m_app;
    uint16_t m_cr_sigalgs[32];             /* TLS <= 1.2 MatrixSSL server: supported_signature_algorithms of its CertificateRequest */
    int m_cr_nsig, m_cr_seen;
    int target_sig_not_used;               /* OpenSSL had to sign with the fallback (chain) scheme: MatrixSSL did not offer the target */
    uint32_t actions;
    char log[2048];
} conn_t;

static void klog(conn_t *k, const char *fmt, ...) __attribute__((format(printf, 2, 3)));
static void klog(conn_t *k, const char *fmt, ...)
{
    va_list ap;
    size_t l = strlen(k->log);
    va_start(ap, fmt);
    if (verbose)
    {
        va_list ap2;
        va_copy(ap2, ap);
        vfprintf(stderr, fmt, ap2);
        va_end(ap2);
    }
    if (l < sizeof(k->log) - 1)
    {
        vsnprintf(k->log + l, sizeof(k->log) - l, fmt, ap);
    }
    va_end(ap);
}

static int ex_idx = -1;
static void info_cb(const SSL *s, int where, int ret)
{
    conn_t *k = SSL_get_ex_data(s, ex_idx);
    if (!k || !(where & SSL_CB_ALERT))
    {
        return;
    }
    if (where & SSL_CB_READ)
    {
        if (!((ret >> 8) == 1 && (ret & 0xff) == 0)) k->o_alert_recv = ret;
        klog(k, "  openssl: read alert %s/%s\n", SSL_alert_type_string_long(ret), SSL_alert_desc_string_long(ret));
    }
    else
    {
        if (!((ret >> 8) == 1 && (ret & 0xff) == 0)) k->o_alert_sent = ret;
        klog(k, "  openssl: wrote alert %s/%s\n", SSL_alert_type_string_long(ret), SSL_alert_desc_string_long(ret));
    }
}

/* PSK suites: the otherwise unused group dimension selects the PSK length (16, 32, 48, 64 bytes): the premaster secret
 * 2+N+2+N then runs through 36, 68, 100, 132 bytes - below, inside and above one HMAC block of either PRF hash */
static const int psk_lens[G_N] = { 16, 32, 48, 64, 16 };
static unsigned char g_psk[64];
static unsigned int g_psk_len = C10_PSK_KEY_LEN;
static void psk_select(int g)
{
    int i;
    memcpy(g_psk, C10_PSK_KEY, C10_PSK_KEY_LEN);
    for (i = C10_PSK_KEY_LEN; i < 64; i++) g_psk[i] = (unsigned char) (0x30 + 7 * i);
    g_psk_len = (unsigned int) psk_lens[g];
}
static unsigned int psk_server_cb(SSL *ssl, const char *identity, unsigned char *psk, unsigned int max)
{
    (void) ssl;
    if (!identity || strcmp(identity, C10_PSK_ID) != 0 || max < g_psk_len)
    {
        return 0;
    }
    memcpy(psk, g_psk, g_psk_len);
    return g_psk_len;
}
static unsigned int psk_client_cb(SSL *ssl, const char *hint, char *identity, unsigned int max_id, unsigned char *psk, unsigned int max)
{
    (void) ssl; (void) hint;
    if (max_id < C10_PSK_ID_LEN + 1 || max < g_psk_len)
    {
        return 0;
    }
    strcpy(identity, C10_PSK_ID);
    memcpy(psk, g_psk, g_psk_len);
    return g_psk_len;
}

static int cookie_gen_cb(SSL *ssl, unsigned char *cookie, unsigned int *len)
{
    (void) ssl;
    memcpy(cookie, "mxv-c10-cookie-0123456789abcdef", 32);
    *len = 32;
    return 1;
}
static int cookie_verify_cb(SSL *ssl, const unsigned char *cookie, unsigned int len)
{
    (void) ssl;
    return len == 32 && memcmp(cookie, "mxv-c10-cookie-0123456789abcdef", 32) == 0;
}

static X509 *der_x509(const unsigned char *p, size_t n)
{
    const unsigned char *q = p;
    return d2i_X509(NULL, &q, (long) n);
}

/* Signature algorithm list handed to OpenSSL: the target scheme first.  When MatrixSSL presents a certificate
 * (as server, or as client with client-auth) the algorithm its chain is signed with is appended: RFC 5246 7.4.2 / 7.4.4
 * and RFC 8446 4.4.2.2 tie the chain to the peer's signature_algorithms, and MatrixSSL (correctly) refuses to present a
 * chain the peer did not declare support for. */
static const char *ossl_sigalgs(const cell_t *c)
{
    static char tmp[96];
    int m_presents = c->role == R_MSRV || c->cauth;
    if (m_presents && cred_chain[c->cred] != c->sig)
    {
        snprintf(tmp, sizeof(tmp), "%s:%s", sigs[c->sig].ossl, sigs[cred_chain[c->cred]].ossl);
        if (c->ver == V_TLS13 && sigs[cred_chain[c->cred]].pk_nid == EVP_PKEY_RSA && !sigs[c->sig].is_rsa)
        {
            /* OpenSSL leaves rsa_pkcs1_* out of a TLS 1.3 CertificateRequest; an RSA-PSS entry is what tells the peer
               that RSA-signed chains (the Ed25519 sample certificate has an RSA issuer) can be verified */
            snprintf(tmp + strlen(tmp), sizeof(tmp) - strlen(tmp), ":rsa_pss_rsae_sha256");
        }
        return tmp;
    }
    return sigs[c->sig].ossl;
}
/* the schemes a MatrixSSL signature may legitimately use in this cell */
static int sig_acceptable(const cell_t *c, int pk, int md)
{
    if (pk == sigs[c->sig].pk_nid && md == sigs[c->sig].md_nid) return 1;
    if (c->ver != V_TLS13)
    {
        /* TLS <= 1.2: any offered pair that fits the key is conformant; the chain algorithm was offered too */
        const sig_t *ch = &sigs[cred_chain[c->cred]];
        if (sigs[c->sig].is_rsa == ch->is_rsa && sigs[c->sig].is_ec == ch->is_ec && pk == ch->pk_nid && md == ch->md_nid) return 1;
    }
    return 0;
}

/* Build the OpenSSL context for a cell.  Returns NULL and a reason when OpenSSL itself refuses the
 * configuration (=> cell is outside the "both support" set). */
static SSL_CTX *make_octx(const cell_t *c, char *why, size_t wn)
{
    int dtls = ver_is_dtls(c->ver);
    int o_is_server = c->role == R_MCLI;
    const suite_t *su = suite_by_id(c->suite);
    SSL_CTX *ctx = SSL_CTX_new(dtls ? DTLS_method() : TLS_method());
    const c10_cred_t *cr = &c10_creds[c->cred];
    uint64_t opts = 0;

    why[0] = 0;
    if (!ctx)
    {
        snprintf(why, wn, "SSL_CTX_new failed");
        return NULL;
    }
    SSL_CTX_set_security_level(ctx, 0);
    if (!SSL_CTX_set_min_proto_version(ctx, ossl_version(c->ver)) || !SSL_CTX_set_max_proto_version(ctx, ossl_version(c->ver)))
    {
        snprintf(why, wn, "OpenSSL refuses protocol version %s", ver_name(c->ver));
        goto fail;
    }
    if (c->ver == V_TLS13)
    {
        if (!su || !su->oname[0] || !SSL_CTX_set_ciphersuites(ctx, su->oname))
        {
            snprintf(why, wn, "OpenSSL has no TLS 1.3 suite 0x%04x", c->suite);
            goto fail;
        }
    }
    else
    {
        char cl[96];
        if (!su || !su->oname[0])
        {
            snprintf(why, wn, "OpenSSL has no cipher 0x%04x", c->suite);
            goto fail;
        }
        snprintf(cl, sizeof(cl), "%s:@SECLEVEL=0", su->oname);
        if (!SSL_CTX_set_cipher_list(ctx, cl))
        {
            snprintf(why, wn, "SSL_CTX_set_cipher_list(%s) returned 0", su->oname);
            goto fail;
        }
    }
    if (c->group != G_DEF)
    {
        char gl[64];
        if (c->hrr && !o_is_server)
        {
            /* OpenSSL client: key_share only for the first group, the MatrixSSL server accepts only the second */
            snprintf(gl, sizeof(gl), "%s:%s", gname[c->group == G_P256 ? G_P384 : G_P256], gname[c->group]);
        }
        else
        {
            snprintf(gl, sizeof(gl), "%s", gname[c->group]);
            /* TLS <= 1.2: OpenSSL checks the curve of an ECDSA certificate MatrixSSL presents (server certificate, or client
               certificate under client-auth) against its own groups list ("wrong curve"), so that curve is listed too,
               after the target group (OpenSSL's preference order decides the ECDHE group in both roles) */
            if (c->ver != V_TLS13 && (!o_is_server || c->cauth) && cred_curve[c->cred] && cred_curve[c->cred] != c->group)
            {
                snprintf(gl + strlen(gl), sizeof(gl) - strlen(gl), ":%s", gname[cred_curve[c->cred]]);
            }
        }
        if (!SSL_CTX_set1_groups_list(ctx, gl))
        {
            snprintf(why, wn, "SSL_CTX_set1_groups_list(%s) returned 0", gl);
            goto fail;
        }
    }
    if (c->sig != S_DEF)
    {
        if (!SSL_CTX_set1_sigalgs_list(ctx, ossl_sigalgs(c)))
        {
            snprintf(why, wn, "SSL_CTX_set1_sigalgs_list(%s) returned 0", ossl_sigalgs(c));
            goto fail;
        }
    }
    X509_VERIFY_PARAM_set_time(SSL_CTX_get0_param(ctx), (time_t) MXV_T0);
    if (c->cred == CR_NONE)
    {
        if (o_is_server) SSL_CTX_set_psk_server_callback(ctx, psk_server_cb);
        else SSL_CTX_set_psk_client_callback(ctx, psk_client_cb);
    }
    else
    {
        /* own credential: server always, client when client-auth is on */
        if (o_is_server || c->cauth)
        {
            X509 *x = der_x509(cr->cert, cr->certlen);
            const unsigned char *kp = cr->key;
            EVP_PKEY *pk = d2i_AutoPrivateKey(NULL, &kp, (long) cr->keylen);
            if (!x || !pk || SSL_CTX_use_certificate(ctx, x) != 1 || SSL_CTX_use_PrivateKey(ctx, pk) != 1 || SSL_CTX_check_private_key(ctx) != 1)
            {
                snprintf(why, wn, "OpenSSL cannot load credential %s (%s)", cr->name, ERR_reason_error_string(ERR_peek_last_error()));
                X509_free(x); EVP_PKEY_free(pk);
                goto fail;
            }
            X509_free(x); EVP_PKEY_free(pk);
        }
        /* trust anchor for the peer: client verifies the server always, server verifies the client when client-auth */
        if (!o_is_server || c->cauth)
        {
            X509 *ca = der_x509(cr->ca, cr->calen);
            if (!ca || X509_STORE_add_cert(SSL_CTX_get_cert_store(ctx), ca) != 1)
            {
                snprintf(why, wn, "OpenSSL cannot load CA of %s", cr->name);
                X509_free(ca);
                goto fail;
            }
            if (o_is_server) SSL_CTX_add_client_CA(ctx, ca);
            X509_free(ca);
            SSL_CTX_set_verify(ctx, SSL_VERIFY_PEER | (o_is_server ? SSL_VERIFY_FAIL_IF_NO_PEER_CERT : 0), NULL);
        }
    }
    if (o_is_server)
    {
        static const unsigned char sidctx[] = "mxv-c10";
        SSL_CTX_set_session_id_context(ctx, sidctx, sizeof(sidctx) - 1);
        SSL_CTX_set_session_cache_mode(ctx, SSL_SESS_CACHE_SERVER);
        opts |= SSL_OP_CIPHER_SERVER_PREFERENCE;
        if (c->resm == M_ID || c->resm == M_NONE) opts |= SSL_OP_NO_TICKET;
    }
    else
    {
        SSL_CTX_set_session_cache_mode(ctx, SSL_SESS_CACHE_CLIENT | SSL_SESS_CACHE_NO_INTERNAL_STORE);
        opts |= SSL_OP_CIPHER_SERVER_PREFERENCE;   /* also makes OUR signature-algorithm order win when the client signs */
        if (c->resm == M_ID) opts |= SSL_OP_NO_TICKET;
        if (c->legacy) opts |= SSL_OP_LEGACY_SERVER_CONNECT;
    }
    if (dtls) opts |= SSL_OP_NO_QUERY_MTU;
    if (c->noems) opts |= SSL_OP_NO_EXTENDED_MASTER_SECRET;
    if (c->cookie && dtls && o_is_server)
    {
        opts |= SSL_OP_COOKIE_EXCHANGE;
        SSL_CTX_set_cookie_generate_cb(ctx, cookie_gen_cb);
        SSL_CTX_set_cookie_verify_cb(ctx, cookie_verify_cb);
    }
    SSL_CTX_set_options(ctx, opts);
    if (!o_is_server && !c->legacy)
    {
        SSL_CTX_clear_options(ctx, SSL_OP_LEGACY_SERVER_CONNECT);
    }
    SSL_CTX_set_info_callback(ctx, info_cb);
    return ctx;
fail:
    SSL_CTX_free(ctx);
    return NULL;
}

/* ---- MatrixSSL endpoint */
static int32 m_cert_cb(ssl_t *ssl, psX509Cert_t *cert, int32 alert)
{
    conn_t *k = (conn_t *) ssl->userPtr;
    (void) cert;
    if (k)
    {
        k->m_cert_cb_calls++;
        k->m_cert_cb_alert = alert;
    }
    return alert;
}

static int make_mkeys(const cell_t *c, sslKeys_t **out)
{
    sslKeys_t *k = NULL;
    const c10_cred_t *cr = &c10_creds[c->cred];
    int m_is_server = c->role == R_MSRV;
    int rc = 0;
    if (matrixSslNewKeys(&k, NULL) < 0)
    {
        return -1;
    }
    *out = k;
    if (c->cred == CR_NONE)
    {
        psk_select(c->group);
        rc = matrixSslLoadPsk(k, g_psk, (uint8_t) g_psk_len, (const unsigned char *) C10_PSK_ID, C10_PSK_ID_LEN);
    }
    else
    {
        int own = m_is_server || c->cauth;         /* MatrixSSL needs its own cert+key */
        int ca = !m_is_server || c->cauth;         /* MatrixSSL validates the peer */
        matrixSslLoadKeysOpts_t o;
        memset(&o, 0, sizeof(o));
        o.key_type = cr->mtype;
        rc = matrixSslLoadKeysMem(k, own ? cr->cert : NULL, own ? (int32) cr->certlen : 0, own ? cr->key : NULL, own ? (int32) cr->keylen : 0,
                ca ? cr->ca : NULL, ca ? (int32) cr->calen : 0, &o);
    }
    if (rc < 0)
    {
        return rc;
    }
    if (m_is_server && (c->resm == M_TICKET || c->resm == M_PSK13))
    {
        static const unsigned char name[16] = "mxv-ticket-key-1";
        static const unsigned char sk[32] = { 1, 2, 3, 4, 5, 6, 7, 8, 9, 10, 11, 12, 13, 14, 15, 16, 17, 18, 19, 20, 21, 22, 23, 24, 25, 26, 27, 28, 29, 30, 31, 32 };
        static const unsigned char hk[32] = { 32, 31, 30, 29, 28, 27, 26, 25, 24, 23, 22, 21, 20, 19, 18, 17, 16, 15, 14, 13, 12, 11, 10, 9, 8, 7, 6, 5, 4, 3, 2, 1 };
        rc = matrixSslLoadSessionTicketKeys(k, name, sk, 32, hk, 32);
    }
    return rc;
}

static int make_msession(conn_t *k)
{
    const cell_t *c = &k->c;
    sslSessOpts_t o;
    int rc;
    memset(&o, 0, sizeof(o));
    o.versionFlag = ver_flag(c->ver);
    o.userPtr = k;
    if (k->is_dtls)
    {
        matrixDtlsSetPmtu(-1);
    }
    if (c->ver == V_TLS13 && c->group != G_DEF)
    {
        uint16_t g[2];
        if (c->role == R_MCLI && c->hrr)
        {
            /* client offers a key share for another group first; the OpenSSL server only accepts c->group */
            g[0] = gid[c->group == G_P256 ? G_P384 : G_P256];
            g[1] = gid[c->group];
            rc = matrixSslSessOptsSetKeyExGroups(&o, g, 2, 1);
        }
        else if (c->role == R_MCLI || c->hrr)
        {
            g[0] = gid[c->group];
            rc = matrixSslSessOptsSetKeyExGroups(&o, g, 1, 1);
        }
        else
        {
            rc = 0;
        }
        if (rc < 0)
        {
            return rc;
        }
    }
    if (c->role == R_MSRV)
    {
        return matrixSslNewServerSession(&k->m, k->keys, c->cauth ? m_cert_cb : NULL, &o);
    }
    else
    {
        psCipher16_t cs[1];
        cs[0] = c->suite;
        if (c->resm == M_TICKET || c->resm == M_PSK13)
        {
            o.ticketResumption = 1;
        }
        return matrixSslNewClientSession(&k->m, k->keys, k->sid, cs, 1, m_cert_cb, NULL, NULL, NULL, &o);
    }
}

/* verbose: one line per record of a unit on the wire */
static void dump_unit(conn_t *k, const char *dir, const unsigned char *p, int n)
{
    int off = 0, hdr = k->is_dtls ? 13 : 5;
    if (!verbose)
    {
        return;
    }
    fprintf(stderr, "  %s %d bytes (fnv %08x):", dir, n, (unsigned) fnv1a(p, (size_t) n, FNV0));
    while (off + hdr <= n)
    {
        int rl = (p[off + hdr - 2] << 8) | p[off + hdr - 1];
        fprintf(stderr, " [type %d ver %02x%02x", p[off], p[off + 1], p[off + 2]);
        if (k->is_dtls) fprintf(stderr, " epoch %d seq %d", (p[off + 3] << 8) | p[off + 4], (p[off + 9] << 8) | p[off + 10]);
        fprintf(stderr, " len %d", rl);
        if (p[off] == 22 && off + hdr < n && (!k->is_dtls || (p[off + 3] == 0 && p[off + 4] == 0))) fprintf(stderr, " hs %d", p[off + hdr]);
        if (p[off] == 21 && rl == 2) fprintf(stderr, " alert %d/%d", p[off + hdr], p[off + hdr + 1]);
        fprintf(stderr, "]");
        off += hdr + rl;
    }
    fprintf(stderr, "\n");
}

/* TLS <= 1.2: remember which signature algorithms the MatrixSSL server's (plaintext) CertificateRequest offers */
static void note_cert_request(conn_t *k, const unsigned char *p, int n)
{
    int off = 0, hdr = k->is_dtls ? 13 : 5, hh = k->is_dtls ? 12 : 4;
    while (off + hdr <= n)
    {
        int rl = (p[off + hdr - 2] << 8) | p[off + hdr - 1];
        const unsigned char *b = p + off + hdr, *e = b + rl;
        if (off + hdr + rl > n)
        {
            break;
        }
        if (p[off] == SSL_RECORD_TYPE_HANDSHAKE && (!k->is_dtls || (p[off + 3] == 0 && p[off + 4] == 0)) && rl > hh + 3 && b[0] == SSL_HS_CERTIFICATE_REQUEST)
        {
            int nt, sl, i;
            b += hh;
            nt = b[0];
            b += 1 + nt;
            k->m_cr_seen = 1;
            if ((k->c.ver == V_TLS12 || k->c.ver == V_DTLS12) && b + 2 <= e)
            {
                sl = (b[0] << 8) | b[1];
                b += 2;
                for (i = 0; i + 1 < sl && b + i + 1 < e && k->m_cr_nsig < 32; i += 2)
                {
                    k->m_cr_sigalgs[k->m_cr_nsig++] = (uint16_t) ((b[i] << 8) | b[i + 1]);
                }
            }
            return;
        }
        off += hdr + rl;
    }
}
static int cr_offers(const conn_t *k, uint16_t id)
{
    int i;
    for (i = 0; i < k->m_cr_nsig; i++)
    {
        if (k->m_cr_sigalgs[i] == id) return 1;
    }
    return 0;
}

/* drain MatrixSSL output into OpenSSL's read BIO; returns number of units moved */
static void o_step(conn_t *k);
static int m_flush(conn_t *k)
{
    unsigned char *out;
    int32 n;
    int guard = 0, moved = 0;
    if (!k->m)
    {
        return 0;
    }
    for (;;)
    {
        int rc;
        if (k->is_dtls)
        {
            if (k->m->outlen <= 0) break;       /* an empty outbuf + GetOutdata would mean "retransmit" */
            n = matrixDtlsGetOutdata(k->m, &out);
        }
        else
        {
            n = matrixSslGetOutdata(k->m, &out);
        }
        if (n <= 0 || guard++ > 256)
        {
            if (n < 0)
            {
                klog(k, "  matrix: GetOutdata error %d\n", n);
                if (!k->m_err) k->m_err = n;
            }
            break;
        }
        if (!k->is_dtls)
        {
            /* note plaintext alerts */
            int off = 0;
            while (off + 5 <= n)
            {
                int rl = 5 + ((out[off + 3] << 8) | out[off + 4]);
                if (out[off] == SSL_RECORD_TYPE_ALERT && rl == 7 && off + 7 <= n)
                {
                    k->m_alert_sent_lvl = out[off + 5];
                    k->m_alert_sent_desc = out[off + 6];
                }
                off += rl;
            }
        }
        else if (n == 15 && out[0] == SSL_RECORD_TYPE_ALERT && out[3] == 0 && out[4] == 0)
        {
            k->m_alert_sent_lvl = out[13];
            k->m_alert_sent_desc = out[14];
        }
        dump_unit(k, "matrix  ->", out, n);
        if (k->c.role == R_MSRV && k->c.ver != V_TLS13 && k->c.cauth && !k->m_cr_seen)
        {
            note_cert_request(k, out, n);
        }
        BIO_write(k->rbio, out, n);
        moved++;
        k->actions++;
        rc = k->is_dtls ? matrixDtlsSentData(k->m, (uint32) n) : matrixSslSentData(k->m, (uint32) n);
        if (rc == MATRIXSSL_HANDSHAKE_COMPLETE)
        {
            k->m_complete = 1;
            klog(k, "  matrix: handshake complete (after send)\n");
        }
        else if (rc == MATRIXSSL_REQUEST_CLOSE)
        {
            k->m_closed = 1;
        }
        else if (rc < 0)
        {
            klog(k, "  matrix: SentData error %d\n", rc);
            if (!k->m_err) k->m_err = rc;
        }
        if (k->is_dtls)
        {
            o_step(k);                          /* one datagram at a time */
        }
    }
    return moved;
}

static int m_feed(conn_t *k, const unsigned char *p, int len)
{
    int off = 0, rc = 0, guard = 0, first = 1;
    if (!k->m)
    {
        return -1;
    }
    k->actions++;
    while (off < len || first)
    {
        unsigned char *rb, *pt = NULL;
        uint32 ptlen = 0;
        int32 cap = matrixSslGetReadbuf(k->m, &rb);
        int n;
        first = 0;
        if (cap <= 0)
        {
            if (!k->m_err) k->m_err = cap ? cap : -1;
            return -1;
        }
        n = len - off < cap ? len - off : cap;
        memcpy(rb, p + off, (size_t) n);
        off += n;
        rc = matrixSslReceivedData(k->m, (uint32) n, &pt, &ptlen);
        if (verbose) fprintf(stderr, "  matrix: ReceivedData(%d) -> %d (hsState %d, outlen %d, inlen %d)\n", n, rc, k->m->hsState, k->m->outlen, k->m->inlen);
        for (;;)
        {
            if (++guard > 8192)
            {
                if (!k->m_err) k->m_err = -9999;
                return -1;
            }
            if (rc == MATRIXSSL_APP_DATA || rc == MATRIXSSL_APP_DATA_COMPRESSED)
            {
                buf_add(&k->m_app, pt, ptlen);
                if (matrixSslHandshakeIsComplete(k->m) == PS_TRUE) k->m_complete = 1;
                rc = matrixSslProcessedData(k->m, &pt, &ptlen);
                continue;
            }
            if (rc == MATRIXSSL_RECEIVED_ALERT)
            {
                int lvl = ptlen >= 1 ? pt[0] : -1, desc = ptlen >= 2 ? pt[1] : -1;
                klog(k, "  matrix: received alert %d/%s\n", lvl, alert_name(desc));
                if (desc == SSL_ALERT_CLOSE_NOTIFY)
                {
                    k->m_closed = 1;
                }
                else
                {
                    k->m_alert_recv_lvl = lvl;
                    k->m_alert_recv_desc = desc;
                    if (lvl == SSL_ALERT_LEVEL_FATAL) k->m_closed = 1;
                }
                rc = matrixSslProcessedData(k->m, &pt, &ptlen);
                continue;
            }
            if (rc == MATRIXSSL_REQUEST_SEND)
            {
                m_flush(k);
                if (k->m->inlen > 0 && !k->is_dtls)
                {
                    /* more records are waiting behind the one that made us answer */
                    rc = matrixSslReceivedData(k->m, 0, &pt, &ptlen);
                    continue;
                }
            }
            break;
        }
        if (rc == MATRIXSSL_HANDSHAKE_COMPLETE)
        {
            k->m_complete = 1;
            klog(k, "  matrix: handshake complete\n");
        }
        else if (rc == MATRIXSSL_REQUEST_CLOSE)
        {
            k->m_closed = 1;
        }
        else if (rc < 0)
        {
            if (!k->m_err) k->m_err = rc;
            klog(k, "  matrix: ReceivedData error %d\n", rc);
            m_flush(k);
            return rc;
        }
    }
    m_flush(k);
    return rc;
}

/* let OpenSSL make progress: handshake, then read whatever application data is there */
static void o_step(conn_t *k)
{
    static unsigned char buf[70000];
    if (k->o_fatal || !k->o)
    {
        return;
    }
    if (!k->o_done)
    {
        int rc;
        ERR_clear_error();
        rc = SSL_do_handshake(k->o);
        if (rc == 1)
        {
            k->o_done = 1;
            klog(k, "  openssl: handshake complete\n");
        }
        else
        {
            int e = SSL_get_error(k->o, rc);
            if (e != SSL_ERROR_WANT_READ && e != SSL_ERROR_WANT_WRITE)
            {
                k->o_fatal = 1;
                k->o_err = ERR_peek_last_error();
                ERR_error_string_n(k->o_err, k->o_errstr, sizeof(k->o_errstr));
                klog(k, "  openssl: handshake error %d: %s\n", e, k->o_errstr);
                if (verbose) ERR_print_errors_fp(stderr);
            }
        }
    }
    if (k->o_done && !k->o_closed)
    {
        for (;;)
        {
            int n;
            ERR_clear_error();
            n = SSL_read(k->o, buf, sizeof(buf));
            if (n > 0)
            {
                buf_add(&k->o_app, buf, (size_t) n);
                continue;
            }
            else
            {
                int e = SSL_get_error(k->o, n);
                if (e == SSL_ERROR_ZERO_RETURN)
                {
                    k->o_closed = 1;
                }
                else if (e != SSL_ERROR_WANT_READ && e != SSL_ERROR_WANT_WRITE)
                {
                    k->o_fatal = 1;
                    k->o_err = ERR_peek_last_error();
                    ERR_error_string_n(k->o_err, k->o_errstr, sizeof(k->o_errstr));
                    klog(k, "  openssl: read error %d: %s\n", e, k->o_errstr);
                    if (verbose) ERR_print_errors_fp(stderr);
                }
                break;
            }
        }
    }
}

/* move units until nothing moves any more */
static void pump(conn_t *k)
{
    int iter;
    for (iter = 0; iter < 400; iter++)
    {
        int progress = 0;
        o_step(k);
        progress += m_flush(k);
        o_step(k);
        while (k->q.n > 0)
        {
            unit_t u = k->q.u[k->q.head];
            k->q.head = (k->q.head + 1) % 512;
            k->q.n--;
            dump_unit(k, "openssl ->", u.p, u.len);
            if (k->m_err >= 0)
            {
                m_feed(k, u.p, u.len);
            }
            free(u.p);
            progress++;
            if (k->is_dtls)
            {
                o_step(k);
            }
        }
        if (!progress)
        {
            break;
        }
    }
}

static void conn_close(conn_t *k)
{
    if (k->m)
    {
        matrixSslDeleteSession(k->m);
        k->m = NULL;
    }
    if (k->o)
    {
        SSL_free(k->o);  /* frees both BIOs */
        k->o = NULL;
    }
    while (k->q.n > 0)
    {
        free(k->q.u[k->q.head].p);
        k->q.head = (k->q.head + 1) % 512;
        k->q.n--;
    }
    buf_clear(&k->o_app);
    buf_clear(&k->m_app);
}

static void payload_fill(unsigned char *p, int n, int dir, int conn)
{
    int i;
    uint32_t x = (uint32_t) (n * 2654435761u) ^ (uint32_t) (dir * 40503u + conn * 977u + 12345u);
    for (i = 0; i < n; i++)
    {
        x = x * 1664525u + 1013904223u;
        p[i] = (unsigned char) (x >> 24);
    }
}

typedef struct { char symptom[120]; char detail[300]; int min_bad_size, small_ok; } cres_t;

static void set_res(cres_t *r, const char *symptom, const char *fmt, ...) __attribute__((format(printf, 3, 4)));
static void set_res(cres_t *r, const char *symptom, const char *fmt, ...)
{
    va_list ap;
    if (r->symptom[0])
    {
        return;
    }
    snprintf(r->symptom, sizeof(r->symptom), "%s", symptom);
    va_start(ap, fmt);
    vsnprintf(r->detail, sizeof(r->detail), fmt, ap);
    va_end(ap);
}

static void sanitize(char *s)
{
    for (; *s; s++)
    {
        if (*s == ' ' || *s == '|' || *s == '\n') *s = '_';
    }
}

/* classify a failed handshake: who gave up, with which alert / error */
static void classify_hs_failure(conn_t *k, cres_t *r, const char *phase)
{
    char sym[120], reason[100] = "";
    const char *ors = k->o_err ? ERR_reason_error_string(k->o_err) : NULL;
    if (ors)
    {
        snprintf(reason, sizeof(reason), "%s", ors);
        sanitize(reason);
    }
    if (k->o_alert_recv >= 0 && (k->o_alert_recv >> 8) == 2)
    {
        snprintf(sym, sizeof(sym), "%s-failed:matrix-sent-%s", phase, alert_name(k->o_alert_recv & 0xff));
    }
    else if (k->m_alert_sent_lvl == 2)
    {
        snprintf(sym, sizeof(sym), "%s-failed:matrix-sent-%s", phase, alert_name(k->m_alert_sent_desc));
    }
    else if (k->o_alert_sent >= 0 && (k->o_alert_sent >> 8) == 2)
    {
        snprintf(sym, sizeof(sym), "%s-failed:openssl-sent-%s:%s", phase, alert_name(k->o_alert_sent & 0xff), reason[0] ? reason : "-");
    }
    else if (k->o_fatal)
    {
        snprintf(sym, sizeof(sym), "%s-failed:openssl-error:%s", phase, reason[0] ? reason : "-");
    }
    else if (k->m_err < 0)
    {
        snprintf(sym, sizeof(sym), "%s-failed:matrix-error-%d", phase, k->m_err);
    }
    else
    {
        snprintf(sym, sizeof(sym), "%s-stalled:matrix-%s:openssl-%s", phase, k->m_complete ? "done" : "waiting", k->o_done ? "done" : "waiting");
    }
    set_res(r, sym, "MatrixSSL rc=%d complete=%d sent-alert=%d/%d got-alert=%d/%d cert-cb-alert=%d; OpenSSL done=%d err='%s' sent-alert=%d got-alert=%d",
        k->m_err, k->m_complete, k->m_alert_sent_lvl, k->m_alert_sent_desc, k->m_alert_recv_lvl, k->m_alert_recv_desc, k->m_cert_cb_alert,
        k->o_done, k->o_errstr, k->o_alert_sent, k->o_alert_recv);
}

/* Run one connection of a cell (conn 0 = first, 1 = resumed).  r->symptom empty = all good. */
static void run_conn(conn_t *k, int conn, cres_t *r)
{
    const cell_t *c = &k->c;
    const int *sizes = k->is_dtls ? dtls_sizes : tls_sizes;
    int nsizes = k->is_dtls ? 4 : 5, i, rc;
    static unsigned char pl[40000];
    int want_resumed = conn == 1 && !c->declined;

    k->o_done = k->o_fatal = k->o_closed = 0;
    k->o_err = 0; k->o_errstr[0] = 0;
    k->o_alert_sent = k->o_alert_recv = -1;
    k->m_complete = k->m_err = k->m_closed = 0;
    k->m_alert_recv_lvl = k->m_alert_recv_desc = -1;
    k->m_alert_sent_lvl = k->m_alert_sent_desc = -1;
    k->m_cert_cb_calls = 0; k->m_cert_cb_alert = 0;
    k->m_cr_nsig = k->m_cr_seen = 0;
    memset(&k->q, 0, sizeof(k->q));

    klog(k, " connection %d (%s)\n", conn, conn ? mname[c->resm] : "full handshake");
    k->o = SSL_new(k->octx);
    if (!k->o)
    {
        set_res(r, "INTERNAL:SSL_new", "SSL_new failed");
        return;
    }
    SSL_set_ex_data(k->o, ex_idx, k);
    k->rbio = BIO_new(BIO_s_mem());
    k->wbio = BIO_new(q_meth);
    BIO_set_data(k->wbio, &k->q);
    BIO_set_mem_eof_return(k->rbio, -1);
    SSL_set_bio(k->o, k->rbio, k->wbio);
    if (k->is_dtls)
    {
        SSL_set_mtu(k->o, 1400);
    }
    if (c->role == R_MCLI)
    {
        SSL_set_accept_state(k->o);
    }
    else
    {
        SSL_set_connect_state(k->o);
        if (conn == 1 && k->osess)
        {
            SSL_set_session(k->o, k->osess);
        }
    }
    rc = make_msession(k);
    if (rc < 0)
    {
        set_res(r, "INTERNAL:matrix-session", "matrixSslNew%sSession returned %d", c->role == R_MSRV ? "Server" : "Client", rc);
        return;
    }

    pump(k);
    if (!(k->o_done && k->m_complete && matrixSslHandshakeIsComplete(k->m) == PS_TRUE) || k->o_fatal || k->m_err < 0)
    {
        if (c->role == R_MSRV && c->cauth && c->sig != S_DEF && k->m_cr_seen && k->m_cr_nsig > 0 && !cr_offers(k, sigs[c->sig].id) &&
            !cr_offers(k, sigs[cred_chain[c->cred]].id))
        {
            /* the OpenSSL client was restricted to schemes the MatrixSSL server's CertificateRequest does not list:
               no client signature is possible, the cell is outside the mutually supported set */
            set_res(r, "UNSUPPORTED", "MatrixSSL's CertificateRequest offers none of the signature schemes the OpenSSL client was restricted to (%s)", ossl_sigalgs(c));
            return;
        }
        classify_hs_failure(k, r, conn ? "resumed-handshake" : "handshake");
        return;
    }

    /* ---- what was negotiated, as seen by the independent side */
    {
        const SSL_CIPHER *oc = SSL_get_current_cipher(k->o);
        psCipher16_t mc = 0;
        if (SSL_version(k->o) != ossl_version(c->ver))
        {
            set_res(r, "wrong-version", "OpenSSL reports %s", SSL_get_version(k->o));
            return;
        }
        if (!oc || SSL_CIPHER_get_protocol_id(oc) != c->suite)
        {
            set_res(r, "wrong-suite", "OpenSSL reports %s", oc ? SSL_CIPHER_get_name(oc) : "(none)");
            return;
        }
        if (matrixSslGetNegotiatedCiphersuite(k->m, &mc) < 0 || mc != c->suite)
        {
            set_res(r, "wrong-suite", "MatrixSSL reports 0x%04x", mc);
            return;
        }
        if (c->ver != V_TLS13 && (int) SSL_get_extms_support(k->o) != !c->noems)
        {
            set_res(r, "extended-master-secret-mismatch", "SSL_get_extms_support=%d although OpenSSL %s it and MatrixSSL offers/accepts it by default",
                (int) SSL_get_extms_support(k->o), c->noems ? "did not negotiate" : "offered/accepted");
            return;
        }
        if (conn == 1 && c->declined)
        {
            if (SSL_session_reused(k->o) || matrixSslIsResumedSession(k->m) == PS_TRUE)
            {
                set_res(r, "resumed-although-server-lost-the-state", "SSL_session_reused=%d matrixSslIsResumedSession=%d", SSL_session_reused(k->o), matrixSslIsResumedSession(k->m) == PS_TRUE);
                return;
            }
        }
        else if (want_resumed)
        {
            int ores = SSL_session_reused(k->o), mres = matrixSslIsResumedSession(k->m) == PS_TRUE;
            if (!ores || !mres)
            {
                char sym[64];
                snprintf(sym, sizeof(sym), "not-resumed:openssl-%s:matrix-%s", ores ? "resumed" : "full", mres ? "resumed" : "full");
                set_res(r, sym, "resumption by %s was asked for; SSL_session_reused=%d matrixSslIsResumedSession=%d", mname[c->resm], ores, mres);
                return;
            }
        }
        else
        {
            if (SSL_session_reused(k->o) || matrixSslIsResumedSession(k->m) == PS_TRUE)
            {
                set_res(r, "resumed-unasked", "first connection reports resumption");
                return;
            }
            if (c->group != G_DEF && suite_by_id(c->suite)->type != CS_RSA && suite_by_id(c->suite)->type != CS_PSK)
            {
                int g = SSL_get_negotiated_group(k->o);
                if (g != gnid[c->group])
                {
                    set_res(r, "wrong-group", "OpenSSL reports group nid %d (%s), expected %s", g, OBJ_nid2sn(g) ? OBJ_nid2sn(g) : "?", gname[c->group]);
                    return;
                }
            }
            /* signature scheme MatrixSSL used (ServerKeyExchange / CertificateVerify), as seen by OpenSSL */
            if (c->sig != S_DEF)
            {
                int m_signs = (c->role == R_MSRV) ? suite_by_id(c->suite)->type != CS_RSA : c->cauth;
                int o_signs = (c->role == R_MCLI) ? suite_by_id(c->suite)->type != CS_RSA : c->cauth;
                if (m_signs)
                {
                    int pk = 0, md = 0;
                    SSL_get_peer_signature_type_nid(k->o, &pk);
                    SSL_get_peer_signature_nid(k->o, &md);
                    if (!sig_acceptable(c, pk, md))
                    {
                        set_res(r, "wrong-sigalg:matrix-signed", "OpenSSL reports peer signature type %s digest %s, offered %s",
                            OBJ_nid2sn(pk) ? OBJ_nid2sn(pk) : "?", OBJ_nid2sn(md) ? OBJ_nid2sn(md) : "?", ossl_sigalgs(c));
                        return;
                    }
                }
                if (o_signs)
                {
                    /* the cell is only meaningful if OpenSSL really signed with the target scheme */
                    int pk = 0, md = 0;
                    SSL_get_signature_type_nid(k->o, &pk);
                    SSL_get_signature_nid(k->o, &md);
                    if (pk != sigs[c->sig].pk_nid || md != sigs[c->sig].md_nid)
                    {
                        const sig_t *ch = &sigs[cred_chain[c->cred]];
                        if (c->role == R_MSRV && c->ver != V_TLS13 && k->m_cr_nsig > 0 && !cr_offers(k, sigs[c->sig].id) && pk == ch->pk_nid && md == ch->md_nid)
                        {
                            /* MatrixSSL's CertificateRequest does not list the target scheme; OpenSSL used the other offered one */
                            k->target_sig_not_used = 1;
                        }
                        else
                        {
                            set_res(r, "INTERNAL:openssl-signed-with-another-scheme", "OpenSSL signed with type %s digest %s, wanted %s",
                                OBJ_nid2sn(pk) ? OBJ_nid2sn(pk) : "?", OBJ_nid2sn(md) ? OBJ_nid2sn(md) : "?", sigs[c->sig].name);
                            return;
                        }
                    }
                }
            }
            if (c->cauth)
            {
                if (c->role == R_MCLI)
                {
                    X509 *pc = SSL_get1_peer_certificate(k->o);
                    if (!pc || SSL_get_verify_result(k->o) != X509_V_OK)
                    {
                        set_res(r, "client-auth-not-performed", "OpenSSL server: peer cert %s verify result %ld", pc ? "present" : "absent", SSL_get_verify_result(k->o));
                        X509_free(pc);
                        return;
                    }
                    X509_free(pc);
                }
                else if (k->m_cert_cb_calls == 0)
                {
                    set_res(r, "client-auth-not-performed", "MatrixSSL server never ran its certificate callback");
                    return;
                }
            }
        }
    }

    /* ---- payloads, every size, both directions */
    r->small_ok = 0;
    for (i = 0; i < nsizes; i++)
    {
        int n = sizes[i], w;
        /* MatrixSSL -> OpenSSL */
        payload_fill(pl, n, 0, conn);
        buf_clear(&k->o_app);
        rc = matrixSslEncodeToOutdata(k->m, pl, (uint32) n);
        if (rc < 0)
        {
            set_res(r, "payload-matrix-to-openssl:encode-error", "matrixSslEncodeToOutdata(%d bytes) returned %d", n, rc);
            r->min_bad_size = n;
            return;
        }
        pump(k);
        if (k->o_fatal || k->m_err < 0 || (int) k->o_app.len != n || memcmp(k->o_app.p, pl, (size_t) n) != 0)
        {
            char sym[120];
            if (k->o_fatal || k->m_err < 0 || k->o_alert_sent >= 0 || k->o_alert_recv >= 0)
            {
                cres_t t;
                memset(&t, 0, sizeof(t));
                classify_hs_failure(k, &t, "payload-matrix-to-openssl");
                snprintf(sym, sizeof(sym), "%s", t.symptom);
            }
            else
            {
                snprintf(sym, sizeof(sym), "payload-matrix-to-openssl:%s", (int) k->o_app.len != n ? "length-mismatch" : "bytes-differ");
            }
            set_res(r, sym, "%d bytes sent by MatrixSSL, OpenSSL delivered %d (%s)", n, (int) k->o_app.len, k->o_errstr);
            r->min_bad_size = n;
            return;
        }
        /* OpenSSL -> MatrixSSL */
        payload_fill(pl, n, 1, conn);
        buf_clear(&k->m_app);
        ERR_clear_error();
        w = SSL_write(k->o, pl, n);
        if (w != n)
        {
            unsigned long e = ERR_peek_last_error();
            set_res(r, "payload-openssl-to-matrix:write-error", "SSL_write(%d) returned %d (%s)", n, w, e ? ERR_reason_error_string(e) : "-");
            r->min_bad_size = n;
            return;
        }
        pump(k);
        if (k->o_fatal || k->m_err < 0 || (int) k->m_app.len != n || memcmp(k->m_app.p, pl, (size_t) n) != 0)
        {
            char sym[120];
            if (k->o_fatal || k->m_err < 0 || k->o_alert_sent >= 0 || k->o_alert_recv >= 0)
            {
                cres_t t;
                memset(&t, 0, sizeof(t));
                classify_hs_failure(k, &t, "payload-openssl-to-matrix");
                snprintf(sym, sizeof(sym), "%s", t.symptom);
            }
            else
            {
                snprintf(sym, sizeof(sym), "payload-openssl-to-matrix:%s", (int) k->m_app.len != n ? "length-mismatch" : "bytes-differ");
            }
            set_res(r, sym, "%d bytes sent by OpenSSL, MatrixSSL delivered %d (rc %d)", n, (int) k->m_app.len, k->m_err);
            r->min_bad_size = n;
            return;
        }
        if (i == 0)
        {
            r->small_ok = 1;
        }
    }
    if (k->m_alert_recv_desc >= 0 || k->o_alert_recv >= 0 || k->o_alert_sent >= 0)
    {
        set_res(r, "unexpected-alert", "matrix got %d/%d, openssl got %d sent %d", k->m_alert_recv_lvl, k->m_alert_recv_desc, k->o_alert_recv, k->o_alert_sent);
        return;
    }

    /* ---- remember the session (OpenSSL client) and close in an orderly way: client first */
    if (c->role == R_MSRV && conn == 0 && c->resm != M_NONE)
    {
        k->osess = SSL_get1_session(k->o);
    }
    if (c->role == R_MCLI)
    {
        matrixSslEncodeClosureAlert(k->m);
        pump(k);
        SSL_shutdown(k->o);
        pump(k);
    }
    else
    {
        SSL_shutdown(k->o);
        pump(k);
        matrixSslEncodeClosureAlert(k->m);
        pump(k);
        SSL_shutdown(k->o);
    }
    if (!k->o_closed || !k->m_closed)
    {
        set_res(r, "close-notify-not-delivered", "openssl saw close_notify: %d, matrix saw close_notify: %d", k->o_closed, k->m_closed);
        return;
    }
}

/* Run a whole cell: 0 = ok, 1 = violation, 2 = internal, 3 = outside "both support" (why filled) */
static int run_cell(const cell_t *c, cres_t *r, char *why, size_t wn, uint32_t *actions)
{
    static conn_t K;
    conn_t *k = &K;
    int rc, nconn = c->resm == M_NONE ? 1 : 2, i, ret = 0;

    memset(k, 0, sizeof(*k));
    memset(r, 0, sizeof(*r));
    k->c = *c;
    k->is_dtls = ver_is_dtls(c->ver);
    buf_init(&k->o_app);
    buf_init(&k->m_app);
    env_reset(0xC10 + (uint64_t) g_seed);
    orng_reset(fnv1a(c, sizeof(*c), FNV0) + (uint64_t) g_seed);
    if (world_open() < 0)
    {
        set_res(r, "INTERNAL:matrixSslOpen", "matrixSslOpen failed");
        return 2;
    }
    q_setup();
    if (ex_idx < 0)
    {
        ex_idx = SSL_get_ex_new_index(0, NULL, NULL, NULL, NULL);
    }
    k->octx = make_octx(c, why, wn);
    if (!k->octx)
    {
        return 3;
    }
    rc = make_mkeys(c, &k->keys);
    if (rc < 0)
    {
        snprintf(why, wn, "MatrixSSL cannot load credential %s (rc %d)", c10_creds[c->cred].name, rc);
        ret = 3;
        goto done;
    }
    if (c->role == R_MCLI)
    {
        matrixSslNewSessionId(&k->sid, NULL);
    }
    for (i = 0; i < nconn && !r->symptom[0]; i++)
    {
        run_conn(k, i, r);
        conn_close(k);
        if (i == 0 && c->declined && !r->symptom[0])
        {
            if (c->role == R_MCLI)
            {
                /* OpenSSL server: other ticket keys (name, AES key, HMAC key: 16 + 32 + 32 bytes), no cached sessions */
                unsigned char tk[80];
                memset(tk, 0x7b, sizeof(tk));
                SSL_CTX_set_tlsext_ticket_keys(k->octx, tk, sizeof(tk));
                SSL_CTX_flush_sessions(k->octx, 0x7fffffffL);
            }
            else
            {
                /* MatrixSSL server: the ticket key is replaced by another one (a second node of a cluster, a rotation) */
                static const unsigned char name1[16] = "mxv-ticket-key-1", name2[16] = "mxv-ticket-key-2";
                unsigned char sk[32], hk[32];
                memset(sk, 0x3c, sizeof(sk)); memset(hk, 0x5d, sizeof(hk));
                if (matrixSslLoadSessionTicketKeys(k->keys, name2, sk, 32, hk, 32) < 0 || matrixSslDeleteSessionTicketKey(k->keys, (unsigned char *) name1) < 0)
                {
                    set_res(r, "INTERNAL:ticket-key-rotation", "could not replace the MatrixSSL session ticket key");
                }
            }
        }
    }
    if (r->symptom[0])
    {
        ret = strncmp(r->symptom, "INTERNAL", 8) == 0 ? 2 : 1;
        if (!strcmp(r->symptom, "UNSUPPORTED"))
        {
            snprintf(why, wn, "%s", r->detail);
            ret = 3;
        }
    }
    else if (k->target_sig_not_used)
    {
        r->min_bad_size = -1;      /* marker for the outcome label */
    }
done:
    *actions += k->actions;
    if (k->osess) SSL_SESSION_free(k->osess);
    if (k->sid) matrixSslDeleteSessionId(k->sid);
    if (k->keys) matrixSslDeleteKeys(k->keys);
    SSL_CTX_free(k->octx);
    buf_free(&k->o_app);
    buf_free(&k->m_app);
    return ret;
}

/* -------------------------------------------------------------------------------- descriptors, keys */
static const char *gsel(const cell_t *c)
{
    static char pl[4][16];
    static int k;
    if (c->cred == CR_NONE && c->ver != V_TLS13)
    {
        k = (k + 1) & 3;
        snprintf(pl[k], sizeof(pl[k]), "psk%d", psk_lens[c->group]);
        return pl[k];
    }
    return gname[c->group];
}
static void cell_human(const cell_t *c, char *out, size_t n)
{
    snprintf(out, n, "%s %s %s group=%s%s cred=%s sig=%s %s %s%s%s", rname[c->role], ver_name(c->ver), suite_name(c->suite),
        gsel(c), c->hrr ? "+hrr" : "", c10_creds[c->cred].name, sigs[c->sig].name, c->cauth ? "client-auth" : "no-client-auth",
        c->declined ? (c->resm == M_ID ? "session-id-declined(cache-flushed)" : c->resm == M_TICKET ? "ticket-declined(key-replaced)" : "tls13-psk-declined(key-replaced)") : mname[c->resm],
        c->noems ? " no-ems" : (c->cookie ? " cookie-exchange" : ""),
        (c->role == R_MSRV && c->ver != V_TLS13) ? (c->legacy ? " openssl-legacy-server-connect" : " openssl-defaults") : "");
}
static void cell_desc(const cell_t *c, char *out, size_t n)
{
    char h[180];
    cell_human(c, h, sizeof(h));
    snprintf(out, n, "r=%d;v=%d;s=%04x;g=%d;h=%d;k=%d;a=%d;c=%d;m=%d;l=%d;e=%d;q=%d;d=%d (%s)", c->role, c->ver, c->suite, c->group, c->hrr, c->cred, c->sig,
        c->cauth, c->resm, c->legacy, c->noems, c->cookie, c->declined, h);
}
static int cell_parse(const char *s, cell_t *c)
{
    unsigned su;
    memset(c, 0, sizeof(*c));
    if (sscanf(s, "r=%d;v=%d;s=%x;g=%d;h=%d;k=%d;a=%d;c=%d;m=%d;l=%d", &c->role, &c->ver, &su, &c->group, &c->hrr, &c->cred, &c->sig,
            &c->cauth, &c->resm, &c->legacy) != 10)
    {
        return -1;
    }
    c->suite = (uint16_t) su;
    {
        const char *e = strstr(s, ";e=");
        c->noems = e ? atoi(e + 3) != 0 : 0;
        e = strstr(s, ";q=");
        c->cookie = e ? atoi(e + 3) != 0 : 0;
        e = strstr(s, ";d=");
        c->declined = e ? atoi(e + 3) != 0 : 0;
    }
    if (c->role < 0 || c->role > 1 || c->ver < V_TLS11 || c->ver > V_DTLS12 || c->group < 0 || c->group >= G_N || c->cred < 0 || c->cred >= CR_N ||
        c->sig < 0 || c->sig >= S_N || c->resm < 0 || c->resm >= M_N || !suite_by_id(c->suite))
    {
        return -1;
    }
    return 0;
}

static int base_cred_for(const cell_t *c)
{
    const suite_t *s = suite_by_id(c->suite);
    if (s->type == CS_PSK) return CR_NONE;
    if (s->type == CS_ECDHE_ECDSA) return CR_EC256;
    return CR_RSA;
}

static int first_of_class[V_NVER][16][3];   /* [ver][kx type][cipher class] -> suite id + 1 */
static uint16_t base_suite[V_NVER][16];

/* does the single-dimension cell t also fail when the version's base suite of the same key-exchange class is used? */
static int fails_with_base_suite(const cell_t *t)
{
    cell_t u = *t;
    cres_t r;
    char why[200];
    uint32_t act = 0;
    uint16_t bs = base_suite[t->ver][suite_by_id(t->suite)->type];
    if (!bs || bs == t->suite)
    {
        return 1;
    }
    u.suite = bs;
    return run_cell(&u, &r, why, sizeof(why), &act) == 1;
}

/* Attribute a failing cell to the smallest feature that reproduces the failure: first the suite with every other
 * dimension at its base value, then each non-base dimension alone (named together with the suite when the version's
 * base suite does not show it); else the combination. */
static void attribute(const cell_t *c, const cres_t *r0, char *feature, size_t fn, cres_t *rk)
{
    cell_t b = *c, t;
    cres_t r;
    char why[200], f[120] = "";
    uint32_t act = 0;
    int rc, found = 0;
    *rk = *r0;
    b.group = G_DEF; b.hrr = 0; b.cred = base_cred_for(c); b.sig = S_DEF; b.cauth = 0; b.resm = M_NONE; b.noems = 0; b.cookie = 0;
    if (!memcmp(&b, c, sizeof(b)))
    {
        snprintf(feature, fn, "%s", suite_name(c->suite));
        return;
    }
    rc = run_cell(&b, &r, why, sizeof(why), &act);
    if (rc == 1)
    {
        snprintf(feature, fn, "%s", suite_name(c->suite));
        *rk = r;
        return;
    }
    if (!found && c->group != G_DEF)
    {
        t = b; t.group = c->group; t.hrr = c->hrr;
        if (run_cell(&t, &r, why, sizeof(why), &act) == 1)
        {
            cell_t t2 = t;
            cres_t r2;
            found = 1;
            *rk = r;
            /* is it this group, or any group (then the retry itself is the feature)? */
            t2.group = c->group == G_P256 ? G_P384 : G_P256;
            if (c->hrr && run_cell(&t2, &r2, why, sizeof(why), &act) == 1)
            {
                snprintf(f, sizeof(f), "hello-retry-request");
            }
            else
            {
                snprintf(f, sizeof(f), "group=%s%s", gsel(c), c->hrr ? "+hrr" : "");
            }
        }
    }
    if (!found && (c->cred != b.cred || c->sig != S_DEF))
    {
        t = b; t.cred = c->cred;
        if (c->cred != b.cred && run_cell(&t, &r, why, sizeof(why), &act) == 1)
        {
            found = 1;
            *rk = r;
            snprintf(f, sizeof(f), "cred=%s", c10_creds[c->cred].name);
        }
        else
        {
            t.sig = c->sig;
            /* a signature scheme only matters when MatrixSSL or OpenSSL signs: keep client-auth as in the cell */
            t.cauth = c->cauth;
            if (c->sig != S_DEF && run_cell(&t, &r, why, sizeof(why), &act) == 1)
            {
                found = 1;
                *rk = r;
                snprintf(f, sizeof(f), "cred=%s+sig=%s%s", c10_creds[c->cred].name, sigs[c->sig].name, c->cauth ? "+client-auth" : "");
            }
        }
    }
    if (!found && c->cookie)
    {
        t = b; t.cookie = 1;
        if (run_cell(&t, &r, why, sizeof(why), &act) == 1)
        {
            found = 1;
            *rk = r;
            snprintf(f, sizeof(f), "hello-verify-request");
        }
    }
    if (!found && c->noems)
    {
        t = b; t.noems = 1;
        if (run_cell(&t, &r, why, sizeof(why), &act) == 1)
        {
            found = 1;
            *rk = r;
            snprintf(f, sizeof(f), "no-extended-master-secret");
        }
    }
    if (!found && c->cauth)
    {
        t = b; t.cauth = 1;
        if (run_cell(&t, &r, why, sizeof(why), &act) == 1)
        {
            found = 1;
            *rk = r;
            snprintf(f, sizeof(f), "client-auth");
        }
    }
    if (!found && c->resm != M_NONE)
    {
        t = b; t.resm = c->resm;
        if (run_cell(&t, &r, why, sizeof(why), &act) == 1)
        {
            found = 1;
            *rk = r;
            snprintf(f, sizeof(f), "resumption=%s", mname[c->resm]);
        }
    }
    if (found)
    {
        if (fails_with_base_suite(&t))
        {
            snprintf(feature, fn, "%s", f);
        }
        else
        {
            snprintf(feature, fn, "%s+%s", suite_name(c->suite), f);
        }
        return;
    }
    snprintf(feature, fn, "%s+group=%s%s+cred=%s+sig=%s%s+%s%s", suite_name(c->suite), gsel(c), c->hrr ? "+hrr" : "",
        c10_creds[c->cred].name, sigs[c->sig].name, c->cauth ? "+client-auth" : "", mname[c->resm], c->noems ? "+no-ems" : (c->cookie ? "+cookie" : ""));
}

static void run_case(void *ctx, mx_result_t *r)
{
    const cell_t *c = ctx;
    cres_t cr, crk;
    char why[200] = "", human[200], feature[160];
    uint32_t act = 0;
    int rc = run_cell(c, &cr, why, sizeof(why), &act);

    cell_human(c, human, sizeof(human));
    r->transitions = act ? act : 1;
    r->nontrivial = 1;
    if (rc == 3)
    {
        snprintf(r->outcome, sizeof(r->outcome), "%s:not-supported-by-both", ver_name(c->ver));
        r->nontrivial = 0;
        snprintf(r->what, sizeof(r->what), "%s", why);
        {
            char note[160];
            snprintf(note, sizeof(note), "%s %s: %s", rname[c->role], ver_name(c->ver), why);
            mx_note_skipped(note);
        }
        r->trace_hash = fnv1a(r->outcome, strlen(r->outcome), FNV0);
        return;
    }
    if (rc == 0)
    {
        snprintf(r->outcome, sizeof(r->outcome), "%s:%s:%s:%s%s%s:ok%s", rname[c->role], ver_name(c->ver), kx_label(suite_by_id(c->suite)->type), mname[c->resm],
            c->noems ? ":no-ems" : "", c->cookie ? ":cookie" : "", cr.min_bad_size == -1 ? "(fallback-sig)" : "");
        r->trace_hash = fnv1a(r->outcome, strlen(r->outcome), FNV0);
        return;
    }
    if (rc == 2)
    {
        r->violation = 2;
        snprintf(r->key, sizeof(r->key), "internal|%s", cr.symptom);
        snprintf(r->what, sizeof(r->what), "%s: %s", human, cr.detail);
        snprintf(r->outcome, sizeof(r->outcome), "INTERNAL");
        return;
    }
    r->violation = 1;
    /* the known RFC 5746 finding: one key, whatever the suite */
    if (c->role == R_MSRV && c->ver != V_TLS13 && !c->legacy && strstr(cr.symptom, "unsafe_legacy_renegotiation_disabled"))
    {
        snprintf(r->key, sizeof(r->key), "matrix-server|tls<=1.2|no-renegotiation_info");
        snprintf(r->what, sizeof(r->what), "%s: OpenSSL client with default options aborts after ServerHello (%s): the MatrixSSL server "
            "sends no renegotiation_info extension although the ClientHello carried TLS_EMPTY_RENEGOTIATION_INFO_SCSV (RFC 5746 3.6)", human, cr.symptom);
        snprintf(r->outcome, sizeof(r->outcome), "%s:%s:no-renegotiation_info", rname[c->role], ver_name(c->ver));
        r->trace_hash = fnv1a(r->key, strlen(r->key), FNV0);
        return;
    }
    if (c->role == R_MSRV && c->ver != V_TLS13 && !c->legacy)
    {
        /* something other than the renegotiation_info refusal went wrong in a defaults cell: classify it the way its
           legacy-connect twin is classified (the base cells of the attribution would all hit the known refusal) */
        cell_t t = *c;
        cres_t tr;
        t.legacy = 1;
        if (run_cell(&t, &tr, why, sizeof(why), &act) == 1)
        {
            attribute(&t, &tr, feature, sizeof(feature), &crk);
        }
        else
        {
            snprintf(feature, sizeof(feature), "openssl-defaults+%s", suite_name(c->suite));
            crk = cr;
        }
    }
    else
    {
        attribute(c, &cr, feature, sizeof(feature), &crk);
    }
    if (crk.min_bad_size > 1 && crk.small_ok)
    {
        snprintf(r->key, sizeof(r->key), "%s|%s|%s|%s:first-failing-size=%d", rname[c->role], ver_name(c->ver), feature, crk.symptom, crk.min_bad_size);
    }
    else
    {
        snprintf(r->key, sizeof(r->key), "%s|%s|%s|%s", rname[c->role], ver_name(c->ver), feature, crk.symptom);
    }
    snprintf(r->what, sizeof(r->what), "%s => %s: %s", human, cr.symptom, cr.detail);
    snprintf(r->outcome, sizeof(r->outcome), "%s:%s:%.40s", rname[c->role], ver_name(c->ver), cr.symptom);
    r->trace_hash = fnv1a(r->key, strlen(r->key), FNV0);
}

/* ------------------------------------------------------------------------------------ enumeration */
static cell_t *cells;
static long ncells, capcells;
static long n_by_ver[V_NVER], n_skipped_cells;
static char skipnotes[64][160];
static int nskipnotes;

static void note_skip(const char *fmt, ...) __attribute__((format(printf, 1, 2)));
static void note_skip(const char *fmt, ...)
{
    char tmp[160];
    va_list ap;
    int i;
    va_start(ap, fmt);
    vsnprintf(tmp, sizeof(tmp), fmt, ap);
    va_end(ap);
    for (i = 0; i < nskipnotes; i++)
    {
        if (!strcmp(skipnotes[i], tmp)) return;
    }
    if (nskipnotes < 64)
    {
        snprintf(skipnotes[nskipnotes++], 160, "%s", tmp);
    }
}

static void add_cell(const cell_t *c)
{
    if (ncells >= capcells)
    {
        capcells = capcells ? capcells * 2 : 8192;
        cells = realloc(cells, (size_t) capcells * sizeof(cell_t));
    }
    cells[ncells++] = *c;
    n_by_ver[c->ver]++;
}

/* ask OpenSSL for its name of every suite compiled into MatrixSSL */
static void build_suites(void)
{
    SSL_CTX *ctx = SSL_CTX_new(TLS_method());
    SSL *s;
    STACK_OF(SSL_CIPHER) *sk;
    unsigned id;
    int i;
    SSL_CTX_set_security_level(ctx, 0);
    SSL_CTX_set_cipher_list(ctx, "ALL:COMPLEMENTOFALL:@SECLEVEL=0");
    SSL_CTX_set_min_proto_version(ctx, 0);
    s = SSL_new(ctx);
    sk = SSL_get_ciphers(s);
    for (id = 1; id < 0x10000 && nsuites < 128; id++)
    {
        const sslCipherSpec_t *sp = sslGetDefinedCipherSpec((uint16_t) id);
        suite_t *su;
        if (!sp)
        {
            continue;
        }
        su = &suites[nsuites++];
        memset(su, 0, sizeof(*su));
        su->id = (uint16_t) id;
        su->type = sp->type;
        su->flags = sp->flags;
        su->macsize = sp->macSize;
        for (i = 0; i < sk_SSL_CIPHER_num(sk); i++)
        {
            const SSL_CIPHER *c = sk_SSL_CIPHER_value(sk, i);
            if (SSL_CIPHER_get_protocol_id(c) == id)
            {
                snprintf(su->oname, sizeof(su->oname), "%s", SSL_CIPHER_get_name(c));
            }
        }
    }
    SSL_free(s);
    SSL_CTX_free(ctx);
}

/* is (version, suite) usable on the MatrixSSL side?  ask MatrixSSL: create a client session with exactly that */
static int matrix_accepts(int ver, uint16_t suite)
{
    sslKeys_t *k = NULL;
    ssl_t *ssl = NULL;
    sslSessOpts_t o;
    psCipher16_t cs[1];
    int rc;
    const suite_t *su = suite_by_id(suite);
    int cred = su->type == CS_PSK ? CR_NONE : (su->type == CS_ECDHE_ECDSA || su->type == CS_ECDH_ECDSA) ? CR_EC256 : CR_RSA;
    cell_t c;
    memset(&c, 0, sizeof(c));
    c.role = R_MCLI; c.ver = ver; c.suite = suite; c.cred = cred;
    if (make_mkeys(&c, &k) < 0)
    {
        if (k) matrixSslDeleteKeys(k);
        return 0;
    }
    memset(&o, 0, sizeof(o));
    o.versionFlag = ver_flag(ver);
    cs[0] = suite;
    rc = matrixSslNewClientSession(&ssl, k, NULL, cs, 1, m_cert_cb, NULL, NULL, NULL, &o);
    if (ssl) matrixSslDeleteSession(ssl);
    matrixSslDeleteKeys(k);
    return rc >= 0;
}
/* does a MatrixSSL session pinned to this version (and offering this suite) advertise the signature scheme at all? */
static int matrix_offers_sigalg(int ver, uint16_t suite, uint16_t sigalg)
{
    sslKeys_t *k = NULL;
    ssl_t *ssl = NULL;
    sslSessOpts_t o;
    psCipher16_t cs[1];
    int i, yes = 0;
    const suite_t *su = suite_by_id(suite);
    cell_t c;
    memset(&c, 0, sizeof(c));
    c.role = R_MCLI; c.ver = ver; c.suite = suite;
    c.cred = su->type == CS_PSK ? CR_NONE : (su->type == CS_ECDHE_ECDSA || su->type == CS_ECDH_ECDSA) ? CR_EC256 : CR_RSA;
    if (make_mkeys(&c, &k) < 0)
    {
        if (k) matrixSslDeleteKeys(k);
        return 0;
    }
    memset(&o, 0, sizeof(o));
    o.versionFlag = ver_flag(ver);
    cs[0] = suite;
    if (matrixSslNewClientSession(&ssl, k, NULL, cs, 1, m_cert_cb, NULL, NULL, NULL, &o) >= 0)
    {
        for (i = 0; i < ssl->supportedSigAlgsLen; i++)
        {
            if (ssl->supportedSigAlgs[i] == sigalg) yes = 1;
        }
    }
    if (ssl) matrixSslDeleteSession(ssl);
    matrixSslDeleteKeys(k);
    return yes;
}
/* ... and on the OpenSSL side: a context restricted to that version and suite must have a usable cipher */
static int openssl_accepts(int ver, uint16_t suite, char *why, size_t wn)
{
    cell_t c;
    SSL_CTX *ctx;
    SSL *s;
    STACK_OF(SSL_CIPHER) *sk;
    int ok = 0, i;
    const suite_t *su = suite_by_id(suite);
    memset(&c, 0, sizeof(c));
    c.role = R_MSRV; c.ver = ver; c.suite = suite; c.legacy = 1;
    c.cred = su->type == CS_PSK ? CR_NONE : (su->type == CS_ECDHE_ECDSA || su->type == CS_ECDH_ECDSA) ? CR_EC256 : CR_RSA;
    ctx = make_octx(&c, why, wn);
    if (!ctx)
    {
        return 0;
    }
    s = SSL_new(ctx);
    sk = SSL_get1_supported_ciphers(s);
    for (i = 0; sk && i < sk_SSL_CIPHER_num(sk); i++)
    {
        if (SSL_CIPHER_get_protocol_id(sk_SSL_CIPHER_value(sk, i)) == suite) ok = 1;
    }
    if (!ok)
    {
        snprintf(why, wn, "OpenSSL does not offer %s at %s", su->oname, ver_name(ver));
    }
    sk_SSL_CIPHER_free(sk);
    SSL_free(s);
    SSL_CTX_free(ctx);
    return ok;
}

static int cipher_class(const suite_t *s)
{
    if (s->flags & (CRYPTO_FLAGS_GCM | CRYPTO_FLAGS_CHACHA)) return 2;
    if (s->flags & CRYPTO_FLAGS_SHA1) return 0;
    return 1;
}

/* credential+signature combinations for (version, key-exchange class) */
typedef struct { int cred, sig; } credsig_t;
static int credsigs_for(int ver, int type, credsig_t *out)
{
    int n = 0, s, cr;
    int v12 = ver == V_TLS12 || ver == V_DTLS12, v13 = ver == V_TLS13;
    if (type == CS_PSK)
    {
        out[n++] = (credsig_t) { CR_NONE, S_DEF };
        return n;
    }
    if (type == CS_RSA || type == CS_ECDHE_RSA || v13)
    {
        out[n++] = (credsig_t) { CR_RSA, S_DEF };
        for (s = S_RSA_SHA1; s <= S_PSS_SHA512 && (v12 || v13); s++)
        {
            if (v13 && sigs[s].min12only) continue;
            out[n++] = (credsig_t) { CR_RSA, s };
        }
    }
    if (type == CS_ECDHE_ECDSA || v13)
    {
        for (cr = CR_EC256; cr <= CR_EC521; cr++)
        {
            out[n++] = (credsig_t) { cr, S_DEF };
            for (s = S_ECDSA_SHA1; s <= S_ECDSA_SHA512 && (v12 || v13); s++)
            {
                if (v13 && (sigs[s].min12only || s - S_ECDSA_SHA256 != cr - CR_EC256)) continue;
                out[n++] = (credsig_t) { cr, s };
            }
        }
        for (cr = CR_EC384S; cr <= CR_EC521S; cr++)
        {
            out[n++] = (credsig_t) { cr, S_DEF };
            if (v12 || v13) out[n++] = (credsig_t) { cr, cred_chain[cr] };
        }
        if (v12 || v13)
        {
            out[n++] = (credsig_t) { CR_ED, S_DEF };
            out[n++] = (credsig_t) { CR_ED, S_ED25519 };
        }
    }
    return n;
}

static int in_quick(const cell_t *c, const suite_t *su)
{
    int rep = first_of_class[c->ver][su->type][cipher_class(su)] == su->id + 1;
    int is_base = base_suite[c->ver][su->type] == su->id;
    int base_dims = c->group == G_DEF && !c->hrr && c->sig == S_DEF && c->cred == base_cred_for(c);
    if (c->ver == V_TLS13)
    {
        /* every suite x (client-auth, resumption); all groups (+HRR) and all credentials/schemes on the base suite */
        if (base_dims) return 1;
        if (c->resm != M_NONE) return 0;
        if (c->group != G_DEF) return c->cred == CR_RSA && c->sig == S_DEF && !c->cauth;   /* every suite x all groups, with and without HelloRetryRequest */
        return is_base;                                                                    /* all credentials and schemes x client-auth */
    }
    if (c->noems || c->cookie) return rep && base_dims && !c->cauth;  /* plain master secret / DTLS cookie: class representatives x resumption */
    if (base_dims && !c->cauth && c->resm == M_NONE) return 1;        /* every suite once (PRF hash x MAC x cipher combinations) */
    if (c->group == G_DEF && c->sig == S_DEF && c->cauth && c->resm == M_NONE && !c->legacy) return 1;   /* every suite x every credential with client authentication (transcript hash x CertificateVerify hash) */
    if (c->group != G_DEF && c->sig == S_DEF && c->cred == base_cred_for(c) && !c->cauth && c->resm == M_NONE && !c->legacy) return 1;   /* every suite x every group (premaster length x PRF hash) */
    if (rep && base_dims) return 1;                                   /* class representatives x client-auth x resumption */
    if (is_base && c->resm == M_NONE)
    {
        int dtls = ver_is_dtls(c->ver);
        if (c->group != G_DEF && c->sig == S_DEF && c->cred == base_cred_for(c) && !c->cauth) return 1;     /* all groups */
        if (c->group == G_DEF && (!c->cauth || !dtls)) return 1;                                              /* all credentials and schemes */
    }
    return 0;
}

static const int vers[] = { V_TLS13, V_TLS12, V_TLS11, V_DTLS12, V_DTLS10 };

/* which suites are in the matrix per version; class representatives and base suites (also needed by a replay) */
static void build_classes(void)
{
    int ver, si, vi;
    for (vi = 0; vi < 5; vi++)
    {
        ver = vers[vi];
        for (si = 0; si < nsuites; si++)
        {
            suite_t *su = &suites[si];
            char why[200];
            if ((ver == V_TLS13) != (su->type == CS_TLS13))
            {
                continue;
            }
            if (!matrix_accepts(ver, su->id))
            {
                continue;       /* not a MatrixSSL configuration at all (e.g. SHA-256 suites below TLS 1.2) */
            }
            if (!su->oname[0])
            {
                note_skip("%s suites: OpenSSL 3 has no such cipher suites (asked by protocol id in SSL_get_ciphers of ALL:COMPLEMENTOFALL)", kx_label(su->type));
                n_skipped_cells++;
                continue;
            }
            if (!openssl_accepts(ver, su->id, why, sizeof(why)))
            {
                note_skip("%s %s: %s", ver_name(ver), su->oname, why);
                n_skipped_cells++;
                continue;
            }
            if (su->type != CS_RSA && su->type != CS_PSK && su->type != CS_ECDHE_RSA && su->type != CS_ECDHE_ECDSA && su->type != CS_TLS13)
            {
                note_skip("%s suites (e.g. %s): no driver support for this key exchange", kx_label(su->type), su->oname);
                n_skipped_cells++;
                continue;
            }
            if (!first_of_class[ver][su->type][cipher_class(su)])
            {
                first_of_class[ver][su->type][cipher_class(su)] = su->id + 1;
            }
            if (!base_suite[ver][su->type] || (cipher_class(su) == 2 && cipher_class(suite_by_id(base_suite[ver][su->type])) != 2))
            {
                base_suite[ver][su->type] = su->id;   /* first AEAD suite of the class, else the first suite */
            }
        }
    }
}

static void build_cells(void)
{
    int ver, si, role, vi;
    for (vi = 0; vi < 5; vi++)
    {
        ver = vers[vi];
        for (si = 0; si < nsuites; si++)
        {
            suite_t *su = &suites[si];
            credsig_t cs[64];
            int ncs, ci, g, hrr, cauth, resm, legacy, noems, ed_ok, matrix_sig_ok[S_N];
            char why[200];
            if ((ver == V_TLS13) != (su->type == CS_TLS13) || !su->oname[0] || !matrix_accepts(ver, su->id) || !openssl_accepts(ver, su->id, why, sizeof(why)))
            {
                continue;
            }
            if (su->type != CS_RSA && su->type != CS_PSK && su->type != CS_ECDHE_RSA && su->type != CS_ECDHE_ECDSA && su->type != CS_TLS13)
            {
                continue;
            }
            ncs = credsigs_for(ver, su->type, cs);
            ed_ok = matrix_offers_sigalg(ver, su->id, sigalg_ed25519);
            for (g = 1; g < S_N; g++)
            {
                matrix_sig_ok[g] = matrix_offers_sigalg(ver, su->id, sigs[g].id);
            }
            for (role = 0; role < 2; role++)
            for (ci = 0; ci < ncs; ci++)
            for (g = G_DEF; g < G_N; g++)
            for (hrr = 0; hrr < 2; hrr++)
            for (cauth = 0; cauth < 2; cauth++)
            for (resm = 0; resm < M_N; resm++)
            for (legacy = 0; legacy < 2; legacy++)
            for (noems = 0; noems < 3; noems++)       /* 0: defaults, 1: no extended master secret, 2: DTLS cookie exchange */
            {
                cell_t c;
                int has_kx_group = su->type == CS_ECDHE_RSA || su->type == CS_ECDHE_ECDSA || su->type == CS_TLS13;
                if (g != G_DEF && !has_kx_group && !(su->type == CS_PSK && g <= G_P521 && !resm && !noems)) continue;
                if (g == G_X25519 && ver != V_TLS13) continue;         /* MatrixSSL: X25519 only in TLS 1.3 (tls13KeyAgree.c) */
                if (hrr && (ver != V_TLS13 || g == G_DEF)) continue;
                if (cauth && su->type == CS_PSK) continue;
                if (cs[ci].cred == CR_ED && !ed_ok)
                {
                    note_skip("%s with an Ed25519 certificate: a MatrixSSL session pinned to %s does not advertise ed25519 (tlsDefaults.c tls12SigAlgs)", ver_name(ver), ver_name(ver));
                    continue;
                }
                if (cs[ci].sig != S_DEF && !matrix_sig_ok[cs[ci].sig])
                {
                    note_skip("%s signature scheme %s: not advertised by a MatrixSSL session pinned to %s", ver_name(ver), sigs[cs[ci].sig].name, ver_name(ver));
                    continue;
                }
                if (cs[ci].sig != S_DEF && su->type == CS_RSA && !cauth) continue;   /* nothing is signed */
                if (resm == M_PSK13 && ver != V_TLS13) continue;
                if ((resm == M_ID || resm == M_TICKET) && ver == V_TLS13) continue;
                if (legacy && !(role == R_MSRV && ver != V_TLS13)) continue;
                /* plain master secret: every suite x role x resumption x client-auth, other dimensions at base */
                if (noems == 2 && !(ver_is_dtls(ver) && role == R_MCLI)) continue;
                if (noems && (ver == V_TLS13 || g != G_DEF || cs[ci].sig != S_DEF || cs[ci].cred != (su->type == CS_PSK ? CR_NONE : su->type == CS_ECDHE_ECDSA ? CR_EC256 : CR_RSA))) continue;
                memset(&c, 0, sizeof(c));
                c.role = role; c.ver = ver; c.suite = su->id; c.group = g; c.hrr = hrr; c.cred = cs[ci].cred; c.sig = cs[ci].sig;
                c.cauth = cauth; c.resm = resm; c.legacy = legacy; c.noems = noems == 1; c.cookie = noems == 2;
                if (!thorough && !in_quick(&c, su))
                {
                    continue;
                }
                add_cell(&c);
                /* the same resumption cell with a server that has lost the state: the fallback to a full handshake is part
                   of the wire behaviour too (MatrixSSL server: ticket modes only - its id cache cannot be flushed per key set) */
                if (resm != M_NONE && !noems && (role == R_MCLI || resm != M_ID))
                {
                    c.declined = 1;
                    add_cell(&c);
                }
            }
        }
    }
}

#define GROUP_SZ 6
static void run_group(long gi, void *unused)
{
    long k, lo = gi * GROUP_SZ, hi = lo + GROUP_SZ;
    (void) unused;
    if (hi > ncells) hi = ncells;
    for (k = lo; k < hi; k++)
    {
        char desc[240];
        if (mx_deadline_hit())
        {
            return;
        }
        cell_desc(&cells[k], desc, sizeof(desc));
        mx_fork_case(desc, run_case, &cells[k]);
    }
}

int main(int argc, char **argv)
{
    mx_cfg_t cfg;
    const char *replay;
    static char extra[16384];
    int i;
    size_t l;

    memset(&cfg, 0, sizeof(cfg));
    cfg.property = "C10";
    cfg.level = "exploration";
    cfg.sanitizer_is_oracle = 1;
    cfg.engine = "exhaustive enumeration of the configuration matrix; each cell = real MatrixSSL endpoint against in-process OpenSSL 3 libssl "
                 "(memory BIOs, datagram-wise for DTLS) in a forked child; first + resumed connection in the same child";
    cfg.rule = "cell = (role assignment, protocol version, cipher suite, key-exchange group[, forced HelloRetryRequest], credential, signature scheme, "
               "client-auth, resumption mode, extended-master-secret on/off[, OpenSSL client with/without SSL_OP_LEGACY_SERVER_CONNECT]); inside every cell payloads of every size class "
               "are sent in both directions on the first and on the resumed connection. A cell is outside the property (not-supported-by-both) when "
               "OpenSSL refuses the configuration itself (unknown cipher/group/sigalg string, credential not loadable) or MatrixSSL cannot load the credential";
    cfg.assumptions[0] = "independent peer = the OpenSSL 3 libssl of the image, security level 0, one version of one implementation";
    cfg.assumptions[1] = "MatrixSSL entropy and clock pinned (2024-01-01); OpenSSL's RNG is pinned per cell (RAND_set_rand_method, seed = hash of the cell) so every cell is reproducible; OpenSSL verifies certificates at the pinned instant (X509_VERIFY_PARAM_set_time) but otherwise sees the real clock";
    cfg.assumptions[2] = "lossless in-order transport; DTLS datagram boundaries are preserved in both directions; no retransmission timers fire";
    cfg.assumptions[3] = "signature scheme and group are constrained on the OpenSSL side (sigalgs / groups list) and verified from what OpenSSL reports; MatrixSSL runs with its defaults except TLS 1.3 client key-share selection";
    replay = mx_parse_args(argc, argv, &cfg);
    thorough = !strcmp(cfg.tier, "thorough");
    g_seed = cfg.seed;
    cfg.bound = thorough ? "full matrix of mutually supported (role, version, suite, group(+HRR), credential, signature scheme, client-auth, resumption) cells, all payload sizes both directions"
                         : "class representatives: one suite per (version, key exchange, CBC-SHA1/CBC-SHA2/AEAD) x client-auth x resumption; all groups and all credential/signature-scheme "
                           "combinations on one suite per (version, key exchange); every TLS 1.3 suite; all payload sizes both directions in every cell";
    OPENSSL_init_ssl(0, NULL);
    if (world_open() < 0)
    {
        fprintf(stderr, "matrixSslOpen failed\n");
        return 2;
    }
    build_suites();
    build_classes();

    if (replay)
    {
        cell_t c;
        mx_result_t r;
        if (cell_parse(replay, &c) < 0)
        {
            fprintf(stderr, "bad descriptor\n");
            return 2;
        }
        verbose = 1;
        memset(&r, 0, sizeof(r));
        snprintf(r.desc, sizeof(r.desc), "%s", replay);
        fprintf(stderr, "replaying %s\n", replay);
        run_case(&c, &r);
        fprintf(stderr, "outcome: %s\nkey: %s\nwhat: %s\n", r.outcome, r.key, r.what);
        mx_replay_print(&r);
        return 0;
    }

    mx_init(&cfg);
    build_cells();
    fprintf(stderr, "C10 %s: %ld cells (tls13 %ld, tls12 %ld, tls11 %ld, dtls12 %ld, dtls10 %ld), %d suites compiled into MatrixSSL\n", cfg.tier, ncells,
        n_by_ver[V_TLS13], n_by_ver[V_TLS12], n_by_ver[V_TLS11], n_by_ver[V_DTLS12], n_by_ver[V_DTLS10], nsuites);
    for (i = 0; i < nskipnotes; i++)
    {
        mx_note_skipped(skipnotes[i]);
        fprintf(stderr, "  skipped: %s\n", skipnotes[i]);
    }
    mx_parallel((ncells + GROUP_SZ - 1) / GROUP_SZ, run_group, NULL);

    l = (size_t) snprintf(extra, sizeof(extra), "\"matrix\": {\"cells\": %ld, \"tls13\": %ld, \"tls12\": %ld, \"tls11\": %ld, \"dtls12\": %ld, \"dtls10\": %ld, "
        "\"payload_sizes_tls\": [1,16383,16384,16385,40000], \"payload_sizes_dtls\": [1,16,999,1000], \"openssl\": \"%s\", \"suites\": [",
        ncells, n_by_ver[V_TLS13], n_by_ver[V_TLS12], n_by_ver[V_TLS11], n_by_ver[V_DTLS12], n_by_ver[V_DTLS10], OpenSSL_version(OPENSSL_VERSION));
    for (i = 0; i < nsuites && l < sizeof(extra) - 200; i++)
    {
        l += (size_t) snprintf(extra + l, sizeof(extra) - l, "%s\"%04x %s %s\"", i ? ", " : "", suites[i].id, kx_label(suites[i].type),
                suites[i].oname[0] ? suites[i].oname : "(not in OpenSSL)");
    }
    l += (size_t) snprintf(extra + l, sizeof(extra) - l, "], \"skipped_detail\": [");
    for (i = 0; i < nskipnotes && l < sizeof(extra) - 200; i++)
    {
        l += (size_t) snprintf(extra + l, sizeof(extra) - l, "%s\"%s\"", i ? ", " : "", skipnotes[i]);
    }
    snprintf(extra + l, sizeof(extra) - l, "]}");
    return mx_finish(extra);
}
