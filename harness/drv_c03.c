/* drv_c03 - C03: X.509 validation succeeds only for a genuinely signed path to a trust anchor.
 *
 * Small-scope universe: a 4-level PKI (root R, intermediates L1..L4, leaf) with fixed keys and names per
 * level, in which every position of a chain can be filled by a certificate KIND: good, or exactly one
 * deviation (signature bits corrupted / made by the wrong key / COPIED from the anchor, the parent or a
 * sibling, outer signatureAlgorithm != TBS, algorithm names another hash, SHA-1 / MD5, cA false,
 * basicConstraints absent, pathLen 0/1, keyUsage without keyCertSign / absent, expired, not yet valid,
 * unknown critical extension, AKI != issuer SKI / absent, issuer DN mismatch, X.509 v1, RSA-512 key,
 * self-signed leaf, ...).  ALL chains up to the length bound with at most D deviating positions are
 * enumerated, in EVERY order of the supplied non-leaf certificates, against every trust-anchor set
 * { {}, {R}, {R2}, {R,R2}, {R2,R}, {L1 intermediate}, {R pathlen 0}, {R pathlen 1} } and validated with
 * matrixValidateCerts(); the verdict is compared with two small reference validators (c03_ref.h).
 * P-256 bulk slice plus RSA-2048, Ed25519, mixed-algorithm and "no key identifiers" slices, and a CRL slice. */
#include "c03_ref.h"
#include <sys/mman.h>
#include <unistd.h>

static int thorough;

/* the library traces to stdout (_psTrace); stdout is reserved for FINDING/REPLAY lines */
static int saved_stdout = -1;
static void stdout_to_stderr(void)
{
    fflush(stdout);
    saved_stdout = dup(1);
    dup2(2, 1);
}
static void stdout_restore(void)
{
    fflush(stdout);
    if (saved_stdout >= 0)
    {
        dup2(saved_stdout, 1);
        close(saved_stdout);
        saved_stdout = -1;
    }
}

/* -------------------------------------------------------------- anchor sets */
enum { A_NONE = 0, A_R, A_R2, A_R_R2, A_R2_R, A_L1, A_RPL0, A_RPL1, A_N };
static const char *anchor_name[A_N] = { "{}", "{R}", "{R2}", "{R,R2}", "{R2,R}", "{L1}", "{R.pathlen0}", "{R.pathlen1}" };

static int anchor_ids(int sl, int a, int *out)
{
    switch (a)
    {
    case A_NONE: return 0;
    case A_R: out[0] = u_root[sl][R_MAIN]; return 1;
    case A_R2: out[0] = u_root[sl][R_SECOND]; return 1;
    case A_R_R2: out[0] = u_root[sl][R_MAIN]; out[1] = u_root[sl][R_SECOND]; return 2;
    case A_R2_R: out[0] = u_root[sl][R_SECOND]; out[1] = u_root[sl][R_MAIN]; return 2;
    case A_L1: out[0] = u_ca[sl][1][K_GOOD]; return 1;
    case A_RPL0: out[0] = u_root[sl][R_PL0]; return 1;
    case A_RPL1: out[0] = u_root[sl][R_PL1]; return 1;
    }
    return 0;
}

/* ------------------------------------------------------------------- cases */
typedef struct {
    unsigned char slice, m, rootopt;     /* m intermediates; rootopt 0 none / 1 R appended / 2 R2 appended */
    unsigned char kinds[MAXINT + 1];     /* [0] leaf kind, [l] kind of the level-l intermediate */
} asg_t;

typedef struct { asg_t a; int perm, anchors; } case_t;

static int asg_ndev(const asg_t *a)
{
    int i, n = (a->rootopt == 2);
    for (i = 0; i <= a->m; i++)
    {
        n += a->kinds[i] != K_GOOD;
    }
    return n;
}

/* natural (leaf-first, issuer-next) order of the supplied certificates; -1 if a certificate does not exist */
static int asg_chain(const asg_t *a, int *ids)
{
    int n = 0, l;
    ids[n] = u_leaf[a->slice][a->m][a->kinds[0]];
    if (ids[n++] < 0) return -1;
    for (l = a->m; l >= 1; l--)
    {
        ids[n] = u_ca[a->slice][l][a->kinds[l]];
        if (ids[n++] < 0) return -1;
    }
    if (a->rootopt)
    {
        ids[n++] = u_root[a->slice][a->rootopt == 1 ? R_MAIN : R_SECOND];
    }
    return n;
}

static long fact(int q)
{
    long f = 1;
    while (q > 1) f *= q--;
    return f;
}
/* permutation #p (Lehmer code) of ids[1..n-1]; the leaf stays first; p = 0 is the natural order */
static void apply_perm(int *ids, int n, long p)
{
    int q = n - 1, i, j, tmp[8], out[8];
    for (i = 0; i < q; i++) tmp[i] = ids[1 + i];
    for (i = 0; i < q; i++)
    {
        long f = fact(q - 1 - i);
        int k = (int) (p / f);
        p %= f;
        out[i] = tmp[k];
        for (j = k; j < q - 1 - i; j++) tmp[j] = tmp[j + 1];
    }
    for (i = 0; i < q; i++) ids[1 + i] = out[i];
}

/* ------------------------------------------------------------ MatrixSSL run */
typedef struct {
    int rc, accept, parse_refused;       /* parse_refused: index+1 of the first chain certificate the parser refuses */
    int n;
    int32 status[8];
    uint32 flags[8];
    int found_is_anchor;
    char label[40];
} ms_t;

static const char *rc_name(int rc)
{
    static char buf[16];
    switch (rc)
    {
    case 0: return "ok";
    case PS_CERT_AUTH_FAIL_BC: return "bc";
    case PS_CERT_AUTH_FAIL_DN: return "dn";
    case PS_CERT_AUTH_FAIL_SIG: return "sig";
    case PS_CERT_AUTH_FAIL_REVOKED: return "revoked";
    case PS_CERT_AUTH_FAIL: return "no-issuer";
    case PS_CERT_AUTH_FAIL_EXTENSION: return "ext";
    case PS_CERT_AUTH_FAIL_PATH_LEN: return "pathlen";
    case PS_CERT_AUTH_FAIL_AUTHKEY: return "authkey";
    case PS_PARSE_FAIL: return "parse";
    }
    snprintf(buf, sizeof(buf), "rc%d", rc);
    return buf;
}

static void ms_run(const int *chain, int n, const int *anch, int na, ms_t *o)
{
    psX509Cert_t *pc[8], *pa[4], *found = NULL;
    int i, npa = 0;
    memset(o, 0, sizeof(*o));
    o->n = n;
    for (i = 0; i < n; i++)
    {
        pc[i] = u_parsed(chain[i], 0);
        if (!pc[i])
        {
            o->parse_refused = i + 1;
            o->rc = PS_PARSE_FAIL;
            snprintf(o->label, sizeof(o->label), "rej-parser");
            DUMPF("  MatrixSSL: certificate %d of the chain refused by psX509ParseCert => chain rejected\n", i);
            return;
        }
    }
    for (i = 0; i < na; i++)
    {
        psX509Cert_t *p = u_parsed(anch[i], 1);
        if (p)
        {
            pa[npa++] = p;               /* an anchor the library cannot load is not an anchor */
        }
    }
    for (i = 0; i + 1 < n; i++) pc[i]->next = pc[i + 1];
    pc[n - 1]->next = NULL;
    for (i = 0; i + 1 < npa; i++) pa[i]->next = pa[i + 1];
    if (npa) pa[npa - 1]->next = NULL;
    o->rc = matrixValidateCerts(NULL, pc[0], npa ? pa[0] : NULL, NULL, &found, NULL, NULL);
    o->accept = (o->rc >= 0);
    for (i = 0; i < n; i++)
    {
        o->status[i] = pc[i]->authStatus;
        o->flags[i] = pc[i]->authFailFlags;
        if (pc[i]->authStatus != PS_CERT_AUTH_PASS)
        {
            if (o->accept)
            {
                snprintf(o->label, sizeof(o->label), "rc0-status-%s", rc_name(pc[i]->authStatus));
            }
            o->accept = 0;
        }
    }
    o->found_is_anchor = 0;
    for (i = 0; i < npa; i++)
    {
        if (found == pa[i]) o->found_is_anchor = 1;
    }
    if (o->accept)
    {
        snprintf(o->label, sizeof(o->label), "accept");
    }
    else if (!o->label[0])
    {
        snprintf(o->label, sizeof(o->label), "rej-%s", rc_name(o->rc));
    }
    if (g_dump)
    {
        fprintf(stderr, "  MatrixSSL: matrixValidateCerts rc=%d (%s)", o->rc, rc_name(o->rc));
        for (i = 0; i < n; i++)
        {
            fprintf(stderr, " cert[%d].authStatus=%d flags=0x%x", i, (int) o->status[i], (unsigned) o->flags[i]);
        }
        fprintf(stderr, " => %s\n", o->label);
    }
    for (i = 0; i < n; i++) pc[i]->next = NULL;
    for (i = 0; i < npa; i++) pa[i]->next = NULL;
}

/* ---------------------------------------------------------------- one case */
typedef struct { ms_t ms; ref_t lax, strict; int n, na; int chain[8], anch[4]; } eval_t;

static int eval_case(const case_t *c, eval_t *e)
{
    memset(e, 0, sizeof(*e));
    e->n = asg_chain(&c->a, e->chain);
    if (e->n < 0)
    {
        return -1;
    }
    apply_perm(e->chain, e->n, c->perm);
    e->na = anchor_ids(c->a.slice, c->anchors, e->anch);
    if (g_dump)
    {
        int i;
        for (i = 0; i < e->n; i++) u_dump_pem(e->chain[i], i ? "supplied chain (next)" : "supplied chain (leaf)");
        for (i = 0; i < e->na; i++) u_dump_pem(e->anch[i], "trust anchor");
    }
    ms_run(e->chain, e->n, e->anch, e->na, &e->ms);
    ref_lax(e->chain, e->n, e->anch, e->na, &e->lax);
    ref_strict(e->chain, e->n, e->anch, e->na, &e->strict);
    if (g_dump)
    {
        char d[96];
        int i;
        fprintf(stderr, "  reference (statement rules, any order): %s", e->lax.ok ? "ACCEPT via path" : "REJECT");
        if (e->lax.ok)
        {
            for (i = 0; i < e->lax.plen; i++)
            {
                u_describe(e->lax.path[i], d, sizeof(d));
                fprintf(stderr, " %s ->", d);
            }
            u_describe(e->lax.anchor, d, sizeof(d));
            fprintf(stderr, " anchor %s\n", d);
        }
        else
        {
            fprintf(stderr, " (%s)\n", e->lax.why);
        }
        fprintf(stderr, "  reference (must-accept rules, ordered chain): %s %s\n", e->strict.ok ? "MUST ACCEPT" : "not required", e->strict.why);
    }
    return 0;
}

static void case_mdesc(const case_t *c, char *out, size_t n)
{
    size_t l;
    int i;
    snprintf(out, n, "s=%d;m=%d;r=%d;k=", c->a.slice, c->a.m, c->a.rootopt);
    for (i = 0; i <= c->a.m; i++)
    {
        l = strlen(out);
        snprintf(out + l, n - l, "%s%d", i ? "." : "", c->a.kinds[i]);
    }
    l = strlen(out);
    snprintf(out + l, n - l, ";p=%d;a=%d", c->perm, c->anchors);
}

static void case_desc(const case_t *c, char *out, size_t n)
{
    size_t l;
    int i;
    case_mdesc(c, out, n);
    l = strlen(out);
    snprintf(out + l, n - l, " (%s anchors=%s order#%d: leaf[%s]", slice_name[c->a.slice], anchor_name[c->anchors], c->perm, kind_tab[c->a.kinds[0]].name);
    for (i = c->a.m; i >= 1; i--)
    {
        l = strlen(out);
        snprintf(out + l, n - l, " L%d[%s]", i, kind_tab[c->a.kinds[i]].name);
    }
    l = strlen(out);
    snprintf(out + l, n - l, "%s)", c->a.rootopt == 1 ? " +R" : c->a.rootopt == 2 ? " +R2" : "");
}

static int parse_desc(const char *d, case_t *c)
{
    int s, m, r, p, a, i;
    const char *k;
    memset(c, 0, sizeof(*c));
    if (sscanf(d, "s=%d;m=%d;r=%d;k=", &s, &m, &r) != 3 || s < 0 || s >= SL_N || m < 0 || m > MAXINT || r < 0 || r > 2)
    {
        return -1;
    }
    c->a.slice = (unsigned char) s; c->a.m = (unsigned char) m; c->a.rootopt = (unsigned char) r;
    k = strstr(d, "k=") + 2;
    for (i = 0; i <= m; i++)
    {
        int v = atoi(k);
        if (v < 0 || v >= K_N) return -1;
        c->a.kinds[i] = (unsigned char) v;
        while (*k >= '0' && *k <= '9') k++;
        if (*k == '.') k++;
    }
    if (sscanf(k, ";p=%d;a=%d", &p, &a) != 2 || a < 0 || a >= A_N || p < 0)
    {
        return -1;
    }
    c->perm = p; c->anchors = a;
    return 0;
}

/* names of the deviating positions, sorted, '+'-joined */
static void dev_names(const asg_t *a, char *out, size_t n)
{
    const char *names[8];
    int cnt = 0, i, j;
    for (i = 0; i <= a->m; i++)
    {
        if (a->kinds[i] != K_GOOD)
        {
            const char *nm = kind_tab[a->kinds[i]].name;
            for (j = 0; j < cnt && strcmp(names[j], nm); j++) { }
            if (j == cnt) names[cnt++] = nm;
        }
    }
    if (a->rootopt == 2) names[cnt++] = "second-root-in-chain";
    for (i = 0; i < cnt; i++)
    {
        for (j = i + 1; j < cnt; j++)
        {
            if (strcmp(names[i], names[j]) > 0) { const char *t = names[i]; names[i] = names[j]; names[j] = t; }
        }
    }
    out[0] = 0;
    for (i = 0; i < cnt; i++)
    {
        size_t l = strlen(out);
        snprintf(out + l, n - l, "%s%s", i ? "+" : "", names[i]);
    }
    if (!cnt) snprintf(out, n, "no-deviation");
}

static int is_soundness_violation(const eval_t *e)
{
    return e->ms.accept && !e->lax.ok;
}

/* shrink the set of deviating positions to one that is still sufficient for the violation (stable key) */
static void minimize(const case_t *c0, case_t *cmin)
{
    int i, save = g_dump;
    eval_t e;
    g_dump = 0;
    *cmin = *c0;
    for (i = 0; i <= cmin->a.m; i++)
    {
        if (cmin->a.kinds[i] != K_GOOD)
        {
            unsigned char keep = cmin->a.kinds[i];
            cmin->a.kinds[i] = K_GOOD;
            if (eval_case(cmin, &e) < 0 || !is_soundness_violation(&e))
            {
                cmin->a.kinds[i] = keep;
            }
        }
    }
    if (cmin->a.rootopt == 2)
    {
        cmin->a.rootopt = 1;
        if (eval_case(cmin, &e) < 0 || !is_soundness_violation(&e))
        {
            cmin->a.rootopt = 2;
        }
    }
    g_dump = save;
}

static void run_case(const case_t *c, mx_result_t *r)
{
    eval_t e;
    char md[96], devs[200];
    memset(r, 0, sizeof(*r));
    case_desc(c, r->desc, sizeof(r->desc));
    case_mdesc(c, md, sizeof(md));
    r->state_hash = fnv1a(md, strlen(md), FNV0);
    if (eval_case(c, &e) < 0)
    {
        r->violation = 2;
        snprintf(r->key, sizeof(r->key), "internal|no-such-certificate");
        snprintf(r->what, sizeof(r->what), "descriptor names a certificate kind that does not exist at that position");
        snprintf(r->outcome, sizeof(r->outcome), "INTERNAL");
        return;
    }
    r->nontrivial = 1;
    r->transitions = (uint32_t) e.n;
    snprintf(r->outcome, sizeof(r->outcome), "%s|%s|ms=%s|stmt=%s|must=%s", slice_name[c->a.slice], c->anchors == A_NONE ? "noanchor" : "anchored",
        e.ms.label, e.lax.ok ? "ok" : "no", e.strict.ok ? "y" : "n");
    r->trace_hash = fnv1a(r->outcome, strlen(r->outcome), FNV0);
    if (is_soundness_violation(&e))
    {
        case_t cm;
        minimize(c, &cm);
        dev_names(&cm.a, devs, sizeof(devs));
        r->violation = 1;
        snprintf(r->key, sizeof(r->key), "soundness|%s%s", devs, c->anchors == A_NONE ? "|no-anchor-mode" : "");
        snprintf(r->what, sizeof(r->what), "matrixValidateCerts reports success (rc %d, every authStatus PASS) for %s chain with anchors %s but no path satisfies the statement: %s [sufficient deviation: %s]",
            e.ms.rc, slice_name[c->a.slice], anchor_name[c->anchors], e.lax.why, devs);
    }
    else if (e.ms.accept && e.na > 0 && !e.ms.found_is_anchor)
    {
        r->violation = 1;
        snprintf(r->key, sizeof(r->key), "soundness|found-issuer-is-not-a-loaded-anchor");
        snprintf(r->what, sizeof(r->what), "success reported but *foundIssuer is not one of the caller's trust anchors");
    }
    else if (e.strict.ok && !e.ms.accept)
    {
        dev_names(&c->a, devs, sizeof(devs));
        r->violation = 1;
        snprintf(r->key, sizeof(r->key), "completeness|%s|%s|%s%s", slice_name[c->a.slice], devs, e.ms.label, c->a.rootopt == 1 ? "|root-in-chain" : "");
        snprintf(r->what, sizeof(r->what), "ordered chain meeting every rule (anchors %s) is rejected: rc %d (%s), label %s", anchor_name[c->anchors], e.ms.rc, rc_name(e.ms.rc), e.ms.label);
    }
}

/* -------------------------------------------------------------- enumeration */
static asg_t *asgs;
static long nasg, capasg;
static void add_asg(const asg_t *a)
{
    if (nasg >= capasg)
    {
        capasg = capasg ? capasg * 2 : 1 << 16;
        asgs = realloc(asgs, (size_t) capasg * sizeof(asg_t));
    }
    asgs[nasg++] = *a;
}

static int kind_ok_at(int sl, int m, int pos, int k)
{
    if (pos == 0)
    {
        return u_leaf[sl][m][k] >= 0;
    }
    return u_ca[sl][pos][k] >= 0;
}

static void gen_rec(asg_t *a, int pos, int budget)
{
    int k;
    if (pos > a->m)
    {
        add_asg(a);
        return;
    }
    for (k = 0; k < K_N; k++)
    {
        if (!kind_ok_at(a->slice, a->m, pos, k))
        {
            continue;
        }
        if (k != K_GOOD && budget == 0)
        {
            continue;
        }
        a->kinds[pos] = (unsigned char) k;
        gen_rec(a, pos + 1, budget - (k != K_GOOD));
    }
}

static void gen_all(void)
{
    int sl, m, r;
    for (sl = 0; sl < SL_N; sl++)
    {
        int maxlen = thorough ? 5 : 4;
        for (m = 0; m <= slice_max_int(sl); m++)
        {
            for (r = 0; r <= 2; r++)
            {
                int len = 1 + m + (r ? 1 : 0), maxdev;
                asg_t a;
                if (len > maxlen)
                {
                    continue;
                }
                /* quick: <= 2 deviating positions; thorough: <= 3 up to length 4, <= 2 at length 5 */
                maxdev = (thorough && len <= 4 && sl == SL_EC) ? 3 : 2;
                memset(&a, 0, sizeof(a));
                a.slice = (unsigned char) sl; a.m = (unsigned char) m; a.rootopt = (unsigned char) r;
                gen_rec(&a, 0, maxdev - (r == 2));
            }
        }
    }
}

static long *g_counts;                   /* shared: [0] cases, [1] natural-order cases, [2] ms accepts, [3] must-accept cases */

static void run_group(long g, void *unused)
{
    const asg_t *a = &asgs[g];
    int q = a->m + (a->rootopt ? 1 : 0), an;
    long p, np = fact(q);
    (void) unused;
    for (p = 0; p < np; p++)
    {
        for (an = 0; an < A_N; an++)
        {
            case_t c;
            mx_result_t r;
            if (an == A_L1 && slice_max_int(a->slice) < 1)
            {
                continue;
            }
            c.a = *a; c.perm = (int) p; c.anchors = an;
            run_case(&c, &r);
            mx_record(&r);
            __atomic_fetch_add(&g_counts[0], 1, __ATOMIC_RELAXED);
            if (p == 0) __atomic_fetch_add(&g_counts[1], 1, __ATOMIC_RELAXED);
            if (strstr(r.outcome, "ms=accept")) __atomic_fetch_add(&g_counts[2], 1, __ATOMIC_RELAXED);
            if (strstr(r.outcome, "must=y")) __atomic_fetch_add(&g_counts[3], 1, __ATOMIC_RELAXED);
        }
        if (mx_deadline_hit())
        {
            return;
        }
    }
}

int main(int argc, char **argv)
{
    mx_cfg_t cfg;
    const char *replay;
    char extra[512];
    int sl;

    memset(&cfg, 0, sizeof(cfg));
    cfg.property = "C03";
    cfg.level = "exploration";
    cfg.engine = "exhaustive enumeration of certificate chains over a generated small-scope PKI universe (OpenSSL-made certificates, one deviation kind per position), every order of the supplied certificates x every trust-anchor set, matrixValidateCerts() verdict compared with two reference validators";
    cfg.rule = "case = (algorithm slice, number of intermediates, certificate kind per position, optional root appended, permutation of the non-leaf certificates, trust-anchor set). "
               "MatrixSSL 'success' = rc >= 0 AND authStatus == PS_CERT_AUTH_PASS for every supplied certificate (the documented contract used by the TLS layer and matrixssl/test/certValidate.c); a certificate refused by psX509ParseCert rejects the chain. "
               "SOUNDNESS (all cases): success => the statement-rule reference finds a path in any order. COMPLETENESS (leaf-first ordered chains only; unordered chains may be rejected): the must-accept reference holds => success. "
               "Excluded from the oracle (don't care, library stricter than the statement by design): CA without keyUsage, AKI/SKI not both present, issuer DN mismatch with valid signature, critical EKU without TLS usage, extra/unused supplied certificates, non-anchor self-issued certificate at the end; "
               "anchor set {} is the documented self-consistency mode (last supplied certificate, if self-signed, plays the anchor; pathLen not evaluated; the TLS layer reports unknown_ca itself). "
               "Validity kinds are 2 days outside the period (the library tolerates 24 h of clock skew, PS_X509_TIME_LINGER).";
    cfg.assumptions[0] = "clock pinned to 2024-01-01T00:00:00Z for MatrixSSL; the reference evaluates validity at the same instant";
    cfg.assumptions[1] = "per-edge signature truth = OpenSSL X509_verify(cert, issuer public key), restricted to algorithms/key sizes enabled by this build's cryptoConfig.h (SHA-1/MD5 certificate signatures disabled, RSA >= 1024)";
    cfg.assumptions[2] = "parsed certificates are reused between cases of one worker after resetting authStatus/authFailFlags/revokedStatus to their post-parse values; replays always start from a fresh parse";
    replay = mx_parse_args(argc, argv, &cfg);
    thorough = !strcmp(cfg.tier, "thorough");
    cfg.bound = thorough
        ? "P-256 slice: all chains of length 1..5 (0..4 intermediates, optionally R or a second self-signed root appended) over 3 good + 25 deviating kinds per position with <= 3 deviating positions (<= 2 at length 5), every permutation of the non-leaf certificates, 8 anchor sets; RSA-2048 / Ed25519 / mixed RSA+P-384+Ed25519 / no-key-identifier slices: 0..2 intermediates, reduced kind lists, <= 2 deviations; CRL slice"
        : "P-256 slice: all chains of length 1..4 (0..3 intermediates, optionally R or a second self-signed root appended) over 3 good + 25 deviating kinds per position with <= 2 deviating positions, every permutation of the non-leaf certificates, 8 anchor sets; RSA-2048 / Ed25519 / mixed RSA+P-384+Ed25519 / no-key-identifier slices: 0..2 intermediates, reduced kind lists, <= 2 deviations; CRL slice";

    env_reset(0);
    if (world_open() < 0)
    {
        die("matrixSslOpen");
    }
    if (replay)
    {
        case_t c;
        mx_result_t r;
        if (parse_desc(replay, &c) < 0)
        {
            fprintf(stderr, "bad descriptor\n");
            return 2;
        }
        build_slice(c.a.slice);
        g_dump = 1;
        fprintf(stderr, "replaying: %s\n", replay);
        stdout_to_stderr();
        run_case(&c, &r);
        stdout_restore();
        mx_replay_print(&r);
        return 0;
    }
    mx_init(&cfg);
    for (sl = 0; sl < SL_N; sl++)
    {
        build_slice(sl);
    }
    fprintf(stderr, "universe: %d certificates\n", nU);
    gen_all();
    fprintf(stderr, "assignments: %ld\n", nasg);
    g_counts = mmap(NULL, 16 * sizeof(long), PROT_READ | PROT_WRITE, MAP_SHARED | MAP_ANONYMOUS, -1, 0);
    stdout_to_stderr();
    mx_parallel(nasg, run_group, NULL);
    stdout_restore();
    snprintf(extra, sizeof(extra), "\"c03\": {\"universe_certificates\": %d, \"kind_assignments\": %ld, \"cases\": %ld, \"leaf_first_ordered_cases\": %ld, \"matrixssl_accepts\": %ld, \"must_accept_cases\": %ld}",
        nU, nasg, g_counts[0], g_counts[1], g_counts[2], g_counts[3]);
    return mx_finish(extra);
}
