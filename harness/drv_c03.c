/* drv_c03 - C03: X.509 validation succeeds only for a genuinely signed path to a trust anchor.
 *
 * Small-scope universe: a 4-level PKI (root R, intermediates L1..L4, leaf) with fixed keys and names per
 * level, in which every position of a chain can be filled by a certificate KIND: good, or exactly one
 * deviation (signature bits corrupted / made by the wrong key / COPIED from the anchor, the parent or a
 * sibling, outer signatureAlgorithm != TBS, algorithm names another hash, SHA-1 / MD5, cA false,
 * basicConstraints absent, pathLen 0/1, keyUsage without keyCertSign / absent, expired, not yet valid,
 * unknown critical extension, AKI != issuer SKI / absent, issuer DN mismatch, X.509 v1, RSA-512 key,
 * self-signed leaf, ...; good variants: unknown non-critical extension, EKU, RSASSA-PSS signature).  ALL chains up to the length bound with at most D deviating positions are
 * enumerated, in EVERY order of the supplied non-leaf certificates, against every trust-anchor set
 * { {}, {R}, {R2}, {R,R2}, {R2,R}, {L1 intermediate}, {R pathlen 0}, {R pathlen 1} } and validated with
 * matrixValidateCerts(); the verdict is compared with two small reference validators (c03_ref.h).
 * RSA-2048 bulk slice (MatrixSSL verifies RSA-2048 in 0.13 ms, P-256 in 2 ms) plus P-256, Ed25519,
 * mixed-algorithm (RSA root, P-384, Ed25519, P-256) and "no key identifiers" slices, and a CRL slice (c03_crl.h). */
#include "c03_ref.h"
#include <sys/mman.h>
#include <unistd.h>
#include <fcntl.h>

static int thorough;

/* the library traces to stdout (_psTrace); stdout is reserved for FINDING/REPLAY lines */
static int saved_stdout = -1;
static void stdout_to_stderr(void)
{
    fflush(stdout);
    saved_stdout = dup(1);
    dup2(2, 1);
}
static void stdout_to_devnull(void)
{
    int fd = open("/dev/null", O_WRONLY);
    fflush(stdout);
    saved_stdout = dup(1);
    if (fd >= 0)
    {
        dup2(fd, 1);
        close(fd);
    }
    else
    {
        dup2(2, 1);
    }
}
static void stdout_restore(void)
{
    fflush(stdout);
    if (saved_stdout >= 0)
    {
        dup2(saved_stdout, 1);
        close(saved_stdout);
        saved_stdout = -1;
    }
}

/* -------------------------------------------------------------- anchor sets */
enum { A_NONE = 0, A_R, A_R2, A_R_R2, A_R2_R, A_L1, A_RPL0, A_RPL1, A_RCRIT, A_RCRIT_R2, A_N };
static const char *anchor_name[A_N] = { "{}", "{R}", "{R2}", "{R,R2}", "{R2,R}", "{L1}", "{R.pathlen0}", "{R.pathlen1}", "{R.rejected-by-parser}", "{R.rejected-by-parser,R2}" };

static int anchor_ids(int sl, int a, int *out)
{
    switch (a)
    {
    case A_NONE: return 0;
    case A_R: out[0] = u_root[sl][R_MAIN]; return 1;
    case A_R2: out[0] = u_root[sl][R_SECOND]; return 1;
    case A_R_R2: out[0] = u_root[sl][R_MAIN]; out[1] = u_root[sl][R_SECOND]; return 2;
    case A_R2_R: out[0] = u_root[sl][R_SECOND]; out[1] = u_root[sl][R_MAIN]; return 2;
    case A_L1: out[0] = u_ca[sl][1][K_GOOD]; return 1;
    case A_RPL0: out[0] = u_root[sl][R_PL0]; return 1;
    case A_RPL1: out[0] = u_root[sl][R_PL1]; return 1;
    case A_RCRIT: out[0] = u_root[sl][R_CRIT]; return 1;
    case A_RCRIT_R2: out[0] = u_root[sl][R_CRIT]; out[1] = u_root[sl][R_SECOND]; return 2;
    }
    return 0;
}

/* ------------------------------------------------------------------- cases */
typedef struct {
    unsigned char slice, m, rootopt;     /* m intermediates; rootopt 0 none / 1 R appended / 2 R2 appended */
    unsigned char kinds[MAXINT + 1];     /* [0] leaf kind, [l] kind of the level-l intermediate */
} asg_t;

typedef struct { asg_t a; int perm, anchors; } case_t;

static int asg_ndev(const asg_t *a)
{
    int i, n = (a->rootopt == 2);
    for (i = 0; i <= a->m; i++)
    {
        n += a->kinds[i] != K_GOOD;
    }
    return n;
}

/* natural (leaf-first, issuer-next) order of the supplied certificates; -1 if a certificate does not exist */
static int asg_chain(const asg_t *a, int *ids)
{
    int n = 0, l;
    ids[n] = u_leaf[a->slice][a->m][a->kinds[0]];
    if (ids[n++] < 0) return -1;
    for (l = a->m; l >= 1; l--)
    {
        ids[n] = u_ca[a->slice][l][a->kinds[l]];
        if (ids[n++] < 0) return -1;
    }
    if (a->rootopt)
    {
        ids[n++] = u_root[a->slice][a->rootopt == 1 ? R_MAIN : R_SECOND];
    }
    return n;
}

static long fact(int q)
{
    long f = 1;
    while (q > 1) f *= q--;
    return f;
}
/* permutation #p (Lehmer code) of ids[1..n-1]; the leaf stays first; p = 0 is the natural order */
static void apply_perm(int *ids, int n, long p)
{
    int q = n - 1, i, j, tmp[8], out[8];
    for (i = 0; i < q; i++) tmp[i] = ids[1 + i];
    for (i = 0; i < q; i++)
    {
        long f = fact(q - 1 - i);
        int k = (int) (p / f);
        p %= f;
        out[i] = tmp[k];
        for (j = k; j < q - 1 - i; j++) tmp[j] = tmp[j + 1];
    }
    for (i = 0; i < q; i++) ids[1 + i] = out[i];
}

/* ------------------------------------------------------------ MatrixSSL run */
typedef struct {
    int rc, accept, parse_refused;       /* parse_refused: index+1 of the first chain certificate the parser refuses */
    int n;
    int32 status[8];
    uint32 flags[8];
    int found_is_anchor;
    char label[40];
} ms_t;

static const char *rc_name(int rc)
{
    static char buf[16];
    switch (rc)
    {
    case 0: return "ok";
    case PS_CERT_AUTH_FAIL_BC: return "bc";
    case PS_CERT_AUTH_FAIL_DN: return "dn";
    case PS_CERT_AUTH_FAIL_SIG: return "sig";
    case PS_CERT_AUTH_FAIL_REVOKED: return "revoked";
    case PS_CERT_AUTH_FAIL: return "no-issuer";
    case PS_CERT_AUTH_FAIL_EXTENSION: return "ext";
    case PS_CERT_AUTH_FAIL_PATH_LEN: return "pathlen";
    case PS_CERT_AUTH_FAIL_AUTHKEY: return "authkey";
    case PS_PARSE_FAIL: return "parse";
    }
    snprintf(buf, sizeof(buf), "rc%d", rc);
    return buf;
}

static void ms_run(const int *chain, int n, const int *anch, int na, ms_t *o)
{
    psX509Cert_t *pc[8], *pa[4], *found = NULL;
    int i, npa = 0;
    memset(o, 0, sizeof(*o));
    o->n = n;
    for (i = 0; i < n; i++)
    {
        pc[i] = u_parsed(chain[i], 0);
        if (!pc[i])
        {
            o->parse_refused = i + 1;
            o->rc = PS_PARSE_FAIL;
            snprintf(o->label, sizeof(o->label), "rej-parser");
            DUMPF("  MatrixSSL: certificate %d of the chain refused by psX509ParseCert => chain rejected\n", i);
            return;
        }
    }
    for (i = 0; i < na; i++)
    {
        psX509Cert_t *p = u_parsed(anch[i], 1);
        if (p)
        {
            pa[npa++] = p;               /* an anchor the library cannot load is not an anchor */
        }
    }
    for (i = 0; i + 1 < n; i++) pc[i]->next = pc[i + 1];
    pc[n - 1]->next = NULL;
    for (i = 0; i + 1 < npa; i++) pa[i]->next = pa[i + 1];
    if (npa) pa[npa - 1]->next = NULL;
    o->rc = matrixValidateCerts(NULL, pc[0], npa ? pa[0] : NULL, NULL, &found, NULL, NULL);
    o->accept = (o->rc >= 0);
    for (i = 0; i < n; i++)
    {
        o->status[i] = pc[i]->authStatus;
        o->flags[i] = pc[i]->authFailFlags;
        if (pc[i]->authStatus != PS_CERT_AUTH_PASS)
        {
            if (o->accept)
            {
                snprintf(o->label, sizeof(o->label), "rc0-status-%s", rc_name(pc[i]->authStatus));
            }
            o->accept = 0;
        }
    }
    o->found_is_anchor = 0;
    for (i = 0; i < npa; i++)
    {
        if (found == pa[i]) o->found_is_anchor = 1;
    }
    if (o->accept)
    {
        snprintf(o->label, sizeof(o->label), "accept");
    }
    else if (!o->label[0])
    {
        snprintf(o->label, sizeof(o->label), "rej-%s", rc_name(o->rc));
    }
    if (g_dump)
    {
        fprintf(stderr, "  MatrixSSL: matrixValidateCerts rc=%d (%s)", o->rc, rc_name(o->rc));
        for (i = 0; i < n; i++)
        {
            fprintf(stderr, " cert[%d].authStatus=%d flags=0x%x", i, (int) o->status[i], (unsigned) o->flags[i]);
        }
        fprintf(stderr, " => %s\n", o->label);
    }
    for (i = 0; i < n; i++) pc[i]->next = NULL;
    for (i = 0; i < npa; i++) pa[i]->next = NULL;
}

#include "c03_crl.h"

/* ---------------------------------------------------------------- one case */
typedef struct { ms_t ms; ref_t lax, strict; int n, na; int chain[8], anch[4]; } eval_t;

static int eval_case(const case_t *c, eval_t *e)
{
    memset(e, 0, sizeof(*e));
    e->n = asg_chain(&c->a, e->chain);
    if (e->n < 0)
    {
        return -1;
    }
    apply_perm(e->chain, e->n, c->perm);
    e->na = anchor_ids(c->a.slice, c->anchors, e->anch);
    if (g_dump)
    {
        int i;
        for (i = 0; i < e->n; i++) u_dump_pem(e->chain[i], i ? "supplied chain (next)" : "supplied chain (leaf)");
        for (i = 0; i < e->na; i++) u_dump_pem(e->anch[i], "trust anchor");
    }
    ms_run(e->chain, e->n, e->anch, e->na, &e->ms);
    {
        /* for the reference an anchor the parser rejects is no anchor */
        int ra[4], nra = 0, i;
        for (i = 0; i < e->na; i++)
        {
            if (e->anch[i] != u_root[c->a.slice][R_CRIT]) ra[nra++] = e->anch[i];
        }
        ref_lax(e->chain, e->n, ra, nra, &e->lax);
        ref_strict(e->chain, e->n, ra, nra, &e->strict);
    }
    if (g_dump)
    {
        char d[96];
        int i;
        fprintf(stderr, "  reference (statement rules, any order): %s", e->lax.ok ? "ACCEPT via path" : "REJECT");
        if (e->lax.ok)
        {
            for (i = 0; i < e->lax.plen; i++)
            {
                u_describe(e->lax.path[i], d, sizeof(d));
                fprintf(stderr, " %s ->", d);
            }
            u_describe(e->lax.anchor, d, sizeof(d));
            fprintf(stderr, " anchor %s\n", d);
        }
        else
        {
            fprintf(stderr, " (%s)\n", e->lax.why);
        }
        fprintf(stderr, "  reference (must-accept rules, ordered chain): %s %s\n", e->strict.ok ? "MUST ACCEPT" : "not required", e->strict.why);
    }
    return 0;
}

static void case_mdesc(const case_t *c, char *out, size_t n)
{
    size_t l;
    int i;
    snprintf(out, n, "s=%d;m=%d;r=%d;k=", c->a.slice, c->a.m, c->a.rootopt);
    for (i = 0; i <= c->a.m; i++)
    {
        l = strlen(out);
        snprintf(out + l, n - l, "%s%d", i ? "." : "", c->a.kinds[i]);
    }
    l = strlen(out);
    snprintf(out + l, n - l, ";p=%d;a=%d", c->perm, c->anchors);
}

static void case_desc(const case_t *c, char *out, size_t n)
{
    size_t l;
    int i;
    case_mdesc(c, out, n);
    l = strlen(out);
    snprintf(out + l, n - l, " (%s anchors=%s order#%d: leaf[%s]", slice_name[c->a.slice], anchor_name[c->anchors], c->perm, kind_tab[c->a.kinds[0]].name);
    for (i = c->a.m; i >= 1; i--)
    {
        l = strlen(out);
        snprintf(out + l, n - l, " L%d[%s]", i, kind_tab[c->a.kinds[i]].name);
    }
    l = strlen(out);
    snprintf(out + l, n - l, "%s)", c->a.rootopt == 1 ? " +R" : c->a.rootopt == 2 ? " +R2" : "");
}

static int parse_desc(const char *d, case_t *c)
{
    int s, m, r, p, a, i;
    const char *k;
    memset(c, 0, sizeof(*c));
    if (sscanf(d, "s=%d;m=%d;r=%d;k=", &s, &m, &r) != 3 || s < 0 || s >= SL_N || m < 0 || m > MAXINT || r < 0 || r > 2)
    {
        return -1;
    }
    c->a.slice = (unsigned char) s; c->a.m = (unsigned char) m; c->a.rootopt = (unsigned char) r;
    k = strstr(d, "k=") + 2;
    for (i = 0; i <= m; i++)
    {
        int v = atoi(k);
        if (v < 0 || v >= K_N) return -1;
        c->a.kinds[i] = (unsigned char) v;
        while (*k >= '0' && *k <= '9') k++;
        if (*k == '.') k++;
    }
    if (sscanf(k, ";p=%d;a=%d", &p, &a) != 2 || a < 0 || a >= A_N || p < 0)
    {
        return -1;
    }
    c->perm = p; c->anchors = a;
    return 0;
}

/* names of the deviating positions, sorted, '+'-joined */
static void dev_names(const asg_t *a, char *out, size_t n)
{
    const char *names[8];
    int cnt = 0, i, j;
    for (i = 0; i <= a->m; i++)
    {
        if (a->kinds[i] != K_GOOD)
        {
            const char *nm = kind_tab[a->kinds[i]].name;
            for (j = 0; j < cnt && strcmp(names[j], nm); j++) { }
            if (j == cnt) names[cnt++] = nm;
        }
    }
    if (a->rootopt == 2) names[cnt++] = "second-root-in-chain";
    for (i = 0; i < cnt; i++)
    {
        for (j = i + 1; j < cnt; j++)
        {
            if (strcmp(names[i], names[j]) > 0) { const char *t = names[i]; names[i] = names[j]; names[j] = t; }
        }
    }
    out[0] = 0;
    for (i = 0; i < cnt; i++)
    {
        size_t l = strlen(out);
        snprintf(out + l, n - l, "%s%s", i ? "+" : "", names[i]);
    }
    if (!cnt) snprintf(out, n, "no-deviation");
}

/* ------------------------------------------------- violation classes (stable keys) */
typedef struct { int soundness, top_class; char label[40]; } vclass_t;

/* no-anchor mode with a top certificate that is not self-signed: a root cause of its own */
static int top_not_self_signed(const eval_t *e)
{
    int last = e->chain[e->n - 1];
    return e->na == 0 && !(self_issued(last) && edge_ok(last, last));
}

static int is_violation(const eval_t *e, const vclass_t *v)
{
    if (v->soundness)
    {
        return e->ms.accept && !e->lax.ok && top_not_self_signed(e) == v->top_class;
    }
    return e->strict.ok && !e->ms.accept && !strcmp(e->ms.label, v->label);
}

static int still(const case_t *c, const vclass_t *v)
{
    eval_t e;
    int save = g_dump, res;
    g_dump = 0;
    res = eval_case(c, &e) == 0 && is_violation(&e, v);
    g_dump = save;
    return res;
}

/* canonical representative of the violation class: simplest anchor set, natural order, no appended root,
 * fewest deviating positions that still show the violation (greedy; deterministic) */
static void canonicalize(const case_t *c0, const vclass_t *v, case_t *cm)
{
    int i, round;
    case_t t, before;
    *cm = *c0;
    for (round = 0; round < 4; round++)
    {
        before = *cm;
        if (cm->anchors != A_R)
        {
            t = *cm; t.anchors = A_R;
            if (still(&t, v)) *cm = t;
        }
        if (cm->perm != 0)
        {
            t = *cm; t.perm = 0;
            if (still(&t, v)) *cm = t;
        }
        if (cm->perm == 0 && cm->a.rootopt)
        {
            t = *cm; t.a.rootopt = 0;
            if (still(&t, v)) *cm = t;
        }
        if (cm->anchors != A_R && cm->a.rootopt)
        {
            t = *cm; t.anchors = A_R; t.a.rootopt = 0; t.perm = 0;
            if (still(&t, v)) *cm = t;
        }
        if (cm->a.rootopt == 2)
        {
            t = *cm; t.a.rootopt = 1;
            if (still(&t, v)) *cm = t;
        }
        for (i = 0; i <= cm->a.m; i++)
        {
            if (cm->a.kinds[i] != K_GOOD)
            {
                t = *cm; t.a.kinds[i] = K_GOOD;
                if (still(&t, v)) *cm = t;
            }
        }
        if (!memcmp(&before, cm, sizeof(before)))
        {
            break;
        }
    }
}

/* is the (canonical) shape a violation in this slice only? */
static int slice_specific(const case_t *cm, const vclass_t *v)
{
    int sl, comparable = 0, ids[8];
    for (sl = 0; sl < SL_N; sl++)
    {
        case_t t = *cm;
        if (sl == cm->a.slice || cm->a.m > slice_max_int(sl))
        {
            continue;
        }
        build_slice(sl);
        t.a.slice = (unsigned char) sl;
        if (asg_chain(&t.a, ids) < 0)
        {
            continue;                    /* the shape does not exist in that slice */
        }
        comparable++;
        if (still(&t, v))
        {
            return 0;
        }
    }
    return comparable > 0;
}

static void class_key(const case_t *c, const eval_t *e, const vclass_t *v, char *key, size_t n, char *devs, size_t dn, case_t *canon)
{
    case_t cm;
    *canon = *c;
    size_t l;
    if (v->soundness && v->top_class)
    {
        /* one root cause whatever else is wrong with the chain */
        snprintf(devs, dn, "top-certificate-not-self-signed");
        snprintf(key, n, "soundness|no-anchor-mode|%s", devs);
        return;
    }
    canonicalize(c, v, &cm);
    *canon = cm;
    dev_names(&cm.a, devs, dn);
    if (v->soundness)
    {
        snprintf(key, n, "soundness|%s", devs);
    }
    else
    {
        snprintf(key, n, "completeness|%s|%s", v->label, devs);
    }
    l = strlen(key);
    if (cm.anchors == A_RPL0 || cm.anchors == A_RPL1) snprintf(key + l, n - l, "|anchor-with-pathlen");
    else if (cm.anchors == A_NONE) snprintf(key + l, n - l, "|no-anchor-mode");
    else if (cm.anchors != A_R) snprintf(key + l, n - l, "|anchors=%s", anchor_name[cm.anchors]);
    l = strlen(key);
    if (cm.a.rootopt == 1) snprintf(key + l, n - l, "|root-in-chain");
    l = strlen(key);
    if (cm.perm != 0) snprintf(key + l, n - l, "|unordered");
    l = strlen(key);
    /* whether the shape violates in this slice only goes into the description, not into the key: ECDSA signatures are
       randomised per process, and under a defect whose effect depends on signature bytes the other slices' verdicts - and
       with them the key - differed between two replays of one case */
    if (slice_specific(&cm, v))
    {
        size_t dl = strlen(devs);
        snprintf(devs + dl, dn - dl, " (in slice %s only)", slice_name[cm.a.slice]);
    }
}

static void run_case(const case_t *c, mx_result_t *r)
{
    eval_t e;
    vclass_t v;
    case_t canon;
    char md[96], devs[200];
    memset(r, 0, sizeof(*r));
    memset(&v, 0, sizeof(v));
    case_desc(c, r->desc, sizeof(r->desc));
    case_mdesc(c, md, sizeof(md));
    r->state_hash = fnv1a(md, strlen(md), FNV0);
    if (eval_case(c, &e) < 0)
    {
        r->violation = 2;
        snprintf(r->key, sizeof(r->key), "internal|no-such-certificate");
        snprintf(r->what, sizeof(r->what), "descriptor names a certificate kind that does not exist at that position");
        snprintf(r->outcome, sizeof(r->outcome), "INTERNAL");
        return;
    }
    r->nontrivial = 1;
    r->transitions = (uint32_t) e.n;
    snprintf(r->outcome, sizeof(r->outcome), "%s|%s|ms=%s|stmt=%s|must=%s", slice_name[c->a.slice], c->anchors == A_NONE ? "noanchor" : "anchored",
        e.ms.label, e.lax.ok ? "ok" : "no", e.strict.ok ? "y" : "n");
    r->trace_hash = fnv1a(r->outcome, strlen(r->outcome), FNV0);
    if (e.ms.accept && !e.lax.ok)
    {
        v.soundness = 1;
        v.top_class = top_not_self_signed(&e);
        r->violation = 1;
        class_key(c, &e, &v, r->key, sizeof(r->key), devs, sizeof(devs), &canon);
        case_desc(&canon, r->desc, sizeof(r->desc));     /* the finding carries the canonical (smallest) case of its class */
        snprintf(r->what, sizeof(r->what), "matrixValidateCerts reports success (rc 0, every authStatus PASS) although no path to a trust anchor satisfies the statement (%s); first seen at %s",
            e.lax.why, md);
    }
    else if (e.ms.accept && e.na > 0 && !e.ms.found_is_anchor)
    {
        r->violation = 1;
        snprintf(r->key, sizeof(r->key), "soundness|found-issuer-is-not-a-loaded-anchor");
        snprintf(r->what, sizeof(r->what), "success reported but *foundIssuer is not one of the caller's trust anchors");
    }
    else if (e.strict.ok && !e.ms.accept)
    {
        snprintf(v.label, sizeof(v.label), "%s", e.ms.label);
        r->violation = 1;
        class_key(c, &e, &v, r->key, sizeof(r->key), devs, sizeof(devs), &canon);
        case_desc(&canon, r->desc, sizeof(r->desc));
        snprintf(r->what, sizeof(r->what), "leaf-first ordered chain meeting every rule is not accepted: rc %d (%s), verdict %s; first seen at %s",
            e.ms.rc, rc_name(e.ms.rc), e.ms.label, md);
    }
}

/* -------------------------------------------------------------- enumeration */
static asg_t *asgs;
static long nasg, capasg;
static void add_asg(const asg_t *a)
{
    if (nasg >= capasg)
    {
        capasg = capasg ? capasg * 2 : 1 << 16;
        asgs = realloc(asgs, (size_t) capasg * sizeof(asg_t));
    }
    asgs[nasg++] = *a;
}

static int kind_ok_at(int sl, int m, int pos, int k)
{
    if (pos == 0)
    {
        return u_leaf[sl][m][k] >= 0;
    }
    return u_ca[sl][pos][k] >= 0;
}

static void gen_rec(asg_t *a, int pos, int budget)
{
    int k;
    if (pos > a->m)
    {
        add_asg(a);
        return;
    }
    for (k = 0; k < K_N; k++)
    {
        if (!kind_ok_at(a->slice, a->m, pos, k))
        {
            continue;
        }
        if (k != K_GOOD && budget == 0)
        {
            continue;
        }
        a->kinds[pos] = (unsigned char) k;
        gen_rec(a, pos + 1, budget - (k != K_GOOD));
    }
}

static void gen_all(void)
{
    int sl, m, r;
    for (sl = 0; sl < SL_N; sl++)
    {
        int maxlen = thorough ? 5 : 4;
        for (m = 0; m <= slice_max_int(sl); m++)
        {
            for (r = 0; r <= 2; r++)
            {
                int len = 1 + m + (r ? 1 : 0), maxdev;
                asg_t a;
                if (len > maxlen)
                {
                    continue;
                }
                /* quick: <= 2 deviating positions; thorough: <= 3 up to length 4, <= 2 at length 5 */
                maxdev = (thorough && len <= 4 && sl == SL_RSA) ? 3 : 2;
                if (!thorough && m == 2 && (sl == SL_EC || sl == SL_MIX))
                {
                    maxdev = 1;          /* MatrixSSL needs 2 ms per P-256 and 5 ms per P-384 verification */
                }
                memset(&a, 0, sizeof(a));
                a.slice = (unsigned char) sl; a.m = (unsigned char) m; a.rootopt = (unsigned char) r;
                gen_rec(&a, 0, maxdev - (r == 2));
            }
        }
    }
}

static long *g_counts;                   /* shared: [0] cases, [1] natural-order cases, [2] ms accepts, [3] must-accept cases, [4] CRL cases */

#ifdef USE_CRL
static void run_crl_group(long g, void *unused)
{
    long k, lo = g * 64, hi = lo + 64;
    (void) unused;
    if (hi > ncrl) hi = ncrl;
    for (k = lo; k < hi && !mx_deadline_hit(); k++)
    {
        mx_result_t r;
        crl_run_case(&crl_cases[k], &r);
        mx_record(&r);
        __atomic_fetch_add(&g_counts[4], 1, __ATOMIC_RELAXED);
    }
}
#endif

static void run_group(long g, void *unused)
{
    const asg_t *a = &asgs[g];
    int q = a->m + (a->rootopt ? 1 : 0), an;
    long p, np = fact(q);
    (void) unused;
    for (p = 0; p < np; p++)
    {
        for (an = 0; an < A_N; an++)
        {
            case_t c;
            mx_result_t r;
            if (an == A_L1 && slice_max_int(a->slice) < 1)
            {
                continue;
            }
            c.a = *a; c.perm = (int) p; c.anchors = an;
            run_case(&c, &r);
            mx_record(&r);
            __atomic_fetch_add(&g_counts[0], 1, __ATOMIC_RELAXED);
            if (p == 0) __atomic_fetch_add(&g_counts[1], 1, __ATOMIC_RELAXED);
            if (strstr(r.outcome, "ms=accept")) __atomic_fetch_add(&g_counts[2], 1, __ATOMIC_RELAXED);
            if (strstr(r.outcome, "must=y")) __atomic_fetch_add(&g_counts[3], 1, __ATOMIC_RELAXED);
        }
        if (mx_deadline_hit())
        {
            return;
        }
    }
}

int main(int argc, char **argv)
{
    mx_cfg_t cfg;
    const char *replay;
    char extra[512];
    int sl;

    memset(&cfg, 0, sizeof(cfg));
    cfg.property = "C03";
    cfg.level = "exploration";
    cfg.engine = "exhaustive enumeration of certificate chains over a generated small-scope PKI universe (OpenSSL-made certificates, one deviation kind per position), every order of the supplied certificates x every trust-anchor set, matrixValidateCerts() verdict compared with two reference validators";
    cfg.rule = "case = (algorithm slice, number of intermediates, certificate kind per position, optional root appended, permutation of the non-leaf certificates, trust-anchor set). "
               "MatrixSSL 'success' = rc >= 0 AND authStatus == PS_CERT_AUTH_PASS for every supplied certificate (the documented contract used by the TLS layer and matrixssl/test/certValidate.c); a certificate refused by psX509ParseCert rejects the chain. "
               "SOUNDNESS (all cases): success => the statement-rule reference finds a path in any order. COMPLETENESS (leaf-first ordered chains only; unordered chains may be rejected): the must-accept reference holds => success. "
               "Excluded from the oracle (don't care, library stricter than the statement by design): CA without keyUsage, AKI/SKI not both present, issuer DN mismatch with valid signature, critical EKU without TLS usage, extra/unused supplied certificates, non-anchor self-issued certificate at the end; "
               "anchor set {} is the documented self-consistency mode (last supplied certificate, if self-signed, plays the anchor; pathLen not evaluated; the TLS layer reports unknown_ca itself). "
               "Validity kinds are 2 days outside the period (the library tolerates 24 h of clock skew, PS_X509_TIME_LINGER).";
    cfg.assumptions[0] = "clock pinned to 2024-01-01T00:00:00Z for MatrixSSL; the reference evaluates validity at the same instant";
    cfg.assumptions[1] = "per-edge signature truth = OpenSSL X509_verify(cert, issuer public key), restricted to algorithms/key sizes enabled by this build's cryptoConfig.h (SHA-1/MD5 certificate signatures disabled, RSA >= 1024)";
    cfg.assumptions[2] = "parsed certificates are reused between cases of one worker after resetting authStatus/authFailFlags/revokedStatus and the signature bytes (RSA verification decrypts them in place) to their post-parse values; replays always start from a fresh parse";
    cfg.assumptions[3] = "CRL slice: the application authenticates each CRL against the real issuer certificate (psX509AuthenticateCRL) before psCRL_Update unless the CRL kind says otherwise; stale, never-authenticated and conflicting same-issuer CRLs are don't-care";
    cfg.assumptions[4] = "violation keys name the canonical (greedily minimised) representative of the class: anchors {R}, leaf-first order, no appended root and good certificates wherever the violation persists; '|only-<slice>' when the same shape is no violation in any other slice that has it";
    replay = mx_parse_args(argc, argv, &cfg);
    thorough = !strcmp(cfg.tier, "thorough");
    cfg.bound = thorough
        ? "RSA-2048 slice: all chains of length 1..5 (0..4 intermediates, optionally R or a second self-signed root of the same DN appended) over 4 good + 27 deviating kinds per position with <= 3 deviating positions (<= 2 at length 5), every permutation of the non-leaf certificates, 8 anchor sets; P-256 / Ed25519 / mixed RSA+P-384+Ed25519+P-256 / RSA-without-key-identifiers slices: 0..2 intermediates, reduced kind lists (7..16 kinds), <= 2 deviations, all permutations, 8 anchor sets; CRL slice: good RSA chains with 0..2 intermediates x every ordered load sequence of 0..3 distinct CRLs out of 7 CRL kinds per issuing level"
        : "RSA-2048 slice: all chains of length 1..4 (0..3 intermediates, optionally R or a second self-signed root of the same DN appended) over 4 good + 27 deviating kinds per position with <= 2 deviating positions, every permutation of the non-leaf certificates, 8 anchor sets; P-256 / Ed25519 / mixed RSA+P-384+Ed25519+P-256 / RSA-without-key-identifiers slices: 0..2 intermediates, reduced kind lists (7..16 kinds), <= 2 deviations (P-256 and mixed: <= 1 with 2 intermediates), all permutations, 8 anchor sets; CRL slice: good RSA chains with 0..2 intermediates x every ordered load sequence of 0..2 distinct CRLs out of 7 CRL kinds per issuing level";

    env_reset(0);
    if (world_open() < 0)
    {
        die("matrixSslOpen");
    }
    if (replay)
    {
        case_t c;
        mx_result_t r;
#ifdef USE_CRL
        if (!strncmp(replay, "crl=1;", 6))
        {
            crl_case_t cc;
            if (crl_parse_desc(replay, &cc) < 0)
            {
                fprintf(stderr, "bad descriptor\n");
                return 2;
            }
            crl_build();
            g_dump = 1;
            fprintf(stderr, "replaying: %s\n", replay);
            stdout_to_stderr();
            crl_run_case(&cc, &r);
            stdout_restore();
            mx_replay_print(&r);
            return 0;
        }
#endif
        if (parse_desc(replay, &c) < 0)
        {
            fprintf(stderr, "bad descriptor\n");
            return 2;
        }
        build_slice(c.a.slice);
        if (getenv("C03_BENCH"))
        {
            int i, nrep = atoi(getenv("C03_BENCH"));
            double t0;
            eval_t e;
            stdout_to_stderr();
            eval_case(&c, &e);
            t0 = now_s();
            for (i = 0; i < nrep; i++) ms_run(e.chain, e.n, e.anch, e.na, &e.ms);
            fprintf(stderr, "bench: %d x ms_run: %.1f us each (%s)\n", nrep, (now_s() - t0) * 1e6 / nrep, e.ms.label);
            t0 = now_s();
            for (i = 0; i < nrep; i++) { ref_lax(e.chain, e.n, e.anch, e.na, &e.lax); ref_strict(e.chain, e.n, e.anch, e.na, &e.strict); }
            fprintf(stderr, "bench: %d x reference: %.1f us each\n", nrep, (now_s() - t0) * 1e6 / nrep);
            t0 = now_s();
            for (i = 0; i < nrep; i++) { mx_result_t rr; run_case(&c, &rr); }
            fprintf(stderr, "bench: %d x run_case: %.1f us each\n", nrep, (now_s() - t0) * 1e6 / nrep);
            return 0;
        }
        g_dump = 1;
        fprintf(stderr, "replaying: %s\n", replay);
        stdout_to_stderr();
        run_case(&c, &r);
        stdout_restore();
        mx_replay_print(&r);
        return 0;
    }
    mx_init(&cfg);
    for (sl = 0; sl < SL_N; sl++)
    {
        build_slice(sl);
    }
    fprintf(stderr, "universe: %d certificates\n", nU);
    gen_all();
    fprintf(stderr, "assignments: %ld\n", nasg);
    g_counts = mmap(NULL, 16 * sizeof(long), PROT_READ | PROT_WRITE, MAP_SHARED | MAP_ANONYMOUS, -1, 0);
    stdout_to_devnull();                 /* millions of library trace lines otherwise */
#ifdef USE_CRL
    crl_build();
    crl_gen(thorough);
    fprintf(stderr, "CRL cases: %ld\n", ncrl);
    mx_parallel((ncrl + 63) / 64, run_crl_group, NULL);
#else
    mx_note_skipped("CRL slice: USE_CRL is not enabled in this build");
#endif
    mx_parallel(nasg, run_group, NULL);
    stdout_restore();
    snprintf(extra, sizeof(extra), "\"c03\": {\"universe_certificates\": %d, \"kind_assignments\": %ld, \"chain_cases\": %ld, \"leaf_first_ordered_cases\": %ld, \"matrixssl_accepts\": %ld, \"must_accept_cases\": %ld, \"crl_cases\": %ld}",
        nU, nasg, g_counts[0], g_counts[1], g_counts[2], g_counts[3], g_counts[4]);
    return mx_finish(extra);
}
