/* drv_c06 - C06: handshakes follow a legal message sequence; no step can be skipped.
 *
 * Part A (TLS 1.3, malicious peer with the attacker toolkit): the honest flight towards the victim is
 * opened with the flight sender's own handshake traffic secret, EVERY message-level deviation (delete i,
 * duplicate i, swap i/i+1, inject a message of each type of the alphabet at each position, substitute,
 * application data under handshake keys) is applied, Finished is RECOMPUTED over the deviated transcript
 * (so the only thing left to stop the handshake is the state machine), the flight is re-sealed and fed to
 * the victim.  Part B ((D)TLS <= 1.2, network attacker): at every step of the honest handshake a unit is
 * deleted / duplicated / swapped with its successor, or a plaintext handshake message of EVERY type value
 * 0..255, a ChangeCipherSpec or a plaintext Finished is injected; then honest continuation.
 * Oracle: the victim completes only if the handshake messages it received are exactly the honest (legal)
 * sequence for the mode. */
#include "mxv.h"
#include "wire.h"
#include "tk.h"

static int thorough;

#include "tk_flight.h"

static void a_run_case(void *ctx, mx_result_t *r)
{
    a_ctx_t *g = ctx;
    const a_cfg_t *ac = &acfgs[g->ci];
    const dev_t2 *d = &g->d;
    tk_msg_t out[24];
    static unsigned char store[24][24000];
    unsigned char th[64], vd[64], rec[24100], empty[4];
    int no = 0, i, legal, complete, recompute = d->kind != D_NOFINRECOMP;
    int bad_at = -1, bad_alive = 0;   /* index in out[] of a message that is illegal where it stands; did the victim survive it? */
    buf_t tr;
    int v = g->victim;

    r->nontrivial = d->kind != D_NONE;
    /* build the deviated message list */
    for (i = 0; i <= g->nm; i++)
    {
        if (d->kind == D_INJECT && d->i == i)
        {
            empty[0] = (unsigned char) d->t; empty[1] = empty[2] = empty[3] = 0;
            memcpy(store[no], empty, 4);
            out[no].type = d->t; out[no].p = store[no]; out[no].len = 4;
            bad_at = no;
            no++;
        }
        if (d->kind == D_INJECT_NST && d->i == i)
        {
            static const unsigned char nst[] = { 4, 0, 0, 17, 0, 0, 0x0e, 0x10, 1, 2, 3, 4, 1, 0x55, 0, 4, 'T', 'K', 'T', '!', 0, 0 };
            memcpy(store[no], nst, sizeof(nst));
            store[no][3] = (unsigned char) (sizeof(nst) - 4);
            out[no].type = 4; out[no].p = store[no]; out[no].len = (int) sizeof(nst);
            bad_at = no;
            no++;
        }
        if (d->kind == D_APPDATA && d->i == i)
        {
            out[no].type = -23; out[no].p = (const unsigned char *) "EVIL-UNDER-HS-KEYS"; out[no].len = 18;
            bad_at = no;
            no++;
        }
        if (i == g->nm)
        {
            break;
        }
        if ((d->kind == D_DELETE || d->kind == D_NOFINRECOMP) && d->i == i)
        {
            continue;
        }
        if (d->kind == D_DELETE2 && (d->i == i || d->i + 1 == i))
        {
            continue; /* a whole group skipped, e.g. Certificate + CertificateVerify */
        }
        if (d->kind == D_SWAP && d->i == i && i + 1 < g->nm)
        {
            out[no++] = g->m[i + 1];
            out[no++] = g->m[i];
            i++;
            continue;
        }
        out[no++] = g->m[i];
        if ((d->kind == D_CVSCHEME || d->kind == D_CVFLIP) && d->i == i && g->m[i].len > 8 && g->m[i].len < 23000)
        {
            /* the peer holds the certified key and signed THIS transcript, but names another SignatureScheme / damages the signature */
            memcpy(store[21], g->m[i].p, (size_t) g->m[i].len);
            if (d->kind == D_CVSCHEME)
            {
                store[21][4] = (unsigned char) (d->t >> 8);
                store[21][5] = (unsigned char) d->t;
            }
            else
            {
                store[21][g->m[i].len - 1] ^= 0x01;
            }
            out[no - 1].p = store[21];
        }
        if (d->kind == D_CVSTALE && d->i == i && g->donor_cv_len > 0)
        {
            /* a genuine signature by the certified key - over the transcript of another handshake */
            out[no - 1].p = g->donor_cv;
            out[no - 1].len = g->donor_cv_len;
        }
        if (d->kind == D_DUP && d->i == i)
        {
            bad_at = no;
            out[no++] = g->m[i];
        }
    }
    /* recompute the LAST Finished in the list over the deviated transcript */
    buf_init(&tr);
    buf_add(&tr, g->tr.p, g->tr.len);
    {
        int lastfin = -1;
        for (i = 0; i < no; i++)
        {
            if (out[i].type == 20 && out[i].len == 4 + g->hashlen)
            {
                lastfin = i;
            }
        }
        for (i = 0; i < no; i++)
        {
            if (i == lastfin && recompute)
            {
                tk_transcript_hash(g->hashlen, &tr, th);
                tk13_finished(&g->fk, th, vd);
                memcpy(store[20], out[i].p, 4);
                memcpy(store[20] + 4, vd, (size_t) g->hashlen);
                out[i].p = store[20];
            }
            if (out[i].type >= 0)
            {
                buf_add(&tr, out[i].p, (size_t) out[i].len);
            }
        }
    }
    if (d->kind == D_PLAINFLIGHT)
    {
        static unsigned char big[26000];
        int bl = g->first_len[0];
        memcpy(big, g->first_units[0], (size_t) bl);
        for (i = 0; i < no && bl + out[i].len < (int) sizeof(big); i++)
        {
            memcpy(big + bl, out[i].p, (size_t) out[i].len);
            bl += out[i].len;
        }
        if (bl - 5 <= 16384)
        {
            big[3] = (unsigned char) ((bl - 5) >> 8); big[4] = (unsigned char) (bl - 5);
            world_feed(&g->w, v, big, bl);
        }
        no = 0;   /* nothing travels protected */
    }
    else
    /* feed: leading plaintext units, then one record per message */
    for (i = 0; i < g->nfirst; i++)
    {
        world_feed(&g->w, v, g->first_units[i], g->first_len[i]);
    }
    g->fk.seq = 0;
    for (i = 0; i < no; i++)
    {
        int rl = tk13_seal(&g->fk, out[i].type == -23 ? 23 : 22, out[i].p, out[i].len, rec);
        if (g->w.s[v].err_rc < 0 || g->w.s[v].ssl->err != SSL_ALERT_NONE)
        {
            break; /* the victim already aborted */
        }
        {
            int was_complete = world_is_complete(&g->w, v);
            world_feed(&g->w, v, rec, rl);
            if (i == bad_at && !was_complete)
            {
                bad_alive = g->w.s[v].err_rc >= 0 && g->w.s[v].ssl->err == SSL_ALERT_NONE;
            }
        }
    }
    world_pump(&g->w, 50);
    complete = world_is_complete(&g->w, v);
    /* legal iff the message type sequence equals the honest one */
    /* the handshake completes on the first Finished: what the victim received up to and including it must be exactly
       the honest flight (anything after it is post-handshake traffic and judged by C01/C15) */
    {
        int f = -1;
        for (i = 0; i < no; i++)
        {
            if (out[i].type == 20)
            {
                f = i;
                break;
            }
        }
        legal = (f >= 0 && f + 1 == g->nm) && d->kind != D_CVSCHEME && d->kind != D_CVSTALE && d->kind != D_CVFLIP && d->kind != D_PLAINFLIGHT;
        for (i = 0; legal && i <= f; i++)
        {
            if (out[i].type != g->m[i].type || out[i].len != g->m[i].len)
            {
                legal = 0;
            }
        }
    }
    snprintf(r->outcome, sizeof(r->outcome), "%s:%s:%s:%s:alert%d", ac->name, v ? "server" : "client", dname[d->kind], complete ? "COMPLETE" : "refused",
        g->w.s[v].ssl->err);
    r->transitions = (uint32_t) no;
    r->trace_hash = world_trace_hash(&g->w);
    if (complete && !legal)
    {
        r->violation = 1;
        snprintf(r->key, sizeof(r->key), "%s|victim=%s|%s|completed-with-illegal-sequence", ac->name, v ? "server" : "client", dname[d->kind]);
        snprintf(r->what, sizeof(r->what), "%s %s completed its handshake although the %s flight was deviated: %s at position %d (type %d)%s", ac->name,
            v ? "server" : "client", v ? "client" : "server", dname[d->kind], d->i, d->kind == D_INJECT ? d->t : (d->i < g->nm ? g->m[d->i].type : -1),
            recompute ? ", Finished recomputed over the deviated transcript" : "");
    }
    else if (!complete && legal)
    {
        r->violation = 1;
        snprintf(r->key, sizeof(r->key), "%s|victim=%s|legal-sequence-refused", ac->name, v ? "server" : "client");
        snprintf(r->what, sizeof(r->what), "%s %s refused the re-sealed but otherwise untouched honest flight (alert %d): toolkit or library mismatch", ac->name,
            v ? "server" : "client", g->w.s[v].ssl->err);
    }
    else if (bad_alive)
    {
        /* an empty message of any type, a repeated message, application data under the handshake keys: none of them is
           the message expected next (no TLS 1.3 handshake message of these modes has an empty body), so the victim must
           answer with a fatal alert where it arrives - also when the handshake fails later for another reason */
        r->violation = 1;
        snprintf(r->key, sizeof(r->key), "%s|victim=%s|%s|illegal-message-not-fatal", ac->name, v ? "server" : "client", dname[d->kind]);
        snprintf(r->what, sizeof(r->what), "%s %s went on after %s at position %d (type %d): no fatal alert, no error where the illegal message arrived", ac->name, v ? "server" : "client",
            dname[d->kind], d->i, d->t);
    }
    else if (g->w.s[v].n_deliveries > 0 && !complete)
    {
        r->violation = 1;
        snprintf(r->key, sizeof(r->key), "%s|victim=%s|%s|data-delivered-before-completion", ac->name, v ? "server" : "client", dname[d->kind]);
        snprintf(r->what, sizeof(r->what), "%s %s delivered application data sealed under handshake keys before its handshake completed", ac->name, v ? "server" : "client");
    }
    buf_free(&tr);
    (void) hs_type_name;
}

/* ------------------------------------------------------------------ part B */
typedef struct { int ver, kx; uint16_t suite; int cauth, tickets; const char *name; } b_cfg_t;
static const b_cfg_t bcfgs[] = {
    { V_TLS12, KX_PSK, 0, 0, 0, "tls12-psk" },
    { V_TLS12, KX_RSA, 0, 0, 0, "tls12-rsa" },
    { V_TLS12, KX_ECDHE_RSA, 0, 1, 1, "tls12-ecdhe-rsa-clientauth-tickets" },
    { V_TLS11, KX_RSA, 0, 0, 0, "tls11-rsa" },
    { V_TLS12, KX_ECDHE_ECDSA, 0, 0, 0, "tls12-ecdhe-ecdsa" },
    { V_TLS12, KX_RSA, 0, 0, 2, "tls12-rsa-ticket-asked-server-has-none" },
    { V_TLS12, KX_ECDHE_RSA, 0, 0, 1, "tls12-ecdhe-rsa-tickets" },
};
#define NBCFG ((int) (sizeof(bcfgs) / sizeof(bcfgs[0])))
enum { B_NONE = 0, B_DELETE, B_DUP, B_SWAP, B_INJECT_HS, B_INJECT_CCS, B_INJECT_FIN, B_NK };
static const char *bdname[] = { "none", "delete", "duplicate", "swap", "inject-hs", "inject-ccs", "inject-plain-finished" };
typedef struct { int ci, step, kind, t; } b_case_t;
static int b_nsteps[NBCFG];
static uint64_t b_honest_rx[NBCFG][2];   /* hash of the sequence of units each side received in the honest run up to completion */

static uint64_t rx_hash[2];
static int rx_frozen[2];
static void rx_note(world_t *w, int side, const unsigned char *p, int len)
{
    if (!rx_frozen[side])
    {
        /* structural signature of the unit: record type, and for a plaintext handshake record the message type
           (raw bytes differ between processes: session ids, randoms) */
        int hdr = ver_is_dtls(w->cfg.ver) ? 13 : 5, off = 0;
        while (off + hdr <= len)
        {
            unsigned char sig[3];
            int rl = (p[off + hdr - 2] << 8) | p[off + hdr - 1];
            int plain_hs = p[off] == 22 && !(w->s[side].ssl && (w->s[side].ssl->flags & SSL_FLAGS_READ_SECURE));
            sig[0] = p[off];
            sig[1] = plain_hs && off + hdr < len ? p[off + hdr] : 0xEE;
            sig[2] = 0;
            rx_hash[side] = fnv1a(sig, 3, rx_hash[side] * 31 + 7);
            off += hdr + rl;
        }
    }
    if (world_is_complete(w, side))
    {
        rx_frozen[side] = 1;
    }
}

static int b_deliver_next(world_t *w, int *turn)
{
    int k;
    for (k = 0; k < 2; k++)
    {
        int d = (*turn + k) % 2;
        if (w->wire[d].n > 0)
        {
            rec_t r = world_wire_pop(w, d);
            int was = world_is_complete(w, 1 - d);
            world_feed(w, 1 - d, r.p, r.len);
            if (!was)
            {
                rx_note(w, 1 - d, r.p, r.len);
            }
            free(r.p);
            *turn = w->wire[d].n == 0 ? 1 - d : d;
            return 1;
        }
    }
    return 0;
}

static void b_run(const b_case_t *bc, mx_result_t *r, int record_honest)
{
    const b_cfg_t *B = &bcfgs[bc->ci];
    wcfg_t c;
    static world_t w;
    int turn = 0, step = 0, dtls = ver_is_dtls(B->ver), maj, min, guard = 0, victim = -1;
    unsigned char rec[600], body[64];
    int inj_rtype = -1, inj_htype = -1, inj_alive = 0, inj_legal = 0;
    memset(&c, 0, sizeof(c));
    c.ver = B->ver; c.kx = B->kx; c.suite = B->suite; c.client_auth = B->cauth; c.tickets = B->tickets;
    rx_hash[0] = rx_hash[1] = 0;
    rx_frozen[0] = rx_frozen[1] = 0;
    if (world_init(&w, &c) < 0)
    {
        r->violation = 2;
        snprintf(r->key, sizeof(r->key), "init-failed|%s", B->name);
        return;
    }
    wire_version_bytes(B->ver, &maj, &min);
    world_collect(&w, 0);
    while (guard++ < 200)
    {
        if (bc->kind != B_NONE && step == bc->step)
        {
            int d = w.wire[turn].n > 0 ? turn : 1 - turn;
            step++;
            if (w.wire[d].n == 0)
            {
                break;
            }
            victim = 1 - d;
            if (bc->kind == B_INJECT_HS || bc->kind == B_INJECT_CCS || bc->kind == B_INJECT_FIN)
            {
                /* is the injected unit what the victim legitimately expects next?  (then the handshake goes on and the
                   surplus shows at the honest copy; judged at completion) */
                rec_t *h = &w.wire[d].r[w.wire[d].head];
                int hh = dtls ? 13 : 5, secure = w.s[victim].ssl && (w.s[victim].ssl->flags & SSL_FLAGS_READ_SECURE);
                inj_rtype = bc->kind == B_INJECT_CCS ? 20 : 22;
                inj_htype = bc->kind == B_INJECT_CCS ? -1 : bc->kind == B_INJECT_FIN ? 20 : bc->t;
                inj_legal = h->p[0] == inj_rtype && (inj_rtype == 20 || (!secure && h->len > hh && h->p[hh] == inj_htype));
                /* the optional CertificateRequest: ServerHelloDone in its place is the legal flight without client authentication */
                if (h->p[0] == 22 && !secure && h->len > hh && h->p[hh] == 13 && inj_rtype == 22 && inj_htype == 14)
                {
                    inj_legal = 1;
                }
            }
            switch (bc->kind)
            {
            case B_DELETE:
            {
                rec_t x = world_wire_pop(&w, d);
                free(x.p);
                break;
            }
            case B_DUP:
            {
                rec_t *h = &w.wire[d].r[w.wire[d].head];
                unsigned char *cp = malloc((size_t) h->len);
                int l = h->len, was = world_is_complete(&w, victim);
                memcpy(cp, h->p, (size_t) l);
                b_deliver_next(&w, &turn);
                world_feed(&w, victim, cp, l);
                if (!was) rx_note(&w, victim, cp, l);
                free(cp);
                break;
            }
            case B_SWAP:
                if (w.wire[d].n >= 2)
                {
                    rec_t a = w.wire[d].r[w.wire[d].head];
                    w.wire[d].r[w.wire[d].head] = w.wire[d].r[(w.wire[d].head + 1) % W_MAXREC];
                    w.wire[d].r[(w.wire[d].head + 1) % W_MAXREC] = a;
                }
                else
                {
                    r->nontrivial = 0;
                }
                break;
            case B_INJECT_HS:
            case B_INJECT_FIN:
            {
                int hl = 0, len, was = world_is_complete(&w, victim);
                int bodylen = bc->kind == B_INJECT_FIN ? 12 : 0;
                body[hl++] = (unsigned char) (bc->kind == B_INJECT_FIN ? 20 : bc->t);
                body[hl++] = 0; body[hl++] = 0; body[hl++] = (unsigned char) bodylen;
                if (dtls)
                {
                    body[hl++] = 0; body[hl++] = 7;
                    body[hl++] = 0; body[hl++] = 0; body[hl++] = 0;
                    body[hl++] = 0; body[hl++] = 0; body[hl++] = (unsigned char) bodylen;
                }
                memset(body + hl, 0x11, (size_t) bodylen);
                hl += bodylen;
                len = mk_record(rec, dtls, 22, maj, min, 0, 30 + (uint64_t) step, body, hl);
                world_feed(&w, victim, rec, len);
                if (!was) rx_note(&w, victim, rec, len);
                inj_alive = !was && w.s[victim].err_rc >= 0 && w.s[victim].ssl->err == SSL_ALERT_NONE;
                break;
            }
            case B_INJECT_CCS:
            {
                int len, was = world_is_complete(&w, victim);
                body[0] = 1;
                len = mk_record(rec, dtls, 20, maj, min, 0, 31 + (uint64_t) step, body, 1);
                world_feed(&w, victim, rec, len);
                if (!was) rx_note(&w, victim, rec, len);
                inj_alive = !was && w.s[victim].err_rc >= 0 && w.s[victim].ssl->err == SSL_ALERT_NONE;
                break;
            }
            }
            continue;
        }
        if (!b_deliver_next(&w, &turn))
        {
            break;
        }
        step++;
    }
    if (record_honest)
    {
        b_nsteps[bc->ci] = step;
        b_honest_rx[bc->ci][0] = rx_hash[0];
        b_honest_rx[bc->ci][1] = rx_hash[1];
        if (!(world_is_complete(&w, 0) && world_is_complete(&w, 1)))
        {
            r->violation = 2;
            snprintf(r->key, sizeof(r->key), "honest-incomplete|%s", B->name);
        }
        world_free(&w);
        return;
    }
    {
        int s;
        snprintf(r->outcome, sizeof(r->outcome), "%s:%s:c%d%d:v%d", B->name, bdname[bc->kind], world_is_complete(&w, 0), world_is_complete(&w, 1), victim);
        r->transitions = w.actions;
        r->trace_hash = world_trace_hash(&w);
        for (s = 0; s < 2 && !r->violation; s++)
        {
            if (world_is_complete(&w, s) && rx_hash[s] != b_honest_rx[bc->ci][s])
            {
                if (dtls && (bc->kind == B_DUP || bc->kind == B_SWAP || bc->kind == B_DELETE))
                {
                    continue; /* DTLS tolerates duplication / reordering / loss by design (C16) */
                }
                r->violation = 1;
                snprintf(r->key, sizeof(r->key), "%s|%s|%s|completed-with-illegal-sequence", B->name, s ? "server" : "client", bdname[bc->kind]);
                snprintf(r->what, sizeof(r->what), "%s %s completed although the units it received differ from the legal sequence: %s at step %d (type %d)", B->name,
                    s ? "server" : "client", bdname[bc->kind], bc->step, bc->t);
            }
        }
    }
    /* TLS: a handshake-phase unit that is not the one expected next must be fatal where it arrives (the property's "any
       missing, repeated, reordered, premature or foreign message produces a fatal alert").  Not judged: DTLS (stray
       datagrams may be discarded silently, C16) and a HelloRequest towards a client (RFC 5246 7.4.1.1: ignored while a
       handshake is in progress). */
    if (!r->violation && inj_alive && !inj_legal && !dtls && !(inj_rtype == 22 && inj_htype == 0 && victim == 0))
    {
        r->violation = 1;
        snprintf(r->key, sizeof(r->key), "%s|%s|%s|illegal-unit-not-fatal", B->name, victim ? "server" : "client", bdname[bc->kind]);
        snprintf(r->what, sizeof(r->what), "%s %s went on with its handshake after a %s that is not the unit expected at step %d (handshake type %d): no fatal alert, no error",
            B->name, victim ? "server" : "client", bdname[bc->kind], bc->step, inj_htype);
    }
    world_free(&w);
}

static void b_run_case(void *ctx, mx_result_t *r)
{
    r->nontrivial = 1;
    b_run((b_case_t *) ctx, r, 0);
}

/* ------------------------------------------------------------------ groups */

/* ------------------------------------------------------------------ part C: malicious TLS 1.2 CLIENT (SMACK shapes)
 * The client is the attacker: it ran the key exchange itself, so it knows the master secret and its own write keys (read
 * from the honest client instance).  Its second flight (Certificate, ClientKeyExchange, CertificateVerify - plaintext -
 * ChangeCipherSpec, Finished) is deviated at the message level, the Finished is RECOMPUTED over the transcript the server
 * sees and sealed under the client's write key (TLS 1.2 AES-GCM).  The server completes only on the honest sequence. */
typedef struct { int kx; uint16_t suite; int cauth; const char *name; } c_cfg_t;
static const c_cfg_t ccfgs[] = {
    { KX_RSA, TLS_RSA_WITH_AES_128_GCM_SHA256, 1, "tls12-rsa-gcm-clientauth" },
    { KX_ECDHE_RSA, TLS_ECDHE_RSA_WITH_AES_128_GCM_SHA256, 1, "tls12-ecdhe-rsa-gcm-clientauth" },
    { KX_RSA, TLS_RSA_WITH_AES_128_GCM_SHA256, 0, "tls12-rsa-gcm" },
    { KX_ECDHE_RSA, TLS_ECDHE_RSA_WITH_AES_128_GCM_SHA256, 0, "tls12-ecdhe-rsa-gcm" },
};
#define NCCFG ((int) (sizeof(ccfgs) / sizeof(ccfgs[0])))
/* C_FINVAR: the flight is untouched, the Finished is varied: i = 0 one record, 1..15 split into two records after i bytes;
 * t = 0 the correct verify_data, 1 all zeros, 2 last bit flipped, 3 all 0xff */
/* C_CVSTALE: the client's CertificateVerify is a genuine signature of the certified key - made in ANOTHER handshake (other
 * randoms); C_CVFLIP: its last signature byte differs; C_CVALG: t = the SignatureAndHashAlgorithm it names instead */
/* part D applies the same three to the signed ServerKeyExchange; C_SKEPUB: this handshake's signature over the ECDHE
 * public value of another handshake */
/* C_CCS_TWICE: after the ChangeCipherSpec a second one, protected (sequence number 0), then the Finished under sequence
 * number t (0: as if the second CCS had re-armed the cipher; 1: the honest count).  C_FIN_STRADDLES_CCS: the first i bytes of
 * the Finished message travel in a plaintext handshake record BEFORE the ChangeCipherSpec, the rest protected after it. */
enum { C_NONE = 0, C_DELETE, C_DELETE2, C_DUP, C_SWAP, C_INJECT, C_CCS_FIRST, C_FINVAR, C_CVSTALE, C_CVFLIP, C_CVALG, C_SKEPUB, C_CCS_TWICE, C_FIN_STRADDLES_CCS, C_POST_CLIENTHELLO, C_NK };
static const char *cdname[] = { "none", "delete", "delete-two-consecutive", "duplicate", "swap", "inject-empty", "ccs-before-messages", "finished-variant", "certificate-verify-of-another-handshake", "certificate-verify-bit-flipped", "certificate-verify-algorithm-rewritten", "key-exchange-public-value-swapped", "second-protected-change-cipher-spec", "finished-starts-before-change-cipher-spec", "client-hello-after-the-handshake" };
/* The stack below the caller is filled with one byte value before the last Finished fragment is fed: a verify_data
 * comparison against a buffer that was never written (uninitialised local) then compares against THAT value, in the
 * enumeration run and in every replay alike - the all-zero and all-0xff Finished variants are paired with fill 00 / ff. */
static void __attribute__((noinline)) stack_fill(int byte)
{
    volatile unsigned char area[96 * 1024];
    size_t i;
    for (i = 0; i < sizeof(area); i++) area[i] = (unsigned char) byte;
}
/* returns the length of the Finished message to send (16 = header + 12 bytes of verify_data) */
static int finvar_apply(int t, unsigned char *fin)
{
    if (t == 1) memset(fin + 4, 0, 12);
    else if (t == 2) fin[15] ^= 0x01;
    else if (t == 3) memset(fin + 4, 0xff, 12);
    else if (t >= 4 && t <= 6)
    {
        /* a SHORTER verify_data: empty, the first byte, the first half of the correct value (a comparison over the
           bytes that were sent would accept all three) */
        int n = t == 4 ? 0 : t == 5 ? 1 : 6;
        fin[3] = (unsigned char) n;
        return 4 + n;
    }
    else if (t == 7)
    {
        fin[3] = 13; fin[16] = 0;     /* one byte more than the correct value */
        return 17;
    }
    return 16;
}
typedef struct {
    world_t w;
    int ci;
    buf_t tr;                         /* handshake messages exchanged before the client's second flight */
    unsigned char hs[12000]; int hl;  /* that flight's plaintext handshake messages */
    tk_msg_t m[8]; int nm;
    unsigned char ccs[8]; int ccslen;
    unsigned char ms[48], wkey[32], wsalt[4];
    int kind, i, t;
    int seed;
    unsigned char donor_cv[1200]; int donor_cv_len;
    unsigned char cvbuf[1200];
} c_ctx_t;

static int c_setup(c_ctx_t *g)
{
    const c_cfg_t *cc = &ccfgs[g->ci];
    wcfg_t c;
    int turn = 0, guard = 0, d, k, have_ccs = 0;
    memset(&c, 0, sizeof(c));
    c.ver = V_TLS12; c.kx = cc->kx; c.suite = cc->suite; c.client_auth = cc->cauth; c.ems_off = 1; c.seed = g->seed;
    if (world_init(&g->w, &c) < 0)
    {
        return -1;
    }
    buf_init(&g->tr);
    world_collect(&g->w, 0);
    /* honest delivery, recording every plaintext handshake record body, until the client's ChangeCipherSpec is on the wire */
    while (guard++ < 40)
    {
        wire_t *q0 = &g->w.wire[0];
        for (k = 0; k < q0->n; k++)
        {
            if (q0->r[(q0->head + k) % W_MAXREC].p[0] == 20)
            {
                have_ccs = 1;
            }
        }
        if (have_ccs)
        {
            break;
        }
        for (d = 0; d < 2; d++)
        {
            int dd = (turn + d) % 2;
            wire_t *q = &g->w.wire[dd];
            if (q->n > 0)
            {
                rec_t *r = &q->r[q->head];
                if (r->p[0] == 22 && r->len > 5)
                {
                    buf_add(&g->tr, r->p + 5, (size_t) r->len - 5);
                }
                break;
            }
        }
        if (!world_step(&g->w, &turn))
        {
            return -2;
        }
    }
    if (!have_ccs)
    {
        return -3;
    }
    /* split the flight: plaintext handshake records, CCS, (encrypted Finished dropped) */
    g->hl = 0;
    {
        wire_t *q0 = &g->w.wire[0];
        for (k = 0; k < q0->n; k++)
        {
            rec_t *r = &q0->r[(q0->head + k) % W_MAXREC];
            if (r->p[0] == 20)
            {
                memcpy(g->ccs, r->p, (size_t) (r->len < 8 ? r->len : 8));
                g->ccslen = r->len < 8 ? r->len : 8;
                break;
            }
            if (r->p[0] != 22 || g->hl + r->len - 5 > (int) sizeof(g->hs))
            {
                return -4;
            }
            memcpy(g->hs + g->hl, r->p + 5, (size_t) r->len - 5);
            g->hl += r->len - 5;
        }
    }
    g->nm = tk_split_msgs(g->hs, g->hl, g->m, 8);
    if (g->nm < 1)
    {
        return -5;
    }
    memcpy(g->ms, g->w.s[0].ssl->sec.masterSecret, 48);
    memcpy(g->wkey, g->w.s[0].ssl->sec.writeKey, 16);
    memcpy(g->wsalt, g->w.s[0].ssl->sec.writeIV, 4);
    world_wire_clear(&g->w, 0);
    return 0;
}

/* c_setup plus the client's CertificateVerify of ANOTHER handshake (other entropy seed => other randoms, same keys) */
static int c_setup_full(c_ctx_t *g)
{
    static c_ctx_t dn;
    int i;
    g->donor_cv_len = 0;
    if (ccfgs[g->ci].cauth)
    {
        memset(&dn, 0, sizeof(dn));
        dn.ci = g->ci; dn.seed = 4242;
        if (c_setup(&dn) == 0)
        {
            for (i = 0; i < dn.nm; i++)
            {
                if (dn.m[i].type == 15 && dn.m[i].len <= (int) sizeof(g->donor_cv))
                {
                    memcpy(g->donor_cv, dn.m[i].p, (size_t) dn.m[i].len);
                    g->donor_cv_len = dn.m[i].len;
                }
            }
        }
        world_free(&dn.w);
        buf_free(&dn.tr);
    }
    g->seed = 0;
    return c_setup(g);
}

static void c_run_case(void *ctx, mx_result_t *r)
{
    c_ctx_t *g = ctx;
    const c_cfg_t *cc = &ccfgs[g->ci];
    tk_msg_t out[20];
    unsigned char empty[4], rec[16500], fin[20], vd[12];
    int no = 0, i, legal, complete, rl, finlen = 16;
    buf_t tr;
    r->nontrivial = g->kind != C_NONE;
    for (i = 0; i <= g->nm; i++)
    {
        if (g->kind == C_INJECT && g->i == i)
        {
            empty[0] = (unsigned char) g->t; empty[1] = empty[2] = empty[3] = 0;
            out[no].type = g->t; out[no].p = empty; out[no].len = 4;
            no++;
        }
        if (i == g->nm)
        {
            break;
        }
        if (g->kind == C_DELETE && g->i == i) continue;
        if (g->kind == C_DELETE2 && (g->i == i || g->i + 1 == i)) continue;
        if (g->kind == C_SWAP && g->i == i && i + 1 < g->nm)
        {
            out[no++] = g->m[i + 1];
            out[no++] = g->m[i];
            i++;
            continue;
        }
        out[no++] = g->m[i];
        if (g->kind == C_DUP && g->i == i)
        {
            out[no++] = g->m[i];
        }
        if (g->kind == C_CVSTALE && g->i == i && g->donor_cv_len > 0)
        {
            out[no - 1].p = g->donor_cv;
            out[no - 1].len = g->donor_cv_len;
        }
        if ((g->kind == C_CVFLIP || g->kind == C_CVALG) && g->i == i && g->m[i].len > 8 && g->m[i].len <= (int) sizeof(g->cvbuf))
        {
            memcpy(g->cvbuf, g->m[i].p, (size_t) g->m[i].len);
            if (g->kind == C_CVFLIP)
            {
                g->cvbuf[g->m[i].len - 1] ^= 0x01;
            }
            else
            {
                g->cvbuf[4] = (unsigned char) (g->t >> 8);
                g->cvbuf[5] = (unsigned char) g->t;
            }
            out[no - 1].p = g->cvbuf;
        }
    }
    buf_init(&tr);
    buf_add(&tr, g->tr.p, g->tr.len);
    if (g->kind == C_CCS_FIRST)
    {
        world_feed(&g->w, 1, g->ccs, g->ccslen);
    }
    for (i = 0; i < no; i++)
    {
        rec[0] = 22; rec[1] = 3; rec[2] = 3; rec[3] = (unsigned char) (out[i].len >> 8); rec[4] = (unsigned char) out[i].len;
        memcpy(rec + 5, out[i].p, (size_t) out[i].len);
        buf_add(&tr, out[i].p, (size_t) out[i].len);
        if (g->w.s[1].err_rc < 0 || g->w.s[1].ssl->err != SSL_ALERT_NONE)
        {
            break;
        }
        world_feed(&g->w, 1, rec, 5 + out[i].len);
    }
    /* Finished over exactly what the server has seen */
    tk12_finished(g->ms, 1, &tr, vd);
    fin[0] = 20; fin[1] = 0; fin[2] = 0; fin[3] = 12;
    memcpy(fin + 4, vd, 12);
    if (g->kind == C_FIN_STRADDLES_CCS)
    {
        rec[0] = 22; rec[1] = 3; rec[2] = 3; rec[3] = 0; rec[4] = (unsigned char) g->i;
        memcpy(rec + 5, fin, (size_t) g->i);
        if (!(g->w.s[1].err_rc < 0 || g->w.s[1].ssl->err != SSL_ALERT_NONE)) world_feed(&g->w, 1, rec, 5 + g->i);
    }
    if (g->kind != C_CCS_FIRST)
    {
        world_feed(&g->w, 1, g->ccs, g->ccslen);
    }
    if (g->kind == C_CCS_TWICE)
    {
        static const unsigned char one[1] = { 1 };
        rl = tk12_gcm_seal(g->wkey, 16, g->wsalt, 0, 20, one, 1, rec);
        if (rl > 0 && !(g->w.s[1].err_rc < 0 || g->w.s[1].ssl->err != SSL_ALERT_NONE)) world_feed(&g->w, 1, rec, rl);
        rl = tk12_gcm_seal(g->wkey, 16, g->wsalt, (uint64_t) g->t, 22, fin, 16, rec);
        if (rl > 0 && !(g->w.s[1].err_rc < 0 || g->w.s[1].ssl->err != SSL_ALERT_NONE)) world_feed(&g->w, 1, rec, rl);
    }
    else if (g->kind == C_FIN_STRADDLES_CCS)
    {
        rl = tk12_gcm_seal(g->wkey, 16, g->wsalt, 0, 22, fin + g->i, 16 - g->i, rec);
        if (rl > 0 && !(g->w.s[1].err_rc < 0 || g->w.s[1].ssl->err != SSL_ALERT_NONE)) world_feed(&g->w, 1, rec, rl);
    }
    else
    {
    if (g->kind == C_FINVAR)
    {
        finlen = finvar_apply(g->t, fin);
    }
    if (g->kind == C_FINVAR && g->i > 0 && finlen == 16)
    {
        /* a handshake message may legally span records: the Finished in two records */
        rl = tk12_gcm_seal(g->wkey, 16, g->wsalt, 0, 22, fin, g->i, rec);
        if (rl > 0 && !(g->w.s[1].err_rc < 0 || g->w.s[1].ssl->err != SSL_ALERT_NONE)) world_feed(&g->w, 1, rec, rl);
        rl = tk12_gcm_seal(g->wkey, 16, g->wsalt, 1, 22, fin + g->i, 16 - g->i, rec);
        stack_fill(g->t == 1 ? 0x00 : g->t == 3 ? 0xff : 0xaa);
        if (rl > 0 && !(g->w.s[1].err_rc < 0 || g->w.s[1].ssl->err != SSL_ALERT_NONE)) world_feed(&g->w, 1, rec, rl);
    }
    else
    {
        rl = tk12_gcm_seal(g->wkey, 16, g->wsalt, 0, 22, fin, finlen, rec);
        if (rl > 0 && !(g->w.s[1].err_rc < 0 || g->w.s[1].ssl->err != SSL_ALERT_NONE))
        {
            world_feed(&g->w, 1, rec, rl);
        }
    }
    }
    complete = world_is_complete(&g->w, 1);
    legal = g->kind == C_NONE || (g->kind == C_FINVAR && g->t == 0);
    snprintf(r->outcome, sizeof(r->outcome), "%s:server:%s:%s:alert%d", cc->name, cdname[g->kind], complete ? "COMPLETE" : "refused", g->w.s[1].ssl->err);
    r->transitions = (uint32_t) no + 2;
    r->trace_hash = world_trace_hash(&g->w);
    if (complete && !legal)
    {
        r->violation = 1;
        snprintf(r->key, sizeof(r->key), "%s|victim=server|%s|completed-with-illegal-sequence", cc->name, cdname[g->kind]);
        snprintf(r->what, sizeof(r->what), "%s server completed its handshake although the malicious client's flight was deviated: %s at position %d (type %d), Finished recomputed over the deviated transcript and sealed under the client's own write key",
            cc->name, cdname[g->kind], g->i, g->kind == C_INJECT ? g->t : (g->i < g->nm ? g->m[g->i].type : -1));
    }
    else if (!complete && g->kind == C_NONE)
    {
        r->violation = 1;
        snprintf(r->key, sizeof(r->key), "%s|victim=server|legal-sequence-refused", cc->name);
        snprintf(r->what, sizeof(r->what), "%s server refused the untouched client flight with a toolkit-made Finished (alert %d): toolkit or library mismatch", cc->name, g->w.s[1].ssl->err);
    }
    buf_free(&tr);
}


/* ------------------------------------------------------------------ part D: malicious TLS 1.2 SERVER
 * The server's first flight (ServerHello, Certificate, ServerKeyExchange, CertificateRequest, ServerHelloDone - plaintext)
 * is deviated at the message level.  If the client answers with its own flight, the attacker completes the handshake with
 * ChangeCipherSpec and a Finished computed over the transcript the CLIENT has seen, sealed under the key the client reads
 * with (master secret and keys are read from the client instance: an over-approximation of what a malicious server can
 * derive - a reported completion is inspected by hand before it is called a defect). */
typedef struct {
    world_t w;
    int ci;
    buf_t tr;                          /* ClientHello */
    unsigned char hs[12000]; int hl;   /* the server's first flight */
    tk_msg_t m[8]; int nm;
    int kind, i, t;
    int seed;
    unsigned char donor_ske[1200]; int donor_ske_len;
    unsigned char skebuf[1200];
} d_ctx_t;

static int d_setup(d_ctx_t *g)
{
    const c_cfg_t *cc = &ccfgs[g->ci];
    wcfg_t c;
    int k;
    wire_t *q;
    memset(&c, 0, sizeof(c));
    c.ver = V_TLS12; c.kx = cc->kx; c.suite = cc->suite; c.client_auth = cc->cauth; c.ems_off = 1; c.seed = g->seed;
    if (world_init(&g->w, &c) < 0)
    {
        return -1;
    }
    buf_init(&g->tr);
    world_collect(&g->w, 0);
    q = &g->w.wire[0];
    if (q->n != 1 || q->r[q->head].p[0] != 22)
    {
        return -2;
    }
    buf_add(&g->tr, q->r[q->head].p + 5, (size_t) q->r[q->head].len - 5);
    world_deliver(&g->w, 0);
    q = &g->w.wire[1];
    g->hl = 0;
    for (k = 0; k < q->n; k++)
    {
        rec_t *r = &q->r[(q->head + k) % W_MAXREC];
        if (r->p[0] != 22 || g->hl + r->len - 5 > (int) sizeof(g->hs))
        {
            return -3;
        }
        memcpy(g->hs + g->hl, r->p + 5, (size_t) r->len - 5);
        g->hl += r->len - 5;
    }
    g->nm = tk_split_msgs(g->hs, g->hl, g->m, 8);
    if (g->nm < 2)
    {
        return -4;
    }
    world_wire_clear(&g->w, 1);
    return 0;
}

/* d_setup plus the ServerKeyExchange of ANOTHER handshake (other entropy seed => other randoms and ephemeral key, same certificate key) */
static int d_setup_full(d_ctx_t *g)
{
    static d_ctx_t dn;
    int i;
    g->donor_ske_len = 0;
    memset(&dn, 0, sizeof(dn));
    dn.ci = g->ci; dn.seed = 4242;
    if (d_setup(&dn) == 0)
    {
        for (i = 0; i < dn.nm; i++)
        {
            if (dn.m[i].type == 12 && dn.m[i].len <= (int) sizeof(g->donor_ske))
            {
                memcpy(g->donor_ske, dn.m[i].p, (size_t) dn.m[i].len);
                g->donor_ske_len = dn.m[i].len;
            }
        }
    }
    world_free(&dn.w);
    buf_free(&dn.tr);
    g->seed = 0;
    return d_setup(g);
}

static void d_run_case(void *ctx, mx_result_t *r)
{
    d_ctx_t *g = ctx;
    const c_cfg_t *cc = &ccfgs[g->ci];
    tk_msg_t out[20];
    unsigned char empty[4], rec[16500], fin[20], vd[12];
    static const unsigned char ccs[6] = { 20, 3, 3, 0, 1, 1 };
    int no = 0, i, legal, complete, rl, answered = 0, k, finlen = 16;
    buf_t tr;
    wire_t *q;
    r->nontrivial = g->kind != C_NONE;
    for (i = 0; i <= g->nm; i++)
    {
        if (g->kind == C_INJECT && g->i == i)
        {
            empty[0] = (unsigned char) g->t; empty[1] = empty[2] = empty[3] = 0;
            out[no].type = g->t; out[no].p = empty; out[no].len = 4;
            no++;
        }
        if (i == g->nm) break;
        if (g->kind == C_DELETE && g->i == i) continue;
        if (g->kind == C_DELETE2 && (g->i == i || g->i + 1 == i)) continue;
        if (g->kind == C_SWAP && g->i == i && i + 1 < g->nm)
        {
            out[no++] = g->m[i + 1];
            out[no++] = g->m[i];
            i++;
            continue;
        }
        out[no++] = g->m[i];
        if (g->kind == C_DUP && g->i == i) out[no++] = g->m[i];
        if (g->kind == C_CVSTALE && g->i == i && g->donor_ske_len > 0)
        {
            out[no - 1].p = g->donor_ske;
            out[no - 1].len = g->donor_ske_len;
        }
        if ((g->kind == C_CVFLIP || g->kind == C_CVALG || g->kind == C_SKEPUB) && g->i == i && g->m[i].len > 12 && g->m[i].len <= (int) sizeof(g->skebuf))
        {
            /* ECDHE ServerKeyExchange: curve_type, named_curve(2), point length, point, algorithm(2), signature length(2), signature */
            int pl = g->m[i].p[7], ao = 8 + pl;
            memcpy(g->skebuf, g->m[i].p, (size_t) g->m[i].len);
            if (g->kind == C_CVFLIP)
            {
                g->skebuf[g->m[i].len - 1] ^= 0x01;
            }
            else if (g->kind == C_CVALG && ao + 2 <= g->m[i].len)
            {
                g->skebuf[ao] = (unsigned char) (g->t >> 8);
                g->skebuf[ao + 1] = (unsigned char) g->t;
            }
            else if (g->kind == C_SKEPUB && g->donor_ske_len == g->m[i].len && g->donor_ske[7] == pl)
            {
                memcpy(g->skebuf + 8, g->donor_ske + 8, (size_t) pl);
            }
            out[no - 1].p = g->skebuf;
        }
    }
    buf_init(&tr);
    buf_add(&tr, g->tr.p, g->tr.len);
    for (i = 0; i < no; i++)
    {
        rec[0] = 22; rec[1] = 3; rec[2] = 3; rec[3] = (unsigned char) (out[i].len >> 8); rec[4] = (unsigned char) out[i].len;
        memcpy(rec + 5, out[i].p, (size_t) out[i].len);
        buf_add(&tr, out[i].p, (size_t) out[i].len);
        if (g->w.s[0].err_rc < 0 || g->w.s[0].ssl->err != SSL_ALERT_NONE) break;
        world_feed(&g->w, 0, rec, 5 + out[i].len);
    }
    /* did the client answer with a flight that ends in ChangeCipherSpec + Finished? */
    q = &g->w.wire[0];
    for (k = 0; k < q->n; k++)
    {
        rec_t *x = &q->r[(q->head + k) % W_MAXREC];
        if (x->p[0] == 22 && !answered)
        {
            buf_add(&tr, x->p + 5, (size_t) x->len - 5);   /* its plaintext handshake messages */
        }
        if (x->p[0] == 20)
        {
            answered = 1;
        }
    }
    if (answered && g->w.s[0].ssl->err == SSL_ALERT_NONE)
    {
        unsigned char ms[48], rkey[16], rsalt[4];
        memcpy(ms, g->w.s[0].ssl->sec.masterSecret, 48);
        /* the client's own Finished is part of the transcript the server Finished covers */
        tk12_finished(ms, 1, &tr, vd);
        fin[0] = 20; fin[1] = 0; fin[2] = 0; fin[3] = 12;
        memcpy(fin + 4, vd, 12);
        buf_add(&tr, fin, 16);
        tk12_finished(ms, 0, &tr, vd);
        memcpy(fin + 4, vd, 12);
        world_wire_clear(&g->w, 0);
        if (g->kind == C_FIN_STRADDLES_CCS)
        {
            rec[0] = 22; rec[1] = 3; rec[2] = 3; rec[3] = 0; rec[4] = (unsigned char) g->i;
            memcpy(rec + 5, fin, (size_t) g->i);
            world_feed(&g->w, 0, rec, 5 + g->i);
        }
        world_feed(&g->w, 0, ccs, 6);
        /* the ChangeCipherSpec made the client activate the key it reads with */
        memcpy(rkey, g->w.s[0].ssl->sec.readKey, 16);
        memcpy(rsalt, g->w.s[0].ssl->sec.readIV, 4);
        if (g->kind == C_FINVAR)
        {
            finlen = finvar_apply(g->t, fin);
        }
        if (g->kind == C_CCS_TWICE)
        {
            static const unsigned char one[1] = { 1 };
            rl = tk12_gcm_seal(rkey, 16, rsalt, 0, 20, one, 1, rec);
            if (rl > 0 && g->w.s[0].err_rc >= 0) world_feed(&g->w, 0, rec, rl);
            rl = tk12_gcm_seal(rkey, 16, rsalt, (uint64_t) g->t, 22, fin, 16, rec);
            if (rl > 0 && g->w.s[0].err_rc >= 0 && g->w.s[0].ssl->err == SSL_ALERT_NONE) world_feed(&g->w, 0, rec, rl);
        }
        else if (g->kind == C_FIN_STRADDLES_CCS)
        {
            rl = tk12_gcm_seal(rkey, 16, rsalt, 0, 22, fin + g->i, 16 - g->i, rec);
            if (rl > 0 && g->w.s[0].err_rc >= 0 && g->w.s[0].ssl->err == SSL_ALERT_NONE) world_feed(&g->w, 0, rec, rl);
        }
        else
        if (g->kind == C_FINVAR && g->i > 0 && finlen == 16)
        {
            rl = tk12_gcm_seal(rkey, 16, rsalt, 0, 22, fin, g->i, rec);
            if (rl > 0) world_feed(&g->w, 0, rec, rl);
            rl = tk12_gcm_seal(rkey, 16, rsalt, 1, 22, fin + g->i, 16 - g->i, rec);
            stack_fill(g->t == 1 ? 0x00 : g->t == 3 ? 0xff : 0xaa);
            if (rl > 0 && g->w.s[0].err_rc >= 0 && g->w.s[0].ssl->err == SSL_ALERT_NONE) world_feed(&g->w, 0, rec, rl);
        }
        else
        {
            rl = tk12_gcm_seal(rkey, 16, rsalt, 0, 22, fin, finlen, rec);
            if (rl > 0)
            {
                world_feed(&g->w, 0, rec, rl);
            }
        }
    }
    complete = world_is_complete(&g->w, 0);
    if (g->kind == C_POST_CLIENTHELLO && complete)
    {
        /* the (authenticated) server now sends the client a ClientHello - its own first message, replayed under the
           server's write key: a client is no server; with re-handshakes compiled out there is nothing to negotiate */
        unsigned char rkey[16], rsalt[4];
        static unsigned char big[4000];
        int before = g->w.s[0].ssl->err;
        memcpy(rkey, g->w.s[0].ssl->sec.readKey, 16);
        memcpy(rsalt, g->w.s[0].ssl->sec.readIV, 4);
        world_wire_clear(&g->w, 0);
        rl = g->tr.len < 3000 ? tk12_gcm_seal(rkey, 16, rsalt, 1, 22, g->tr.p, (int) g->tr.len, big) : -1;
        if (rl > 0)
        {
            world_feed(&g->w, 0, big, rl);
            if (before == SSL_ALERT_NONE && g->w.s[0].ssl->err == SSL_ALERT_NONE && g->w.s[0].err_rc >= 0)
            {
                r->violation = 1;
                r->nontrivial = 1;
                snprintf(r->key, sizeof(r->key), "%s|victim=client|%s|illegal-message-not-fatal", cc->name, cdname[g->kind]);
                snprintf(r->what, sizeof(r->what), "%s client: after its handshake the server sent it a protected ClientHello: no alert, no error (hsState %d, %d units of output) - the client went on as if it were a server",
                    cc->name, g->w.s[0].ssl->hsState, g->w.wire[0].n);
                snprintf(r->outcome, sizeof(r->outcome), "%s:client:%s:NOT-REFUSED", cc->name, cdname[g->kind]);
                r->transitions = (uint32_t) no + 3;
                r->trace_hash = world_trace_hash(&g->w);
                buf_free(&tr);
                return;
            }
        }
    }
    /* legal language of the server's first flight: the honest type sequence, with the optional CertificateRequest
     * present or absent (a flight without it is the legal handshake without client authentication) */
    {
        int a = 0, b = 0;
        legal = 1;
        while (legal && (a < no || b < g->nm))
        {
            if (a < no && b < g->nm && out[a].type == g->m[b].type && out[a].p == g->m[b].p && out[a].len == g->m[b].len) { a++; b++; }
            else if (b < g->nm && g->m[b].type == 13) b++;
            else legal = 0;
        }
    }
    if (g->kind == C_FINVAR)
    {
        legal = g->t == 0;
    }
    if (g->kind == C_CCS_TWICE || g->kind == C_FIN_STRADDLES_CCS)
    {
        legal = 0;
    }
    snprintf(r->outcome, sizeof(r->outcome), "%s:client:%s:%s:%s:alert%d", cc->name, cdname[g->kind], answered ? "answered" : "no-answer", complete ? "COMPLETE" : "refused", g->w.s[0].ssl->err);
    r->transitions = (uint32_t) no + 2;
    r->trace_hash = world_trace_hash(&g->w);
    if (complete && !legal)
    {
        r->violation = 1;
        snprintf(r->key, sizeof(r->key), "%s|victim=client|%s|completed-with-illegal-sequence", cc->name, cdname[g->kind]);
        snprintf(r->what, sizeof(r->what), "%s client completed its handshake although the malicious server's first flight was deviated: %s at position %d (type %d); server Finished computed over the transcript the client saw",
            cc->name, cdname[g->kind], g->i, g->kind == C_INJECT ? g->t : (g->i < g->nm ? g->m[g->i].type : -1));
    }
    else if (!complete && g->kind == C_NONE)
    {
        r->violation = 1;
        snprintf(r->key, sizeof(r->key), "%s|victim=client|legal-sequence-refused", cc->name);
        snprintf(r->what, sizeof(r->what), "%s client refused the untouched server flight with a toolkit-made Finished (alert %d, answered %d): toolkit or library mismatch", cc->name, g->w.s[0].ssl->err, answered);
    }
    buf_free(&tr);
}

typedef struct { int part, ci, victim; } grp_t;
static grp_t groups[64];
static long ngroups;

static void run_group(long gi, void *unused)
{
    (void) unused;
    if (groups[gi].part == 3)
    {
        static d_ctx_t g;
        static const int dtypes[] = { 0, 1, 2, 4, 11, 12, 13, 14, 15, 16, 20, 22, 254 };
        int i, t, rc;
        memset(&g, 0, sizeof(g));
        g.ci = groups[gi].ci;
        if ((rc = d_setup_full(&g)) != 0)
        {
            mx_result_t r;
            memset(&r, 0, sizeof(r));
            r.violation = 2;
            snprintf(r.key, sizeof(r.key), "toolkit-setup-failed|%s|server-flight|rc=%d", ccfgs[g.ci].name, rc);
            snprintf(r.what, sizeof(r.what), "toolkit could not take over the server flight of %s (rc %d)", ccfgs[g.ci].name, rc);
            snprintf(r.desc, sizeof(r.desc), "D;c=%d", g.ci);
            mx_record(&r);
            return;
        }
#define DFORK(K, I, T) do { char desc[200]; g.kind = (K); g.i = (I); g.t = (T); \
        snprintf(desc, sizeof(desc), "D;c=%d;k=%d;i=%d;t=%d (%s malicious server: %s pos=%d type=%d of %d msgs)", g.ci, (K), (I), (T), ccfgs[g.ci].name, cdname[K], (I), (T), g.nm); \
        mx_fork_case(desc, d_run_case, &g); } while (0)
        DFORK(C_NONE, 0, 0);
        DFORK(C_POST_CLIENTHELLO, 0, 0);
        DFORK(C_CCS_TWICE, 0, 0);
        DFORK(C_CCS_TWICE, 0, 1);
        for (i = 1; i <= 15; i++) DFORK(C_FIN_STRADDLES_CCS, i, 0);
        for (i = 0; i <= 15; i++)
        {
            for (t = 0; t < (i == 0 ? 8 : 4); t++) DFORK(C_FINVAR, i, t);
        }
        for (i = 0; i < g.nm; i++)
        {
            if (g.m[i].type == 12 && g.m[i].len > 12 && g.m[i].p[4] == 3)
            {
                static const int algs[] = { 0x0201, 0x0401, 0x0501, 0x0601, 0x0403, 0x0503, 0x0603, 0x0804, 0x0805, 0x0806, 0x0807, 0x0101, 0x0000, 0xffff };
                int ao = 8 + g.m[i].p[7], hon = ao + 2 <= g.m[i].len ? (g.m[i].p[ao] << 8) | g.m[i].p[ao + 1] : -1;
                if (g.donor_ske_len > 0) DFORK(C_CVSTALE, i, 0);
                if (g.donor_ske_len == g.m[i].len) DFORK(C_SKEPUB, i, 0);
                DFORK(C_CVFLIP, i, 0);
                for (t = 0; t < (int) (sizeof(algs) / sizeof(algs[0])); t++)
                {
                    if (algs[t] != hon) DFORK(C_CVALG, i, algs[t]);
                }
            }
            DFORK(C_DELETE, i, 0);
            DFORK(C_DUP, i, 0);
            if (i + 1 < g.nm) DFORK(C_SWAP, i, 0);
            if (i + 1 < g.nm) DFORK(C_DELETE2, i, 0);
        }
        for (i = 0; i <= g.nm; i++)
        {
            for (t = 0; t < (int) (sizeof(dtypes) / sizeof(dtypes[0])); t++) DFORK(C_INJECT, i, dtypes[t]);
            if (thorough)
            {
                for (t = 0; t < 256; t++) DFORK(C_INJECT, i, t);
            }
        }
#undef DFORK
        world_free(&g.w);
        buf_free(&g.tr);
        return;
    }
    if (groups[gi].part == 2)
    {
        static c_ctx_t g;
        static const int ctypes[] = { 0, 1, 2, 4, 11, 12, 13, 14, 15, 16, 20, 22, 254 };
        int i, t, rc;
        memset(&g, 0, sizeof(g));
        g.ci = groups[gi].ci;
        if ((rc = c_setup_full(&g)) != 0)
        {
            mx_result_t r;
            memset(&r, 0, sizeof(r));
            r.violation = 2;
            snprintf(r.key, sizeof(r.key), "toolkit-setup-failed|%s|rc=%d", ccfgs[g.ci].name, rc);
            snprintf(r.what, sizeof(r.what), "toolkit could not take over the client flight of %s (rc %d)", ccfgs[g.ci].name, rc);
            snprintf(r.desc, sizeof(r.desc), "C;c=%d", g.ci);
            mx_record(&r);
            return;
        }
#define CFORK(K, I, T) do { char desc[200]; g.kind = (K); g.i = (I); g.t = (T); \
        snprintf(desc, sizeof(desc), "C;c=%d;k=%d;i=%d;t=%d (%s malicious client: %s pos=%d type=%d of %d msgs)", g.ci, (K), (I), (T), ccfgs[g.ci].name, cdname[K], (I), (T), g.nm); \
        mx_fork_case(desc, c_run_case, &g); } while (0)
        CFORK(C_NONE, 0, 0);
        CFORK(C_CCS_FIRST, 0, 0);
        CFORK(C_CCS_TWICE, 0, 0);
        CFORK(C_CCS_TWICE, 0, 1);
        for (i = 1; i <= 15; i++) CFORK(C_FIN_STRADDLES_CCS, i, 0);
        for (i = 0; i <= 15; i++)
        {
            for (t = 0; t < (i == 0 ? 8 : 4); t++) CFORK(C_FINVAR, i, t);
        }
        for (i = 0; i < g.nm; i++)
        {
            if (g.m[i].type == 15)
            {
                /* the honest CertificateVerify names (hash, signature) in its first two bytes: every other pair of the
                   TLS 1.2 registries' low ranges, so that the same signature bytes are interpreted under another algorithm */
                static const int algs[] = { 0x0201, 0x0401, 0x0501, 0x0601, 0x0403, 0x0503, 0x0603, 0x0804, 0x0805, 0x0806, 0x0807, 0x0101, 0x0000, 0xffff };
                int hon = (g.m[i].p[4] << 8) | g.m[i].p[5];
                if (g.donor_cv_len > 0) CFORK(C_CVSTALE, i, 0);
                CFORK(C_CVFLIP, i, 0);
                for (t = 0; t < (int) (sizeof(algs) / sizeof(algs[0])); t++)
                {
                    if (algs[t] != hon) CFORK(C_CVALG, i, algs[t]);
                }
            }
            CFORK(C_DELETE, i, 0);
            CFORK(C_DUP, i, 0);
            if (i + 1 < g.nm) CFORK(C_SWAP, i, 0);
            if (i + 1 < g.nm) CFORK(C_DELETE2, i, 0);
        }
        for (i = 0; i <= g.nm; i++)
        {
            for (t = 0; t < (int) (sizeof(ctypes) / sizeof(ctypes[0])); t++)
            {
                CFORK(C_INJECT, i, ctypes[t]);
            }
            if (thorough)
            {
                for (t = 0; t < 256; t++) CFORK(C_INJECT, i, t);
            }
        }
#undef CFORK
        world_free(&g.w);
        buf_free(&g.tr);
        return;
    }
    if (groups[gi].part == 0)
    {
        static a_ctx_t g;
        int i, t, rc;
        memset(&g, 0, sizeof(g));
        g.ci = groups[gi].ci;
        g.victim = groups[gi].victim;
        if ((rc = a_setup_full(&g)) != 0)
        {
            mx_result_t r;
            memset(&r, 0, sizeof(r));
            r.violation = 2;
            snprintf(r.key, sizeof(r.key), "toolkit-setup-failed|%s|v=%d|rc=%d", acfgs[g.ci].name, g.victim, rc);
            snprintf(r.what, sizeof(r.what), "toolkit could not open the honest flight of %s (victim %d, rc %d)", acfgs[g.ci].name, g.victim, rc);
            snprintf(r.desc, sizeof(r.desc), "A;c=%d;v=%d", g.ci, g.victim);
            mx_record(&r);
            return;
        }
#define FORK(K, I, T) do { char desc[200]; g.d.kind = (K); g.d.i = (I); g.d.t = (T); \
        snprintf(desc, sizeof(desc), "A;c=%d;v=%d;k=%d;i=%d;t=%d (%s victim=%s %s pos=%d type=%d of %d msgs)", g.ci, g.victim, (K), (I), (T), acfgs[g.ci].name, \
            g.victim ? "server" : "client", dname[K], (I), (T), g.nm); mx_fork_case(desc, a_run_case, &g); } while (0)
        FORK(D_NONE, 0, 0);
        if (g.victim == 0 && g.first_len[0] > 5 && g.first_units[0][0] == 22) FORK(D_PLAINFLIGHT, 0, 0);
        for (i = 0; i < g.nm; i++)
        {
            FORK(D_DELETE, i, 0);
            FORK(D_NOFINRECOMP, i, 0);
            FORK(D_DUP, i, 0);
            if (i + 1 < g.nm) FORK(D_SWAP, i, 0);
            if (i + 2 < g.nm) FORK(D_DELETE2, i, 0);
            if (g.m[i].type == 15)
            {
                /* CertificateVerify: proof of possession over THIS transcript with an OFFERED scheme */
                static const int schemes[] = { 0x0401, 0x0501, 0x0403, 0x0503, 0x0804, 0x0805, 0x0806, 0x0807, 0x0201, 0x0203, 0x0000, 0xffff };
                int si;
                int honest = (g.m[i].p[4] << 8) | g.m[i].p[5];
                for (si = 0; si < (int) (sizeof(schemes) / sizeof(schemes[0])); si++)
                {
                    if (schemes[si] != honest) FORK(D_CVSCHEME, i, schemes[si]);
                }
                FORK(D_CVFLIP, i, 0);
                if (g.donor_cv_len > 0) FORK(D_CVSTALE, i, 0);
            }
        }
        for (i = 0; i <= g.nm; i++)
        {
            for (t = 0; t < NINJ; t++)
            {
                FORK(D_INJECT, i, inj_types[t]);
            }
            if (thorough)
            {
                for (t = 0; t < 256; t++)
                {
                    FORK(D_INJECT, i, t);
                }
            }
            FORK(D_APPDATA, i, 0);
            if (g.victim == 0) FORK(D_INJECT_NST, i, 0);
        }
#undef FORK
        world_free(&g.w);
    }
    else
    {
        b_case_t bc;
        int step, t, n = b_nsteps[groups[gi].ci];
        bc.ci = groups[gi].ci;
#define BFORK(K, S, T) do { char desc[200]; bc.kind = (K); bc.step = (S); bc.t = (T); \
        snprintf(desc, sizeof(desc), "B;c=%d;s=%d;k=%d;t=%d (%s %s at step %d/%d type %d)", bc.ci, (S), (K), (T), bcfgs[bc.ci].name, bdname[K], (S), n, (T)); \
        if (mx_deadline_hit()) return; mx_fork_case(desc, b_run_case, &bc); } while (0)
        BFORK(B_NONE, 0, 0);
        for (step = 0; step < n; step++)
        {
            BFORK(B_DELETE, step, 0);
            BFORK(B_DUP, step, 0);
            BFORK(B_SWAP, step, 0);
            BFORK(B_INJECT_CCS, step, 0);
            BFORK(B_INJECT_FIN, step, 0);
            for (t = 0; t < 256; t++)
            {
                if (!thorough && bcfgs[bc.ci].kx != KX_PSK && !(t <= 35 || t >= 250 || t == 67))
                {
                    continue; /* quick: certificate configurations get the defined + internal-state type values only */
                }
                BFORK(B_INJECT_HS, step, t);
            }
        }
#undef BFORK
    }
}

int main(int argc, char **argv)
{
    mx_cfg_t cfg;
    const char *replay;
    int i, v;

    memset(&cfg, 0, sizeof(cfg));
    cfg.property = "C06";
    cfg.sanitizer_is_oracle = 1;
    cfg.level = "model_checking";
    cfg.engine = "fork-DFS over message-level deviations of the honest flights; TLS 1.3 flights are opened, deviated, given a recomputed Finished and re-sealed by an OpenSSL-based toolkit holding the flight sender's handshake traffic secret";
    cfg.rule = "case A = (TLS 1.3 mode, victim role, one message-level deviation of the flight towards the victim: delete i [with and without Finished recomputation], duplicate i, swap i/i+1, "
               "inject an empty message of each type in {0,1,2,4,5,8,11,13,15,20,24,254} (thorough: 0..255) at each position, application data under handshake keys at each position); "
               "case B = ((D)TLS <= 1.2 mode, step of the honest handshake, delete / duplicate / swap the next unit, or inject a plaintext handshake message of every type 0..255, a ChangeCipherSpec or a plaintext Finished); all distinct; non-trivial = deviation other than 'none'";
    cfg.assumptions[0] = "legal language of a mode = the honest message sequence of that mode (deterministic); a victim that completes after receiving anything else is a violation";
    cfg.assumptions[1] = "part A attacker = malicious peer knowing its own handshake traffic secret (key-log seam) but no certificate private key: CertificateVerify cannot be forged, Finished can";
    cfg.assumptions[2] = "part B attacker = network attacker without keys, TLS only: DTLS discards unauthenticated / out-of-window handshake records silently by design, its sequencing is the subject of C16";
    replay = mx_parse_args(argc, argv, &cfg);
    thorough = !strcmp(cfg.tier, "thorough");
    cfg.bound = "one message-level deviation per handshake";

    if (replay)
    {
        mx_result_t r;
        memset(&r, 0, sizeof(r));
        snprintf(r.desc, sizeof(r.desc), "%s", replay);
        if (replay[0] == 'A')
        {
            static a_ctx_t g;
            int rc;
            memset(&g, 0, sizeof(g));
            if (sscanf(replay, "A;c=%d;v=%d;k=%d;i=%d;t=%d", &g.ci, &g.victim, &g.d.kind, &g.d.i, &g.d.t) != 5 || g.ci >= NACFG)
            {
                return 2;
            }
            if ((rc = a_setup_full(&g)) != 0)
            {
                fprintf(stderr, "setup failed %d\n", rc);
                return 2;
            }
            a_run_case(&g, &r);
            fprintf(stderr, "%s", (char *) g.w.trace.p);
        }
        else if (replay[0] == 'D')
        {
            static d_ctx_t g;
            int rc;
            memset(&g, 0, sizeof(g));
            if (sscanf(replay, "D;c=%d;k=%d;i=%d;t=%d", &g.ci, &g.kind, &g.i, &g.t) != 4 || g.ci >= NCCFG)
            {
                return 2;
            }
            if ((rc = d_setup_full(&g)) != 0)
            {
                fprintf(stderr, "setup failed %d\n", rc);
                return 2;
            }
            d_run_case(&g, &r);
            fprintf(stderr, "%s", (char *) g.w.trace.p);
        }
        else if (replay[0] == 'C')
        {
            static c_ctx_t g;
            int rc;
            memset(&g, 0, sizeof(g));
            if (sscanf(replay, "C;c=%d;k=%d;i=%d;t=%d", &g.ci, &g.kind, &g.i, &g.t) != 4 || g.ci >= NCCFG)
            {
                return 2;
            }
            if ((rc = c_setup_full(&g)) != 0)
            {
                fprintf(stderr, "setup failed %d\n", rc);
                return 2;
            }
            c_run_case(&g, &r);
            fprintf(stderr, "%s", (char *) g.w.trace.p);
        }
        else
        {
            b_case_t bc, hb;
            mx_result_t hr;
            if (sscanf(replay, "B;c=%d;s=%d;k=%d;t=%d", &bc.ci, &bc.step, &bc.kind, &bc.t) != 4 || bc.ci >= NBCFG)
            {
                return 2;
            }
            hb = bc; hb.kind = B_NONE;
            memset(&hr, 0, sizeof(hr));
            b_run(&hb, &hr, 1);
            b_run(&bc, &r, 0);
        }
        mx_replay_print(&r);
        return 0;
    }
    mx_init(&cfg);
    for (i = 0; i < NACFG; i++)
    {
        for (v = 0; v < 2; v++)
        {
            groups[ngroups++] = (grp_t) { 0, i, v };
        }
    }
    for (i = 0; i < NBCFG; i++)
    {
        /* honest reference run (in a throw-away child so that the global session table stays clean) */
        b_case_t hb = { i, 0, B_NONE, 0 };
        mx_result_t hr;
        memset(&hr, 0, sizeof(hr));
        b_run(&hb, &hr, 1);
        if (hr.violation)
        {
            printf("INTERNAL property=C06 key=%s what=honest run failed\n", hr.key);
            return 2;
        }
        groups[ngroups++] = (grp_t) { 1, i, 0 };
    }
    for (i = 0; i < NCCFG; i++)
    {
        groups[ngroups++] = (grp_t) { 2, i, 1 };
        groups[ngroups++] = (grp_t) { 3, i, 0 };
    }
    mx_parallel(ngroups, run_group, NULL);
    return mx_finish(NULL);
}
