/* lib_wire.c - record/datagram construction, canonical honest stepping, donor capture */
#include "mxv.h"
#include "wire.h"

int mk_record(unsigned char *out, int dtls, int type, int vmaj, int vmin, int epoch, uint64_t seq,
    const unsigned char *body, int len)
{
    int h = 0;
    out[h++] = (unsigned char) type;
    out[h++] = (unsigned char) vmaj;
    out[h++] = (unsigned char) vmin;
    if (dtls)
    {
        int i;
        out[h++] = (unsigned char) (epoch >> 8);
        out[h++] = (unsigned char) epoch;
        for (i = 5; i >= 0; i--)
        {
            out[h++] = (unsigned char) (seq >> (8 * i));
        }
    }
    out[h++] = (unsigned char) (len >> 8);
    out[h++] = (unsigned char) len;
    if (len)
    {
        memcpy(out + h, body, (size_t) len);
    }
    return h + len;
}

void wire_version_bytes(int ver, int *maj, int *min)
{
    switch (ver)
    {
    case V_TLS11: *maj = 3; *min = 2; break;
    case V_TLS12: *maj = 3; *min = 3; break;
    case V_TLS13: *maj = 3; *min = 3; break;
    case V_DTLS10: *maj = 0xfe; *min = 0xff; break;
    case V_DTLS12: *maj = 0xfe; *min = 0xfd; break;
    default: *maj = 3; *min = 3; break;
    }
}

/* canonical honest schedule: drain the direction that last produced output,
 * starting with the client's first flight.  Returns 1 if a unit was delivered. */
int world_step(world_t *w, int *turn)
{
    int k;
    for (k = 0; k < 2; k++)
    {
        int d = (*turn + k) % 2;
        if (w->wire[d].n > 0)
        {
            world_deliver(w, d);
            if (w->wire[d].n == 0)
            {
                *turn = 1 - d;
            }
            else
            {
                *turn = d;
            }
            return 1;
        }
    }
    return 0;
}

int world_run_steps(world_t *w, int nsteps)
{
    int turn = 0, n = 0;
    world_collect(w, 0);
    while (n < nsteps && world_step(w, &turn))
    {
        n++;
    }
    return n;
}

/* number of honest delivery steps until quiescence for cfg (fresh world) */
int world_count_steps(const wcfg_t *cfg)
{
    world_t w;
    int n;
    if (world_init(&w, cfg) < 0)
    {
        return -1;
    }
    n = world_run_steps(&w, 1000);
    if (!(world_is_complete(&w, 0) && world_is_complete(&w, 1)))
    {
        n = -2;
    }
    world_free(&w);
    return n;
}

/* Donor connection: same configuration, other entropy seed => other keys.
 * Captures one protected application record per direction (and the bytes
 * submitted), for cross-connection injection. */
int donor_capture(const wcfg_t *cfg, donor_t *d)
{
    world_t w;
    wcfg_t c = *cfg;
    int dir;
    memset(d, 0, sizeof(*d));
    c.seed = cfg->seed + 7777;
    if (world_init(&w, &c) < 0)
    {
        return -1;
    }
    if (world_handshake(&w) != 0)
    {
        world_free(&w);
        return -1;
    }
    for (dir = 0; dir < 2; dir++)
    {
        static const char *msg[2] = { "DONOR-CLIENT-SECRET-DATA", "DONOR-SERVER-SECRET-DATA" };
        rec_t r;
        /* drain post-handshake messages (NewSessionTicket...) first */
        world_pump(&w, 50);
        world_app_send(&w, dir, (const unsigned char *) msg[dir], (int) strlen(msg[dir]));
        r = world_wire_pop(&w, dir);
        if (r.p && r.len <= (int) sizeof(d->rec[dir]))
        {
            memcpy(d->rec[dir], r.p, (size_t) r.len);
            d->len[dir] = r.len;
        }
        free(r.p);
        world_wire_clear(&w, dir);
    }
    world_free(&w);
    return (d->len[0] > 0 && d->len[1] > 0) ? 0 : -1;
}

int is_prefix(const buf_t *delivered, const buf_t *submitted)
{
    if (delivered->len > submitted->len)
    {
        return 0;
    }
    return delivered->len == 0 || memcmp(delivered->p, submitted->p, delivered->len) == 0;
}

static int add_cfg(wcfg_t *out, int n, int max, int ver, int cver, int kx, uint16_t suite, int cauth, int early, int tickets)
{
    wcfg_t c;
    if (n >= max)
    {
        return n;
    }
    memset(&c, 0, sizeof(c));
    c.ver = ver; c.cver = cver; c.kx = kx; c.suite = suite; c.client_auth = cauth; c.early_data = early; c.tickets = tickets;
    if (!cfg_supported(&c))
    {
        return n;
    }
    out[n] = c;
    return n + 1;
}

int std_configs(wcfg_t *out, int max, int thorough)
{
    int n = 0, v;
    static const int lv[] = { V_TLS11, V_TLS12, V_DTLS10, V_DTLS12 };
    for (v = 0; v < 4; v++)
    {
        n = add_cfg(out, n, max, lv[v], 0, KX_PSK, 0, 0, 0, 0);
    }
    n = add_cfg(out, n, max, V_TLS12, 0, KX_PSK, TLS_PSK_WITH_AES_128_CBC_SHA256, 0, 0, 0);
    n = add_cfg(out, n, max, V_TLS12, 0, KX_PSK, TLS_PSK_WITH_AES_256_CBC_SHA384, 0, 0, 0);
    n = add_cfg(out, n, max, V_TLS12, 0, KX_RSA, 0, 0, 0, 0);
    n = add_cfg(out, n, max, V_TLS12, 0, KX_ECDHE_RSA, TLS_ECDHE_RSA_WITH_AES_128_GCM_SHA256, 1, 0, 1);
    n = add_cfg(out, n, max, V_TLS12, 0, KX_ECDHE_ECDSA, TLS_ECDHE_ECDSA_WITH_AES_128_GCM_SHA256, 0, 0, 0);
    n = add_cfg(out, n, max, V_TLS11, 0, KX_RSA, 0, 0, 0, 0);
    n = add_cfg(out, n, max, V_DTLS12, 0, KX_ECDHE_RSA, 0, 0, 0, 0);
    n = add_cfg(out, n, max, V_TLS13, 0, KX_13_RSA, 0, 0, 0, 0);
    n = add_cfg(out, n, max, V_TLS13, 0, KX_13_PSK, 0, 0, 0, 0);
    n = add_cfg(out, n, max, V_TLS13, 0, KX_13_PSK, 0, 0, 1, 0);
    /* honest 0-RTT data under a ticket of an earlier connection (the variant whose server session disabled early data does not
       complete honestly and is added by drv_c01 itself) */
    n = add_cfg(out, n, max, V_TLS13, 0, KX_13_RSA, 0, 0, 1, 1);
    out[n - 1].early_send = 1; out[n - 1].resume13 = 1;
    n = add_cfg(out, n, max, V_TLS13, 0, KX_13_ECDSA, 0, 1, 0, 0);
    n = add_cfg(out, n, max, V_TLS12, V_MULTI, KX_PSK, 0, 0, 0, 0);
    n = add_cfg(out, n, max, V_TLS12, V_MULTI, KX_RSA, 0, 0, 0, 0);
    n = add_cfg(out, n, max, V_TLS13, V_MULTI, KX_13_RSA, 0, 0, 0, 0);
    /* a server session that is early-data capable (tls13SessionMaxEarlyData > 0) facing a client that offers none: the
       licence to skip undecryptable records must not exist here */
    n = add_cfg(out, n, max, V_TLS13, 0, KX_13_RSA, 0, 0, 1, 0);
    if (thorough)
    {
        int kx;
        for (v = 0; v < 4; v++)
        {
            for (kx = KX_RSA; kx <= KX_ECDH_RSA; kx++)
            {
                n = add_cfg(out, n, max, lv[v], 0, kx, 0, 0, 0, 0);
                n = add_cfg(out, n, max, lv[v], 0, kx, 0, 1, 0, 0);
            }
        }
        n = add_cfg(out, n, max, V_DTLS12, 0, KX_PSK, TLS_PSK_WITH_AES_128_CBC_SHA256, 0, 0, 0);
        n = add_cfg(out, n, max, V_TLS12, 0, KX_RSA, TLS_RSA_WITH_AES_256_GCM_SHA384, 0, 0, 0);
        n = add_cfg(out, n, max, V_DTLS12, 0, KX_RSA, TLS_RSA_WITH_AES_128_GCM_SHA256, 0, 0, 0);
        n = add_cfg(out, n, max, V_TLS13, 0, KX_13_RSA, TLS_AES_256_GCM_SHA384, 0, 0, 0);
        n = add_cfg(out, n, max, V_TLS13, 0, KX_13_RSA, TLS_CHACHA20_POLY1305_SHA256, 1, 0, 0);
        n = add_cfg(out, n, max, V_TLS13, 0, KX_13_ED25519, 0, 0, 0, 0);
        n = add_cfg(out, n, max, V_TLS13, 0, KX_13_ECDSA, 0, 0, 0, 0);
        n = add_cfg(out, n, max, V_TLS11, V_MULTI, KX_PSK, 0, 0, 0, 0);
        n = add_cfg(out, n, max, V_TLS13, V_MULTI, KX_13_PSK, 0, 0, 1, 0);
    }
    return n;
}
