/* c03_crl.h - private to drv_c03.c: the CRL slice.
 * Good RSA chains (0..2 intermediates) anchored at {R}, combined with every ordered load sequence
 * (0..2 CRLs; thorough: 0..3) from a pool of CRLs per issuing level:
 *   revoke      genuine, authenticated by the application against the real CA, current, lists the chain certificate
 *   revoke-many same, the chain certificate's serial is the last of three entries
 *   other       genuine + authenticated, lists an unrelated serial
 *   empty       genuine + authenticated, no entries
 *   forged      lists the chain certificate but is signed by the attacker key (psX509AuthenticateCRL fails; loaded anyway)
 *   stale       genuine + authenticated, lists the chain certificate, nextUpdate 10 days in the past
 *   unauth      genuine, lists the chain certificate, the application never called psX509AuthenticateCRL
 * Reference: a chain certificate is DEFINITELY revoked if every CRL loaded for its issuer is of kind revoke /
 * revoke-many; DEFINITELY not revoked if every one is other / empty / forged (or none is loaded); otherwise
 * (stale or never-authenticated CRLs, or CRLs of one issuer that disagree - the library keeps the last loaded) the
 * case is "don't care".  Any definitely revoked certificate => validation must fail; all definitely not revoked
 * => the (good) chain must be accepted. */
#ifndef C03_CRL_H
#define C03_CRL_H
/* included by drv_c03.c after ms_t / ms_run() are defined */

#ifdef USE_CRL
enum { CV_REVOKE = 0, CV_REVOKE_MANY, CV_OTHER, CV_EMPTY, CV_FORGED, CV_STALE, CV_UNAUTH, CV_N };
static const char *cv_name[CV_N] = { "revoke", "revoke-many", "other", "empty", "forged", "stale", "unauth" };

typedef struct { unsigned char *der; int len; } crl_blob_t;
static crl_blob_t crl_pool[3][3][CV_N];          /* [m][issuing level][variant] */
static int crl_built;

static int crl_child(int m, int level)           /* the chain certificate issued by 'level' in the m-intermediate chain */
{
    return level == m ? u_leaf[SL_RSA][m][K_GOOD] : u_ca[SL_RSA][level + 1][K_GOOD];
}
static int crl_issuer_cert(int level)
{
    return level == 0 ? u_root[SL_RSA][R_MAIN] : u_ca[SL_RSA][level][K_GOOD];
}

static void crl_add_entry(X509_CRL *crl, const ASN1_INTEGER *serial, long serial_num)
{
    X509_REVOKED *rv = X509_REVOKED_new();
    ASN1_TIME *t = ASN1_TIME_set(NULL, (time_t) (MXV_T0 - 5 * 86400));
    if (serial)
    {
        X509_REVOKED_set_serialNumber(rv, (ASN1_INTEGER *) serial);
    }
    else
    {
        ASN1_INTEGER *s = ASN1_INTEGER_new();
        ASN1_INTEGER_set(s, serial_num);
        X509_REVOKED_set_serialNumber(rv, s);
        ASN1_INTEGER_free(s);
    }
    X509_REVOKED_set_revocationDate(rv, t);
    ASN1_TIME_free(t);
    X509_CRL_add0_revoked(crl, rv);
}

static void crl_make(int m, int level, int v, crl_blob_t *out)
{
    X509_CRL *crl = X509_CRL_new();
    X509_NAME *in = mk_name(level_cn(level));
    ASN1_TIME *t0 = ASN1_TIME_set(NULL, (time_t) (MXV_T0 - (v == CV_STALE ? 40 : 3) * 86400));
    ASN1_TIME *t1 = ASN1_TIME_set(NULL, (time_t) (MXV_T0 + (v == CV_STALE ? -10 : 30) * 86400));
    ASN1_INTEGER *num = ASN1_INTEGER_new();
    EVP_PKEY *signer = g_key[SL_RSA][v == CV_FORGED ? KS_ATT : KS_ROOT + level];
    const ASN1_INTEGER *child = X509_get0_serialNumber(U[crl_child(m, level)].x);
    unsigned char *der = NULL;
    X509_CRL_set_version(crl, 1);
    X509_CRL_set_issuer_name(crl, in);
    X509_CRL_set1_lastUpdate(crl, t0);
    X509_CRL_set1_nextUpdate(crl, t1);
    switch (v)
    {
    case CV_REVOKE: case CV_FORGED: case CV_STALE: case CV_UNAUTH:
        crl_add_entry(crl, child, 0);
        break;
    case CV_REVOKE_MANY:
        crl_add_entry(crl, NULL, 0x77001);
        crl_add_entry(crl, NULL, 0x77002);
        crl_add_entry(crl, child, 0);
        break;
    case CV_OTHER:
        crl_add_entry(crl, NULL, 0x77003);
        break;
    default:
        break;
    }
    ASN1_INTEGER_set(num, 100 + v);
    X509_CRL_add1_ext_i2d(crl, NID_crl_number, num, 0, X509V3_ADD_APPEND);
    {
        unsigned char id[20];
        AUTHORITY_KEYID *a = AUTHORITY_KEYID_new();
        key_id(g_key[SL_RSA][KS_ROOT + level], id);
        a->keyid = ASN1_OCTET_STRING_new();
        ASN1_OCTET_STRING_set(a->keyid, id, 20);
        X509_CRL_add1_ext_i2d(crl, NID_authority_key_identifier, a, 0, X509V3_ADD_APPEND);
        AUTHORITY_KEYID_free(a);
    }
    if (!X509_CRL_sign(crl, signer, EVP_sha256()))
    {
        die("X509_CRL_sign");
    }
    out->len = i2d_X509_CRL(crl, &der);
    if (out->len <= 0)
    {
        die("i2d_X509_CRL");
    }
    out->der = h_malloc((size_t) out->len);
    memcpy(out->der, der, (size_t) out->len);
    OPENSSL_free(der);
    /* reference sanity: genuine CRLs verify under the issuer key, the forged one does not */
    if ((X509_CRL_verify(crl, g_key[SL_RSA][KS_ROOT + level]) == 1) != (v != CV_FORGED))
    {
        die("CRL self-check");
    }
    ERR_clear_error();
    ASN1_INTEGER_free(num);
    ASN1_TIME_free(t0);
    ASN1_TIME_free(t1);
    X509_NAME_free(in);
    X509_CRL_free(crl);
}

static void crl_build(void)
{
    int m, l, v;
    if (crl_built)
    {
        return;
    }
    crl_built = 1;
    build_slice(SL_RSA);
    for (m = 0; m <= 2; m++)
    {
        for (l = 0; l <= m; l++)
        {
            for (v = 0; v < CV_N; v++)
            {
                crl_make(m, l, v, &crl_pool[m][l][v]);
            }
        }
    }
}

typedef struct { int m, nload; int load[3]; int nh; int h[2]; } crl_case_t;       /* load[i] = level * CV_N + variant; h[] = validations run before the judged one */

/* validations a peer can provoke between the application's CRL loads and the judged validation: the CRL store is global
 * mutable state (authenticated flags, cached verdicts), so the verdict must not depend on what was validated before */
enum { HV_SAME = 0, HV_PLUS_R2, HV_LEAF_R2, HV_LEAF_ONLY, HV_WRONGSIG_CA, HV_ANCHOR_R2, HV_N };
static const char *hv_name[HV_N] = { "same-chain", "chain+same-DN-other-key-root", "leaf+same-DN-other-key-root", "leaf-alone", "chain-with-wrongly-signed-CA", "same-chain-against-anchor-R2" };
static void crl_history_step(const crl_case_t *c, int h)
{
    int chain[5], anch[1], n = 0, l;
    ms_t ms;
    anch[0] = u_root[SL_RSA][R_MAIN];
    chain[n++] = u_leaf[SL_RSA][c->m][K_GOOD];
    switch (h)
    {
    case HV_SAME: case HV_PLUS_R2: case HV_ANCHOR_R2:
        for (l = c->m; l >= 1; l--) chain[n++] = u_ca[SL_RSA][l][K_GOOD];
        if (h == HV_PLUS_R2) chain[n++] = u_root[SL_RSA][R_SECOND];
        if (h == HV_ANCHOR_R2) anch[0] = u_root[SL_RSA][R_SECOND];
        break;
    case HV_LEAF_R2:
        chain[n++] = u_root[SL_RSA][R_SECOND];
        break;
    case HV_LEAF_ONLY:
        break;
    case HV_WRONGSIG_CA:
        for (l = c->m; l >= 1; l--) chain[n++] = u_ca[SL_RSA][l][l == c->m ? K_SIG_WRONGKEY : K_GOOD];
        break;
    }
    ms_run(chain, n, anch, 1, &ms);
    DUMPF("  history: validation of %s => %s (rc %d)\n", hv_name[h], ms.label, ms.rc);
}

static void crl_mdesc(const crl_case_t *c, char *out, size_t n)
{
    int i;
    snprintf(out, n, "crl=1;m=%d;l=", c->m);
    for (i = 0; i < c->nload; i++)
    {
        size_t l = strlen(out);
        snprintf(out + l, n - l, "%s%d", i ? "." : "", c->load[i]);
    }
    if (!c->nload)
    {
        size_t l = strlen(out);
        snprintf(out + l, n - l, "-");
    }
    for (i = 0; i < c->nh; i++)
    {
        size_t l = strlen(out);
        snprintf(out + l, n - l, "%s%d", i ? "." : ";h=", c->h[i]);
    }
}
static void crl_desc(const crl_case_t *c, char *out, size_t n)
{
    int i;
    size_t l;
    crl_mdesc(c, out, n);
    l = strlen(out);
    snprintf(out + l, n - l, " (good rsa chain, %d intermediates, anchors {R}; CRLs loaded in order:", c->m);
    for (i = 0; i < c->nload; i++)
    {
        l = strlen(out);
        snprintf(out + l, n - l, " %s-by-L%d", cv_name[c->load[i] % CV_N], c->load[i] / CV_N);
    }
    l = strlen(out);
    snprintf(out + l, n - l, "%s", c->nload ? "" : " none");
    for (i = 0; i < c->nh; i++)
    {
        l = strlen(out);
        snprintf(out + l, n - l, "%s %s", i ? "," : "; validated before:", hv_name[c->h[i]]);
    }
    l = strlen(out);
    snprintf(out + l, n - l, ")");
}
static int crl_parse_desc(const char *d, crl_case_t *c)
{
    const char *p;
    memset(c, 0, sizeof(*c));
    if (sscanf(d, "crl=1;m=%d;l=", &c->m) != 1 || c->m < 0 || c->m > 2)
    {
        return -1;
    }
    p = strstr(d, ";l=") + 3;   /* (not "l=": that also occurs in "crl=") */
    while (*p >= '0' && *p <= '9' && c->nload < 3)
    {
        int v = atoi(p);
        if (v < 0 || v >= (c->m + 1) * CV_N)
        {
            return -1;
        }
        c->load[c->nload++] = v;
        while (*p >= '0' && *p <= '9') p++;
        if (*p == '.') p++;
    }
    p = strstr(d, ";h=");
    if (p)
    {
        p += 3;
        while (*p >= '0' && *p <= '9' && c->nh < 2)
        {
            int v = atoi(p);
            if (v < 0 || v >= HV_N)
            {
                return -1;
            }
            c->h[c->nh++] = v;
            while (*p >= '0' && *p <= '9') p++;
            if (*p == '.') p++;
        }
    }
    return 0;
}

static void crl_run_case(const crl_case_t *c, mx_result_t *r)
{
    int chain[4], anch[1], n = 0, l, i, revoked = 0, unknown = 0;
    ms_t ms;
    ref_t lax;
    psX509Crl_t *loaded[3];
    char md[64];

    memset(r, 0, sizeof(*r));
    crl_desc(c, r->desc, sizeof(r->desc));
    crl_mdesc(c, md, sizeof(md));
    r->state_hash = fnv1a(md, strlen(md), FNV0);
    chain[n++] = u_leaf[SL_RSA][c->m][K_GOOD];
    for (l = c->m; l >= 1; l--) chain[n++] = u_ca[SL_RSA][l][K_GOOD];
    anch[0] = u_root[SL_RSA][R_MAIN];
    if (g_dump)
    {
        for (i = 0; i < n; i++) u_dump_pem(chain[i], i ? "supplied chain (next)" : "supplied chain (leaf)");
        u_dump_pem(anch[0], "trust anchor");
    }
    psCRL_DeleteAll();
    {
        int q;
        for (q = 0; q < nU; q++)
        {
            u_forget(q, 0);
            u_forget(q, 1);
        }
    }
    for (i = 0; i < c->nload; i++)
    {
        int level = c->load[i] / CV_N, v = c->load[i] % CV_N, rc, arc = 1;
        crl_blob_t *b = &crl_pool[c->m][level][v];
        loaded[i] = NULL;
        rc = psX509ParseCRL(NULL, &loaded[i], b->der, b->len);
        if (rc < 0 || !loaded[i])
        {
            r->violation = 2;
            snprintf(r->key, sizeof(r->key), "internal|crl-not-parsed");
            snprintf(r->what, sizeof(r->what), "psX509ParseCRL refuses generated CRL %s of level %d: rc %d", cv_name[v], level, rc);
            snprintf(r->outcome, sizeof(r->outcome), "INTERNAL");
            psCRL_DeleteAll();
            return;
        }
        if (v != CV_UNAUTH)
        {
            psX509Cert_t *ca = u_parsed(crl_issuer_cert(level), 1);
            arc = psX509AuthenticateCRL(ca, loaded[i], NULL);
        }
        psCRL_Update(loaded[i], 1);
        if (g_dump)
        {
            size_t k;
            fprintf(stderr, "  loaded CRL %s issued-by-level-%d: psX509AuthenticateCRL rc=%d authenticated=%d; DER ", cv_name[v], level, arc, loaded[i]->authenticated);
            for (k = 0; k < (size_t) b->len; k++) fprintf(stderr, "%02x", b->der[k]);
            fprintf(stderr, "\n");
        }
    }
    /* reference revocation status per chain certificate */
    for (l = 0; l <= c->m; l++)
    {
        int yes = 0, no = 0, dc = 0;
        for (i = 0; i < c->nload; i++)
        {
            int v = c->load[i] % CV_N;
            if (c->load[i] / CV_N != l) continue;
            if (v == CV_REVOKE || v == CV_REVOKE_MANY) yes++;
            else if (v == CV_STALE || v == CV_UNAUTH) dc++;
            else no++;
        }
        if (yes && !no && !dc) revoked++;
        else if (dc || (yes && no)) unknown++;
    }
    for (i = 0; i < c->nh; i++)
    {
        crl_history_step(c, c->h[i]);
    }
    ms_run(chain, n, anch, 1, &ms);
    ref_lax(chain, n, anch, 1, &lax);
    psCRL_DeleteAll();
    /* the CRL code keeps state in the certificate objects it has seen: every CRL case starts from fresh parses, exactly
       like its replay */
    {
        int q;
        for (q = 0; q < nU; q++)
        {
            u_forget(q, 0);
            u_forget(q, 1);
        }
    }
    r->nontrivial = 1;
    r->transitions = (uint32_t) (n + c->nload + c->nh);
    snprintf(r->outcome, sizeof(r->outcome), "crl|ms=%s|ref=%s|h%d", ms.label, revoked ? "revoked" : unknown ? "dont-care" : "not-revoked", c->nh);
    r->trace_hash = fnv1a(r->outcome, strlen(r->outcome), FNV0);
    DUMPF("  reference: %d chain certificate(s) definitely revoked, %d undetermined (stale/unauthenticated/conflicting CRLs)\n", revoked, unknown);
    if (!lax.ok)
    {
        r->violation = 2;
        snprintf(r->key, sizeof(r->key), "internal|crl-slice-chain-not-good");
        snprintf(r->what, sizeof(r->what), "the reference does not accept the good chain of the CRL slice: %s", lax.why);
    }
    else if (revoked && ms.accept)
    {
        r->violation = 1;
        snprintf(r->key, sizeof(r->key), c->nh ? "soundness|revoked-by-authenticated-crl|after-other-validations" : "soundness|revoked-by-authenticated-crl");
        snprintf(r->what, sizeof(r->what), "validation succeeds although a chain certificate is listed in an authenticated, current CRL loaded by the application%s", c->nh ? " (after other validations ran against the same CRL store)" : "");
    }
    else if (!revoked && !unknown && !ms.accept)
    {
        r->violation = 1;
        snprintf(r->key, sizeof(r->key), c->nh ? "completeness|crl|%s|after-other-validations" : "completeness|crl|%s", ms.label);
        snprintf(r->what, sizeof(r->what), "good chain rejected (rc %d, %s) although no authenticated CRL lists any of its certificates", ms.rc, ms.label);
    }
}

static crl_case_t *crl_cases;
static long ncrl;
static void crl_gen(int thorough_tier)
{
    int m, a, b, c, np;
    long cap = 0;
    crl_case_t cc;
    for (m = 0; m <= 2; m++)
    {
        np = (m + 1) * CV_N;
        for (a = -1; a < np; a++)
        {
            for (b = -1; b < np; b++)
            {
                for (c = -1; c < np; c++)
                {
                    if ((a < 0 && b >= 0) || (b < 0 && c >= 0)) continue;     /* loads are a prefix-filled sequence */
                    if (c >= 0 && !thorough_tier) continue;
                    if ((a >= 0 && a == b) || (b >= 0 && b == c) || (a >= 0 && a == c)) continue;
                    memset(&cc, 0, sizeof(cc));
                    cc.m = m;
                    if (a >= 0) cc.load[cc.nload++] = a;
                    if (b >= 0) cc.load[cc.nload++] = b;
                    if (c >= 0) cc.load[cc.nload++] = c;
                    if (ncrl >= cap)
                    {
                        cap = cap ? cap * 2 : 1024;
                        crl_cases = realloc(crl_cases, (size_t) cap * sizeof(crl_case_t));
                    }
                    {
                        int h1, h2;
                        for (h1 = -1; h1 < HV_N; h1++)
                        {
                            for (h2 = -1; h2 < HV_N; h2++)
                            {
                                if (h1 < 0 && h2 >= 0) continue;
                                if (h2 >= 0 && !thorough_tier) continue;
                                if (h1 >= 0 && cc.nload == 0) continue;          /* no CRL state to disturb */
                                cc.nh = 0;
                                if (h1 >= 0) cc.h[cc.nh++] = h1;
                                if (h2 >= 0) cc.h[cc.nh++] = h2;
                                if (ncrl >= cap)
                                {
                                    cap = cap ? cap * 2 : 1024;
                                    crl_cases = realloc(crl_cases, (size_t) cap * sizeof(crl_case_t));
                                }
                                crl_cases[ncrl++] = cc;
                            }
                        }
                    }
                }
            }
        }
    }
}
#endif /* USE_CRL */
#endif
